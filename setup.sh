#!/bin/sh
# MANIFEST.setup_cmd: build the framework offline from files on disk only.
set -e
cd "$(dirname "$0")"
export GOFLAGS=-mod=mod GOPROXY=off
(cd lean && lake build)
cp /repo/go.sum harness/go.sum
(cd harness && go build -tags verif -o /dev/null ./cmd/... 2>&1 || (cd /verif/harness && for d in cmd/*; do go build -tags verif -o /dev/null ./$d; done))
[ -d cshim ] && [ -f cshim/build.sh ] && sh cshim/build.sh || true
echo setup-ok
