#!/bin/sh
# MANIFEST.setup_cmd: build the framework offline from files on disk only.
set -e
cd "$(dirname "$0")"
export GOFLAGS=-mod=mod GOPROXY=off
(cd lean && lake build)
cp /repo/go.sum harness/go.sum
(cd harness && go run ./cmd/extractfsm -repo /repo -out /verif/lean/Bng/Gen && cd ../lean && lake build bngdrv-ncp Bng.Spec.C11) || true   # C11: regenerate the FSM tables, build their driver and theorems (a translator failure is reported by ./check C11)
(cd harness && go run ./cmd/extractlayout -repo /repo -shim /verif/cshim-layout -lean /verif/lean/Bng/Gen/Layout.lean && cd ../lean && lake build Bng.Spec.C06 bngdrv-layout) || true   # C06: regenerate the layout tables, build their theorems and driver (a translator failure is reported by ./check C06)
(cd harness && go run ./cmd/extractpaths -repo /repo -out /verif/lean/Bng/Gen/Paths.lean && cd ../lean && lake build Bng.Spec.C16Paths) || true   # C16: regenerate the termination-path table and its theorems (a translator failure is reported by ./check C16)
(cd harness && go run ./cmd/extractguards -repo /repo -out /verif/lean/Bng/Gen/Guards.lean && cd ../lean && lake build Bng.Spec.C04Guards) || true   # C04: regenerate the handlers guard table and its theorems (a translator failure is reported by ./check C04)
(cd harness && go run ./cmd/extractlocks -repo /repo -out /verif/lean/Bng/Gen/Locks.lean && cd ../lean && lake build Bng.Spec.C02Locks Bng.Spec.C12Locks Bng.Spec.C08Locks Bng.Spec.C19Locks Bng.Spec.C05Locks Bng.Spec.C10Locks Bng.Spec.C13Locks Bng.Spec.C14Locks Bng.Spec.C16Locks Bng.Spec.C17Locks Bng.Spec.C20Locks) || true   # lock-discipline table and its theorems (a translator failure is reported by the checks that list them)
(cd harness && go build -tags verif -o /dev/null ./cmd/... 2>&1 || (cd /verif/harness && for d in cmd/*; do go build -tags verif -o /dev/null ./$d; done))
[ -d cshim ] && [ -f cshim/build.sh ] && sh cshim/build.sh || true
# per-property trace replayers (drv-cNN): generated from lean/Main.lean + checks/*.py, then built one by one so that
# a module that does not compile only affects its own property
for exe in $(python3 tools/mkdrivers.py); do (cd lean && lake build "$exe") || echo "WARNING: $exe did not build"; done
# warm every Spec module
(cd lean && for f in Bng/Spec/*.lean; do m=$(echo "${f%.lean}" | tr / .); lake build "$m" >/dev/null 2>&1 || echo "WARNING: $m did not build"; done)
echo setup-ok
