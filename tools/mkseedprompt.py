import json,sys
props={}
for l in open('/verif/properties.jsonl'):
    d=json.loads(l); props[d['id']]=d
tmpl=open('/verif/seeded/PROMPT.tmpl').read()
avoid=json.load(open('/verif/seeded/avoid.json'))
for sid in sys.argv[1:]:
    pid=sid[:3]; p=props[pid]
    text=f"{p['title']}\n\n{p['statement']}\n\nCode the property is anchored in: {', '.join(p['anchors']['files'])}"
    hint=f"\nEarlier rounds of this exercise already changed these functions: {avoid[pid]}. Pick a DIFFERENT code site (another function, another file among the anchored ones or code they call), and prefer a mechanism of a different kind (e.g. a non-atomic method, an aliasing slice/pointer, a partial failure that is not rolled back, a boundary value, a stale secondary index, a reordering of two steps).\n"
    t=tmpl.replace('@WT@',sid).replace('@PROP@',text).replace('@HINT@',hint).replace('@ID@',pid)
    open(f'/tmp/mut/{sid}/TASK.md','w').write(t)
    print(sid,'written')
