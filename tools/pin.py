#!/usr/bin/env python3
"""tools/pin.py [Cxx ...] — record the obligation set (theorem names of the property's Spec modules, from the evidence the
last run on the real tree wrote) in checks/expect/Cxx.txt.  A later run in which one of these theorems is gone is broken
(lib/verif.py lean_check); new theorems are picked up by re-running this tool."""
import json, os, sys
V = os.path.dirname(os.path.dirname(os.path.abspath(__file__)))
props = sys.argv[1:] or ["C%02d" % i for i in range(1, 21)]
os.makedirs(os.path.join(V, "checks", "expect"), exist_ok=True)
for p in props:
    ev = json.load(open(os.path.join(V, "evidence", p + ".json")))
    cov = ev["coverage"]
    if cov.get("repo") not in (None, "/repo") or ev["violations"] or cov["obligations"] == 0 or cov["obligations"] != cov["discharged"]:
        print(p, "SKIPPED: evidence is not from a clean run on /repo"); continue
    names = sorted(t["theorem"] for t in cov["theorems"])
    open(os.path.join(V, "checks", "expect", p + ".txt"), "w").write("\n".join(names) + "\n")
    print(p, len(names), "theorems pinned")
