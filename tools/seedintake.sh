#!/bin/sh
# tools/seedintake.sh <seeded id> <package dir> [property ids to run, default: the id's own]
# takes a mutation agent's deliverables from /tmp/mut/<id> into /verif/seeded/<id>, confirms the change
# (tools/seedverify.sh) and runs the quick check(s) against a scratch worktree carrying it (tools/seedcheck.sh);
# the outcome is recorded in seeded/<id>/intake.txt (meta.json is completed by hand from it).
id="$1"; pkg="$2"; shift 2
props="${*:-$(echo "$id" | cut -c1-3)}"
src=/tmp/mut/$id; d=/verif/seeded/$id
mkdir -p "$d"
cp "$src/patch.diff" "$d/patch.diff"
if [ -f "$src/$pkg/demo_test.go" ]; then cp "$src/$pkg/demo_test.go" "$d/demo_test.go.txt"; fi
cp "$src/meta.json" "$d/agent_meta.json"
{
  /verif/tools/seedverify.sh "$id" "$pkg"
  /verif/tools/seedcheck.sh "$d/patch.diff" $props
} > "$d/intake.txt" 2>&1
cat "$d/intake.txt" | cut -c1-300
