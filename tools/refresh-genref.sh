#!/bin/sh
# Refresh the committed REFERENCE tables lean/Bng/GenRef/Fsm*.lean from /repo (the last source the C11 translator
# accepted).  Run it after an accepted change of pkg/pppoe/{lcp,ipcp,ipv6cp}.go and commit the result; ./check C11
# prints a NOTE when they differ from the regenerated tables.
set -e
cd /verif/harness
export GOFLAGS=-mod=mod GOPROXY=off
mkdir -p /verif/lean/Bng/GenRef
exec flock /verif/.lean.lock go run ./cmd/extractfsm -ns Bng.GenRef -repo "${1:-/repo}" -out /verif/lean/Bng/GenRef
