#!/bin/bash
# tools/selftest.sh — checks that the machinery notices what it must notice.  It EDITS files of the working tree for a
# moment (and restores them with git), so run it only when no other check is running.  Uses the fastest check (C15).
cd /verif
fail=0
expect_red() {  # name, grep pattern in the replay file
  out=$(./check C15 2>&1); rc=$?
  rp=$(echo "$out" | grep -m1 '^VIOLATION' | sed 's/.*replay=\([^ ]*\).*/\1/')
  if [ $rc -eq 1 ] && [ -n "$rp" ] && grep -q "$2" "$rp"; then echo "ok   $1"; else echo "FAIL $1 (rc=$rc, replay=$rp)"; fail=1; fi
}
restore() { git checkout -- lean/Bng/Spec/C15.lean checks/c15.py corpus/coa 2>/dev/null; }
trap restore EXIT
# 1. a sorry in a Spec module
printf '\ntheorem zz_selftest : (1 : Nat) = 2 := by sorry\n' >> lean/Bng/Spec/C15.lean
expect_red "sorry in a Spec module" "forbidden construct"; restore
# 2. an axiom smuggled in
printf '\naxiom zz_ax : (1 : Nat) = 2\ntheorem zz_selftest2 : (1 : Nat) = 2 := zz_ax\n' >> lean/Bng/Spec/C15.lean
expect_red "own axiom" "axiom\|depends on"; restore
# 3. a theorem of the pinned obligation set disappears
if [ -f checks/expect/C15.txt ]; then
  python3 - <<'PY'
import re
p='/verif/lean/Bng/Spec/C15.lean'; s=open(p).read()
s=s.replace('theorem dropped_no_effect','theorem dropped_no_effect_renamed',1); open(p,'w').write(s)
PY
  expect_red "pinned theorem gone" "pinned obligation set"; restore
fi
# 4. a monitor name nobody declares
sed -i 's/"acted-unauthentic"/"acted-unauthentic", "no-such-monitor"/' checks/c15.py
expect_red "undeclared monitor name" "no Lean source declares it"; restore
# 5. a corpus file the harness cannot finish (an operation line the trace does not account for)
f=$(ls corpus/coa | head -1); printf 'new\n' > corpus/coa/zz-selftest.ops; printf '\0\n' >> corpus/coa/zz-selftest.ops
out=$(./check C15 2>&1); rc=$?; rm -f corpus/coa/zz-selftest.ops
[ $rc -eq 1 ] && echo "ok   malformed corpus file is not silently accepted" || echo "note malformed corpus file accepted (rc=$rc): harness answered every line"
# 6. the unchanged tree is green again
out=$(./check C15 2>&1); rc=$?
[ $rc -eq 0 ] && echo "ok   unchanged tree green" || { echo "FAIL unchanged tree red"; fail=1; }
exit $fail
