#!/usr/bin/env python3
"""regenerates /verif/MANIFEST.json from the table below (keeps the file schema-valid)"""
import json, os
HERE = os.path.dirname(os.path.dirname(os.path.abspath(__file__)))
ALL = ["C%02d" % i for i in range(1, 21)]
CLAIMED = {
 "C01": dict(design="DESIGN.md §7 C01",
   technique="Lean 4 proof: invariant + induction over operation histories of the pool models; differential correspondence model vs real Go code; abstract pool monitor on the implementation",
   text="Machine-checked theorems (uniqueness, in-range, idempotence, forward/reverse agreement) over executable Lean models of the pool implementations for all histories and geometries; model tied to /repo by executing generated operation sequences on the real code and replaying them on the model.",
   note="Trusted: Lean kernel + propext/Classical.choice/Quot.sound; the hand-written models (validated by the correspondence run); the Go harness and bngdrv; atomic-step abstraction for concurrent callers."),
 "C04": dict(design="DESIGN.md §7 C04",
   technique="Lean 4 proof: session invariant + induction over frame sequences of the PPPoE server model, ghost authentication flag justified by a separate theorem; differential correspondence against the real frame handlers; monitor on the real session table and emitted frames",
   text="Machine-checked theorems service_requires_auth, ipcp_ack_requires_auth, foreign_mac_inert and ghost_set_only_by_accepted_pap over an executable Lean model of pkg/pppoe/server.go for all frame sequences, MACs and RADIUS outcomes; model tied to /repo by driving the real handlers on an in-memory socket (verif hook) with a scripted loopback RADIUS server.",
   note="Trusted: Lean kernel + propext/Classical.choice/Quot.sound; the hand-written model (validated by the correspondence run); harness and bngdrv; well-formed frames only (malformed input is C09); RADIUS library."),
 "C05": dict(design="DESIGN.md §7 C05",
   technique="Lean 4 proof: counting invariant, pigeonhole, exhaustion-only-when-full, release-returns over the pool models; differential correspondence; abstract pool monitor on the implementation",
   text="Machine-checked theorems that Stats() figures equal the true holder count, exhaustion implies every unit is held, and a release returns the unit, for all histories; tied to /repo by differential execution; known finding KF-bitmap-wide excluded by an explicit clause.",
   note="Trusted: as C01. Bitmap theorems assume < 2^64 units (GoodCfg); the complement is recorded as a known finding."),
 "C16": dict(design="DESIGN.md §7 C16",
   technique="Lean 4 proof: exactly-once teardown invariant + induction over creation/termination histories of the SessionTeardown model, release lemmas over the PPPoE server model; differential correspondence against the real code; residue/double-stop monitors on the implementation",
   text="Machine-checked theorems (stop_and_cleanup_at_most_once, terminated_holds_nothing, cleanup_idempotent, terminate_tears_down, padt_owner_only, padt_releases, lcp_term_releases) over executable Lean models of pkg/pppoe/teardown.go and the PPPoE server's termination paths for all histories incl. repeated terminations; tied to /repo by differential execution with a loopback RADIUS accounting server and recording callbacks.",
   note="Trusted: Lean kernel + standard axioms; hand-written models validated by the correspondence run; harness and bngdrv. Concurrent terminations modelled as sequential (mutex-protected cleanup). DHCP termination paths are added by checks/c16_dhcp.py when built; the idle-sweep leak is a recorded known finding."),
 "C11": dict(design="DESIGN.md §7 C11",
   technique="Lean 4 proof over transition tables REGENERATED from the Go source by a go/ast translator on every run (finite table facts by decide +kernel, induction over event lists generic in the table); differential correspondence of the interpreted automaton against the real LCP/IPCP/IPv6CP state machines; monitor on the real automata",
   text="Machine-checked theorems (opened_mutual, leaves_opened, reply_echoes_id, ack_repeats_options, nak_rej_only_offending, ipcp_acks_only_assigned, silent_peer_stops) for each of LCP, IPCP, IPv6CP over all event sequences incl. stale timer firings; the transition tables are re-extracted from pkg/pppoe/*.go on every run so the theorems are re-checked against what the code says now; option handling, identifiers and timers are hand-modelled and tied by differential execution.",
   note="Trusted: Lean kernel + standard axioms; the extractfsm translator (refuses constructs outside its subset; its output is also exercised by the correspondence); hand-written option classifier model; harness and bngdrv-ncp. One event = one atomic step under the automaton's mutex; stale timer callbacks are explicit events."),
}
NA_REASON = "not claimed in this revision: model, theorems and correspondence for this property are not built yet (see DESIGN.md §7 for the plan); no check is registered rather than registering a weaker technique"
m = {
 "version": 1,
 "setup_cmd": "sh /verif/setup.sh",
 "hooks": {
  "guard": "verif",
  "enable": "go build -tags verif (the harness module /verif/harness replaces github.com/codelaboratoryltd/bng with /repo)",
  "baseline_off_cmd": "cd /repo && go test -json -vet=off -count=1 -timeout 25m -mod=mod ./...",
  "source_commits": [],
  "add_only": True,
 },
 "engines": [
  {"name": "lean-proofs", "path": "/verif/lean", "serves_properties": sorted(CLAIMED), "kind_free_text": "Lean 4.33 lake project: executable models, property theorems (Bng/Spec), monitors, bngdrv trace replayer"},
  {"name": "go-harness", "path": "/verif/harness", "serves_properties": sorted(CLAIMED), "kind_free_text": "drives the real bng packages in-process and prints line-protocol traces"},
 ],
 "checks": [],
 "not_applicable": [],
 "notes": "Entry point ./check <id> --tier quick|thorough; known findings in known_findings.json; replays under replays/.",
}
for pid in ALL:
    if pid in CLAIMED:
        c = CLAIMED[pid]
        m["checks"].append({
         "property_id": pid,
         "quick_cmd": "./check %s --tier quick" % pid,
         "thorough_cmd": "./check %s --tier thorough" % pid,
         "evidence_file": "/verif/evidence/%s.json" % pid,
         "replay_cmd_template": "./check %s --replay {path}" % pid,
         "engine": "lean-proofs",
         "level_claimed": {"category": "proof", "text": c["text"], "design_ref": c["design"]},
         "level_note": c["note"],
         "technique": c["technique"],
        })
    else:
        m["not_applicable"].append({"property_id": pid, "reason": NA_REASON})
json.dump(m, open(os.path.join(HERE, "MANIFEST.json"), "w"), indent=1)
print("wrote MANIFEST.json with", len(m["checks"]), "checks")
