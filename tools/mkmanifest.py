#!/usr/bin/env python3
"""regenerates /verif/MANIFEST.json from the table below (keeps the file schema-valid)"""
import json, os
HERE = os.path.dirname(os.path.dirname(os.path.abspath(__file__)))
ALL = ["C%02d" % i for i in range(1, 21)]
CLAIMED = {
 "C01": dict(design="DESIGN.md §7 C01",
   technique="Lean 4 proof: invariant + induction over operation histories of the pool models; differential correspondence model vs real Go code; abstract pool monitor on the implementation",
   text="Machine-checked theorems (uniqueness, in-range, idempotence, forward/reverse agreement) over executable Lean models of the pool implementations for all histories and geometries; model tied to /repo by executing generated operation sequences on the real code and replaying them on the model. The whole PPPoE server around its IPPool is a further component (pppoesrv, driving the real receiveLoop): Spec.C16PppoeWhole.sessions_hold_distinct_addresses, address_is_pool_entry and held_address_not_free hold for every frame history, and the pool-view clauses of its monitor are proved silent on the model.",
   note="Trusted: Lean kernel + propext/Classical.choice/Quot.sound; the hand-written models (validated by the correspondence run); the Go harness and bngdrv; atomic-step abstraction for concurrent callers."),
 "C04": dict(design="DESIGN.md §7 C04",
   technique="Lean 4 proof: session invariant + induction over frame sequences of the PPPoE server model, ghost authentication flag justified by a separate theorem; differential correspondence against the real frame handlers; monitor on the real session table and emitted frames; go/ast translator (extractguards) regenerating the frame handlers' guard table on every run with kernel-decided gate theorems (Spec.C04Guards)",
   text="Machine-checked theorems service_requires_auth, ipcp_ack_requires_auth, foreign_mac_inert and ghost_set_only_by_accepted_pap over an executable Lean model of pkg/pppoe/server.go for all frame sequences, MACs and RADIUS outcomes; model tied to /repo by feeding whole Ethernet frames to the server's own receiveLoop (one reused receive buffer, as in production) through an in-memory socket (verif hook) with a scripted loopback RADIUS server. The monitor run on the implementation (PppoeMon.monitorCore) is itself proved silent on every history of the model (Spec.C16PppoeWhole.monitor_silent_on_model); the PPP Authenticator (auth.go) is a second component (pppauth, Spec.C04Auth).",
   note="Trusted: Lean kernel + propext/Classical.choice/Quot.sound; the hand-written model (validated by the correspondence run); harness and bngdrv; well-formed frames only (malformed input is C09); RADIUS library."),
 "C05": dict(design="DESIGN.md §7 C05",
   technique="Lean 4 proof: counting invariant, pigeonhole, exhaustion-only-when-full, release-returns over the pool models; differential correspondence; abstract pool monitor on the implementation",
   text="Machine-checked theorems that Stats() figures equal the true holder count, exhaustion implies every unit is held, and a release returns the unit, for all histories; tied to /repo by differential execution; known finding KF-bitmap-wide excluded by an explicit clause. The whole PPPoE server around its IPPool is a further component (pppoesrv): pool_conservation and allocated_accounted / no_residue_without_sweep hold for every frame history (Spec.C16PppoeWhole), and its monitor is proved silent on the model.",
   note="Trusted: as C01. Bitmap theorems assume < 2^64 units (GoodCfg); the complement is recorded as a known finding."),
 "C16": dict(design="DESIGN.md §7 C16",
   technique="Lean 4 proof: exactly-once teardown invariant + induction over creation/termination histories of the SessionTeardown model, release lemmas over the PPPoE server model; differential correspondence against the real code; residue/double-stop monitors on the implementation; go/ast translator (extractpaths) regenerating the termination-path table on every run with kernel-decided coverage theorems; refinement proof that the server monitor is silent on every model history",
   text="Machine-checked theorems (stop_and_cleanup_at_most_once, terminated_holds_nothing, cleanup_idempotent, terminate_tears_down, padt_owner_only, padt_releases, lcp_term_releases) over executable Lean models of pkg/pppoe/teardown.go and the PPPoE server's termination paths for all histories incl. repeated terminations; tied to /repo by differential execution with a loopback RADIUS accounting server and recording callbacks. Spec.C16Paths (regenerated table of the twelve termination entry points): every_termination_path_releases, every_entry_point_extracted, known_gaps_are_real. Spec.C16PppoeWhole: monitor_silent_on_model, pool_conservation, no_residue_without_sweep, allocated_accounted for every frame history. Spec.C16SubMgr (subscriber.Manager with interleaved terminations) and Spec.C16Dhcp (DHCPv4 release/decline/expiry/supersede with NAT, QoS, cache, pool, accounting).",
   note="Trusted: Lean kernel + standard axioms; hand-written models validated by the correspondence run; harness and bngdrv. Concurrent terminations modelled as sequential (mutex-protected cleanup). DHCP termination paths are added by checks/c16_dhcp.py when built; the idle-sweep leak is a recorded known finding."),
 "C11": dict(design="DESIGN.md §7 C11",
   technique="Lean 4 proof over transition tables REGENERATED from the Go source by a go/ast translator on every run (finite table facts by decide +kernel, induction over event lists generic in the table); differential correspondence of the interpreted automaton against the real LCP/IPCP/IPv6CP state machines; monitor on the real automata",
   text="Machine-checked theorems (opened_mutual, leaves_opened, reply_echoes_id, ack_repeats_options, nak_rej_only_offending, ipcp_acks_only_assigned, silent_peer_stops) for each of LCP, IPCP, IPv6CP over all event sequences incl. stale timer firings; the transition tables are re-extracted from pkg/pppoe/*.go on every run so the theorems are re-checked against what the code says now; option handling, identifiers and timers are hand-modelled and tied by differential execution.",
   note="Trusted: Lean kernel + standard axioms; the extractfsm translator (refuses constructs outside its subset; its output is also exercised by the correspondence); hand-written option classifier model; harness and bngdrv-ncp. One event = one atomic step under the automaton's mutex; stale timer callbacks are explicit events."),
 "C06": dict(design='DESIGN.md §7 C06',
   technique='Lean 4 proof by decide over layout tables REGENERATED on every run (clang record layouts + go/types of the mirrored structs and every map call site), all-input theorems for the key derivations; byte-level correspondence through real kernel maps and the natively compiled programs',
   text="every_use_agrees / every_use_fits_map / every_use_names_agree and friends are decided by the kernel over tables re-extracted from bpf/*.c and pkg/{ebpf,nat,qos,antispoof,walledgarden} on every run; MAC/VLAN/circuit-id/ALG key derivations are proved equal on both sides for all inputs; IPv4 and port byte-order conventions are stated as theorems with the disagreeing (map, field) tuples listed as known findings; bytes actually written through cilium into real kernel maps are compared with the model's prediction.",
   note="Trusted: Lean kernel + propext/Classical.choice/Quot.sound (audited per theorem); the hand-written executable models, validated on every run by the correspondence against the real code; the Go/C harnesses and the bngdrv parser/printer; the layout translator (fails loudly outside its subset); clang's native record layout = BPF target layout for these fixed-width types; the IPv4/port convention table is hand-derived from the C and validated by execution."),
 "C09": dict(design='DESIGN.md §7 C09',
   technique='Lean 4 proof: every network-facing decoder modelled in a Go-bounds-checked monad (panic = Except), totality and linear step bound proved for all byte strings and protocol states; differential fuzz of the real decoders against the model',
   text='For 30 decoders/handlers (PPPoE discovery/session, LCP/IPCP/IPv6CP receive paths in every state, PAP/CHAP, option 82, DHCPv6 message/option/IA parsers, CoA receive loop and attribute parser, HA stream slicing, ZTP vendor options, CreateSession id search) D_total (never panics, never indexes out of range) and D_linear (loop iterations linear in the input) are theorems over all byte strings; the models are tied to the real code by structured + mutated + random inputs with results compared verbatim.',
   note='Trusted: Lean kernel + propext/Classical.choice/Quot.sound (audited per theorem); the hand-written executable models, validated on every run by the correspondence against the real code; the Go/C harnesses and the bngdrv parser/printer; library decoders (encoding/json, regexp, insomniacslk dhcpv4, layeh radius) are fuzzed only (monitor panic/hang), not modelled; wall-clock time is not a verdict.'),
 "C10": dict(design='DESIGN.md §7 C10',
   technique='Lean 4 proof: invariant + induction over NAT allocate/deallocate histories incl. the precheck/commit split of concurrent callers, uint16 port arithmetic; refinement theorem monitor_silent_on_model; differential correspondence with lock-hold interleavings and a parallel stress run',
   text="blocks_disjoint, block_in_range (all configurations incl. non-dividing sizes and the 65535 edge), block_stable, attribution_unique/attribution_is_holder/log_tracks_table over all histories of the nat.Manager model; the C10 monitor is proved silent on the model and judges the real manager's answers and log.",
   note='Trusted: Lean kernel + propext/Classical.choice/Quot.sound (audited per theorem); the hand-written executable models, validated on every run by the correspondence against the real code; the Go/C harnesses and the bngdrv parser/printer; each critical section is one atomic step (AllocateNAT = precheck + commit); eBPF map writes are nil in the harness; configurations with negative ints or rangeEnd > 65535 are excluded.'),
 "C12": dict(design='DESIGN.md §7 C12',
   technique='Lean 4 proof: memory/store agreement invariant over all histories with per-call store failures, restart with every enumeration order, remote puts; observational round-trip theorems; differential correspondence over a fault-injecting, order-permuting store',
   text='session_store_failure_agrees, session_restart_preserves, session_restart_unique, session_remote_put_applied, epoch_roundtrip_observational proved at full strength for session mode; lease-mode and bitmap round-trip deviations are stated as _partial theorems with witness theorems and recorded as known findings (D38, D39, D40, KF-lease-store-epoch).',
   note="Trusted: Lean kernel + propext/Classical.choice/Quot.sound (audited per theorem); the hand-written executable models, validated on every run by the correspondence against the real code; the Go/C harnesses and the bngdrv parser/printer; each method is one atomic step; Query failure at Start, crash inside a tick's cleanup and malformed store records are not modelled."),
 "C13": dict(design='DESIGN.md §7 C13',
   technique='Lean 4 proof: message-level refinement of the HA sync protocol (full sync = snapshot, stream applied in push order, convergence invariant on in-flight messages); differential correspondence at the message layer and end-to-end over loopback HTTP',
   text='fullsync_equals_snapshot and stream_in_order at full strength; stream_complete_partial and converges_partial under explicit exclusion clauses for the recorded findings D42 (snapshot/attach gap) and D43 (full client channel drops), each with a witness theorem.',
   note='Trusted: Lean kernel + propext/Classical.choice/Quot.sound (audited per theorem); the hand-written executable models, validated on every run by the correspondence against the real code; the Go/C harnesses and the bngdrv parser/printer; one standby; session state abstracted to (id, value); each handler iteration is one atomic step.'),
 "C14": dict(design='DESIGN.md §7 C14',
   technique='Lean 4 proof: small-step model of the failover controller with timer instances (incl. stale firings) and split execute phases, invariants by induction over all event sequences; differential correspondence inside testing/synctest (virtual time)',
   text='promote_requires_sustained_down, auto_promotions_sustained, recovery_cancels, role_after_callback_ok, one_completed_per_promotion, failback_only_healthy, no_stuck_in_progress over all event sequences of the FailoverController model, tied to the real controller by BFS/random event sequences on a virtual clock.',
   note='Trusted: Lean kernel + propext/Classical.choice/Quot.sound (audited per theorem); the hand-written executable models, validated on every run by the correspondence against the real code; the Go/C harnesses and the bngdrv parser/printer; the role-change callback is instantaneous; the goroutine race of a firing timer with Stop() is an explicit stale-timer event delivered through a verif hook.'),
 "C15": dict(design='DESIGN.md §7 C15',
   technique='Lean 4 proof with the hash as an uninterpreted parameter: acted_iff_authentic, response_verifies, dropped_no_effect over all datagrams and secrets; executable MD5 in Lean validated against crypto/md5; differential correspondence over a loopback UDP socket',
   text="A handler is invoked and a response sent iff the datagram is a complete RADIUS packet of code 40/43 with well-formed attributes whose Request Authenticator verifies (for every hash function H); every response carries the request's identifier and a verifying Response Authenticator; the real CoAServer is driven with every single-bit flip/truncation/length mutation of valid requests.",
   note='Trusted: Lean kernel + propext/Classical.choice/Quot.sound (audited per theorem); the hand-written executable models, validated on every run by the correspondence against the real code; the Go/C harnesses and the bngdrv parser/printer; no cryptographic assumption (H universally quantified); MD5 implementation in Lean is part of the driver only.'),
 "C17": dict(design='DESIGN.md §7 C17',
   technique='Lean 4 proof with the score function uninterpreted: order independence, permutation/head, minimal disruption and single-server theorems over all peer sets and histories of add/remove/health; differential correspondence incl. FNV-1a/mixer in UInt64',
   text='owner_order_independent, all_peers_agree, ranked_perm, ranked_head_is_owner, remove_minimal/membership_minimal/unhealthy_minimal, single_server for every peer set, configuration order and subscriber id; the real PeerPool is driven with all permutations up to size 5, all health vectors and a 3-4 node in-memory HTTP cluster.',
   note='Trusted: Lean kernel + propext/Classical.choice/Quot.sound (audited per theorem); the hand-written executable models, validated on every run by the correspondence against the real code; the Go/C harnesses and the bngdrv parser/printer; sort.Slice beyond 12 peers is covered only by the distinct-scores theorem; an all-zero score vector is excluded by an explicit hypothesis (SomePositive).'),
 "C18": dict(design='DESIGN.md §7 C18',
   technique="Lean 4 proof: byte-level model of antispoof_ingress + the manager's map encoders, decision logic stated outright for all frames and map contents; native differential of the UNMODIFIED C (clang, ASan, guard page) with bytes written by the real manager into real kernel maps",
   text='strict_iff / strict_iff_v6, loose_iff, logonly_forwards, disabled_forwards, nonip_forwards, binding_as_written, strict_end_to_end, loose_end_to_end for all frames with a complete IP header; VLAN-tagged bypass (D51) and the missing IPv6 range table in loose mode are stated with witness theorems and recorded as known findings.',
   note="Trusted: Lean kernel + propext/Classical.choice/Quot.sound (audited per theorem); the hand-written executable models, validated on every run by the correspondence against the real code; the Go/C harnesses and the bngdrv parser/printer; clang's x86-64 code generation stands in for the BPF back end; the in-kernel verifier is not exercised; per-CPU and multi-CPU effects are not modelled."),
 "C19": dict(design='DESIGN.md §7 C19',
   technique='Lean 4 proof in exact UInt64 arithmetic: upper bound admitted_le for all arrival sequences by a potential argument, lower bound under an explicit loss clause with the starvation defect proved as a theorem; native differential of the C token bucket with scripted clock and manager-written buckets',
   text='rate_zero_unlimited, admitted_le/admitted_le_rate (bytes admitted in any window never exceed burst + rate*window), policy_enforced (the bucket found for a packet is the one SetSubscriberQoS wrote), served_ge_partial + D52_witness + D52_starvation_unbounded (recorded finding: truncating refill starves a fast-polling subscriber).',
   note='Trusted: Lean kernel + propext/Classical.choice/Quot.sound (audited per theorem); the hand-written executable models, validated on every run by the correspondence against the real code; the Go/C harnesses and the bngdrv parser/printer; clang native build stands in for the BPF back end; multi-CPU races on one bucket are not modelled.'),
 "C20": dict(design='DESIGN.md §7 C20',
   technique='Lean 4 proof: bijection invariants by induction over all histories for the VLAN allocator, QinQ mapper, PPPoE session table and secondary indexes; injectivity domain of the circuit-id key and pigeonhole non-injectivity of any 64-bit hash; differential correspondence',
   text='bijection_inv / id_unique / in_ranges / release_frame per component (vlan, qinq, pppsess, index), key_injective_on + explicit failure outside, hash_not_injective for every hash function; deviations (range of loaded pairs, uint16 wrap, same-MAC sessions, re-keyed records, circuit-id truncation) are _partial theorems with witnesses and recorded known findings.',
   note='Trusted: Lean kernel + propext/Classical.choice/Quot.sound (audited per theorem); the hand-written executable models, validated on every run by the correspondence against the real code; the Go/C harnesses and the bngdrv parser/printer; each mutex-protected method is one atomic step; no -race stress run.'),
 "C02": dict(design='DESIGN.md §7 C02',
   technique="Lean 4 proof: binding invariant (Bind4 / Bind6) by induction over all DHCP message histories and time advances, pool injectivity with no exclusion clause; differential correspondence of the real servers inside testing/synctest (virtual time) with replies, lease table and pool state compared verbatim; binding monitor on the real servers' replies",
   text='v4_pool_never_double_books (unconditional), v4_one_binding_per_addr / ack_not_foreign / served_in_pool / declined_not_reoffered / released / expired reusable (partial only under the exclusion clause of the recorded circuit-id finding D9), v4_renew_same, and the unconditional DHCPv6 family (v6_one_binding_per_addr/prefix, reply_not_foreign, served_in_pool, renew_same, released_reusable); v6 expiry/decline deviations (D6, D7, D8) and the v4 offer pinning are witness theorems and known findings.',
   note="Trusted: Lean kernel + propext/Classical.choice/Quot.sound (audited per theorem); the hand-written executable models, validated on every run by the correspondence against the real code; the Go harnesses and the bngdrv parser/printer; Nexus/HTTP allocator/RADIUS/QoS/NAT branches are parameters fixed to absent; cleanupExpiredLeases is one atomic step; the cleanup's map-iteration order is read from the implementation and passed to the model."),
 "C08": dict(design='DESIGN.md §7 C08',
   technique='Lean 4 proof: small-step model of the accounting manager in which every call is cut at every transmit/persist point (crash may strike between any two), volatile/durable state split; invariants by induction over all histories, server answer vectors and crash points; bit-exact gigaword theorems; differential correspondence against the real manager with crash-point markers, a temp directory and a loopback RADIUS server',
   text='stop_only_started, own_identifiers, stop_after_start_partial (finding D24), durable_every_microstep_partial / durable_first_lifetime (finding KF-acct-recovery-volatile), no_dup_stop_without_crash, restart_drains, gigaword_exact/omitted_iff/roundtrip over all histories x up/down vectors x crash points; the crash markers in accounting.go are no-ops without the verif tag.',
   note="Trusted: Lean kernel + propext/Classical.choice/Quot.sound (audited per theorem); the hand-written executable models, validated on every run by the correspondence against the real code; the Go harnesses and the bngdrv parser/printer; API calls, processor and drain are serialised (only a crash cuts a call); 'down' = immediate client failure (lost replies are not modelled); session ids are not reused."),
 "C03": dict(design='DESIGN.md §7 C03',
   technique='Lean 4 proof: byte-level model of dhcp_fastpath_prog and of the Go cache encoders; tx_wellformed (incl. IP checksum lemma), tx_agrees against the slow-path view, pass_identical, cache_sound + no_answer_after_end by induction over server operations; native differential of the unmodified C + real dhcp.Server/Loader with real kernel maps',
   text="pass_identical, tx_wellformed, tx_agrees_partial/tx_agrees_palindromic (exact for type/lease time/mask, byte-reversed addresses = recorded finding D10), cache_sound, no_answer_after_end, ended_client_passed, expired_not_answered_partial (finding D11: clock domains) for all frames, map contents and clocks; the fast reply is compared field by field with the real server's reply to the same request.",
   note="Trusted: Lean kernel + propext/Classical.choice/Quot.sound (audited per theorem); the hand-written byte-level models, validated on every run by native differential execution of the UNMODIFIED C programs (clang -O1, ASan+UBSan, frame flush against a guard page) and of the real Go control plane writing into real kernel maps; the cshim helper shims; harnesses and bngdrv; clang's x86-64 code generation stands in for the BPF back end; the verifier is not exercised; frames shorter than 64 KiB; stats map not modelled."),
 "C07": dict(design='DESIGN.md §7 C07',
   technique='Lean 4 proof: checked-access byte-level models of all seven entry points (dhcp_fastpath_prog, antispoof_ingress, qos_egress/ingress, nat44_egress/ingress/hairpin); no_fault, defined_verdict, pass_unmodified, writes_confined for all frames of every length, all map contents (lookup results universally quantified) and clocks; native differential under ASan with guard pages',
   text="For every program: every load/store inside [0,size) (no_fault), verdict in the defined set, PASS/OK implies the frame is byte-identical unless the program's actsOn predicate holds (cache hit / NAT flow), nat44 writes confined to the address/port/checksum fields; termination is Lean totality.",
   note='Trusted: Lean kernel + propext/Classical.choice/Quot.sound (audited per theorem); the hand-written byte-level models, validated on every run by native differential execution of the UNMODIFIED C programs (clang -O1, ASan+UBSan, frame flush against a guard page) and of the real Go control plane writing into real kernel maps; the cshim helper shims; harnesses and bngdrv; clang native build stands in for the BPF back end and in-kernel verifier; reads below `data` are not trapped by the guard page; per-CPU maps have one CPU.'),
}
import subprocess
try:
    HOOK_COMMITS = subprocess.run(["git", "-C", "/repo", "log", "--reverse", "--format=%h %s", "--grep=^verif hook"],
                                  stdout=subprocess.PIPE, text=True).stdout.strip().splitlines()
except Exception:
    HOOK_COMMITS = []
NA_REASON = "not claimed in this revision: model, theorems and correspondence for this property are not built yet (see DESIGN.md §7 for the plan); no check is registered rather than registering a weaker technique"
m = {
 "version": 1,
 "setup_cmd": "sh /verif/setup.sh",
 "hooks": {
  "guard": "verif",
  "enable": "go build -tags verif (the harness module /verif/harness replaces github.com/codelaboratoryltd/bng with /repo)",
  "baseline_off_cmd": "cd /repo && go test -json -vet=off -count=1 -timeout 25m -mod=mod ./...",
  "source_commits": HOOK_COMMITS,
  "add_only": True,
 },
 "engines": [
  {"name": "lean-proofs", "path": "/verif/lean", "serves_properties": sorted(CLAIMED), "kind_free_text": "Lean 4.33 lake project: executable models, property theorems (Bng/Spec), monitors, bngdrv trace replayer"},
  {"name": "go-harness", "path": "/verif/harness", "serves_properties": sorted(CLAIMED), "kind_free_text": "drives the real bng packages in-process and prints line-protocol traces"},
 ],
 "checks": [],
 "not_applicable": [],
 "notes": "Entry point ./check <id> --tier quick|thorough; known findings in known_findings.json; replays under replays/.",
}
for pid in ALL:
    if pid in CLAIMED:
        c = CLAIMED[pid]
        m["checks"].append({
         "property_id": pid,
         "quick_cmd": "./check %s --tier quick" % pid,
         "thorough_cmd": "./check %s --tier thorough" % pid,
         "evidence_file": "/verif/evidence/%s.json" % pid,
         "replay_cmd_template": "./check %s --replay {path}" % pid,
         "engine": "lean-proofs",
         "level_claimed": {"category": "proof", "text": c["text"], "design_ref": c["design"]},
         "level_note": c["note"],
         "technique": c["technique"],
        })
    else:
        m["not_applicable"].append({"property_id": pid, "reason": NA_REASON})
json.dump(m, open(os.path.join(HERE, "MANIFEST.json"), "w"), indent=1)
print("wrote MANIFEST.json with", len(m["checks"]), "checks")
