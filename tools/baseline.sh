#!/bin/bash
# Runs /repo's own test suite (guard off) and compares with the pinned baseline's stable_pass list.
export GOFLAGS=-mod=mod GOPROXY=off
out=${1:-/tmp/baseline.$$.json}
(cd /repo && go test -json -vet=off -count=1 -timeout 25m ./... > "$out" 2>/dev/null)
python3 - "$out" <<'PY'
import json,sys
base=json.load(open('/root/.vp/BASELINE.json'))
want=set(base['stable_pass'])
res={}
for l in open(sys.argv[1]):
    try: e=json.loads(l)
    except Exception: continue
    if e.get('Test') and e.get('Action') in('pass','fail','skip'):
        res[e['Package']+'::'+e['Test']]=e['Action']
missing=[t for t in want if res.get(t)!='pass']
print(f"baseline: {len(want)-len(missing)}/{len(want)} stable_pass tests pass; total results {len(res)}")
for t in missing[:40]: print("  NOT PASS:",t,res.get(t))
sys.exit(1 if missing else 0)
PY
rc=$?
rm -f "$out"
exit $rc
