#!/bin/sh
# tools/seedcheck.sh <patch.diff> <property id>...   — run checks against a scratch worktree of /repo with the patch applied
# (the candidate change never touches /repo itself); prints one line per property: <id> exit=<rc> <VIOLATION line|->
set -u
patch="$1"; shift
wt=/tmp/seedwt-$$
git -C /repo worktree add -q --detach "$wt" HEAD || exit 2
if ! git -C "$wt" apply "$patch"; then echo "patch does not apply"; git -C /repo worktree remove --force "$wt"; exit 2; fi
(cd "$wt" && GOFLAGS=-mod=mod GOPROXY=off go build ./... ) || echo "WARNING: patched tree does not build"
for p in "$@"; do
  out=$(cd /verif && VERIF_REPO="$wt" ./check "$p" --tier "${TIER:-quick}" 2>&1); rc=$?
  v=$(printf '%s\n' "$out" | grep -m1 '^VIOLATION' || echo -)
  echo "$p exit=$rc $v"
  printf '%s\n' "$out" | tail -2 | sed 's/^/    /'
done
git -C /repo worktree remove --force "$wt"
# restore the regenerated tables (Gen/Fsm*.lean, Gen/Layout.lean) of the real repository
# (every check regenerates its Gen tables at its start under the lean lock; nothing to restore here)
