#!/usr/bin/env python3
"""Regenerates DESIGN.md §0.3 (findings lists) and §0.4 (seeded table) from known_findings.json and seeded/*/meta.json."""
import json, glob, subprocess
p = '/verif/DESIGN.md'
s = open(p).read()
d = json.load(open('/verif/known_findings.json'))['findings']
fx = [x['id'] for x in d if x['status'] == 'fixed']
kn = [x['id'] for x in d if x['status'] == 'known']
nfix = int(subprocess.run("git -C /repo log --oneline | grep -c ' fix:'", shell=True, capture_output=True, text=True).stdout.strip())
nhook = int(subprocess.run("git -C /repo log --oneline | grep -c 'verif hook'", shell=True, capture_output=True, text=True).stdout.strip())


def wrap(ids):
    out = []; line = ''
    for t in ids:
        if len(line) + len(t) + 1 > 118:
            out.append(line); line = ''
        line += (' ' if line else '') + t
    out.append(line)
    return '\n'.join(out)


i = s.index("### 0.3 Genuine defects found"); j = s.index("### 0.4 Seeded changes")
sec = f'''### 0.3 Genuine defects found (see `known_findings.json` for witnesses and commits)

Fixed in /repo by `fix:` commits ({len(fx)} entries, {nfix} commits — a few defects needed a follow-up commit; {nhook} `verif hook:`
commits carry the build-tagged hooks):
{wrap(fx)}.
The baseline suite (1263 tests, guard off, `tools/baseline.sh`) passes unedited on the resulting tree. Every fixed entry has a
corpus witness that runs first on every run; reverting the fix in a scratch worktree makes the check report the violation again
(spot-checked for D47-authfail, D48c, D49-empty-pap-server, D60, D61, D62, D63 and the HA fixes).

Recorded as known ({len(kn)}; each with an exclusion clause evaluated in Lean on the failing trace, and where the model carries it a
`_partial` theorem plus a `_witness` theorem) — design-level, protocol-level or not small:
{wrap(kn)}.
A known finding accounts only for verdicts that carry its clause id, which the Lean driver computes PER VERDICT from the failing
trace (the specific key / operation shape of the finding; never "any verdict of this monitor"), and — where the entry carries
`match_component` / `match_monitors` — only for that component and those monitors; any other violation of the same property is
still a VIOLATION. The number of verdicts each clause accounted for is in the evidence (`known_finding_verdicts`).

'''
s = s[:i] + sec + s[j:]
i = s.index("### 0.4 Seeded changes"); j = s.index("### 0.5 False alarms")
rows = []
n = 0
for m in sorted(glob.glob('/verif/seeded/*/meta.json')):
    x = json.load(open(m)); n += 1
    what = x['what'].replace('\n', ' ').replace('|', '/')
    what = what[:150] + ('…' if len(what) > 150 else '')
    r1 = (x.get('check_result') or '').replace('\n', ' ').replace('|', '/')
    r2 = (x.get('check_result_after_strengthening') or x.get('recheck_current_tree') or '').replace('\n', ' ').replace('|', '/')
    res = r1[:140] + (' ⇒ ' + r2[:160] if r2 else '')
    rows.append(f"| {x['id']} | {x.get('property')} | {what} | {res} |")
sec = f'''### 0.4 Seeded changes (independent agents, property text only) and what the checks say

Fourteen batches, {n} changes, each written by a fresh agent that saw only the property text and a scratch worktree; each confirmed by
`tools/seedverify.sh` (builds, the package's existing tests pass with the change, the agent's demonstration fails with it and passes
without it) and run through the claimed check with `tools/seedcheck.sh` (`VERIF_REPO=<scratch worktree>`). "⇒" marks a change the
check missed or could only report as no-failing-input-found on the first run, and what the strengthened check says now.
`tools/seedall.sh` re-runs every seeded change against the current tree (result lines in `seeded/RESULTS.txt` and, per change,
`recheck_current_tree` in its meta.json): of the first 56, 50 are caught with a concrete replay, five patches no longer apply
(the code they change was rewritten by later `fix:` commits) and one (C04a) has become harmless — since fix ab1f47b no live
session is ever in state Closed, and the agent's own demonstration passes with the change applied.
Batches 10-12 (56 changes, aimed at files no earlier change had touched) were taken in with `tools/seedintake.sh`: 42 were caught
at intake, 14 were missed and went to the builders of their components; the misses fall into three classes that a read-only
reviewer then enumerated over the whole anchored code (`reviews/r-gaps-report.md`): methods that are NOT one critical section
(TerminateSession / AssignAddress / allocateLocal / cleanupExpiredLeases windows), stored or returned pointers (state.Store),
and installs that fail half-way (QoS egress/ingress). The review's candidates that reproduced on the real code became fixes
(9d53e2c AssignAddress, e054093 IPCP ack without address) or known findings (KF-store-alias ...); see §0.3.
Session 5 re-ran the eleven changes still marked missed from batches 10-12 against the current tree (all caught now; C02g only as a
broken lock-discipline obligation, `Spec.C02Locks.sweep_teardown_inside_lease_lock`, with `no-failing-input-found`) and added
batches 13-14 (20 changes): 13 caught at intake; C02h (DISCOVER with option 50 against an expired, unswept lease), C08h (session
ids that are prefixes of one another), C16h (failing eBPF callback in SessionTeardown), C18g / C06g (allowed range given with a
16-byte-form IPv4 address) and C17g (peer ids that are prefixes of one another) were missed and went to the builders of their
components (dhcp4 option-50 DISCOVER op, adversarial concrete session ids in the acct harnesses, `fault ebpf` in teardown,
`range16` in antispoof, prefix-related node ids in the cluster generators); C19g stopped applying when fix 01bf152 rewrote the
function it changes. The remaining review candidates (r-gaps G7 G8 C1 C5 C7 C9 B1-B3 B8 B9 A1-A4) were driven by new fault /
alias / park ops and became `fix:` commits or known findings (§0.3).
(Regenerate this table and §0.3 with `tools/mkdesign.py`.)

| Seeded | Property | Change | Result |
|---|---|---|---|
''' + '\n'.join(rows) + '\n\n'
s = s[:i] + sec + s[j:]
# ---- §0.7 per-property table
import importlib.util, sys, os
sys.path.insert(0, '/verif/lib')
REFINE = {
 'C01': 'bitmap: `bitmap_refines_poolspec`; pppoesrv: `monitor_silent_on_model` (all clauses)',
 'C04': 'pppoesrv: `monitor_silent_on_model`; pppauth: monitor silent on every model history (Spec.C04Auth)',
 'C05': 'bitmap: `bitmap_refines_poolspec`; pppoesrv: `monitor_silent_on_model`',
 'C10': '`monitor_silent_on_model`',
 'C16': 'pppoesrv: `monitor_silent_on_model` (+ timed layer `timed_projects`); teardown: `per_session_clauses_silent_on_model` (not-terminated clauses: runs only); dhcpterm: `Spec.C16DhcpMon.monitor_silent_on_model` (all clauses, histories with atomic establishment); submgr: runs only',
 'C19': 'over-admit monitor proved sound (`over_admit_monitor_sound`)',
 'C20': 'qinq: `Spec.C20QinqMon.monitor_silent_on_model`; vlan, pppsess, index, circuitkey: runs only',
 'C05': 'bitmap: `bitmap_refines_poolspec`; pppoesrv: `monitor_silent_on_model` (+ parked histories `monitor_silent_on_parked_histories`)',
}
TRANSL = {'C04': 'extractguards', 'C06': 'extractlayout', 'C11': 'extractfsm (+ reference tables for the search)', 'C16': 'extractpaths'}
rows = []
for i in range(1, 21):
    pid = 'C%02d' % i
    sp = importlib.util.spec_from_file_location('chk_' + pid, '/verif/checks/%s.py' % pid.lower())
    m = importlib.util.module_from_spec(sp)
    try:
        sp.loader.exec_module(m)
    except Exception as e:
        rows.append('| %s | (could not load: %s) | | | | |' % (pid, e)); continue
    comps = ', '.join(sorted({c.name for c in m.COMPS}))
    specs = m.SPEC if isinstance(m.SPEC, list) else [m.SPEC]
    specs = ', '.join(x.replace('Bng.Spec.', '') for x in specs)
    exp = '/verif/checks/expect/%s.txt' % pid
    nth = len(open(exp).read().split()) if os.path.exists(exp) else 0
    nk = len([x for x in d if x['status'] == 'known' and pid in x.get('properties', [x.get('property')])])
    tr = [TRANSL[pid]] if pid in TRANSL else []
    if 'Locks' in specs:
        tr.append('extractlocks')
    rows.append('| %s | %s | %s | %d | %s | %s | %d |' % (pid, comps, specs, nth, ', '.join(tr) or '—', REFINE.get(pid, 'runs only'), nk))
sec7 = '''### 0.7 Per property: components, theorems, ties (generated by `tools/mkdesign.py`)

"Theorems" = pinned obligation set of the property's Spec modules (every one audited for axioms on every run). "Monitor" = what is
proved about the monitor that judges the implementation's observations ("runs only" = validated by the unchanged tree, the pre-fix
trees and the seeded changes, not by a theorem). Every component is tied to the code by the differential correspondence run.

| Property | Components (harness ↔ driver) | Spec modules | Theorems | Translator | Monitor | Known findings |
|---|---|---|---|---|---|---|
''' + '\n'.join(rows) + '\n\n'
if '### 0.7 Per property' in s:
    i = s.index('### 0.7 Per property'); j = s.index('---------------------------------------------------------------------------------------', i)
    s = s[:i] + sec7 + s[j:]
else:
    j = s.index('---------------------------------------------------------------------------------------\n\nContents')
    s = s[:j] + sec7 + s[j:]
open(p, 'w').write(s)
print("DESIGN.md §0.3/§0.4/§0.7 regenerated:", len(fx), "fixed,", len(kn), "known,", n, "seeded")
