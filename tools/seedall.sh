#!/bin/bash
# tools/seedall.sh [ids...] — re-run every seeded change (seeded/<id>/patch.diff) against the check of its property and
# write one line per change to seeded/RESULTS.txt: <id> <property> applies|noapply exit=<rc> <VIOLATION line or ->
cd /verif
ids="$@"; [ -z "$ids" ] && ids=$(ls seeded | grep -v RESULTS)
out=seeded/RESULTS.txt; tmp=$(mktemp)
for id in $ids; do
  [ -f seeded/$id/meta.json ] || continue
  prop=$(python3 -c "import json;print(json.load(open('/verif/seeded/$id/meta.json'))['property'])")
  r=$(tools/seedcheck.sh /verif/seeded/$id/patch.diff $prop 2>&1)
  if echo "$r" | grep -q "patch does not apply"; then echo "$id $prop noapply" >> $tmp; continue; fi
  line=$(echo "$r" | grep -m1 "^$prop exit=")
  echo "$id $line" >> $tmp
done
sort $tmp > $out; rm -f $tmp; cat $out
