#!/bin/sh
# tools/seedverify.sh <seeded id> <package dir e.g. pkg/pppoe> [demo test regex]
# confirms in a scratch worktree: builds, package tests pass with the change, demo fails with / passes without it.
id="$1"; pkg="$2"; rx="${3:-Demo}"
d=/verif/seeded/$id
wt=/tmp/seedver-$$
export GOFLAGS=-mod=mod GOPROXY=off
git -C /repo worktree add -q --detach "$wt" HEAD || exit 2
cd "$wt"
git apply "$d/patch.diff" || { echo "APPLY-FAILED"; git -C /repo worktree remove --force "$wt"; exit 2; }
go build ./... >/dev/null 2>&1 && b=ok || b=FAIL
go test -count=1 ./$pkg/ >/tmp/seedver-$$.log 2>&1 && t=ok || t=FAIL
cp "$d/demo_test.go.txt" "$pkg/demo_test.go"
go test -count=1 -run "$rx" ./$pkg/ >/dev/null 2>&1 && dw=PASS || dw=fail
git apply -R "$d/patch.diff"
go test -count=1 -run "$rx" ./$pkg/ >/dev/null 2>&1 && dwo=pass || dwo=FAIL
cd /; git -C /repo worktree remove --force "$wt"; rm -f /tmp/seedver-$$.log
echo "$id build=$b pkgtests_with_change=$t demo_with_change=$dw demo_without_change=$dwo (want: ok ok fail pass)"
