#!/usr/bin/env python3
"""generate (idempotently) the per-property trace replayer sources lean/DrvCNN.lean + lakefile entries and
print the executable names, for setup.sh:  lake build $(python3 tools/mkdrivers.py)"""
import importlib.util, os, sys
HERE = os.path.dirname(os.path.dirname(os.path.abspath(__file__)))
sys.path.insert(0, os.path.join(HERE, "lib"))
import verif as V
exes = []
for fn in sorted(os.listdir(os.path.join(HERE, "checks"))):
    if not (fn.startswith("c") and fn.endswith(".py") and fn[1:3].isdigit() and len(fn) == 6):
        continue
    spec = importlib.util.spec_from_file_location("chk_" + fn[:-3], os.path.join(HERE, "checks", fn))
    mod = importlib.util.module_from_spec(spec)
    try:
        spec.loader.exec_module(mod)
    except Exception as e:
        print("skip %s: %s" % (fn, e), file=sys.stderr)
        continue
    comps = getattr(mod, "COMPS", [])
    own = V.ensure_driver(mod.PROP, comps)
    if own:
        exes.append(own)
    for c in comps:
        if c.drv_bin not in ("bngdrv",) and c.drv_bin not in exes:
            exes.append(c.drv_bin)
print(" ".join(exes))
