#!/bin/sh
# Regenerate lean/Bng/Gen/Fsm*.lean (C11 transition tables) from /repo's working tree, under the lock the checks use.
# Called at the end of tools/seedcheck.sh so that a seeded run (VERIF_REPO=<mutated worktree>) does not leave the
# tables of the mutated tree behind.  Every ./check C11 regenerates them at its start anyway.
set -e
cd /verif/harness
export GOFLAGS=-mod=mod GOPROXY=off
flock /verif/.lean.lock go run ./cmd/extractfsm -repo "${1:-/repo}" -out /verif/lean/Bng/Gen
# C06 layout tables (lean/Bng/Gen/Layout.lean, written atomically)
flock /verif/.lean.lock go run ./cmd/extractlayout -repo "${1:-/repo}" -shim /verif/cshim-layout -scratch /var/tmp/extractlayout-regen -lean /verif/lean/Bng/Gen/Layout.lean || echo "regen: extractlayout (C06) failed"
# C16 termination-path table (lean/Bng/Gen/Paths.lean, written atomically)
flock /verif/.lean.lock go run ./cmd/extractpaths -repo "${1:-/repo}" -out /verif/lean/Bng/Gen/Paths.lean || echo "regen: extractpaths (C16) failed"
# C04 guard table (lean/Bng/Gen/Guards.lean, written atomically)
flock /verif/.lean.lock go run ./cmd/extractguards -repo "${1:-/repo}" -out /verif/lean/Bng/Gen/Guards.lean || echo "regen: extractguards (C04) failed"
