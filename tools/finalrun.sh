#!/bin/bash
# tools/finalrun.sh [tier] [ids...] — run the checks one after another on the unchanged /repo (quiet machine), one result line each
# in /var/tmp/final/RESULTS.txt; then re-pin the obligation sets of the green ones.
cd /verif
tier="${1:-quick}"; shift
ids="$@"; [ -z "$ids" ] && ids=$(for i in $(seq 1 20); do printf 'C%02d ' $i; done)
mkdir -p /var/tmp/final
for p in $ids; do
  t0=$(date +%s)
  out=$(./check $p --tier $tier 2>&1); rc=$?
  t1=$(date +%s)
  echo "$out" > /var/tmp/final/$p.log
  echo "$p rc=$rc $((t1-t0))s $(echo "$out" | grep -m1 '^VIOLATION' || echo "$out" | tail -1)" | cut -c1-300 | tee -a /var/tmp/final/RESULTS.txt
  [ $rc -eq 0 ] && python3 tools/pin.py $p >/dev/null
done
