"""C11 — PPP control protocols (LCP, IPCP, IPv6CP) open only on mutual agreement and always terminate."""
import glob
import os

import verif as V

PROP = "C11"
SPEC = "Bng.Spec.C11"
MON = ["opened-without-agreement", "stays-opened", "id-mismatch", "ack-options", "nak-options", "ipcp-address",
       "no-termination", "timer-armed"]
COMPS = [
    V.Component(p, harness="ncp", drv=p, monitors=MON, corpus=p, exec_env={"NCP_PROTO": p}, drv_bin="bngdrv-ncp")
    for p in ("lcp", "ipcp", "ipv6cp")
]
LEVEL = ("Theorems over ALL event sequences (administrative events, packets with arbitrary identifiers and option lists, "
         "timer expiries, stale expiries) for an executable automaton that INTERPRETS transition tables regenerated from "
         "pkg/pppoe/{lcp,ipcp,ipv6cp}.go by a go/ast translator on every run (finite table facts by `decide +kernel`, the "
         "rest by induction over the event list); option classification, identifiers (UInt8), restart counter (Int) and "
         "timer instances are hand-written and tied to the real LCPStateMachine/IPCPStateMachine/IPV6CPStateMachine by "
         "differential execution (random walks + breadth-first exploration with state fingerprinting); the C11 monitor "
         "judges the real automata's reported states and sent packets.")
ASSUME = [
    "translator harness/cmd/extractfsm: that the emitted tables say what the Go switch bodies say (it refuses anything "
    "outside its subset; the tables are also exercised by the correspondence run)",
    "each method runs under the automaton's mutex: one event = one atomic step; a restart-timer callback that races "
    "Stop() is the explicit event `stale`",
    "magic numbers / interface identifiers drawn from crypto/rand are symbolic (`o` = the automaton's own current value, "
    "`*` = fresh); a peer value equal to ours by chance other than through `o` is not modelled",
    "IPCP's IPPool is an external component: what Allocate answers is a parameter of the run (op `pool`, a scripted "
    "pppoe.IPPoolAllocator in the harness); `assigned` = configured / SetPeerIP / allocated and not yet released",
    "option bytes: well-formed lists, one option with an impossible length, and a stray trailing byte; the harness "
    "compares the BYTES of every Configure-Ack with the request's (decoder robustness beyond that is property C09)",
    "silent peer: `_silent_peer_quiet` (no timer armed after MaxConfigure+1 expiries) holds unconditionally; that the "
    "automaton also LEAVES the timer-driven states is proved only under WaitOk (finding KF-ncp-timer-stopped-early)",
    "the translator's sweep for writes to the automaton's fields outside the translated methods is syntactic (receiver / "
    "parameter names, field names unique to the automata, state constants); processConfigureOptions and "
    "storePeerOptions are hand-modelled and tied by the differential run only",
]
GEN = os.path.join(V.LEAN, "Bng", "Gen")


def regenerate(ctx):
    """translator: re-extract the tables from V.REPO's working tree at the start of every run.  extractfsm writes each
    table to a temporary file and renames it over the old one; a table whose source it rejects is removed."""
    with V.Lock("lean"):
        for f in glob.glob(os.path.join(GEN, "Fsm*.lean.tmp")):
            os.remove(f)
        with V.Lock("gomod"):
            rc, out = V.sh(["go", "run", "./cmd/extractfsm", "-repo", V.REPO, "-out", GEN], cwd=V.HARNESS, env=V.env_go())
    if rc != 0:
        msg = "; ".join(l for l in out.splitlines() if l.startswith("extractfsm:") and "wrote" not in l) or out[-800:]
        ctx.broken.append(("translator", "extract fsm failed: " + msg))
        # No regenerated tables, hence no bngdrv-ncp.  The obligation stays broken; for the SEARCH ONLY fall back to
        # the committed reference tables (lean/Bng/GenRef, driver bngdrv-ncp-ref) so that the correspondence run and
        # the monitors can still produce a concrete failing input for the refused source.
        for c in COMPS:
            c.drv_bin = "bngdrv-ncp-ref"
        ctx.notes.append("translator refused the source: search runs on the reference tables lean/Bng/GenRef (bngdrv-ncp-ref)")
    else:
        for c in COMPS:
            c.drv_bin = "bngdrv-ncp"
        if os.path.realpath(V.REPO) == "/repo":
            for f in sorted(glob.glob(os.path.join(GEN, "Fsm*.lean"))):
                ref = os.path.join(V.LEAN, "Bng", "GenRef", os.path.basename(f))
                body = lambda p: [l.replace("Bng.GenRef", "Bng.Gen") for l in open(p) if not l.startswith("--")]
                if not os.path.exists(ref) or body(f) != body(ref):
                    print("NOTE: lean/Bng/GenRef/%s differs from the regenerated table; run tools/refresh-genref.sh and commit"
                          % os.path.basename(f))
                    ctx.notes.append("GenRef/%s is stale" % os.path.basename(f))
    ctx.notes.append("extractfsm rc=%d" % rc)


def run(tier, seed):
    return V.standard_check(PROP, SPEC, COMPS, LEVEL, ASSUME, tier, seed, pre=regenerate)


def replay(path):
    return V.replay(PROP, COMPS, path, SPEC)
