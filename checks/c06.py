"""C06 — userspace and eBPF programs agree on every map layout and key encoding."""
import hashlib
import os
import shutil

import verif as V

PROP = "C06"
SPEC = "Bng.Spec.C06"
MON = ["size", "offset", "width", "byteorder", "key", "field"]
GEN = os.path.join(V.LEAN, "Bng", "Gen", "Layout.lean")
SHIM = os.path.join(V.VERIF, "cshim-layout")

COMP = V.Component("layout", harness="layoutbytes", drv="layout", monitors=MON, drv_bin="bngdrv-layout")
COMPS = [COMP]

LEVEL = ("The layout tables (every C record of bpf/*.c as laid out by clang, the encoding/binary image of every Go "
         "key/value type, every Put/Update/Lookup/Delete/Next call on a *ebpf.Map with its static types, every "
         "coll.Maps[\"name\"] binding) are REGENERATED from /repo's working tree on every run; the theorems of "
         "Bng.Spec.C06 over them (every use agrees, fits the map, names agree, every mirror covered, events agree, "
         "per-CPU reads) are closed by `decide`, so a tree in which a Go image and a C record disagree fails to check. "
         "agrees_image proves that agreeing layouts yield identical bytes for all field contents; the key derivations "
         "(MAC->u64 in four implementations, VLAN pair, circuit-id key, ALG key, allowed-destination key) are proved "
         "equal / characterised for ALL inputs; ipField_wire/portField_wire prove what each side believes an IPv4/port "
         "field holds (they differ: D10, KF-C06-port-order). Tie: real kernel maps created with the C-declared sizes, "
         "written through cilium by typed values and by the real manager methods, raw bytes read back; the unmodified "
         "C programs compiled natively report the raw key bytes of every lookup and what they emit for Go-written values. "
         "READING direction (repo ac77db8, purgeSubscriberState): every MapIterator.Next use is replayed as a typed iteration "
         "(key AND value decoded by the Go types, key handed back to Delete) on raw entries; `x purge` puts the session / "
         "reverse entry / EIM mapping the compiled nat44_egress wrote into real maps, runs the real DeallocateNAT and "
         "observes what Go decoded and which entries are left (purge_follows_subscriber_nat_entry, purge_misses_own_wire_address).")
ASSUME = [
    "the layout translator (harness/cmd/extractlayout: clang record-layout dump + regex over map declarations + go/types) "
    "emits what the sources say; mitigated by the compiled size probe, the typed put/get correspondence on real kernel maps "
    "and the DIFF check of every model against the natively compiled programs",
    "x86-64 clang lays the records of bpf/*.c out as the BPF back end does (same integer widths/alignments, little-endian)",
    "cilium/ebpf marshalling is observed through real kernel maps, not modelled; kernel map semantics (hash = byte equality, "
    "LPM = memory-order prefix) are assumed",
    "C-side belief about IPv4/port fields (KeyEnc.d10Fields / portOrderFields) was derived by reading the C sources; every "
    "listed tuple is confirmed per run by executing the natively compiled program (DIFF if a program starts converting)",
    "walled-garden maps have no kernel program in bpf/: only the Go side of their keys is characterised",
    "event records (ring buffer / perf buffer) are compared as layouts only: the Go code has no reader yet",
]

_state = {}


def _sha(path):
    try:
        return hashlib.sha1(open(path, "rb").read()).hexdigest()
    except OSError:
        return None


def regenerate(ctx):
    """delete the old generated table, rebuild it from REPO's working tree, build the native key-capture runners"""
    layout_json = os.path.join(ctx.scratch, "layout.json")
    ckeys = os.path.join(ctx.scratch, "ck")
    xl = os.path.join(ctx.scratch, "xl")
    for d in (ckeys, xl):
        os.makedirs(d, exist_ok=True)
    COMP.exec_env = {"VERIF_LAYOUT_JSON": layout_json, "VERIF_CKEYS_DIR": ckeys}
    exe = ctx.go_build("extractlayout")
    with V.Lock("lean"):
        try:
            os.remove(GEN)
        except OSError:
            pass
        if exe is None:
            ctx.broken.append(("translator", "extractlayout does not build"))
            return False
        rc, out = V.sh([exe, "-repo", os.path.realpath(V.REPO), "-shim", SHIM, "-scratch", xl, "-lean", GEN,
                        "-json", layout_json, "-ckeys", ckeys], env=V.env_go())
    if rc != 0:
        msg = " ".join(out.strip().splitlines()[:6])[:1200]
        ctx.broken.append(("translator", "extractlayout failed (exit %d): %s" % (rc, msg)))
        try:
            os.remove(GEN)
        except OSError:
            pass
        return False
    ctx.notes.append(out.strip().splitlines()[-1])
    _state["gen_sha"] = _sha(GEN)
    return True


def pre(ctx):
    regenerate(ctx)


def post(ctx):
    # another run of this check (e.g. against a scratch worktree) may have regenerated the shared table meanwhile
    if _state.get("gen_sha") and _sha(GEN) != _state["gen_sha"]:
        ctx.broken.append(("translator", "lean/Bng/Gen/Layout.lean was regenerated by a concurrent run of this check; re-run"))


def run(tier, seed):
    return V.standard_check(PROP, SPEC, COMPS, LEVEL, ASSUME, tier, seed, pre=pre, post=post)


def replay(path):
    ctx = V.Ctx(PROP, "quick", 0)
    try:
        if not regenerate(ctx):
            print("translator failed:", ctx.broken)
            return 1
        os.environ.update(COMP.exec_env)   # V.replay starts the harness with the inherited environment
        return V.replay(PROP, COMPS, path, SPEC)
    finally:
        ctx.cleanup()
