"""C07, nat44 part — NOT a property check of its own: a module for checks/c07.py to plug in.

How to plug it into checks/c07.py (three additive lines):

    import os, sys
    sys.path.insert(0, os.path.dirname(os.path.abspath(__file__)))
    import c07_nat44
    SPEC  = [...the other C07 Spec modules...] + c07_nat44.SPEC          # list of Lean Spec module names
    COMPS = [...the other C07 components...]   + c07_nat44.COMPS         # list of V.Component
    ASSUME = [...] + c07_nat44.ASSUME                                    # (optional) assumptions for the evidence
    def pre(ctx):
        ...                      # the other programs' runners
        c07_nat44.pre(ctx)       # builds runprog-nat44 from the repository's WORKING TREE, sets CSHIM_RUNNER_NAT44
    V.standard_check(PROP, SPEC, COMPS, LEVEL, ASSUME, tier, seed, pre=pre)

What it contributes
  * Spec module Bng.Spec.C07Nat44: for nat44_egress, nat44_ingress, nat44_hairpin_xdp the theorems
    `<p>_no_fault`, `<p>_defined_verdict`, `<p>_pass_unmodified` (+ length / shot / other-traffic / writes-confined
    theorems) over ALL frames, map contents and clock values.
  * component `nat44`: harness/cmd/nat44 drives the UNMODIFIED bpf/nat44.c compiled natively (cshim, ASan+UBSan,
    frame flush against a guard page); bngdrv component `nat44` replays the trace on the byte-level model
    (verdict + output bytes + number of ring-buffer records must agree; a native FAULT the model does not
    predict is a DIFF with that frame) and evaluates the monitors `fault`, `undefined-verdict`, `pass-modified`,
    `outside-write` on the NATIVE observations.
  * corpus/nat44/*.ops: witness of the fixed finding D-nat44-ihl and the basic translation round trip.

Standalone use while developing: copy this file to checks/c07n.py, add
    PROP = "C07"; run = lambda tier, seed: V.standard_check(PROP, SPEC, COMPS, LEVEL, ASSUME, tier, seed, pre=pre)
and run `./check C07N`.
"""
import os
import sys

sys.path.insert(0, os.path.join(os.path.dirname(os.path.dirname(os.path.abspath(__file__))), "lib"))
import verif as V   # noqa: E402
import cshim        # noqa: E402

SPEC = ["Bng.Spec.C07Nat44"]
MON = ["fault", "undefined-verdict", "pass-modified", "outside-write"]
COMP = V.Component("nat44", harness="nat44", drv="nat44", monitors=MON)
COMPS = [COMP]

LEVEL = ("nat44: memory safety (every packet load/store inside [0,size)), defined verdicts and pass-means-unmodified are "
         "theorems over a byte-level Lean model of nat44_egress / nat44_ingress / nat44_hairpin_xdp for ALL frames "
         "(every length and content), all map contents and clock values; the model is tied to the unmodified C program, "
         "compiled natively under ASan/UBSan with the frame flush against a guard page, by differential execution "
         "(verdict, output bytes, number of log records) over structured frames truncated at every offset, lengths "
         "0..1600, random bytes, byte mutations and evolving map states.")
ASSUME = [
    "nat44: clang's native x86-64 code generation (-O1, ASan/UBSan) stands for the BPF back end; the in-kernel verifier is not run",
    "nat44: map helpers are the user-space shim's (hash/LRU/array semantics, one CPU, no LRU eviction at the generated sizes); "
    "the BPF_NOEXIST race branch of get_eim_mapping needs a second CPU and is not modelled",
    "nat44: nat_stats_map counters, byte/packet counters, TCP state and the content of ring-buffer records are not modelled "
    "(they do not influence packet bytes or verdicts); skb->len = length of the linear frame",
]


def pre(ctx):
    """build runprog-nat44 from the repository's working tree; failure marks the check broken"""
    path = cshim.build_runner(ctx, "nat44")
    COMP.exec_env[cshim.env_name("nat44")] = path or ""
