"""C16, DHCPv4 paths — component `dhcpterm` (loaded by checks/c16.py).

The real dhcp.Server runs with the real nat.Manager, qos.Manager and ebpf.Loader (all of them writing into real kernel
maps through their verif hooks) and the real radius.Client against a loopback accounting server, inside a
testing/synctest bubble (virtual clock).  After every operation the lease table, the pool, the NAT allocations
(manager table and subscriber_nat), the QoS entries (both directions and the manager's count), the keys of the four
fast-path cache maps and the accounting records received so far are read back, compared with the model
Bng.DhcpTerm and judged by its residue monitor.

PROVEN / FINDING matrix (path x resource) on the code after the two fix: commits of this component:

                          address    NAT block  QoS policy  cache mac  cache vlan  cache circuit  Acct-Stop       twice / at once
  RELEASE      (lease)    proved     proved     proved      proved     proved(*)   proved         exactly one     identity
  DECLINE      (lease)    proved(q)  proved F   proved F    proved     proved(*)   proved         exactly one F   identity
  expiry+cleanup (lease)  proved     proved F   proved F    proved     proved(*)   proved         exactly one F   identity
  cleanup with a RELEASE/DECLINE/cleanup in its unlock window, two of RELEASE/DECLINE/cleanup at once:
                          as the row of whichever of the two ends the session (residue_free_gap, residue_free_split)
  any path, DISCOVER only KNOWN KF-dhcp4-offer-pinned (C02's finding): the pool binding stays for ever; nothing else exists
  any path, nothing held  identity
  a termination inside the unlock window of the client's own REQUEST (handleRequest drops the lease lock right after the
  lease insert): KNOWN KF-dhcp4-establish-race: NAT, QoS, cache mac + circuit and the circuit-id index entry stay for ever,
                          the Accounting-Stop precedes the Start (driven through the verif hook c2c1600, op `estgap`);
                          the clause covers that MAC at that operation only.  What the stale index entry does later (the next
                          relayed REQUEST "renews" the dead lease): KNOWN KF-dhcp4-stale-index-revival (double-stop,
                          addr-not-returned of a lease made from a stale entry)
  shutdown                KNOWN KF-dhcp4-shutdown-residue: nothing is torn down, no Accounting-Stop
  an install that fails   (op `fault qe|qi|nat|sub|cidmap|cid|vlan on`: the kernel map has no free slot): the session
                          carries on with a partial set of entries; every row above holds all the same (the fault ops
                          are operations of the theorems)
  a removal that fails    (op `wfault sub|cidmap|cid on`: every write through the Loader's handle of that cache map
                          fails): KNOWN KF-cache-delete-ignored: the error is logged or not even looked at, the entry
                          outlives its session and the fast path keeps answering from it; the clause covers the keys of
                          the write-protected map at the operation that orphans them only

  F = finding D46, fixed in /repo by ff76ae1 (DECLINE) and 35938e6 (expiry); (q) = quarantined, not free, after DECLINE;
  (*) = no code path of pkg/dhcp sets Lease.STag/CTag, the server never writes vlan_subscriber_pools.
"""
import verif as V

COMPS = [
    V.Component("dhcpterm", kind="gotest",
                monitors=["addr-not-returned", "nat-residue", "qos-residue", "cache-residue", "index-residue",
                          "missing-stop", "double-stop", "stop-unstarted", "second-end-effect", "view-skew", "obs-roundtrip"]),
]
SPEC = ["Bng.Spec.C16Dhcp", "Bng.Spec.C16DhcpMon"]

LEVEL = ("DHCPv4: for ALL histories of DISCOVER / REQUEST (new session, renewal, renewal under another circuit-id) / "
         "RELEASE / DECLINE / clock ticks / cleanup passes / interleaved and simultaneous terminations the Lean model of "
         "dhcp.Server keeps the invariant 'every pool binding of a lease, NAT block, QoS entry, cache key and open "
         "accounting session is owned by a live lease'; whichever termination ends a session leaves nothing of it "
         "(residue_free), closes its accounting session with exactly one Stop (exactly_one_stop_if_started, "
         "never_two_stops, no_missing_stop) and a second termination is the identity (idempotent, at_once_is_once). "
         "The model is tied to the real server + NAT/QoS managers + loader + RADIUS client by differential execution.")

ASSUME = [
    "C16/DHCPv4 matrix (path x resource), code after ff76ae1+35938e6: RELEASE, DECLINE, expiry+cleanup with a lease: address "
    "(free list; quarantined after DECLINE), NAT block, QoS policy, cache keys by MAC / VLAN pair / circuit-id (both circuit "
    "maps), exactly one Accounting-Stop, second termination = identity: PROVED for all histories; DECLINE and expiry x "
    "{NAT, QoS, Accounting-Stop} were finding D46 (fixed); every path at the DISCOVER-only prefix x address: KNOWN "
    "KF-dhcp4-offer-pinned; shutdown x every resource: KNOWN KF-dhcp4-shutdown-residue; RELEASE/DECLINE inside the unlock "
    "window of the client's own REQUEST x {NAT, QoS, cache mac, cache circuit, circuit-id index, accounting order}: KNOWN "
    "KF-dhcp4-establish-race (the theorems speak about histories in which a REQUEST is one step: residue_free_partial); a "
    "lease made from the stale index entry such a race leaves x {second Stop, address}: KNOWN KF-dhcp4-stale-index-revival; "
    "both clauses hold for the operation / the lease that shows the mechanism only, nothing is tainted for the rest of a sequence",
    "dhcpterm: clients with hardware addresses of 1, 5, 7 and 16 bytes are part of the generator (finding D60-expiry-odd-hlen, "
    "fixed by 2d9d12b; KF-radius-short-chaddr-panic, fixed by 2526db0); at most one address shorter than 6 bytes per run, "
    "because ebpf.MACToUint64 maps every such address to the cache key 0",
    "dhcpterm: circuit-ids are private to a MAC (a shared circuit-id aliases two leases through leasesByCircuitID: finding D9 "
    "of C02), so the circuit-id index is not modelled; one pool of 8 addresses; RADIUS authentication off; the QoS policy "
    "exists and the NAT port pool never runs out; a QoS / NAT install that fails because a kernel map is full IS covered (op "
    "`fault qe|qi|nat on|off`: real maps kept full by filler keys; model State.qosHalf - egress bucket written, ingress Put "
    "failed, untracked; a failed subscriber_nat Put leaves nothing): every termination removes both QoS entries unconditionally; the accounting server answers every request (an unanswered Stop is C08's subject)",
    "dhcpterm: failing writes of the fast-path cache maps: Put failures = the map (subscriber_pools, circuit_id_map, "
    "circuit_id_subscribers, vlan_subscriber_pools; 32 slots here) is kept full by filler keys (`fault sub|cidmap|cid|vlan`): "
    "a Put of a NEW key fails, an update works, and a Delete earlier in the same call frees the slot the next Put takes "
    "(model: putK / recache) - these ops belong to `Op`, all theorems and monitor_silent_on_model cover them; Delete failures = "
    "the handle the Loader holds is swapped (through the existing hook SetMapsForVerif) for a closed duplicate of the map's "
    "descriptor (`wfault sub|cidmap|cid`): EVERY write through it fails, Put and Delete alike, until the real handle is put "
    "back - a failing Delete alone (Put working) is not produced; these ops are `OpX.wfault`, outside the theorems' `Op` "
    "(Inv.ro), the model carries the residue and the finding KF-cache-delete-ignored accounts for it (clause per map and "
    "operation, Bng.DhcpTerm.clCache); failing Deletes of the QoS maps are driven in component qos (C19), of subscriber_nat "
    "not at all",
    "dhcpterm: Accounting-Start and Accounting-Stop are sent from goroutines of their own; the harness waits for them after "
    "every operation, so their order on the wire (a Stop overtaking its Start) is not explored",
    "dhcpterm: two terminations at once are realised on the real code by stalling the first one's goroutine at the NAT "
    "manager's pool lock (after it took the lease and removed the QoS entry) while the second runs; the model places the "
    "second one right after the first dropped the lease lock; pairs in which the second would need the held lock (it ends "
    "another live session) are refused by harness and driver alike; a termination inside an establishment's unlock window "
    "is the op `estgap`; an ESTABLISHMENT inside the TAIL of a termination is not explored",
    "dhcpterm: the VLAN-pair cache is observed (it must stay empty): no code path of pkg/dhcp sets Lease.STag/CTag",
    "dhcpterm: the monitor is the pure function Bng.DhcpTerm.monitorCore over structured observations; Spec.C16DhcpMon."
    "monitor_silent_on_model proves that on EVERY history of the model's operations with atomic establishment it raises "
    "nothing but KF-dhcp4-offer-pinned / KF-dhcp4-shutdown-residue (all clauses); histories with a raced establishment "
    "(estgap) and the two clauses KF-dhcp4-establish-race / KF-dhcp4-stale-index-revival are validated by the runs and the "
    "witness theorems only; the string layer is cross-checked on every line (parseSnap (showSnapshot s) = obsOf s, verdict "
    "obs-roundtrip); residue is judged globally: an entry that no lease accounts for and that was not already an orphan "
    "before the operation; the monitor fires nat-residue / qos-residue / missing-stop on the tree before ff76ae1 and, for "
    "clients with a chaddr that is not 6 bytes long, with 2d9d12b reverted",
]
