"""C19 — rate limiter admits no more than the contract and never starves a subscriber."""
import verif as V
import locks
import cshim

PROP = "C19"
SPEC = ["Bng.Spec.C19", "Bng.Spec.C19Locks"]
MON = ["over-admit", "starved", "zero-rate", "policy"]
COMP = V.Component("qos", monitors=MON)
COMPS = [COMP]
LEVEL = ("Upper bound (admitted <= burst + rate*window for every arrival sequence, window and starting bucket), "
         "rate-0-is-unlimited, the exact accounting of the lower bound and policy enforcement (the bytes SetSubscriberQoS / "
         "SetSubscriberPolicy write — also after a policy was REdefined and re-applied by name — are the bucket the TC "
         "programs judge by; a removed policy is not enforced) are theorems over a Lean model of token_bucket_check in "
         "exact UInt64 arithmetic, of both TC programs' lookup and of the manager as a writer of map bytes. The "
         "model is tied to the code by differential execution: the real qos.Manager writes into REAL kernel maps, "
         "the raw bytes are handed to bpf/qos_ratelimit.c compiled natively (clang, ASan+UBSan, scripted "
         "bpf_ktime_get_ns), verdict sequences and bucket bytes are compared with the model, and the exact "
         "(rational, scaled by 8e9) reference bucket of the property judges the C program's verdicts. The lower "
         "bound is false for the code (finding D52: starvation by truncation); served_ge_partial proves it under "
         "the negated exclusion clause and D52_witness / D52_starvation_unbounded prove the defect on the model.")
ASSUME = [
    "clang's x86-64 code generation stands in for the BPF back end; the in-kernel verifier is not exercised",
    "kernel map semantics and bpf_ktime_get_ns are modelled as a byte table and a scripted monotonic clock (cshim)",
    "one CPU: concurrent updates of one bucket from several CPUs (the C code takes no lock) are not modelled",
    "policy_enforced is stated for untagged Ethernet II / IPv4 frames; IPv6 and encapsulated IPv4 are finding "
    "KF-qos-unclassified (the generator sends them against installed policies); skb->len is an input",
    "Backlogged forces offered packets <= burst; packets larger than the burst are finding KF-qos-burst-lt-pkt",
    "control plane driven: PolicyManager.AddPolicy (incl. redefinition) / RemovePolicy, Manager.SetSubscriberPolicy, "
    "SetSubscriberQoS, RemoveSubscriberQoS, GetSubscriberCount in arbitrary orders; LoadDefaultPolicies (a static table) is not",
    "expected burst in both directions: the policy's, or the default rule (1 s of that direction's traffic, min 64KB, "
    "cap 10MB) when it is 0",
    "backlogged = every gap earns at most the previously offered packet and cannot overflow the bucket "
    "(Bng.TokenBucket.Backlogged, decidable from the arrival sequence)",
]
ASSUME = ASSUME + [locks.ASSUME]


def pre(ctx):
    path = cshim.build_runner(ctx, "qos_ratelimit")
    COMP.exec_env[cshim.env_name("qos_ratelimit")] = path or "/nonexistent"


def run(tier, seed):
    return V.standard_check(PROP, SPEC, COMPS, LEVEL, ASSUME, tier, seed, pre=locks.with_locks(pre))


def replay(path):
    ctx = V.Ctx(PROP, "quick", 0)
    try:
        pre(ctx)
        return V.replay(PROP, COMPS, path, SPEC, pre=locks.with_locks())
    finally:
        ctx.cleanup()
