"""C19 — rate limiter admits no more than the contract and never starves a subscriber."""
import verif as V
import locks
import cshim

PROP = "C19"
SPEC = ["Bng.Spec.C19", "Bng.Spec.C19Locks", "Bng.Spec.C19Race"]
MON = ["over-admit", "starved", "zero-rate", "policy"]
COMP = V.Component("qos", monitors=MON)
COMPS = [COMP]
LEVEL = ("Upper bound (admitted <= burst + rate*window for every arrival sequence, window and starting bucket), "
         "rate-0-is-unlimited, the exact accounting of the lower bound and policy enforcement (the bytes SetSubscriberQoS / "
         "SetSubscriberPolicy write — also after a policy was REdefined and re-applied by name — are the bucket the TC "
         "programs judge by; a removed policy is not enforced) are theorems over a Lean model of token_bucket_check in "
         "exact UInt64 arithmetic, of both TC programs' lookup and of the manager as a writer of map bytes. The "
         "model is tied to the code by differential execution: the real qos.Manager writes into REAL kernel maps, "
         "the raw bytes are handed to bpf/qos_ratelimit.c compiled natively (clang, ASan+UBSan, scripted "
         "bpf_ktime_get_ns), verdict sequences and bucket bytes are compared with the model, and the exact "
         "(rational, scaled by 8e9) reference bucket of the property judges the C program's verdicts. The lower "
         "bound is false for the code (finding D52: starvation by truncation); served_ge_partial proves it under "
         "the negated exclusion clause and D52_witness / D52_starvation_unbounded prove the defect on the model.")
ASSUME = [
    "clang's x86-64 code generation stands in for the BPF back end; the in-kernel verifier is not exercised",
    "kernel map semantics and bpf_ktime_get_ns are modelled as a byte table and a scripted monotonic clock (cshim)",
    "one CPU: concurrent updates of one bucket from several CPUs (the C code takes no lock) are not modelled",
    "policy_enforced is stated for untagged Ethernet II / IPv4 frames; IPv6 and encapsulated IPv4 are finding "
    "KF-qos-unclassified (the generator sends them against installed policies); skb->len is an input",
    "Backlogged forces offered packets <= burst; packets larger than the burst are finding KF-qos-burst-lt-pkt",
    "control plane driven: PolicyManager.AddPolicy (incl. redefinition) / RemovePolicy, Manager.SetSubscriberPolicy, "
    "SetSubscriberQoS, RemoveSubscriberQoS, GetSubscriberCount in arbitrary orders; LoadDefaultPolicies (a static table) is not",
    "expected burst in both directions: the policy's, or the default rule (1 s of that direction's traffic, min 64KB, "
    "cap 10MB) when it is 0",
    "backlogged = every gap earns at most the previously offered packet and cannot overflow the bucket "
    "(Bng.TokenBucket.Backlogged, decidable from the arrival sequence)",
    "two control-plane calls at once (op `race <word over A,B> <call> / <call>`): SetSubscriberQoS / RemoveSubscriberQoS are "
    "driven write by write on goroutines of their own, parked between their writes by the verif hook c40da54; every schedule "
    "of the 3+3 writes for Set/Remove and Remove/Set on one address (with and without an installed policy), a rotation of "
    "Set/Set, Remove/Remove and two-address pairs; the model is the manager WITH its lock (fix 01bf152: a call that finds "
    "the lock taken is reported `blocked` and does not move), Spec.C19Race.locked_calls_are_serial proves every schedule "
    "ends as one call after the other, the unlocked witnesses A1_* are what the real code did before the fix; the `policy` "
    "monitor judges the implementation's line alone: per address both entries of one of the two orders (or none) and that "
    "order's subscriber count",
    "map writes that fail (op `wfault e|i on|off`: the manager's handle is swapped, through the existing SetMapsForVerif "
    "hook, for a closed duplicate of the map's descriptor - every Put AND every Delete through it fails; a failing Delete "
    "alone is not produced): findings KF-qos-delete-ignored and KF-qos-half-install, each carried only by the verdict about an "
    "entry of the write-protected direction; `race` is refused while a handle is write-protected",
]
ASSUME = ASSUME + [locks.ASSUME]


def pre(ctx):
    path = cshim.build_runner(ctx, "qos_ratelimit")
    COMP.exec_env[cshim.env_name("qos_ratelimit")] = path or "/nonexistent"


def run(tier, seed):
    return V.standard_check(PROP, SPEC, COMPS, LEVEL, ASSUME, tier, seed, pre=locks.with_locks(pre))


def replay(path):
    ctx = V.Ctx(PROP, "quick", 0)
    try:
        pre(ctx)
        return V.replay(PROP, COMPS, path, SPEC, pre=locks.with_locks())
    finally:
        ctx.cleanup()
