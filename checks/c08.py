"""C08 — every started session is accounted to a Stop, across outages and crashes."""
import verif as V

PROP = "C08"
SPEC = "Bng.Spec.C08"
MON = ["stop-unstarted", "stop-before-start", "dup-stop", "lost-stop", "identifiers", "gigawords"]
COMPS = [
    V.Component("acct", monitors=MON),
]
LEVEL = ("Theorems over a small-step model of radius.AccountingManager in which every API call is split at each "
         "transmit/persist/remove point of the Go code (the verifCrashPoint markers), the RADIUS server's answer is a "
         "parameter of every transmitting step and `crash` may follow any step: they quantify over ALL histories, up/down "
         "vectors and crash points. The model is tied to the real code by differential execution against a real UDP RADIUS "
         "server on loopback (marker numbers, accepted-record stream, persistence directory and retry map compared op by op), "
         "and the monitor judges the server-side record stream of the REAL code.")
ASSUME = [
    "API calls, processor steps and the shutdown drain are serialised (one call in progress at a time); a crash may "
    "strike between any two micro-steps of it. Interleavings of the background processor with a call in progress are not modelled",
    "the retry schedule (NextRetry back-off) and the interim ticker are not modelled: `retry` retries every record of the map "
    "(the harness configures 1 ns delays so that all are due), `interim` is one due session",
    "a failed request = the client returns an error at once (closed port, ECONNREFUSED); a request the server accepted is "
    "acknowledged to the client (no lost replies)",
    "session ids are not reused (RADIUS requires Acct-Session-Id to be unique); the generators never start an id twice",
    "os.WriteFile/os.Remove are atomic and durable at their markers; JSON round trip of the persisted structs is exercised "
    "by the harness, not modelled",
    "known findings (not repaired): D24, KF-acct-recovery-volatile, KF-acct-start-window — see known_findings.json",
]


def run(tier, seed):
    return V.standard_check(PROP, SPEC, COMPS, LEVEL, ASSUME, tier, seed)


def replay(path):
    return V.replay(PROP, COMPS, path)
