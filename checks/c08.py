"""C08 — every started session is accounted to a Stop, across outages and crashes."""
import verif as V
import locks

PROP = "C08"
SPEC = ["Bng.Spec.C08", "Bng.Spec.C08Names"] + ["Bng.Spec.C08Locks"]
MON = ["stop-unstarted", "stop-before-start", "dup-stop", "lost-stop", "identifiers", "gigawords"]
COMPS = [
    V.Component("acct", monitors=MON),
    # the retry schedule with time: the real AccountingManager under testing/synctest's virtual clock against a real
    # UDP server (model Bng.AcctBackoff); correspondence only, the monitors judge component acct
    V.Component("acctretry", kind="gotest", monitors=[]),
    # the REAL session paths (dhcp.Server REQUEST/RELEASE, pppoe.SessionTeardown PADT) with the real radius.Client
    # against an accounting server that can be down when a session ends (model Bng.AcctDirect)
    V.Component("acctdirect", monitors=["lost-stop", "dup-stop", "identifiers"]),
]
LEVEL = ("Theorems over a small-step model of radius.AccountingManager with THREE program counters (API call, background "
         "processor, interim goroutine): every API call (StartSession, StopSession, Stop(), recovery), every step of the "
         "processor and every interim update is split at each transmit/persist/remove point of the Go code (the "
         "verifCrashPoint markers), processor steps and interim updates interleave with the API call in progress (in "
         "particular StopSession may complete between an interim update's send and its acknowledgement), the RADIUS server's answer (accepted+acknowledged | not received | accepted but the client "
         "sees a failure) is a parameter of every transmitting step, and `crash`/`crashTorn` (crash in the middle of a file "
         "write) may follow any step: the theorems quantify over ALL histories, answer vectors, interleavings and crash points. "
         "The model is tied to the real code by differential execution against a real UDP RADIUS server on loopback (marker "
         "numbers, accepted-record stream with acknowledgement flags, persistence directory, retry map and abandoned records "
         "compared op by op; processor steps injected at the markers of a call in progress), and the monitor judges the "
         "server-side record stream of the REAL code. The retry schedule with time (back-off, strict NextRetry gate, "
         "retry budget) is a second model (Bng.AcctBackoff) run against the real code under a virtual clock.")
ASSUME = [
    "the harness interleaves WHOLE processor steps (deq / retry, themselves split at their markers 7/8) at the markers "
    "1-6, 17, 9, 19, 12 of an API call, and a WHOLE StopSession call at the marker of an interim update in flight "
    "(`@17:stop:...`: the update is parked in front of its send, i.e. it reaches the server after the Stop); the model is "
    "finer (any ptick/itick between any two ticks). A reply held back by the server while other calls run, and goroutine "
    "preemption inside a marker-free region, are not exercised; the Go race detector is not part of this check",
    "one API program counter: API calls (StartSession, StopSession, Stop()) overlapping each other are modelled only as "
    "`the second has no effect` (theorem overlapping_call_has_no_effect), which the code guarantees for a StopSession "
    "overlapping the StartSession / another StopSession of the SAME session (refused; nested by the harness at the markers "
    "1-6: `@m:stop:<sid>`). Overlapping calls of DIFFERENT sessions, and Stop() overlapping a StartSession, are executed "
    "by the code and are neither modelled nor driven",
    "the main model has no time: `retry` retries every record of the map (component acct configures 1 ns delays so that "
    "all are due). Time is covered by component acctretry only for single-thread schedules (no crash, no interleaving); "
    "the interim ticker is one due session per `interim` op (the loop over several due sessions in one pass is not modelled); "
    "the acknowledged counters are written to the session object the goroutine captured, which the model identifies with the "
    "session registered under that id (ids are not reused)",
    "answer `down` = the client returns an error at once (closed port, ECONNREFUSED); answer `lost` = the server records "
    "the request and the client gets an error (generated sequences: the server answers from a refused socket state; "
    "true silence until the client's timeout is exercised in the corpus only, with a 25 ms timeout)",
    "session ids are not reused (RADIUS requires Acct-Session-Id to be unique); the generators never start an id twice",
    "session ids are opaque in the model (numbers); what the CODE derives from the id string is covered separately: the file "
    "name (model Bng.AcctNames.fileName = url.PathEscape(id) + `.json`; theorems Bng.Spec.C08Names: injective, a plain entry "
    "of sessions/ for every byte string, always matched by the recovery's `.json` filter, never another session's `.tmp` file) "
    "is compared with the real directory listing in every `dur=` observation, and the model id of a session is the rank of "
    "its file name, so that the model's `recovery in id order` is the code's os.ReadDir order. Every generated sequence runs "
    "under one of 13 assignments of concrete ids to the tags s1..s9 drawn from the PRNG (harness/cmd/acct/gen.go idSchemes): "
    "the tags themselves; proper prefixes of one another in both directions (sub-1 / sub-10 / sub-100 ..); an id plus the "
    "suffixes .json / .tmp / .json.tmp / .json.json of another; glob metacharacters * ? [ ] { } and backslash; ids differing only in "
    "case; path separators and dot segments (a/b, ../x, ../pending, .., ., /abs, a/, a//b); percent signs (a%2Fb next to a/b); "
    "space, tab, comma, colon, pipe, quotes, <>&, two-byte UTF-8; record-id look-alikes (sub-1-2-1, -2-). Alphabet: printable "
    "ASCII, tab and valid UTF-8, 1 to 13 bytes. NOT exercised: the empty id, NUL and other control bytes, invalid UTF-8 (the "
    "JSON round trip of the session file replaces such bytes, so the recovered Stop would carry a different id), ids whose "
    "escaped name exceeds NAME_MAX (the persist then fails silently, r-gaps C6), a case-insensitive or normalising file "
    "system (ids differing only in case would then share a file). The ids of pending records (`<id>-<status>-<unixnano>`, "
    "the key of the retry map and of pending.json) are numbered by the harness in creation order and are fresh numbers in "
    "the model: two records of one session and status created within the same nanosecond would collide, which no run produces. "
    "Component acctretry keeps the tags as ids (it never crashes or restarts, so it never reads a file back); acctdirect "
    "persists nothing",
    "a file write is either complete, absent, or leaves an empty/truncated file that recovery treats as corrupt (crashTorn); "
    "rename and remove are atomic; there is no fsync in the code and power-loss reordering of rename vs data is not modelled. "
    "JSON round trip of the persisted structs is exercised by the harness, not modelled",
    "restart_drains is stated for `sufficiently many` micro-steps after the restart (an explicit bound, not a fairness result)",
    "the monitor (Bng/Model/AcctSpec.lean) and the Spec theorems are two statements of the property; their equivalence is "
    "not proved, both are run/proved against the same model",
    "radius.AccountingManager - the subject of components acct/acctretry and of all theorems but the `direct_*` ones - is "
    "not used by the DHCP and PPPoE servers (no caller of NewAccountingManager outside tests): on the real session paths "
    "only component acctdirect applies (direct send, finding KF-acct-direct-send). acctdirect drives RELEASE and PADT; "
    "DECLINE, lease expiry, admin termination and the DHCP Start lost during an outage go through the same direct send "
    "and are not driven here (C16's dhcpterm drives those paths with a server that is always up)",
    "fixed while building the id schemes: KF-acct-session-file-path (ids with `/` or dot segments were persisted outside "
    "sessions/ or in a sub-directory the recovery skips). "
    "known findings (not repaired): D24, KF-acct-recovery-volatile, KF-acct-start-window, KF-acct-direct-send — see known_findings.json",
]
ASSUME = ASSUME + [locks.ASSUME]


def run(tier, seed):
    return V.standard_check(PROP, SPEC, COMPS, LEVEL, ASSUME, tier, seed, pre=locks.with_locks())


def replay(path):
    return V.replay(PROP, COMPS, path, SPEC, pre=locks.with_locks())
