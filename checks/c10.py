"""C10 — CGNAT port blocks never overlap and are always attributable."""
import os
import sys

import verif as V
import locks

sys.path.insert(0, os.path.dirname(os.path.abspath(__file__)))
import c10_natkern  # noqa: E402  (kernel level: the real nat.Manager together with the natively compiled nat44.c)

PROP = "C10"
SPEC = ["Bng.Spec.C10", "Bng.Spec.C10Log"] + c10_natkern.SPEC + ["Bng.Spec.C10Locks"]
MON = ["overlap", "range", "stable", "attrib"]
COMPS = [
    V.Component("nat", monitors=MON),
] + c10_natkern.COMPS
LEVEL = ("No-overlap, in-range/size (no uint16 wrap), stable-until-released and log attribution (at most one "
         "answer, and it is the holder) are theorems over the Lean model of nat.Manager + the port-block records of "
         "nat.Logger for ALL histories of the code's critical sections (AllocateNAT is two steps, precheck and "
         "pool-lock section, so every interleaving of concurrent callers is a history) and every configuration "
         "NewManager accepts. The model is tied to the real Go code by differential "
         "execution (real Manager, real Logger writing JSON into a buffer); concurrent callers are placed between "
         "precheck and pool lock deterministically through a verif hook on the pool mutex; the C10 monitor judges "
         "the real code's answers and log records. The logger's buffer/flush split is exercised too: the harness can stop "
         "flushing after each call (`buffer`), park a Logger.Flush/FlushPortBlocks inside its first Write through a stalling "
         "writer (`flushhold`) while allocations and releases go on, and then let it finish and flush again (`flushrelease`); "
         "the `attrib` clause includes a record ledger (every observed allocation/release owes exactly one record; duplicates, "
         "strays and records missing after the final flush are failures), proved silent on the model (ledger_silent_on_model). "
         "Kernel-map failures: with `new … kern` a real kernel subscriber_nat map is attached and read back (`kmap`); `fault on` "
         "installs a closed duplicate of its handle so that every Put and Delete of the manager fails (model ops commitFail / "
         "allocFail / deallocFail; theorems failed_delete_keeps_block, failed_put_allocates_nothing, kernel_mirrors_table, "
         "kernel_blocks_disjoint; witness old_failed_delete_witness). Aliasing: `poke` ops write through the Allocation the API "
         "returned, over the address slices passed to AllocateNAT / AddPublicIP and over GetPoolStats' result; the model ignores "
         "them (poke_invisible) and every later observation must agree. Logger (Spec.C10Log over Model/NatLog): two concurrent "
         "flushes are placed through a verif hook on the logger's write lock (`flushpark`: one flush queued at the lock, an inline "
         "flush overtakes it), the writer can fail after n records (`wfail`), and in file mode (`bulkf`/`tradf`) the logger writes a "
         "real rotating file whose rotation is made to fail by renaming the directory away (`rotfail`); theorems "
         "records_kept_in_order, healthy_flush_writes_everything, file_is_oldest_records, flushed_file_attributes (the file after "
         "ANY interleaving of calls, flush halves and writer failures is the log of an earlier moment of the history and attributes "
         "every port to its holder at that moment), witnesses old_flush_reorders_witness / old_write_error_witness. "
         + c10_natkern.LEVEL)
ASSUME = [
    "each critical section is one atomic step (AllocateNAT: lookup under allocationMu.RLock, then everything under poolMu; "
    "DeallocateNAT and AddPublicIP: one section under poolMu); data races inside a critical section are not modelled",
    "configurations: the model has NewManager's defaults and validation on Go ints (newManager); the theorems hold for every "
    "configuration it accepts (accepted_is_valid); rejected ones (range outside 1-65535, block size outside 1-65535) are generated too and must answer `invalid`",
    "about half of the random sequences run with a real kernel subscriber_nat map (`kern`), the others with nil eBPF maps; a failing "
    "Put/Delete is produced by a closed duplicate of the map handle (EBADF), which fails BOTH while `fault on`; nat_sessions / nat_reverse / "
    "eim_table are attached in component natkern only; IPv6 arguments (rejected) are not generated",
    "log time = position in the log; the harness checks that record timestamps never go backwards; the deallocate record's duration_ms is not compared",
    "queued callers acquire the pool mutex in FIFO order (Go's sync.Mutex hands off to parked waiters in queue order)",
    "subscriber-id counter wrap at 2^32 is modelled but not reached",
    "the model's log is the sequence of records in emission order; the logger's buffering is modelled in the driver only (records of a "
    "`buffer` … `flushrelease` stretch are compared when flushed); at most 40 calls per stretch (below the logger's own 50-record auto-flush); "
    "the background flushLoop's ticker and Stop are not started: the ticker's flush is a goroutine the harness starts itself; that the inline "
    "flush overtakes the flush queued at the write lock relies on Go's sync.Mutex not handing the lock to a woken waiter in normal mode "
    "(a regression of the lock order is then seen with high probability, the fixed code answers the same either way)",
    "file mode: records are compared at `sync` only (when a record reaches the file depends on the byte length of the JSON lines before it); "
    "at most 4 calls while `rotfail on`, so that the backlog never spans two rotations - rotated files are named by the second and a second "
    "rotation within one second overwrites the first rotated file (not examined); compression, MaxAge clean-up and the syslog/CSV/NEL formats are not exercised",
] + c10_natkern.ASSUME
ASSUME = ASSUME + [locks.ASSUME]


def run(tier, seed):
    return V.standard_check(PROP, SPEC, COMPS, LEVEL, ASSUME, tier, seed, pre=locks.with_locks(c10_natkern.pre))


def replay(path):
    ctx = V.Ctx(PROP, "quick", 0)
    try:
        c10_natkern.pre(ctx)
        return V.replay(PROP, COMPS, path, SPEC, pre=locks.with_locks())
    finally:
        ctx.cleanup()
