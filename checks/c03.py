"""C03 — the kernel DHCP fast path answers exactly as the userspace server would."""
import verif as V
import cshim

PROP = "C03"
SPEC = "Bng.Spec.C03"
MON = ["malformed-reply", "reply-differs", "answers-after-end", "pass-modified"]
COMP = V.Component("xdpdhcp", harness="xdpdhcp", drv="xdpdhcp", monitors=MON, kind="gotest")
COMPS = [COMP]
LEVEL = ("Theorems over ALL frames (every length below 64 KiB, any content), all map contents / all slow-path histories "
         "and all clock values, about a byte-level Lean model of dhcp_fastpath_prog that follows the C text branch for "
         "branch (Bng/Model/XdpDhcp.lean) and a model of what pkg/ebpf + pkg/dhcp write into the maps "
         "(Bng/Model/CacheEnc.lean): a transmitted frame passes every check of the executable well-formedness predicate "
         "replyDefect (lengths, IP checksum via the checksum lemma, ports, op/xid/chaddr/magic, TLV options ending the "
         "frame, OFFER for DISCOVER / ACK for REQUEST as the program reads the type); its yiaddr/options 54,51,1,3,6 are "
         "those of the userspace reply up to the byte reversal of addresses (D10); PASS leaves the frame byte-identical; "
         "after every history each cache entry belongs to a lease userspace still holds (so ended leases are not "
         "answered), and an expired lease is not answered when the program's clock is the slow path's (D11). "
         "Tie: the UNMODIFIED C program compiled natively (clang, ASan/UBSan, guard page) must give the model's verdict and "
         "bytes on structured/truncated/mutated/random frames; the REAL dhcp.Server + ebpf.Loader write into REAL kernel maps "
         "(bpf(2)), every map is read back after every call and must equal CacheEnc's bytes, the lease tables must equal the "
         "model's, the reply fields the real server sends must equal the model's slowView, and the monitors compare the native "
         "program's reply with the real slow path's reply to the same request field by field.")
ASSUME = [
    "clang's native x86-64 code generation (-O1, ASan/UBSan) stands for the BPF back end; the in-kernel verifier is not run",
    "kernel map semantics and bpf_ktime_get_ns are a byte table and a clock value (cshim); stats_map is not modelled",
    "frames shorter than 64 KiB (`__u16 orig_len`); bpf_xdp_adjust_tail shrinks successfully down to ETH_HLEN (the program only shrinks: proved)",
    "the slow path's DECISIONS (ACK/NAK, which address) and the library's parse of a request are inputs of the cache model "
    "(they belong to C02 / the insomniacslk codec); what is modelled and compared is the lease bookkeeping and every map byte written",
    "cilium/ebpf marshalling and the kernel's hash/array maps are observed (bytes read back), not modelled",
    "vlan_subscriber_pools is written by no code path of pkg/dhcp (Lease.STag/CTag are never set): its entries come from the Loader "
    "API in the harness and have no userspace reply to be compared with",
    "the request's IP version nibble and fragment field are not validated by the program and are copied into the reply "
    "(replyDefect checks them as 'as received')",
    "slow path on a virtual clock (testing/synctest); one request at a time",
]


def pre(ctx):
    path = cshim.build_runner(ctx, "dhcp_fastpath")
    COMP.exec_env[cshim.env_name("dhcp_fastpath")] = path or "/nonexistent"


def run(tier, seed):
    return V.standard_check(PROP, SPEC, COMPS, LEVEL, ASSUME, tier, seed, pre=pre)


def replay(path):
    ctx = V.Ctx(PROP, "quick", 0)
    try:
        pre(ctx)
        return V.replay(PROP, COMPS, path, SPEC)
    finally:
        ctx.cleanup()
