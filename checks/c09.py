"""C09 — no packet from the network can crash or hang the gateway."""
import verif as V

PROP = "C09"
SPEC = "Bng.Spec.C09"
MON = ["panic", "hang"]
COMPS = [
    V.Component("decoders", monitors=MON),
]
LEVEL = ("For every modelled network-facing decoder/handler (one Lean function per Go function, written in a Go-panic "
         "monad where an out-of-range slice or index is an error value) D_total (never panics, never reads outside its "
         "input) and D_linear (loop iterations bounded linearly in the input length) are theorems for ALL byte strings of "
         "ANY length and every protocol state; that each loop terminates is established by Lean's termination checker. "
         "The models are tied to the real Go code by differential fuzzing on every run: packets from the repository's own "
         "serializers, every length field set to every boundary value, truncation at every offset, random bytes, each "
         "stateful handler in every automaton state; result enum and canonical parsed summary must be identical, and a "
         "panic or a hang of the real code is a monitor verdict whatever the model says. "
         "PARTIAL - FUZZED ONLY, NOT MODELLED (trace lines `lib-...`; the model side echoes the observation, only the "
         "panic/hang monitors judge them): the NAT ALG (regexp/bufio; FTP and SIP, both directions; the ALG is not wired "
         "into any production path); dhcpv4.FromBytes + parseOption82; layeh radius.Parse; pkg/radius/client.go "
         "Authenticate/SendAccounting response handling behind a scripted loopback RADIUS server (signed answers of every "
         "code with well- and ill-sized attributes, unsigned/truncated datagrams); ha.DecodeSyncMessage and "
         "pkg/ha/sync.go handleSSEData (decode and apply, in sequence on one standby); the DHCPv6 server's dispatcher and "
         "per-message handlers both stateless and in sequence on ONE server (Solicit -> Request, then mutated "
         "Renew/Rebind/Release/Decline/Confirm/Information-Request of the same DUID, the lease re-installed before each); "
         "a concurrent stress of the DHCPv4 slow-path handler (6 goroutines + the lease cleanup loop, recover per goroutine; "
         "not run under -race). "
         "NEVER DRIVEN by this check: the raw-socket/UDP receive loops themselves (pppoe receiveLoop Ethernet framing, "
         "dhcpv6 receiveLoop, dhcp server4) - their bodies are reached through the hooks; ha performFullSync's HTTP/JSON "
         "body handling and the active side's HTTP handlers; pkg/ha/protocol.go beyond DecodeSyncMessage; ztp's DHCP client "
         "exchange (only parseVendorOptions); pkg/pppoe keepalive/teardown managers beyond ParseEchoPacket/ParsePADT; the "
         "PPPoE server with a RADIUS client or an address pool configured; CHAP with a RADIUS client; the full DHCPv4 slow "
         "path single-threaded (owned by C02).")
ASSUME = [
    "a decoder's input slice has cap == len (the harness clips it); in production handleDiscovery/handleSession get "
    "buf[14:n] of a 1522-byte buffer, where an unchecked length would read stale bytes instead of panicking - the "
    "guards added by the fixes make the distinction moot",
    "no RADIUS client and no address pool configured in the PPPoE server / authenticator under test (all credentials "
    "accepted), so the summaries do not depend on external systems",
    "values the code draws at random (magic numbers, interface ids, AC-Cookie) are masked on both sides",
    "CreateSession: `used`/`count` describe a Go map (no duplicate keys); scheduling and the mutex are not modelled",
    "Go runtime, standard library and the trusted libraries named above",
]


def run(tier, seed):
    return V.standard_check(PROP, SPEC, COMPS, LEVEL, ASSUME, tier, seed)


def replay(path):
    return V.replay(PROP, COMPS, path, SPEC)
