"""C17 — all peers agree on who owns a subscriber."""
import verif as V
import poolrace
import locks

PROP = "C17"
SPEC = ["Bng.Spec.C17"] + ["Bng.Spec.C17Locks"]
MON = ["agree", "minimal", "perm", "head", "hminimal", "single", "addr", "churn"]
COMPS = [
    V.Component("rendezvous", monitors=MON),
]
LEVEL = ("Agreement for every peer set / configuration order / AddPeer-RemovePeer history, ranked list = rearrangement "
         "starting with the owner, minimal disruption on removal and on health changes, and a single serving pool are "
         "theorems over the Lean model of peer.go with the hash as an UNINTERPRETED score function and any order with the "
         "laws of Go's string comparison (proved for byte-wise lexicographic order). The model, instantiated with FNV-1a 64 + "
         "the 64-bit mixer of hashCombine implemented on UInt64, is tied to real PeerPool instances by differential execution "
         "(GetOwner, IsLocalOwner, AddPeer, RemovePeer, the ranked list and healthy owner through verif hooks, Allocate across "
         "several pools of one process through their real HTTP handlers over an in-memory transport); the C17 monitor judges the "
         "real code's answers.")
ASSUME = [
    "hash assumption of the owner-membership / head / minimal-disruption theorems: some candidate scores above 0 (SomePositive); "
    "when every candidate's 64-bit score is exactly 0 rendezvousHash returns \"\" (theorem owner_all_zero_is_empty)",
    "rendezvousRanked is modelled as the stable insertion sort that Go's sort.Slice performs for at most 12 elements; beyond 12 peers "
    "only the any-sort theorem (distinct scores) applies; the harness uses 1..8 peers",
    "the health view is an input (set through a verif hook as checkPeer would set it); the HTTP health probe loop and its timing are not modelled",
    "single serving pool: proved for every pair of health views outside the clause of the recorded finding C17-split-health-view "
    "(single_server_partial); under the clause — two entry nodes disagreeing on the eligibility of a serving node — the property fails "
    "on the real code (KNOWN-FINDING, witness split_view_witness); the monitor compares answers of pools with the same peer set whatever their views",
    "end-to-end forwarding runs over an in-memory http.RoundTripper into the peers' real handlers, not over loopback sockets",
    "each PeerPool method is one atomic step (p.mu / healthMu); node ids are arbitrary byte strings",
    "getPeerAddr: PeerPool.peers is modelled as NewPeerPool leaves it when the caller's Peers slice has no spare capacity (cfgPeersAfterNew; the harness clips the slice); the transport reaches a node under its id and under <id>:8081, first registration wins",
    "concurrent readers against AddPeer/RemovePeer (op churn; race pass: harness rebuilt with -race, RV_STRESS=1): every owner / serving node / ranked list a reader saw must be the model's answer for one of the memberships the writer went through; any report of the race detector is a violation; the interleaving itself is the scheduler's",
]

# readers (GetOwner, healthy owner, ranked list, Allocate) against a writer (RemovePeer/AddPeer) under the Go race detector
RACE = poolrace.make(PROP, MON, stress=[("rendezvous", "rendezvous")], envvar="RV_STRESS", label="rendezvous churn")
ASSUME = ASSUME + [locks.ASSUME]


def run(tier, seed):
    return V.standard_check(PROP, SPEC, COMPS, LEVEL, ASSUME, tier, seed, pre=locks.with_locks(), post=RACE)


def replay(path):
    return V.replay(PROP, COMPS, path, SPEC, pre=locks.with_locks())
