"""C15 — CoA and Disconnect requests are acted on only if authentic."""
import concurrent.futures
import os
import re
import subprocess

import verif as V

PROP = "C15"
SPEC = "Bng.Spec.C15"
MON = ["acted-unauthentic", "ignored-authentic", "bad-response"]
COMPS = [
    V.Component("coa", monitors=MON),
]
LEVEL = ("acted_iff_authentic, response_verifies and dropped_no_effect are theorems over the Lean model of the CoA "
         "listener's handling of one datagram (receiveLoop body, verifyRequestAuthenticator, parseAttributes, dispatch, "
         "sendResponse) for ALL datagrams, ALL secrets and EVERY hash function with 16-byte digests (MD5 is a parameter). "
         "The model is tied to the real radius.CoAServer by differential execution: every generated datagram goes through the "
         "unmodified receiveLoop over a loopback UDP socket with scripted handlers that record their invocations; the Lean "
         "model (instantiated with an MD5 written in Lean, itself compared with crypto/md5 on every run) must give the same "
         "drop/act decision, the same parsed request fields and the same response bytes, and the monitors judge the real "
         "code's behaviour with the very predicate (Coa.authentic) the theorems are about.")
ASSUME = [
    "the hash has 16-byte digests (true of MD5); no cryptographic property of MD5 is assumed or claimed",
    "one datagram at a time: the listener is a single goroutine, so datagrams are handled sequentially; handler "
    "callbacks are arbitrary (the response theorem quantifies over every handler reply)",
    "the model takes cap(buf)=len(datagram); the real loop reads into a 4096-byte buffer and never looks past n "
    "(the guard int(length) > n), datagrams longer than 4096 bytes are truncated by the kernel before the code sees them",
    "layeh.com/radius (used by the RADIUS client, not by the CoA listener) is not modelled",
]


# ---------------------------------------------------------------------------------------------------------------
# The thorough trace has ~2.5 million datagrams (~1 GB).  One bngdrv process replays about 27 000 datagrams/s (the
# Lean MD5 included), so a big trace is cut at sequence boundaries into one shard per core, the shards are replayed
# by that many driver processes at once, and their reports are merged (sequence numbers re-based, STATS summed).
# Sequences are independent (every one starts with `new`; the driver resets its state at every blank line).
_orig_drv = V.Ctx.drv
_SHARD_MIN_BYTES = 20 * 1000 * 1000


def _sharded_drv(self, comp_drv, trace_path, drv_bin="bngdrv"):
    try:
        big = os.path.getsize(trace_path) >= _SHARD_MIN_BYTES
    except OSError:
        big = False
    if not big:
        return _orig_drv(self, comp_drv, trace_path, drv_bin)
    exe = self.build_driver(drv_bin)
    if exe is None:
        return [], 127, "driver executable %s not built" % drv_bin
    k = max(1, min(16, os.cpu_count() or 1))
    target = os.path.getsize(trace_path) // k + 1
    shards = []          # (path, number of sequences before this shard)
    seqs_before = 0
    cur, cur_bytes, cur_seqs, in_seq = None, 0, 0, False

    def close():
        nonlocal cur, cur_bytes, cur_seqs, seqs_before
        if cur is not None:
            cur.close()
            shards.append((cur.name, seqs_before))
            seqs_before += cur_seqs
        cur, cur_bytes, cur_seqs = None, 0, 0

    with open(trace_path, "rb") as f:
        for line in f:
            if cur is None:
                cur = open("%s.shard%d" % (trace_path, len(shards)), "wb")
            cur.write(line)
            cur_bytes += len(line)
            if line.strip():
                if not line.startswith(b"#"):
                    in_seq = True
            else:
                if in_seq:
                    cur_seqs += 1
                    in_seq = False
                    if cur_bytes >= target:
                        close()
    if in_seq:
        cur_seqs += 1
    close()

    def one(sh):
        try:
            with open(sh[0], "rb") as f:
                p = subprocess.run([exe, comp_drv], stdin=f, stdout=subprocess.PIPE, stderr=subprocess.PIPE,
                                   text=True, errors="replace", timeout=7200)
            return p.stdout.splitlines(), p.returncode, p.stderr
        except subprocess.TimeoutExpired:
            return [], 124, "driver %s %s timed out on %s" % (drv_bin, comp_drv, sh[0])

    with concurrent.futures.ThreadPoolExecutor(max_workers=k) as ex:
        results = list(ex.map(one, shards))
    out, rc, err = [], 0, ""
    tot = {"seqs": 0, "lines": 0, "diffs": 0, "viols": 0}
    for (path, base), (lines, r, e) in zip(shards, results):
        rc = rc or r
        err += e
        stats = False
        for l in lines:
            if l.startswith("STATS"):
                try:
                    for kv in l.split()[1:]:
                        a, b = kv.split("=", 1)
                        tot[a] += int(b)
                    stats = True
                except (KeyError, ValueError):
                    out.append(l)      # let the caller report the unparseable line
                continue
            m = re.match(r"(DIFF|VIOL) seq=(\d+) (.*)", l)
            out.append("%s seq=%d %s" % (m.group(1), int(m.group(2)) + base, m.group(3)) if m else l)
        if r == 0 and not stats:
            rc = 1
            err += "driver shard %s printed no STATS line\n" % path
        try:
            os.remove(path)
        except OSError:
            pass
    out.append("STATS seqs=%d lines=%d diffs=%d viols=%d" % (tot["seqs"], tot["lines"], tot["diffs"], tot["viols"]))
    return out, rc, err


V.Ctx.drv = _sharded_drv


def run(tier, seed):
    return V.standard_check(PROP, SPEC, COMPS, LEVEL, ASSUME, tier, seed)


def replay(path):
    return V.replay(PROP, COMPS, path, SPEC)
