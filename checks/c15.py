"""C15 — CoA and Disconnect requests are acted on only if authentic."""
import verif as V

PROP = "C15"
SPEC = "Bng.Spec.C15"
MON = ["acted-unauthentic", "ignored-authentic", "bad-response"]
COMPS = [
    V.Component("coa", monitors=MON),
]
LEVEL = ("acted_iff_authentic, response_verifies and dropped_no_effect are theorems over the Lean model of the CoA "
         "listener's handling of one datagram (receiveLoop body, verifyRequestAuthenticator, parseAttributes, dispatch, "
         "sendResponse) for ALL datagrams, ALL secrets and EVERY hash function with 16-byte digests (MD5 is a parameter). "
         "The model is tied to the real radius.CoAServer by differential execution: every generated datagram goes through the "
         "unmodified receiveLoop over a loopback UDP socket with scripted handlers that record their invocations; the Lean "
         "model (instantiated with an MD5 written in Lean, itself compared with crypto/md5 on every run) must give the same "
         "drop/act decision, the same parsed request fields and the same response bytes, and the monitors judge the real "
         "code's behaviour with the very predicate (Coa.authentic) the theorems are about.")
ASSUME = [
    "the hash has 16-byte digests (true of MD5); no cryptographic property of MD5 is assumed or claimed",
    "one datagram at a time: the listener is a single goroutine, so datagrams are handled sequentially; handler "
    "callbacks are arbitrary (the response theorem quantifies over every handler reply)",
    "the model takes cap(buf)=len(datagram); the real loop reads into a 4096-byte buffer and never looks past n "
    "(the guard int(length) > n), datagrams longer than 4096 bytes are truncated by the kernel before the code sees them",
    "layeh.com/radius (used by the RADIUS client, not by the CoA listener) is not modelled",
]


def run(tier, seed):
    return V.standard_check(PROP, SPEC, COMPS, LEVEL, ASSUME, tier, seed)


def replay(path):
    return V.replay(PROP, COMPS, path, SPEC)
