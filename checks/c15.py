"""C15 — CoA and Disconnect requests are acted on only if authentic."""
import concurrent.futures
import os
import re
import subprocess

import verif as V

PROP = "C15"
SPEC = ["Bng.Spec.C15", "Bng.Spec.C15Proc"]
MON = ["acted-unauthentic", "ignored-authentic", "bad-response"]
# component coaproc: the real CoAProcessor (coa_handler.go) as the handlers of the real CoAServer, its callbacks a
# session table kept by the harness (model Bng.CoaProc, theorems Bng.Spec.C15Proc)
MON_PROC = ["effect-unauthentic", "ignored-authentic", "bad-response", "wrong-target", "ack-mismatch"]
COMPS = [
    V.Component("coa", monitors=MON),
    V.Component("coaproc", monitors=MON_PROC),
]
LEVEL = ("acted_iff_authentic, response_verifies and dropped_no_effect are theorems over the Lean model of the CoA "
         "listener's handling of one datagram (receiveLoop body, verifyRequestAuthenticator, parseAttributes, dispatch, "
         "sendResponse) for ALL datagrams, ALL secrets and EVERY hash function with 16-byte digests (MD5 is a parameter). "
         "The model is tied to the real radius.CoAServer by differential execution: every generated datagram goes through the "
         "unmodified receiveLoop over a loopback UDP socket with scripted handlers that record their invocations; the Lean "
         "model (instantiated with an MD5 written in Lean, itself compared with crypto/md5 on every run) must give the same "
         "drop/act decision, the same parsed request fields and the same response bytes, and the monitors judge the real "
         "code's behaviour with the very predicate (Coa.authentic) the theorems are about. "
         "Component coaproc puts pkg/radius/coa_handler.go inside the model: CoAProcessor.HandleCoA / HandleDisconnect "
         "(findSession, findSessionFromDisconnect, buildPolicyUpdate, applyPolicyUpdate, terminateSession, the Reply-Message "
         "texts) as the handlers of that listener, their callbacks a session table with fault switches (model Bng.CoaProc, "
         "step = receive . parseFields . process . respond). Spec.C15Proc proves for ALL datagrams, tables, fault settings, "
         "callback configurations, secrets and every 16-byte hash: an unauthentic datagram invokes no callback, changes nothing "
         "and is not answered (unauthentic_no_effect, effect_iff_authentic); an authentic one gets exactly one response, which "
         "verifies (authentic_one_response); Disconnect-ACK iff the request identifies a session and the terminator succeeded, "
         "the table afterwards is the table before minus exactly that session, a NAK changes nothing "
         "(disconnect_ack_iff_terminated, disconnect_removes_exactly_the_identified_session over the invariant "
         "unique_sids_invariant); CoA-ACK iff a session is identified, a change is requested and the policy updater succeeded, "
         "the update applied is exactly the requested one and touches no other session (coa_ack_iff_applied, "
         "callbacks_get_the_requested_update, coa_ack_leaves_other_sessions); every session-changing callback is invoked for "
         "the session the request identifies, with the code's precedence Acct-Session-Id > Framed-IP > Calling-Station-Id "
         "(target_identified_by_request). The handler_* theorems state the same for EVERY request a handler can be called "
         "with (QoS rates and an Acct-Session-Id different from the Session-Id exist only there). Tie: the real CoAProcessor "
         "behind the real CoAServer on loopback UDP; every lookup / terminator / updater invocation with its arguments and "
         "outcome, the response bytes and the table are compared op by op with the model, and the monitors (own view of the "
         "table, the specification's identify / buildPolicyUpdate, never the model's handlers) judge the real code's answers.")
ASSUME = [
    "the hash has 16-byte digests (true of MD5); no cryptographic property of MD5 is assumed or claimed",
    "one datagram at a time: the listener is a single goroutine, so datagrams are handled sequentially; handler "
    "callbacks are arbitrary (the response theorem quantifies over every handler reply)",
    "the model takes cap(buf)=len(datagram); the real loop reads into a 4096-byte buffer and never looks past n "
    "(the guard int(length) > n), datagrams longer than 4096 bytes are truncated by the kernel before the code sees them",
    "layeh.com/radius (used by the RADIUS client, not by the CoA listener) is not modelled",
    "coaproc: the processor's callbacks are the ENVIRONMENT (nothing in the repository wires CoAProcessor to the session "
    "manager): a session table kept by the harness, lookups return the first matching session in insertion order, the "
    "terminator removes by session id, the updaters record what they are given, each fails as a whole when its fault switch "
    "is on; session ids are unique in the table (theorem unique_sids_invariant); the accounting manager and the audit "
    "logger are not set (the Accounting-Stop that terminateSession sends before calling the terminator - review item C8 - "
    "belongs to C08 and is not driven here); callbacks run synchronously in the listener goroutine",
    "coaproc, recorded behaviour (not C15 violations; stated by the theorems as they are): (1) identification falls back "
    "- a request whose Acct-Session-Id names no session is served by its Framed-IP-Address, then by its Calling-Station-Id "
    "(RFC 5176 section 3 would answer 503 unless ALL identification attributes match one session); (2) a callback that is not "
    "configured is skipped: no terminator => Disconnect-ACK with nothing terminated, no policy updater => CoA-ACK with "
    "nothing recorded, no lookups => always NAK 503; (3) an error of the eBPF QoS updater is logged and swallowed: CoA-ACK, "
    "policy rate new, enforced rate old (theorem ebpf_failure_still_acks_witness; bears on C19's `the policy set through the "
    "control plane is the one enforced`, not on C15) - unreachable from the wire today because parseCoARequest never sets "
    "QoSDownload/QoSUpload, exercised by calling HandleCoA directly (ops hcoa / hdm)",
    "coaproc: the Reply-Message texts are modelled exactly (fmt %s of the attribute bytes, %v of net.IP for nil and 4-byte "
    "values - the only ones the listener's parser produces; the harness's direct calls use the same two shapes)",
]


# ---------------------------------------------------------------------------------------------------------------
# The thorough trace has ~2.5 million datagrams (~1 GB).  One bngdrv process replays about 27 000 datagrams/s (the
# Lean MD5 included), so a big trace is cut at sequence boundaries into one shard per core, the shards are replayed
# by that many driver processes at once, and their reports are merged (sequence numbers re-based, STATS summed).
# Sequences are independent (every one starts with `new`; the driver resets its state at every blank line).
_orig_drv = V.Ctx.drv
_SHARD_MIN_BYTES = 20 * 1000 * 1000


def _sharded_drv(self, comp_drv, trace_path, drv_bin="bngdrv"):
    try:
        big = os.path.getsize(trace_path) >= _SHARD_MIN_BYTES
    except OSError:
        big = False
    if not big:
        return _orig_drv(self, comp_drv, trace_path, drv_bin)
    exe = self.build_driver(drv_bin)
    if exe is None:
        return [], 127, "driver executable %s not built" % drv_bin
    k = max(1, min(16, os.cpu_count() or 1))
    target = os.path.getsize(trace_path) // k + 1
    shards = []          # (path, number of sequences before this shard)
    seqs_before = 0
    cur, cur_bytes, cur_seqs, in_seq = None, 0, 0, False

    def close():
        nonlocal cur, cur_bytes, cur_seqs, seqs_before
        if cur is not None:
            cur.close()
            shards.append((cur.name, seqs_before))
            seqs_before += cur_seqs
        cur, cur_bytes, cur_seqs = None, 0, 0

    with open(trace_path, "rb") as f:
        for line in f:
            if cur is None:
                cur = open("%s.shard%d" % (trace_path, len(shards)), "wb")
            cur.write(line)
            cur_bytes += len(line)
            if line.strip():
                if not line.startswith(b"#"):
                    in_seq = True
            else:
                if in_seq:
                    cur_seqs += 1
                    in_seq = False
                    if cur_bytes >= target:
                        close()
    if in_seq:
        cur_seqs += 1
    close()

    def one(sh):
        try:
            with open(sh[0], "rb") as f:
                p = subprocess.run([exe, comp_drv], stdin=f, stdout=subprocess.PIPE, stderr=subprocess.PIPE,
                                   text=True, errors="replace", timeout=7200)
            return p.stdout.splitlines(), p.returncode, p.stderr
        except subprocess.TimeoutExpired:
            return [], 124, "driver %s %s timed out on %s" % (drv_bin, comp_drv, sh[0])

    with concurrent.futures.ThreadPoolExecutor(max_workers=k) as ex:
        results = list(ex.map(one, shards))
    out, rc, err = [], 0, ""
    tot = {"seqs": 0, "lines": 0, "diffs": 0, "viols": 0}
    for (path, base), (lines, r, e) in zip(shards, results):
        rc = rc or r
        err += e
        stats = False
        for l in lines:
            if l.startswith("STATS"):
                try:
                    for kv in l.split()[1:]:
                        a, b = kv.split("=", 1)
                        tot[a] += int(b)
                    stats = True
                except (KeyError, ValueError):
                    out.append(l)      # let the caller report the unparseable line
                continue
            m = re.match(r"(DIFF|VIOL) seq=(\d+) (.*)", l)
            out.append("%s seq=%d %s" % (m.group(1), int(m.group(2)) + base, m.group(3)) if m else l)
        if r == 0 and not stats:
            rc = 1
            err += "driver shard %s printed no STATS line\n" % path
        try:
            os.remove(path)
        except OSError:
            pass
    out.append("STATS seqs=%d lines=%d diffs=%d viols=%d" % (tot["seqs"], tot["lines"], tot["diffs"], tot["viols"]))
    return out, rc, err


V.Ctx.drv = _sharded_drv


def run(tier, seed):
    return V.standard_check(PROP, SPEC, COMPS, LEVEL, ASSUME, tier, seed)


def replay(path):
    return V.replay(PROP, COMPS, path, SPEC)
