"""C16 — ending a session by any path releases everything it held.

Components so far: the PPPoE server's own termination paths (client PADT, LCP Terminate-Request, idle sweep,
authentication failure) and pppoe.SessionTeardown (TerminateSession / HandleClientPADT / TerminateByID / ByMAC /
ByUsername / All, repeated terminations).  The DHCP paths (release / decline / expiry with NAT, QoS, cache and
accounting residue) are added by checks/c16_dhcp.py when present."""
import importlib.util
import os

import verif as V
import dhcp6int
import locks

PROP = "C16"
SPEC = ["Bng.Spec.C16Teardown", "Bng.Spec.C16TeardownMon", "Bng.Spec.C16Pppoe", "Bng.Spec.C16PppoeWhole", "Bng.Spec.C16PppoePark", "Bng.Spec.C16SubMgr", "Bng.Spec.C16Paths"] + ["Bng.Spec.C02Locks", "Bng.Spec.C16Locks", "Bng.Spec.C10Locks", "Bng.Spec.C19Locks"]
COMPS = [
    V.Component("pppoesrv", monitors=["residue", "conservation", "obs-roundtrip", "held-free", "pool-entry", "swept-active", "kept-idle"]),
    V.Component("teardown", monitors=["double-stop", "double-cleanup", "residue", "missing-stop", "stop-unstarted", "stop-before-end", "not-terminated", "double-padt", "stop-without-start", "ebpf-residue", "obs-roundtrip"]),
    V.Component("submgr", monitors=["double-release", "double-end", "residue", "index-mismatch", "stranded"]),
]
_extra = os.path.join(os.path.dirname(os.path.abspath(__file__)), "c16_dhcp.py")
if os.path.exists(_extra):
    _s = importlib.util.spec_from_file_location("c16_dhcp", _extra)
    _m = importlib.util.module_from_spec(_s)
    _s.loader.exec_module(_m)
    COMPS += _m.COMPS
    SPEC += _m.SPEC
else:
    _m = None

# the DHCPv6 server in integrated-allocator mode (lib/dhcp6int.py)
COMPS += dhcp6int.comps(["leak"])
SPEC = SPEC + dhcp6int.SPEC

LEVEL = ("Exactly-once teardown (at most one Accounting-Stop and one map removal per session, nothing held afterwards, "
         "second termination is the identity) is proved over the Lean model of pppoe.SessionTeardown for ALL sequences of "
         "creations and terminations by every path; release-on-PADT / release-on-LCP-terminate are proved over the PPPoE "
         "server model; both models are tied to the real code by differential execution, and monitors judge the real "
         "code's pool, session table, accounting and map-removal observations.")
ASSUME = [
    "RADIUS accounting is observed as the Stop records a real loopback accounting server accepts; the eBPF removal as the callback invocations",
    "the idle-sweep leak of the PPPoE server is the recorded finding KF-pppoe-idle-leak",
    "translator harness/cmd/extractpaths (go/ast, no type information): the table lists what is syntactically reachable inside the package (depth 4, calls resolved only through the receiver or a package-unique name); guards, order and arguments of the calls are not in the table - those are the models' and the correspondence runs' business",
    "subscriber.Manager: TerminateSession calls are interleaved at the manager's unlock points (tbegin/tresume), and AssignAddress calls are held inside the allocator call between their two critical sections (abegin/aresume) with terminations, creates and other assignments in the window; the allocator stub parks the call BEFORE it picks the address (the manager cannot tell where inside the allocator call time passes). An AssignAddress that hands a LIVE session a second address lies outside Bng.SubMgr.Valid: the recorded finding KF-submgr-reassign-leak; the allocator stub's ReleaseIPv4 / ReleaseIPv6 can be made to fail (fault rel4|rel6: it then keeps the address, as the real allocators do when their store fails): a failing release call lies outside Valid too, recorded finding KF-submgr-release-failed",
    "PPPoE server: a PAP exchange can be held inside the RADIUS call (authpark/authresume: the RADIUS stub keeps the Access-Request unanswered) with idle sweeps and hours passing in the window - the only things that run then, the server has ONE receive goroutine; Bng.PppoePark, Spec.C16PppoePark.park_projects. The instants inside the window are the sweep's critical section as a whole (SessionManager.mu)",
    "concurrent terminations of pppoe.SessionTeardown: one call can be held after it claimed the session (tpark/tresume), other calls run in the window",
    "pppoe.SessionTeardown with a failing eBPF-map callback (teardown `fault ebpf on|off|once`): the fast path is the harness's table of entries (one per session made, deleted by a callback call that returns nil); the callback is the only thing SessionTeardown knows of the kernel maps. A failed removal that is never retried is the recorded finding KF-pppoe-teardown-ebpf-noretry",
]
ASSUME = ASSUME + [locks.ASSUME]


PATHS = os.path.join(V.LEAN, "Bng", "Gen", "Paths.lean")


def regenerate(ctx):
    """translator: re-extract the termination-path table (calls and deletes reachable from every termination entry
    point) from V.REPO's working tree at the start of every run; Bng.Spec.C16Paths decides on it that every path reaches
    every release.  extractpaths writes to a temporary file and renames it; on failure the stale table is removed so
    that the Spec module cannot be checked against it."""
    with V.Lock("lean"):
        with V.Lock("gomod"):
            rc, out = V.sh(["go", "run", "./cmd/extractpaths", "-repo", V.REPO, "-out", PATHS], cwd=V.HARNESS, env=V.env_go())
        if rc != 0 and os.path.exists(PATHS):
            os.remove(PATHS)
    if rc != 0:
        msg = "; ".join(l for l in out.splitlines() if l.startswith("extractpaths:") and "wrote" not in l) or out[-800:]
        ctx.broken.append(("translator", "extract paths failed: " + msg))
    ctx.notes.append("extractpaths rc=%d" % rc)


if _m is not None:
    LEVEL = LEVEL + " DHCPv4 paths: " + getattr(_m, "LEVEL", "")
    ASSUME = ASSUME + list(getattr(_m, "ASSUME", []))


ASSUME = ASSUME + dhcp6int.ASSUME
LEVEL = LEVEL + " " + dhcp6int.LEVEL

def run(tier, seed):
    return V.standard_check(PROP, SPEC, COMPS, LEVEL, ASSUME, tier, seed, pre=locks.with_locks(regenerate))


def replay(path):
    return V.replay(PROP, COMPS, path, SPEC, pre=locks.with_locks())
