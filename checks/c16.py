"""C16 — ending a session by any path releases everything it held.

Components so far: the PPPoE server's own termination paths (client PADT, LCP Terminate-Request, idle sweep,
authentication failure) and pppoe.SessionTeardown (TerminateSession / HandleClientPADT / TerminateByID / ByMAC /
ByUsername / All, repeated terminations).  The DHCP paths (release / decline / expiry with NAT, QoS, cache and
accounting residue) are added by checks/c16_dhcp.py when present."""
import importlib.util
import os

import verif as V

PROP = "C16"
SPEC = ["Bng.Spec.C16Teardown", "Bng.Spec.C16Pppoe", "Bng.Spec.C16PppoeWhole", "Bng.Spec.C16SubMgr"]
COMPS = [
    V.Component("pppoesrv", monitors=["residue", "conservation", "obs-roundtrip"]),
    V.Component("teardown", monitors=["double-stop", "double-cleanup", "residue", "missing-stop", "stop-unstarted", "stop-before-end", "not-terminated", "double-padt", "stop-without-start"]),
    V.Component("submgr", monitors=["double-release", "double-end", "residue", "index-mismatch"]),
]
_extra = os.path.join(os.path.dirname(os.path.abspath(__file__)), "c16_dhcp.py")
if os.path.exists(_extra):
    _s = importlib.util.spec_from_file_location("c16_dhcp", _extra)
    _m = importlib.util.module_from_spec(_s)
    _s.loader.exec_module(_m)
    COMPS += _m.COMPS
    SPEC += _m.SPEC

LEVEL = ("Exactly-once teardown (at most one Accounting-Stop and one map removal per session, nothing held afterwards, "
         "second termination is the identity) is proved over the Lean model of pppoe.SessionTeardown for ALL sequences of "
         "creations and terminations by every path; release-on-PADT / release-on-LCP-terminate are proved over the PPPoE "
         "server model; both models are tied to the real code by differential execution, and monitors judge the real "
         "code's pool, session table, accounting and map-removal observations.")
ASSUME = [
    "RADIUS accounting is observed as the Stop records a real loopback accounting server accepts; the eBPF removal as the callback invocations",
    "concurrent terminations are modelled as sequential ones (SessionTeardown.cleanup runs under its mutex; the tornDown flag is set under the session lock)",
    "the idle-sweep leak of the PPPoE server is the recorded finding KF-pppoe-idle-leak",
    "subscriber.Manager: two TerminateSession calls are interleaved at the manager's unlock points (tbegin/tresume); AssignAddress on a session that already holds an address (incl. while its termination is parked) lies outside Bng.SubMgr.Valid: the two recorded findings KF-submgr-reassign-leak / KF-submgr-assign-race",
]


def run(tier, seed):
    return V.standard_check(PROP, SPEC, COMPS, LEVEL, ASSUME, tier, seed)


def replay(path):
    return V.replay(PROP, COMPS, path)
