"""C20 — subscriber-identifying keys (QinQ pairs, PPPoE session ids, circuit-id keys) map to at most one subscriber."""
import verif as V

PROP = "C20"
SPEC = ["Bng.Spec.C20", "Bng.Spec.C20Index"]
MON = ["dup-key", "id-unique", "range", "fwd-rev", "release-frame"]
# all five components are hosted by ONE harness binary (harness/cmd/c20, one link instead of five); the component is
# selected through the environment.  harness/cmd/<component> hosts each one alone (same code, bngverif/c20/<component>).
COMPS = [V.Component(n, harness="c20", monitors=MON, exec_env={"C20_COMP": n})
         for n in ("vlan", "qinq", "pppsess", "circuitkey", "index")]
LEVEL = ("Bijection (forward and reverse maps mutually inverse), in-range, release-frame and id-uniqueness are theorems "
         "over the Lean models of nexus.VLANAllocator, qinq.Mapper and pppoe.SessionManager for ALL operation histories "
         "(invariant + induction over the operation list); injectivity of the 32-byte circuit-id key on its safe domain, "
         "its failure outside, and the non-injectivity of any 64-bit hash on strings of <= 64 bytes (pigeonhole) are "
         "theorems over all byte strings. One generic primary-map-plus-secondary-indexes model, instantiated with the exact "
         "update/delete behaviour of subscriber.Manager, state.Store (leases, sessions, subscribers) and "
         "allocator.MemoryAllocationStore, carries the unconditional index theorems that hold for the code as it is, the "
         "bijection/release-frame theorems under the negated finding clauses (D59, KF-index-rekey) and the findings' "
         "witnesses. The models are tied to the real Go code by differential execution of generated "
         "operation sequences, and the abstract key-table monitor judges the real code's answers.")
ASSUME = [
    "each mutex-protected method is one atomic step; data races inside a critical section are not modelled",
    "vlan: the in-range and release-frame theorems assume GoodCfg: Start <= End and both ranges end below 65535 (VLAN ids are 12 bit); with End = 65535 the uint16 loop counters wrap — modelled exactly (w16, one-cycle fuel) and recorded as finding KF-vlan-u16-wrap; the bijection theorems need no assumption",
    "vlan: in-range theorem assumes stored pairs handed to LoadFromStore are in range (complement = finding KF-vlan-load-range)",
    "pppsess: the converse index direction (every live session reachable by MAC) assumes one live session per MAC (complement = finding KF-pppsess-mac-orphan); the id search is fuel-bounded in the model, its termination behind the 65535 guard belongs to C09",
    "circuitkey: HashCircuitID is uninterpreted in hash_not_injective (any function into 64 bits); the FNV-1a model is only compared with the code",
    "index: bijection and release-frame theorems assume OnePerKey and NoRekey (complements = findings D59, KF-index-rekey); not driven: IPv6 addresses, Authenticate, expiry sweeps (same by-value deletion code), pools/NAT bindings of state.Store",
    "NTE ids, subscriber ids and MACs are injectively mapped to naturals by the harness",
]


def run(tier, seed):
    return V.standard_check(PROP, SPEC, COMPS, LEVEL, ASSUME, tier, seed)


def replay(path):
    return V.replay(PROP, COMPS, path)
