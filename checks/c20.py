"""C20 — subscriber-identifying keys (QinQ pairs, PPPoE session ids, circuit-id keys) map to at most one subscriber."""
import os
import re
import subprocess

import verif as V
import locks

PROP = "C20"
SPEC = ["Bng.Spec.C20", "Bng.Spec.C20Index"] + ["Bng.Spec.C20Locks", "Bng.Spec.C16Locks", "Bng.Spec.C20QinqMon"]
MON = ["dup-key", "id-unique", "range", "fwd-rev", "release-frame"]
# all five components are hosted by ONE harness binary (harness/cmd/c20, one link instead of five); the component is
# selected through the environment.  harness/cmd/<component> hosts each one alone (same code, bngverif/c20/<component>).
# The drivers are hosted by their own executable bngdrv-c20 (lean/MainC20.lean; the same components are also registered
# in the common bngdrv): another property's driver that does not build must not leave C20 running on a stale binary.
COMPS = [V.Component(n, harness="c20", monitors=MON, exec_env={"C20_COMP": n}, drv_bin="bngdrv-c20")
         for n in ("vlan", "qinq", "pppsess", "circuitkey", "index")]
LEVEL = ("Bijection (forward and reverse maps mutually inverse), in-range, release-frame and id-uniqueness are theorems "
         "over the Lean models of nexus.VLANAllocator, qinq.Mapper and pppoe.SessionManager for ALL operation histories "
         "(invariant + induction over the operation list); injectivity of the 32-byte circuit-id key on its safe domain, "
         "its failure outside, and the non-injectivity of any 64-bit hash on strings of <= 64 bytes (pigeonhole) are "
         "theorems over all byte strings. One generic primary-map-plus-secondary-indexes model, instantiated with the exact "
         "update/delete/load behaviour of subscriber.Manager, state.Store (leases, sessions, subscribers, NAT bindings) and "
         "allocator.MemoryAllocationStore, carries the unconditional index theorems that hold for the code as it is, the "
         "bijection/release-frame theorems under the negated finding clauses (D59, KF-index-rekey) and the findings' "
         "witnesses. The models are tied to the real Go code by differential execution of generated "
         "operation sequences, and the abstract key-table monitor judges the real code's answers.")
ASSUME = [
    "each mutex-protected critical section is one atomic step. subscriber.Manager.TerminateSession is TWO critical sections with allocator.ReleaseIPv4 between them outside the lock: it is modelled and driven as two steps (tpark: the call is held inside ReleaseIPv4 by a parkable allocator stub; tresume: it finishes) with every other operation allowed in between (a create for its MAC, a second terminate and — since /repo 9d53e2c — an AssignAddress for it are refused there); Manager.AssignAddress (three short sections around the allocator call, the last one only sets State) and the other methods are one step each. Data races inside a critical section are not modelled, they are looked for dynamically: a second harness build with `go build -race` runs one stress sequence kind per component (8 goroutines x 200 operations on one shared object, then a full audit of both lookup directions judged by the same monitor); the race detector only sees the schedules that happened",
    "vlan: the in-range, exhaustion and release-frame theorems assume GoodCfg = both ranges end below 65535 (VLAN ids are 12 bit); its complement is exactly finding KF-vlan-u16-wrap (the uint16 wrap is modelled: w16, one-cycle fuel); empty ranges are covered; the bijection theorems need no assumption",
    "vlan: vlan_in_ranges_partial exempts exactly the (NTE, pair) records that a load of the history named with an out-of-range pair (finding KF-vlan-load-range) and holds for every other NTE of the same history",
    "pppsess: the converse index direction is stated per MAC and exempts exactly the MACs that had two live sessions at once (finding KF-pppsess-mac-orphan); the id search is fuel-bounded in the model, its termination behind the 65535 guard belongs to C09",
    "circuitkey: mackey_injective_on assumes 6-byte hardware addresses (complement = finding KF-mackey-hlen); the DHCP server's use of that key is read from pkg/dhcp/server.go (four call sites), only the key function itself is driven",
    "circuitkey: HashCircuitID is uninterpreted in hash_not_injective (any function into 64 bits); the FNV-1a model is only compared with the code",
    "index: the bijection and release-frame theorems are per key: they assume OnePerKeyAt c s v and NoRekeyAt c s v for THAT key only, from any reachable state in which the key agrees (complements = findings D59, KF-index-rekey); other keys are unrestricted",
    "index: index_sound_memstore assumes LoadsInj (every UnmarshalJSON input has at most one allocation per address; complement = D59_witness_memstore_load)",
    "index: state.Store is driven the way a caller can: one kept object per primary that is mutated and re-submitted (updsame), mutated without any call (mutown) and writes to what Get* returned (mutget). The store model holds values; the caller's objects live in the driver; a write through a pointer the unchanged code aliases is the model operation `poke` (finding KF-store-alias). Subscribers are stored as copies (a mutown must not change any answer); leases, sessions and NAT bindings keep the caller's pointer. In-place edits of a shared MAC/IP backing array and pools (no secondary index: GetPoolByName scans the primary map) are not driven",
    "index: every finding clause of this component is granted only when the model reproduces the implementation's answer on that line",
    "index: not driven: IPv6 addresses, Authenticate, the expiry sweeps (same by-value deletion code), pools of state.Store; the stress workloads are clean by construction (every goroutine owns its keys), their audit is judged with clause none",
    "NTE ids, subscriber ids and MACs are injectively mapped to naturals by the harness",
]
ASSUME = ASSUME + [locks.ASSUME]


def race_pass(ctx):
    """concurrency: the harness is built a second time with `go build -race`; with C20_STRESS=1 every component
    generates only its stress sequences (N goroutines on one shared object, then a full audit of both directions).
    A report of the race detector, a crash, or ANY verdict of the usual monitors on the audit is a violation
    (no finding may excuse these workloads, which are clean by construction)."""
    out = os.path.join(ctx.scratch, "hx-c20race")
    with V.Lock("gomod"):
        rc, log = V.sh(["go", "build", "-race", "-tags", "verif", "-o", out, "./cmd/c20"],
                       cwd=ctx.harness_dir(), env=V.env_go())
    if rc != 0:
        ctx.broken.append(("harness", "go build -race ./cmd/c20 failed: %s" % log[-1200:]))
        return
    total = {"seqs": 0, "lines": 0, "races": 0, "verdicts": 0}
    for c in COMPS:
        env = dict(os.environ)
        env.update(c.exec_env)
        env["C20_STRESS"] = "1"
        tp = os.path.join(ctx.scratch, "%s-stress.trace" % c.name)
        with open(tp, "w") as fout:
            p = subprocess.run([out, "gen", "-seed", str(ctx.seed), "-tier", ctx.tier], stdout=fout,
                               stderr=subprocess.PIPE, env=env, text=True, timeout=7200)
        races = p.stderr.count("WARNING: DATA RACE")
        total["races"] += races
        if races or p.returncode != 0:
            rp = V.write_replay(ctx, "%s-race" % c.name, {
                "property": PROP, "kind": "data-race-or-crash-under-race-detector", "component": c.name,
                "exit_code": p.returncode, "races": races, "stderr": p.stderr[:6000],
                "ops": [l.split(" => ")[0] for l in open(tp).read().splitlines() if l.strip()][:40],
                "replay_cmd": "cd /verif/harness && go build -race -tags verif -o /var/tmp/hx ./cmd/c20 && "
                              "C20_COMP=%s C20_STRESS=1 /var/tmp/hx gen -seed %d -tier %s" % (c.name, ctx.seed, ctx.tier)})
            ctx.violations.append((rp, ""))
        lines, rc, err = ctx.drv(c.drv, tp, c.drv_bin)
        if rc != 0:
            ctx.broken.append(("driver", "bngdrv %s (stress) exited %d: %s" % (c.drv, rc, err[-300:])))
        bad = []
        cst = ctx.corr["components"].setdefault(c.name + "-stress", {"seqs": 0, "lines": 0, "diffs": 0, "viols": 0})
        for line in lines:
            if line.startswith("STATS"):
                kv = dict(x.split("=") for x in line.split()[1:])
                for k in ("seqs", "lines"):
                    ctx.corr[k] += int(kv[k])
                    cst[k] += int(kv[k])
                    total[k] += int(kv[k])
            elif line.startswith("VIOL") or line.startswith("DIFF"):
                bad.append(line)
                cst["viols" if line.startswith("VIOL") else "diffs"] += 1
        if int(cst["seqs"]) == 0:
            ctx.broken.append(("harness", "%s produced no stress sequence" % c.name))
        if bad:
            total["verdicts"] += len(bad)
            seqs = V.read_seqs(tp)
            m = re.match(r"(?:VIOL|DIFF) seq=(\d+)", bad[0])
            sq = int(m.group(1)) if m else 0
            rp = V.write_replay(ctx, "%s-stress" % c.name, {
                "property": PROP, "kind": "monitor-violation-on-implementation-under-concurrency", "component": c.name,
                "driver_output": bad[:20], "trace": seqs[sq] if sq < len(seqs) else [],
                "ops": V.ops_of(seqs[sq]) if sq < len(seqs) else []})
            ctx.violations.append((rp, ""))
        V.summarize_trace(ctx, c, tp)
    ctx.notes.append("race stress (go build -race, C20_STRESS=1): %(seqs)d sequences / %(lines)d ops, "
                     "%(races)d race reports, %(verdicts)d monitor verdicts" % total)


def run(tier, seed):
    return V.standard_check(PROP, SPEC, COMPS, LEVEL, ASSUME, tier, seed, pre=locks.with_locks(), post=race_pass)


def replay(path):
    return V.replay(PROP, COMPS, path, SPEC, pre=locks.with_locks())
