"""C07 — kernel programs stay inside the packet and leave other traffic untouched.

Runs every program for which a byte-level model and a native runner exist:
  dhcp_fastpath_prog  (component xdpdhcp,  Spec Bng.Spec.C07)
  antispoof_ingress, qos_egress_prog, qos_ingress_prog  (component tcprogs, Spec Bng.Spec.C07Tc)
  nat44_egress / nat44_ingress / nat44_hairpin_xdp       (plugged in from checks/c07_nat44.py, owned by the nat44 work)
"""
import os
import sys

sys.path.insert(0, os.path.dirname(os.path.abspath(__file__)))
import verif as V
import cshim

PROP = "C07"
MON = ["fault", "undefined-verdict", "pass-modified"]
XDPDHCP = V.Component("xdpdhcp", harness="xdpdhcp", drv="xdpdhcp", monitors=MON, kind="gotest")
SPEC = ["Bng.Spec.C07"]
COMPS = [XDPDHCP]
RUNNERS = [(XDPDHCP, "dhcp_fastpath")]
LEVEL = ("Memory safety (every packet load and store inside [data, data_end)), a defined verdict and "
         "pass-means-unmodified are theorems over byte-level Lean models of the programs for ALL frames (every length, "
         "any content), all map contents (arbitrary key/value bytes) and all clock values; termination is Lean's "
         "totality. The models follow the C text branch for branch over a checked load/store layer (Bng/C.lean) and are "
         "tied to the UNMODIFIED C programs, compiled natively with clang under ASan/UBSan with every frame flush "
         "against a PROT_NONE page, by differential execution (verdict and frame bytes must agree; a native FAULT the "
         "model does not predict is a correspondence break with that frame) over structured frames (untagged/802.1Q/"
         "802.1ad/QinQ x IHL 0..15 x option 53 at every offset 0..12 x option 82 placements), truncation at every "
         "offset, every length 0..1600, byte mutations and random bytes, under cache hits by every key, misses, "
         "expiry and random map bytes. antispoof_ingress / qos_*: the checked-access models contain no packet store, so "
         "their *_pass_unmodified theorems hold by construction of the model; that the C programs contain no store "
         "either rests on the native before/after byte comparison of every run (monitor pass-modified, applied under "
         "TC_ACT_OK and TC_ACT_SHOT alike), while their no_fault / defined_verdict theorems are about the modelled loads.")
ASSUME = [
    "clang's native x86-64 code generation (-O1, ASan/UBSan) stands for the BPF back end; the in-kernel verifier is not run",
    "kernel map semantics and bpf_ktime_get_ns are modelled as byte tables and a clock value (cshim); statistics counters "
    "(stats_map) are not modelled: they influence neither frame bytes nor verdicts",
    "dhcp_fastpath: pass-means-unmodified and the TX characterisation assume a frame shorter than 64 KiB "
    "(`__u16 orig_len` in the C text; an XDP frame is at most one page); memory safety and the verdict range need no bound",
    "bpf_xdp_adjust_tail: a shrink to no less than ETH_HLEN succeeds (kernel helper contract; the program only ever shrinks — proved)",
]

# ---- TC programs (antispoof, qos): added below when their models exist ----
try:
    import c07_tc
    SPEC = SPEC + c07_tc.SPEC
    COMPS = COMPS + c07_tc.COMPS
    RUNNERS = RUNNERS + c07_tc.RUNNERS
    ASSUME = ASSUME + c07_tc.ASSUME
except ImportError:
    c07_tc = None

# ---- nat44 hook: checks/c07_nat44.py is owned by the nat44 work; it is plugged in when its Spec module is present ----
c07_nat44 = None
if os.path.exists(os.path.join(V.LEAN, "Bng", "Spec", "C07Nat44.lean")):
    try:
        import c07_nat44
        SPEC = SPEC + c07_nat44.SPEC
        COMPS = COMPS + c07_nat44.COMPS
        ASSUME = ASSUME + c07_nat44.ASSUME
    except ImportError:
        c07_nat44 = None


def pre(ctx):
    for comp, prog in RUNNERS:
        path = cshim.build_runner(ctx, prog)
        comp.exec_env[cshim.env_name(prog)] = path or "/nonexistent"
    if c07_nat44 is not None:
        c07_nat44.pre(ctx)


def run(tier, seed):
    return V.standard_check(PROP, SPEC, COMPS, LEVEL, ASSUME, tier, seed, pre=pre)


def replay(path):
    ctx = V.Ctx(PROP, "quick", 0)
    try:
        pre(ctx)
        return V.replay(PROP, COMPS, path, SPEC)
    finally:
        ctx.cleanup()
