"""C04 — no PPPoE session gets IP service without successful authentication."""
import os

import verif as V

PROP = "C04"
SPEC = ["Bng.Spec.C04", "Bng.Spec.C04Auth", "Bng.Spec.C16PppoeWhole", "Bng.Spec.C04Guards"]
COMPS = [
    V.Component("pppoesrv", monitors=["service-without-auth", "ipcp-without-auth", "foreign-mac", "obs-roundtrip"]),
    V.Component("pppauth", monitors=["success-without-accept", "wrong-protocol", "stale-challenge", "id-mismatch"]),
]
LEVEL = ("service_requires_auth, ipcp_ack_requires_auth, foreign_mac_inert and ghost_set_only_by_accepted_pap are "
         "theorems over the Lean model of the PPPoE server's discovery/session dispatch for ALL frame sequences, "
         "MACs, session ids and RADIUS outcomes; the model is tied to pkg/pppoe/server.go by differential execution "
         "of frame sequences through the real handlers (in-memory socket hook, scripted loopback RADIUS server), and "
         "the monitor judges the real server's session table and emitted frames.  Component pppauth: "
         "success_requires_accept, ghost_set_only_by_accepted_exchange, only_configured_protocol, "
         "response_must_match_issued_challenge, reply_echoes_id and monitor_silent_on_model are theorems over the Lean model of the PAP/CHAP "
         "Authenticator state machine of pkg/pppoe/auth.go for ALL sequences of Start / PAP request / CHAP response (any "
         "identifier, any response value) / re-authentication / elapsed time, both protocols, with and without RADIUS and "
         "every RADIUS outcome; the model is tied to the real pppoe.Authenticator by differential execution through its "
         "public API against a loopback RADIUS server that reports which credentials each Access-Request carried, and the "
         "monitor judges the real authenticator's packets, state, completion callback and RADIUS requests.")
ASSUME = [
    "frames are well-formed (decoding of malformed bytes is C09); pkg/pppoe/server.go handles PAP itself and has no CHAP case "
    "(a peer that negotiated CHAP can never authenticate there); the PAP/CHAP Authenticator of pkg/pppoe/auth.go is decided "
    "separately by component pppauth (no production code instantiates it today)",
    "RADIUS outcome is a parameter of the PAP/CHAP operation (accept / reject / no answer / honest verification of the "
    "credentials shown); the RADIUS client library and the layeh attribute codec are trusted",
    "pppauth: without a RADIUS client the code's own rule is the authority: every PAP password and every CHAP response to the "
    "open challenge is accepted (theorems without_radius_every_response_is_accepted / _password_is_accepted state this; "
    "pinned by auth_test.go); challenge values are opaque (rand.Read not modelled, harness checks length 16 and freshness); "
    "time enters only through the failure rate limiter (verif hook ages the last failure; the exact 60 s boundary is not exercised); "
    "the monitor is proved silent on every model history (monitor_silent_on_model) and fires on the pre-fix tree 98663f9; "
    "the driver's rendering/parsing of observations is in the trusted base",
    "handlers run on the single receive goroutine (no concurrent frame handling is modelled)",
    "translator harness/cmd/extractguards (go/ast): Gen/Guards.lean lists the leading early-return guards of handlePADT, "
    "handleSession, handleIPCP and handleIPPacket as text; Spec.C04Guards decides that the owner, authentication and "
    "Established gates are there and first - presence and position only (an equivalent rewrite of a gate breaks it too)",
]
GUARDS = os.path.join(V.LEAN, "Bng", "Gen", "Guards.lean")


def regenerate(ctx):
    """translator: re-extract the handlers' guard table from V.REPO's working tree at the start of every run"""
    with V.Lock("lean"):
        with V.Lock("gomod"):
            rc, out = V.sh(["go", "run", "./cmd/extractguards", "-repo", V.REPO, "-out", GUARDS], cwd=V.HARNESS, env=V.env_go())
        if rc != 0 and os.path.exists(GUARDS):
            os.remove(GUARDS)
    if rc != 0:
        msg = "; ".join(l for l in out.splitlines() if l.startswith("extractguards:") and "wrote" not in l) or out[-800:]
        ctx.broken.append(("translator", "extract guards failed: " + msg))
    ctx.notes.append("extractguards rc=%d" % rc)


def run(tier, seed):
    return V.standard_check(PROP, SPEC, COMPS, LEVEL, ASSUME, tier, seed, pre=regenerate)


def replay(path):
    return V.replay(PROP, COMPS, path, SPEC)
