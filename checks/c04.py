"""C04 — no PPPoE session gets IP service without successful authentication."""
import verif as V

PROP = "C04"
SPEC = "Bng.Spec.C04"
COMPS = [
    V.Component("pppoesrv", monitors=["service-without-auth", "ipcp-without-auth", "foreign-mac"]),
]
LEVEL = ("service_requires_auth, ipcp_ack_requires_auth, foreign_mac_inert and ghost_set_only_by_accepted_pap are "
         "theorems over the Lean model of the PPPoE server's discovery/session dispatch for ALL frame sequences, "
         "MACs, session ids and RADIUS outcomes; the model is tied to pkg/pppoe/server.go by differential execution "
         "of frame sequences through the real handlers (in-memory socket hook, scripted loopback RADIUS server), and "
         "the monitor judges the real server's session table and emitted frames.")
ASSUME = [
    "frames are well-formed (decoding of malformed bytes is C09); PAP only (the server implements no CHAP exchange in server.go)",
    "RADIUS outcome is a parameter of the PAP operation (accept / reject / no answer); the RADIUS client library is trusted",
    "handlers run on the single receive goroutine (no concurrent frame handling is modelled)",
]


def run(tier, seed):
    return V.standard_check(PROP, SPEC, COMPS, LEVEL, ASSUME, tier, seed)


def replay(path):
    return V.replay(PROP, COMPS, path)
