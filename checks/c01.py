"""C01 — no address or prefix is ever held by two subscribers at once."""
import verif as V

PROP = "C01"
SPEC = "Bng.Spec.C01"
# monitors of the pool specification that belong to C01 (C05 owns count/exhaustion/lost/total)
MON = ["unique", "idempotent", "range", "agree"]
COMPS = [
    V.Component("bitmap", monitors=MON, ignore_diff_ops=["stats"]),
]
LEVEL = ("Uniqueness, in-range and idempotence are theorems over the Lean models of the pool implementations "
         "for ALL operation histories and pool geometries (invariant + induction over the operation list); the "
         "models are tied to the real Go code by differential execution of generated operation sequences, and the "
         "abstract pool monitor (the definition the refinement theorems are about) judges the real code's answers.")
ASSUME = [
    "each mutex-protected method is one atomic step (lock discipline of the pool types); data races inside a critical section are not modelled",
    "subscriber ids are non-empty strings; net.ParseCIDR masks the base address",
    "bitmap: geometries with fewer than 2^64 units (the 2^80-unit geometry is listed as a known finding of C05)",
]


def run(tier, seed):
    return V.standard_check(PROP, SPEC, COMPS, LEVEL, ASSUME, tier, seed)


def replay(path):
    return V.replay(PROP, COMPS, path)
