"""C01 — no address or prefix is ever held by two subscribers at once."""
import verif as V
import locks
import poolrace

PROP = "C01"
SPEC = ["Bng.Spec.C01", "Bng.Spec.C01Epoch", "Bng.Spec.C01FreeList", "Bng.Spec.C01Nexus", "Bng.Spec.C01Cluster", "Bng.Spec.C16PppoeWhole", "Bng.Spec.C01V6Construct", "Bng.Spec.C01Alias"] + ["Bng.Spec.C05Locks"]
# monitors of the pool specification that belong to C01 (C05 owns count/exhaustion/lost/total)
MON = ["unique", "idempotent", "range", "agree"]
# epoch (lease) allocator: Bng.LeaseSpec adds expiry/reclaimed to the pool monitor
MON_EPOCH = ["unique", "idempotent", "range", "agree"]
COMPS = [
    # DistributedAllocator: uniqueness over TIME (leases kept alive, restarts, replication) judged from its answers
    V.Component("dist", monitors=["unique", "idempotent", "range"]),
    # PoolAllocator (store.go): the bitmap allocator behind a persisting store (production path of NewLocalAllocator, dhcpv6)
    V.Component("poolalloc", monitors=MON),
    V.Component("epoch", monitors=MON_EPOCH, ignore_diff_ops=["stats"]),
    V.Component("bitmap", monitors=MON, ignore_diff_ops=["stats"]),
    # the five free-list pools (one generic Lean model, Bng.FreeList) and the hash allocator
    V.Component("dhcppool", monitors=MON, ignore_diff_ops=["stats"]),
    V.Component("v6addr", harness="v6pool", monitors=MON, exec_env={"V6POOL_KIND": "addr"}),
    V.Component("v6prefix", harness="v6pool", monitors=MON, exec_env={"V6POOL_KIND": "prefix"}),
    V.Component("pppoepool", monitors=MON),
    # what dhcpv6.NewPrefixPool / NewAddressPool BUILD, for every legal geometry (dhcp6 harness, constructor ops only):
    # a free list with a repeated entry hands one prefix to two clients although every allocation step is right
    V.Component("dhcp6pools", harness="dhcp6", drv="dhcp6", monitors=["pool-distinct", "pool-inside"], kind="gotest",
                gen_args=["-only", "pools"]),
    # the whole PPPoE server around that pool: no two live sessions hold one address, a held address is not free, what a
    # session shows is the pool's entry for it (Spec.C16PppoeWhole.sessions_hold_distinct_addresses & co.)
    V.Component("pppoesrv", monitors=["unique", "held-free", "pool-entry"]),
    V.Component("localpool", monitors=MON, ignore_diff_ops=["stats"]),
    V.Component("nexushash", monitors=MON),
    # the real nexus.Client over an in-memory store (AllocateIPForSubscriber / ReleaseSubscriberIP, pool records edited)
    V.Component("nexusclient", monitors=MON),
    # two/three PeerPool nodes of one process with health flips (LocalPool behind the peer routing)
    V.Component("peercluster", monitors=MON, ignore_diff_ops=["stats"]),
]
LEVEL = ("Uniqueness, in-range and idempotence are theorems over the Lean models of the pool implementations "
         "for ALL operation histories and pool geometries (invariant + induction over the operation list); the "
         "models are tied to the real Go code by differential execution of generated operation sequences, and the "
         "abstract pool monitor (the definition the refinement theorems are about) judges the real code's answers.")
ASSUME = [
    "concurrent callers: a burst of k concurrent Allocate calls of one subscriber (localpool, peercluster) is judged against ONE allocate (theorem burst_equals_single_allocate: under the pool's mutex a burst is a sequence of k calls, all but the first idempotent); the k goroutines are parked at the pool lock held by the harness and released together; the same workload runs a second time under the Go race detector; concurrent calls of DIFFERENT subscribers are not driven (their answers depend on the interleaving)",
    "small-scope exhaustive enumeration runs in the THOROUGH tier only (the quick tier is seeded random sequences plus the corpus); its real bounds for the free-list pools are: dhcppool all sequences of length 5 over 13 ops (alloc x3 MACs, release/mark/reserve of in-pool addresses, one alias probe `scribble`) and of length 4 over those plus 3 out-of-range and 2 read-only ops, on pools of 2 and 3 usable addresses; v6addr, v6prefix, pppoepool all alloc/release sequences over 3 keys of length 6 (2-4 units) and 7 (1-2 units); localpool the same plus length 5 over 12 ops including get/owner/stats; nexushash, nexusclient and peercluster have no exhaustive part (random only). This is narrower than the '<=8 units, <=7 operations' of the property text; the theorems, not the enumeration, cover the general case",
    "peercluster: all nodes are configured with the same peer list and the same pool network (as cmd/bng does from one set of flags); node health is set through the verif hook, the rendezvous ranking is taken from the implementation as an input of the model",
    "nexusclient: the client runs over nexus.MemoryStore; the harness waits after every operation until all watch callbacks have reached the client's caches (the in-memory store delivers them on unordered goroutines)",
    "free-list pools: the network is what net.ParseCIDR returns (masked base, prefix length within the family); pppoe.NewIPPool and dhcpv6.NewAddressPool on the all-addresses network (/0) are excluded (the former does not terminate); keys (MAC, DUID, session id, subscriber id) are mapped injectively to numbers; pppoe.IPPool has no mutex (its callers run on one goroutine)",
    "alias probes (poolalloc, dhcppool `scribble`): the harness overwrites the bytes of every *net.IPNet / net.IP the allocator returned to it or received from it (and, for the allocation store, of every record a getter returned); since fixes 1525014 and 7ce824d these objects are copies, so the probe is NO operation of the models; the pre-fix sharing is modelled separately (Bng.Dist.Aliased, Bng.PoolAlias) for the witness theorems only",
    "nexushash: allocateFromPool is driven through the verif hook with the pool record's CIDR; the surrounding subscriber-record bookkeeping of AllocateIPForSubscriber is not driven; uniqueness is FALSE for this allocator (known finding D1-nexus-hash)",
    "epoch: IPv4 base network masked to its prefix, ones <= PrefixLength <= 32 (what NewEpochBitmapAllocator accepts); the epoch counter is a Nat (the uint64 wraps consistently with % 4)",
    "each mutex-protected method is one atomic step (lock discipline of the pool types); data races inside a critical section are not modelled",
    "subscriber ids are non-empty strings; net.ParseCIDR masks the base address",
    "bitmap: geometries with fewer than 2^64 units (the 2^80-unit geometry is listed as a known finding of C05)",
]
ASSUME = ASSUME + [locks.ASSUME]

# concurrent callers of pool.LocalPool: burst-heavy sequences on harnesses built with -race (lib/poolrace.py)
RACE = poolrace.make(PROP, MON)


def run(tier, seed):
    return V.standard_check(PROP, SPEC, COMPS, LEVEL, ASSUME, tier, seed, pre=locks.with_locks(), post=RACE)


def replay(path):
    return V.replay(PROP, COMPS, path, SPEC, pre=locks.with_locks())
