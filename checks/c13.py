"""C13 — standby converges to the active node's session table."""
import verif as V
import locks

PROP = "C13"
SPEC = ["Bng.Spec.C13"] + ["Bng.Spec.C13Locks"]
MON = ["fullsync-differs", "order", "diverged", "stale-attach"]
COMPS = [
    V.Component("hasync", monitors=MON),
]
LEVEL = ("Theorems over a Lean model of pkg/ha/sync.go (active table, sequence numbers, bounded change queue and "
         "client channel, standby store/receivedSessions, full sync, stream attach/deliver/disconnect) for ALL "
         "add/update/delete histories and ALL broadcast/deliver/full-sync/attach/disconnect schedules: the standby "
         "table equals the snapshot after every full sync (full strength, D41 repaired), streamed changes are applied "
         "in push order, and the standby converges at quiescence unless a change fell into the sync/attach gap (D42) or "
         "was dropped by a full channel (D43) - both proved on the model by witness theorems and excluded by narrow "
         "clauses. The model is tied to the real HASyncer pair by differential execution at the message layer "
         "(real handlers, real JSON encode/decode, real HTTP full sync) and, in the thorough tier, end to end with two "
         "started syncers over loopback TCP through a cut-able proxy; the monitor judges the real code's tables.")
ASSUME = [
    "each handler / loop iteration of sync.go is one atomic step (broadcast, heartbeat, deliver, full sync); the HTTP GET "
    "of a full sync is atomic with its application on the standby (no stream is attached while standbyLoop runs "
    "performFullSync)",
    "SINGLE WRITER on the active: the caller's store write and PushChange of successive changes do not overlap. "
    "PushChange itself takes the sequence number (atomic add) and enqueues in two steps, so two concurrent callers could "
    "enqueue out of sequence order and in an order different from their store writes; handleGetSessions reads the store "
    "and then the sequence number. Neither is modelled: nothing in the repository calls PushChange concurrently (nothing "
    "calls it at all outside the tests); harness/cmd/pushstress reproduces the resulting divergence on the real code "
    "(recorded finding KF-ha-push-race, theorem KF_push_race_witness)",
    "one standby; SessionState is abstracted to (id, value) - the harness derives every field from the pair and checks "
    "all of them on the standby",
    "end-to-end runs use real time: a change is given 15 ms to be broadcast, a quiescent point waits up to 400 ms",
    "PushChange refusing a change because the 1000-slot queue is full is folded into finding D43 (bounded channel drops)",
    "a session stays in the scope of D43 until a snapshot is taken with nothing about it in flight (excl_D43_resets); "
    "for a session that is changed continuously converges_partial says nothing in the meantime",
]
ASSUME = ASSUME + [locks.ASSUME]


def run(tier, seed):
    return V.standard_check(PROP, SPEC, COMPS, LEVEL, ASSUME, tier, seed, pre=locks.with_locks())


def replay(path):
    return V.replay(PROP, COMPS, path, SPEC, pre=locks.with_locks())
