"""C13 — standby converges to the active node's session table."""
import verif as V

PROP = "C13"
SPEC = "Bng.Spec.C13"
MON = ["fullsync-differs", "order", "diverged"]
COMPS = [
    V.Component("hasync", monitors=MON),
]
LEVEL = ("Theorems over a Lean model of pkg/ha/sync.go (active table, sequence numbers, bounded change queue and "
         "client channel, standby store/receivedSessions, full sync, stream attach/deliver/disconnect) for ALL "
         "add/update/delete histories and ALL broadcast/deliver/full-sync/attach/disconnect schedules: the standby "
         "table equals the snapshot after every full sync (full strength, D41 repaired), streamed changes are applied "
         "in push order, and the standby converges at quiescence unless a change fell into the sync/attach gap (D42) or "
         "was dropped by a full channel (D43) - both proved on the model by witness theorems and excluded by narrow "
         "clauses. The model is tied to the real HASyncer pair by differential execution at the message layer "
         "(real handlers, real JSON encode/decode, real HTTP full sync) and, in the thorough tier, end to end with two "
         "started syncers over loopback TCP through a cut-able proxy; the monitor judges the real code's tables.")
ASSUME = [
    "each handler / loop iteration of sync.go is one atomic step (broadcast, deliver, full sync); the HTTP GET of a full "
    "sync is atomic with its application on the standby (no stream is attached while standbyLoop runs performFullSync)",
    "one standby; SessionState is abstracted to (id, value) - the harness derives every field from the pair and checks "
    "all of them on the standby",
    "end-to-end runs use real time: a change is given 15 ms to be broadcast, a quiescent point waits up to 400 ms",
    "PushChange refusing a change because the 1000-slot queue is full is folded into finding D43 (bounded channel drops)",
]


def run(tier, seed):
    return V.standard_check(PROP, SPEC, COMPS, LEVEL, ASSUME, tier, seed)


def replay(path):
    return V.replay(PROP, COMPS, path)
