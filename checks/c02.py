"""C02 — DHCP servers never bind one address or prefix to two clients."""
import os

import verif as V
import dhcp6int
import locks

PROP = "C02"
SPEC = ["Bng.Spec.C02", "Bng.Spec.C01V6Construct"] + ["Bng.Spec.C02Locks"]
MON = ["foreign-ack", "double-binding", "range", "renew-changed", "declined-reoffered", "not-reusable",
       # what the DHCPv6 pool constructors build (newpool / newapool over all legal geometries)
       "pool-distinct", "pool-inside"]
# the drivers are registered in lean/Main.lean (bngdrv); VERIF_C02_DRV=bngdrv-c02 selects the executable that hosts
# only the two C02 drivers (useful while another property's driver does not build)
DRV_BIN = os.environ.get("VERIF_C02_DRV", "bngdrv")
COMPS = [
    # test binaries: the harnesses run every sequence inside a testing/synctest bubble (virtual clock)
    V.Component("dhcp4", monitors=MON, kind="gotest", drv_bin=DRV_BIN),
    V.Component("dhcp6", monitors=MON, kind="gotest", drv_bin=DRV_BIN),
]
# the DHCPv6 server in integrated-allocator mode (lib/dhcp6int.py)
COMPS += dhcp6int.comps(["double-binding", "foreign-ack", "range"])
SPEC = SPEC + dhcp6int.SPEC

LEVEL = ("The binding invariants (Bind4: pool never double-books, every lease is backed by the pool binding of its MAC or is "
         "that MAC's Nexus allocation, only usable undeclined host addresses are served; Bind6: the same for DHCPv6 "
         "addresses and delegated prefixes) and their consequences (ack_not_foreign, one_binding_per_addr, "
         "served_in_pool, renew_same, declined_not_reoffered, released/expired_reusable) are theorems over the Lean "
         "models of pkg/dhcp and pkg/dhcpv6 for ALL message histories, time advances, cleanup orders and cleanup passes "
         "split at their lock gap, from any pool configuration (invariant + induction over the history). DHCPv4 theorems "
         "marked _partial assume that no message takes the circuit-id-index path (recorded finding D9, proved as "
         "D9_witness) and, in Nexus mode, that the external Nexus API never gives one address to two MACs and none of "
         "the local pool's host addresses (NexusOk); the DHCPv6 uniqueness/range/renew theorems are unconditional, its "
         "expiry/decline/advertise defects (D6, D7, D8) are recorded findings with witness theorems. The models are "
         "tied to the real Go code by differential execution: real dhcpv4 packets / DHCPv6 messages go through the "
         "real handlers (verif hooks) under a virtual clock (testing/synctest; the v4 one-minute cleanup ticker really "
         "runs; `gap` handles a message between the scan and the removal of a real cleanup pass), and reply + lease "
         "table + circuit index + pool state after every message are compared verbatim with the model. An abstract "
         "binding table that sees only messages, replies and time (Bng.BindSpec) judges the real code's replies. "
         "GENERATOR REACH: the property record's quantifier says 'k<=4 exhaustively to depth 6'; that product (~10^10 "
         "sequences) is NOT enumerated. Enumerated exhaustively (thorough tier; quick = seeded sample) are smaller "
         "scopes: v4 2 clients depth 5/6 (13/8 letters, one-address pool), 3 clients depth 4 (21 letters), 4 clients "
         "depth 3 (43 letters, requested address in {own, other's, gateway, broadcast, network, outside, none}), a "
         "lock-gap scope (lease 290 s, 2 clients depth 4), a Nexus-mode scope (3 clients depth 3) and a scope inside the "
         "expired-but-unswept window (client 1's lease over, sweep not yet run; 3 clients, 2 addresses, depth 4, 12 letters: "
         "DISCOVER with/without option 50, REQUEST by the lessee and by the others, RELEASE, the sweep); a directed random "
         "family walks the same window (A leases X; lease over; A DISCOVERs naming Y; B REQUESTs X; sweep; C REQUESTs X, every "
         "role and step randomised); one random DISCOVER in three carries option 50 (op `discr`); v6 2 clients "
         "depth 5 and 3 clients depth 4; plus seeded random runs to depth 200 with 6 (v4) / 9 (v6) clients.")
ASSUME = [
    "each handler call is one atomic step (the harness delivers one packet at a time); cleanupExpiredLeases is split at "
    "the one point where it holds no lock (between scan and removal); data races inside a critical section are not modelled",
    "DHCPv4: one pool (ClassifyClient's default), no reserved ranges; Nexus client (GetSubscriberByMAC), peer pool, RADIUS "
    "authentication/accounting, QoS, NAT and the eBPF cache are absent/disabled (an ebpf.Loader that never loaded its maps); "
    "Nexus HTTP-allocator mode IS covered: LookupIPv4 answers found / 404 from a fixed table through the real "
    "nexus.HTTPAllocator and an in-process HTTP handler (lookup failures other than 404 are not generated)",
    "NexusOk (assumption about an external system, hypothesis of the v4 theorems in Nexus mode): Nexus allocations are "
    "unique per address and are not host addresses of the local walled-garden pool; the generator's tables satisfy it",
    "option 82 is absent, carries a circuit-id, an empty circuit-id, only a remote-id, or a truncated TLV",
    "DHCPv6: legacy AddressPool/PrefixPool mode only (not the integrated allocator.PoolAllocator), no relay messages, "
    "no Information-Request; pools of at most 7 addresses / 4 prefixes in the correspondence runs (the generation "
    "arithmetic of large pools belongs to C01's v6addr/v6prefix components)",
    "time: messages arrive on whole virtual minutes, the v4 cleanup ticker fires 30 s later; lease times 300 s (on the grid) "
    "and 290 s (expiry between message instant and ticker); the monitor treats an OFFER/Advertise as outstanding for 60 s "
    "and a lease as occupying its value until 60 s after its end (the cleanup period)",
    "wire codec (insomniacslk/dhcp for v4, pkg/dhcpv6/protocol.go for v6) is exercised (every message is serialised and "
    "re-parsed) but not modelled",
]
ASSUME = ASSUME + [locks.ASSUME]


ASSUME = ASSUME + dhcp6int.ASSUME
LEVEL = LEVEL + " " + dhcp6int.LEVEL

def run(tier, seed):
    return V.standard_check(PROP, SPEC, COMPS, LEVEL, ASSUME, tier, seed, pre=locks.with_locks())


def replay(path):
    return V.replay(PROP, COMPS, path, SPEC, pre=locks.with_locks())
