"""C02 — DHCP servers never bind one address or prefix to two clients."""
import os

import verif as V

PROP = "C02"
SPEC = "Bng.Spec.C02"
MON = ["foreign-ack", "double-binding", "range", "renew-changed", "declined-reoffered", "not-reusable"]
# the drivers are registered in lean/Main.lean (bngdrv); VERIF_C02_DRV=bngdrv-c02 selects the executable that hosts
# only the two C02 drivers (useful while another property's driver does not build)
DRV_BIN = os.environ.get("VERIF_C02_DRV", "bngdrv")
COMPS = [
    # test binaries: the harnesses run every sequence inside a testing/synctest bubble (virtual clock)
    V.Component("dhcp4", monitors=MON, kind="gotest", drv_bin=DRV_BIN),
    V.Component("dhcp6", monitors=MON, kind="gotest", drv_bin=DRV_BIN),
]
LEVEL = ("The binding invariants (Bind4: pool never double-books, every lease is backed by the pool binding of its MAC, "
         "only usable undeclined host addresses are served; Bind6: the same for DHCPv6 addresses and delegated prefixes) "
         "and their consequences (ack_not_foreign, one_binding_per_addr, served_in_pool, renew_same, "
         "declined_not_reoffered, released/expired_reusable) are theorems over the Lean models of pkg/dhcp and "
         "pkg/dhcpv6 for ALL message histories, time advances and cleanup orders from any pool configuration "
         "(invariant + induction over the history). DHCPv4 theorems marked _partial assume that no message takes the "
         "circuit-id-index path (recorded finding D9, proved as D9_witness); the DHCPv6 uniqueness/range/renew theorems "
         "are unconditional, its expiry/decline/advertise defects (D6, D7, D8) are recorded findings with witness "
         "theorems. The models are tied to the real Go code by differential execution: real dhcpv4 packets / DHCPv6 "
         "messages go through the real handlers (verif hooks) under a virtual clock (testing/synctest; the v4 "
         "one-minute cleanup ticker really runs), and reply + lease table + circuit index + pool state after every "
         "message are compared verbatim with the model. An abstract binding table that sees only messages, replies "
         "and time (Bng.BindSpec) judges the real code's replies.")
ASSUME = [
    "each handler call is one atomic step (the harness delivers one packet at a time); cleanupExpiredLeases is atomic "
    "(its RLock scan / Lock removal window is not interleaved with packets); data races are not modelled",
    "DHCPv4: one pool (ClassifyClient's default), no reserved ranges; Nexus client, HTTP allocator, peer pool, RADIUS "
    "authentication/accounting, QoS, NAT and the eBPF cache are absent/disabled (an ebpf.Loader that never loaded its maps); "
    "option 82 is either absent or carries a non-empty circuit-id",
    "DHCPv6: legacy AddressPool/PrefixPool mode only (not the integrated allocator.PoolAllocator), no relay messages, "
    "no Information-Request; pools of at most 7 addresses / 4 prefixes in the correspondence runs (the generation "
    "arithmetic of large pools belongs to C01's v6addr/v6prefix components)",
    "time: messages arrive on whole virtual minutes, the v4 cleanup ticker fires 30 s later; the monitor treats an OFFER/"
    "Advertise as outstanding for 60 s and a lease as occupying its value until 60 s after its end (the cleanup period)",
    "wire codec (insomniacslk/dhcp for v4, pkg/dhcpv6/protocol.go for v6) is exercised (every message is serialised and "
    "re-parsed) but not modelled",
]


def run(tier, seed):
    return V.standard_check(PROP, SPEC, COMPS, LEVEL, ASSUME, tier, seed)


def replay(path):
    return V.replay(PROP, COMPS, path)
