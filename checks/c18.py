"""C18 — a subscriber can only source traffic from its bound address."""
import verif as V
import cshim

PROP = "C18"
SPEC = "Bng.Spec.C18"
MON = ["strict", "loose", "logonly", "forward", "binding"]
COMP = V.Component("antispoof", monitors=MON)
COMPS = [COMP]
LEVEL = ("The decision logic of antispoof_ingress is stated outright and proved over ALL frames with a complete "
         "IP header and all map contents (strict_iff / strict_iff_v6, loose_iff, logonly_forwards, disabled_forwards, "
         "nonip_forwards, incomplete_forwards) on a byte-level Lean model of bpf/antispoof.c, and composed with "
         "a model of pkg/antispoof/manager.go as a writer of map bytes (binding_as_written, binding_v6_as_written, "
         "unbinding_as_written, setmode_as_written, range_as_written, strict_end_to_end, loose_end_to_end). The model "
         "is tied to the code by differential execution: the real antispoof.Manager writes into REAL kernel maps "
         "(hash, array, LPM trie), the raw bytes are handed to the natively compiled C (clang, ASan+UBSan, frames "
         "flush against a guard page), verdicts are compared with the model, every LPM lookup is cross-checked "
         "against the real kernel trie, and monitors built from the control-plane operations alone judge the C "
         "program's verdicts.")
ASSUME = [
    "clang's x86-64 code generation stands in for the BPF back end; the in-kernel verifier is not exercised",
    "kernel map semantics (hash, array, LPM trie) are modelled as byte tables; the LPM model is cross-checked "
    "against a real kernel LPM trie on every lookup of the run",
    "frame model of the theorems: Ethernet II with the IP ethertype at offset 12; frames carrying IP behind a VLAN tag "
    "(0x8100/0x88a8/0x9100/0x9200) or a PPPoE session header are finding D51 (the monitors look inside them)",
    "spec state of the monitors: AddBinding changes the IPv4 address only (an IPv6 binding stays), AddBindingV6 the IPv6 "
    "address only, SetMode sets the mode in force for every MAC (bound or not)",
    "the manager handles 6-byte MACs and prefix masks; every other call must be refused (checked), the theorems are stated for those",
]


def pre(ctx):
    path = cshim.build_runner(ctx, "antispoof")
    COMP.exec_env[cshim.env_name("antispoof")] = path or "/nonexistent"


def run(tier, seed):
    return V.standard_check(PROP, SPEC, COMPS, LEVEL, ASSUME, tier, seed, pre=pre)


def replay(path):
    ctx = V.Ctx(PROP, "quick", 0)
    try:
        pre(ctx)
        return V.replay(PROP, COMPS, path, SPEC)
    finally:
        ctx.cleanup()
