"""C07, TC programs part (antispoof_ingress, qos_egress_prog, qos_ingress_prog) — plugged into checks/c07.py.

Spec Bng.Spec.C07Tc: `<p>_no_fault`, `<p>_defined_verdict`, `<p>_pass_unmodified` over ALL frames and ALL behaviours of
the map lookups / token_bucket_check (they are universally quantified parameters of the checked-access models in
Bng/Model/TcSafe.lean).  Component `tcprogs`: harness/cmd/tcprogs drives the UNMODIFIED programs compiled natively
(cshim, ASan+UBSan, guard page) with raw map bytes; bngdrv `tcprogs` replays the trace on the checked-access models,
with the map side supplied by the functional models of C18/C19 (Bng.Antispoof, Bng.TokenBucket).
"""
import verif as V

SPEC = ["Bng.Spec.C07Tc"]
MON = ["fault", "undefined-verdict", "pass-modified"]
COMP = V.Component("tcprogs", harness="tcprogs", drv="tcprogs", monitors=MON)
COMPS = [COMP]
RUNNERS = [(COMP, "antispoof"), (COMP, "qos_ratelimit")]
ASSUME = [
    "antispoof / qos: the map side is abstracted to its results in the theorems (every lookup result and every answer of "
    "token_bucket_check is universally quantified); in the correspondence run it is supplied by the C18/C19 models "
    "(LPM trie with the kernel's longest-prefix semantics, exact UInt64 token bucket)",
    "antispoof / qos: statistics maps and the content of perf events are not modelled (their number is compared); "
    "skb->len is an input; frames are what the TC hook sees (Ethernet header first)",
]
