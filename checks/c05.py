"""C05 — address pools neither leak nor miscount."""
import verif as V

PROP = "C05"
SPEC = "Bng.Spec.C05"
MON = ["count", "total", "exhaustion", "lost"]
COMPS = [
    V.Component("bitmap", monitors=MON),
]
LEVEL = ("Counting, exhaustion-only-when-full and release-returns are theorems over the Lean pool models for ALL "
         "operation histories and geometries; the models are tied to the real Go code by differential execution, and "
         "the abstract pool monitor judges the real code's Stats()/exhaustion answers against the holdings it handed out.")
ASSUME = [
    "each mutex-protected method is one atomic step; data races inside a critical section are not modelled",
    "bitmap theorems assume fewer than 2^64 units (GoodCfg); the complement is the recorded finding KF-bitmap-wide",
]


def run(tier, seed):
    return V.standard_check(PROP, SPEC, COMPS, LEVEL, ASSUME, tier, seed)


def replay(path):
    return V.replay(PROP, COMPS, path)
