"""C05 — address pools neither leak nor miscount."""
import verif as V
import dhcp6int
import locks
import poolrace

PROP = "C05"
SPEC = ["Bng.Spec.C05", "Bng.Spec.C05Epoch", "Bng.Spec.C05FreeList", "Bng.Spec.C05Cluster", "Bng.Spec.C05ClusterFault", "Bng.Spec.C16PppoeWhole", "Bng.Spec.C16PppoePark"] + ["Bng.Spec.C05Locks"]
MON = ["count", "total", "exhaustion", "lost"]
# epoch (lease) allocator: Bng.LeaseSpec adds expiry/reclaimed to the pool monitor
MON_EPOCH = ["count", "total", "exhaustion", "lost", "expiry", "reclaimed", "utilisation"]
COMPS = [
    # PoolAllocator (store.go): the bitmap allocator behind a persisting store (production path of NewLocalAllocator, dhcpv6)
    V.Component("poolalloc", monitors=MON),
    V.Component("epoch", monitors=MON_EPOCH),
    # DistributedAllocator.Stats: the utilisation figure (its unit depends on the pool mode: KF-util-units)
    V.Component("dist", monitors=["utilisation", "reclaimed"]),
    V.Component("bitmap", monitors=MON),
    # the five free-list pools (one generic Lean model, Bng.FreeList)
    V.Component("dhcppool", monitors=MON),
    V.Component("v6addr", harness="v6pool", monitors=MON, exec_env={"V6POOL_KIND": "addr"}),
    V.Component("v6prefix", harness="v6pool", monitors=MON, exec_env={"V6POOL_KIND": "prefix"}),
    V.Component("pppoepool", monitors=MON),
    # what dhcpv6.NewPrefixPool / NewAddressPool BUILD, for every legal geometry (dhcp6 harness, constructor ops only):
    # a free list with a repeated entry hands one prefix to two clients although every allocation step is right
    V.Component("dhcp6pools", harness="dhcp6", drv="dhcp6", monitors=["pool-distinct", "pool-inside"], kind="gotest",
                gen_args=["-only", "pools"]),
    V.Component("localpool", monitors=MON),
    # two/three PeerPool nodes with health flips: per-node counts, and releases that free nothing ("leak")
    V.Component("peercluster", monitors=MON + ["leak"]),
    # the whole PPPoE server around its IPPool: free+allocated = size and allocated = address-holding sessions (+ sweeps)
    # after every frame; the monitor is proved silent on the model (Spec.C16PppoeWhole.monitor_silent_on_model)
    V.Component("pppoesrv", monitors=["residue", "conservation", "obs-roundtrip", "held-free", "pool-entry"]),
]
# the DHCPv6 server in integrated-allocator mode (lib/dhcp6int.py)
COMPS += dhcp6int.comps(["leak"])
SPEC = SPEC + dhcp6int.SPEC

LEVEL = ("Counting, exhaustion-only-when-full and release-returns are theorems over the Lean pool models for ALL "
         "operation histories and geometries; the models are tied to the real Go code by differential execution, and "
         "the abstract pool monitor judges the real code's Stats()/exhaustion answers against the holdings it handed out.")
ASSUME = [
    "concurrent callers: a burst of k concurrent Allocate calls of one subscriber (localpool, peercluster) is judged against ONE allocate (theorem burst_equals_single_allocate: under the pool's mutex a burst is a sequence of k calls, all but the first idempotent); the k goroutines are parked at the pool lock held by the harness and released together; the same workload runs a second time under the Go race detector; concurrent calls of DIFFERENT subscribers are not driven (their answers depend on the interleaving)",
    "small-scope exhaustive enumeration is part of the thorough tier only; bounds as listed in checks/c01.py (pools of 1-4 units, sequences of length 4-7); peercluster: random sequences only, nodes share peers and pool network",
    "free-list pools: the network is what net.ParseCIDR returns; the universe of a pool is what its constructor generates (dhcpv6 pools: the first 1000 units by design); 'usable' excludes addresses MarkUnavailable took off the free list; keys are mapped injectively to numbers",
    "epoch: expiry theorems assume byte(gracePeriod) <= 2 (finding D20 is the complement); Stats theorem assumes at least two slots (finding KF-epoch-tiny is the complement)",
    "peercluster: the answer of a forwarded request can be made to fail after the peer's handler ran (op `fault resp|status|body on|once|off` on the in-memory RoundTripper: Do error, 502, truncated JSON body); the peer's handler itself always runs to its end (a failure BEFORE the handler changes nothing and is not driven); the resulting leak is the recorded finding KF-peerpool-lost-response",
    "each mutex-protected method is one atomic step; data races inside a critical section are not modelled",
    "bitmap theorems assume fewer than 2^64 units (GoodCfg); the complement is the recorded finding KF-bitmap-wide",
]
ASSUME = ASSUME + [locks.ASSUME]

# concurrent callers of pool.LocalPool: burst-heavy sequences on harnesses built with -race (lib/poolrace.py)
RACE = poolrace.make(PROP, MON + ["leak"])


ASSUME = ASSUME + dhcp6int.ASSUME
LEVEL = LEVEL + " " + dhcp6int.LEVEL

def run(tier, seed):
    return V.standard_check(PROP, SPEC, COMPS, LEVEL, ASSUME, tier, seed, pre=locks.with_locks(), post=RACE)


def replay(path):
    return V.replay(PROP, COMPS, path, SPEC, pre=locks.with_locks())
