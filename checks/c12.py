"""C12 — allocations survive restart and replication unchanged."""
import verif as V
import locks

PROP = "C12"
SPEC = ["Bng.Spec.C12", "Bng.Spec.C12Nexus"] + ["Bng.Spec.C12Locks"]
COMPS = [
    V.Component("dist", monitors=["store-agree", "restart", "remote", "unique", "idempotent", "reclaimed", "reverse", "roundtrip"]),
    # PoolAllocator (store.go) over a fault-injecting MemoryAllocationStore shared with other pools
    V.Component("poolalloc", monitors=["store-agree", "reverse", "unique", "count"]),
    # nexus.Client: the cache of subscriber records against the store while the store refuses writes (fault put on|off, audit)
    V.Component("nexusclient", monitors=["store-agree"]),
]
LEVEL = ("Session mode (bitmap allocator): store/memory agreement under every store-failure vector, restart from the store "
         "for every enumeration order (prefixes preserved, uniqueness), and application of remote puts are theorems over "
         "the Lean model of DistributedAllocator for ALL admissible histories (invariant + induction). Serialise/restore: "
         "full observational equality for the epoch allocator, read-only queries for the bitmap allocator. Lease mode: a "
         "partial agreement theorem plus witness theorems for the recorded findings. The model is tied to the real "
         "DistributedAllocator by differential execution over a harness Store that permutes Query results and fails "
         "chosen calls; the C12 monitor judges the real code's audit/remote-put/side-by-side answers.")
ASSUME = [
    "each DistributedAllocator method is one atomic step (da.mu held); every operation performs at most one store write, after its in-memory step, so a stop after every store operation is a restart between operations (the multi-delete store cleanup of an epoch tick is not split)",
    "the store is a plain key-value map: a successful Put/Delete is durable and visible to the next Query; a failing call changes nothing; Query returns every key (any order); its failure at Start is not explored",
    "histories are admissible: a remote put announces a prefix of the pool that is free or already the subscriber's; the complement is the recorded finding KF-dist-remote-collision (its verdicts are emitted and attributed to it while the collision lasts)",
    "announced prefixes are masked to their length (net.ParseCIDR); malformed JSON/CIDR records are ignored by the code and not generated",
    "Start with other nodes writing (dist `restartgap`): ONE remote put or delete reaches the store right after the Query of the load step was answered; the harness's store notifies whoever watches at that moment and delivers the notification when Start has returned (a real store delivers it on a goroutine that waits for da.mu); the model's Session.startGap / Lease.startGap take any sequence of such changes (session_start_gap_replayed)",
    "poolalloc: two PoolAllocators of the SAME geometry share the store (every unit of one collides with the same unit of the other in the by-IP index) next to raw records of a third pool; the store's getters are called by the probe only",
    "nexusclient: memory = the client's cache of subscriber records, store = nexus.MemoryStore behind a wrapper that refuses every write under /subscriber/ while `fault put on`; the watch callbacks are settled after every operation",
    "bitmap geometries with fewer than 2^64 units (GoodCfg)",
    "PoolAllocator (store.go) is modelled over the bitmap model with the store's records and the by-IP conflict index as a set of foreign prefixes; MemoryAllocationStore's Marshal/Unmarshal is exercised by the harness (rtstore) and modelled as the identity; modes.go (LocalAllocator/HybridAllocator, thin maps of pool id to PoolAllocator) is not modelled",
]
ASSUME = ASSUME + [locks.ASSUME]


def run(tier, seed):
    return V.standard_check(PROP, SPEC, COMPS, LEVEL, ASSUME, tier, seed, pre=locks.with_locks())


def replay(path):
    return V.replay(PROP, COMPS, path, SPEC, pre=locks.with_locks())
