"""C10 at kernel level (also C16: a released subscriber's NAT state) — NOT a check of its own: a module for
checks/c10.py (and/or checks/c16.py) to plug in, same shape as checks/c07_nat44.py:

    import os, sys
    sys.path.insert(0, os.path.dirname(os.path.abspath(__file__)))
    import c10_natkern
    SPEC  = [SPEC] + c10_natkern.SPEC            # SPEC must become a list of Spec module names
    COMPS = COMPS + c10_natkern.COMPS
    ASSUME = ASSUME + c10_natkern.ASSUME
    V.standard_check(PROP, SPEC, COMPS, LEVEL, ASSUME, tier, seed, pre=c10_natkern.pre)

What it contributes
  * component `natkern`: harness/cmd/natkern drives the REAL nat.Manager (AllocateNAT / DeallocateNAT writing real
    kernel maps through its verif hooks) TOGETHER with the natively compiled, unmodified bpf/nat44.c (cshim): the kernel
    maps and the runner's maps are kept byte-identical in both directions, packets run through nat44_egress /
    nat44_ingress, and nat_sessions / nat_reverse / eim_table / subscriber_nat are read back (`maps`).  bngdrv component
    `natkern` predicts every release (which entries go), every packet and every read-back from the model; monitors on the
    implementation's observations: `kern-overlap`, `foreign-port`, `stale-delivery`, `stale-state`.
  * Spec module Bng.Spec.C10NatKern: `kernel_attribution` (after ANY history of allocations, releases and packets every
    session and EIM mapping uses a port of the CURRENT block of its private address), `egress_translation_in_own_block`,
    `release_removes_{block,sessions,reverse,eim}`, and `old_release_witness` (the manager before fix ac77db8 breaks it).
  * corpus/natkern/G6-nat-stale-sessions.ops: the witness of the fixed finding.
"""
import os
import sys

sys.path.insert(0, os.path.join(os.path.dirname(os.path.dirname(os.path.abspath(__file__))), "lib"))
import verif as V   # noqa: E402
import cshim        # noqa: E402

SPEC = ["Bng.Spec.C10NatKern"]
MON = ["kern-overlap", "foreign-port", "stale-delivery", "stale-state"]
COMP = V.Component("natkern", harness="natkern", drv="natkern", monitors=MON)
COMPS = [COMP]

LEVEL = ("natkern: kernel-level attribution (every NAT session / EIM mapping uses a port of the current block of its private "
         "address; a release removes every entry of the subscriber) is a theorem over the combined model of the manager's map "
         "writes and the nat44 programs for ALL histories and frames; tied to the real nat.Manager + the natively compiled "
         "nat44.c by differential execution with the kernel maps read back.")
ASSUME = [
    "natkern: addresses are byte palindromes (10.7.7.10, 198.18.18.198 …) so that the Go key image and the wire image coincide: "
    "for other addresses finding D10 (byte order of IPv4 keys) keeps nat44 from finding the subscriber's block at all",
    "natkern: which block AllocateNAT picks is taken from the bytes it wrote (C10's manager model owns that choice; the "
    "monitor kern-overlap checks the written blocks for overlap); one CPU: a packet in flight during DeallocateNAT is not modelled",
]


def pre(ctx):
    """build runprog-nat44 from the repository's working tree; failure marks the check broken"""
    path = cshim.build_runner(ctx, "nat44")
    COMP.exec_env[cshim.env_name("nat44")] = path or ""
