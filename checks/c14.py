"""C14 — a standby promotes itself only after sustained partner failure."""
import verif as V

PROP = "C14"
SPEC = "Bng.Spec.C14"
MON = ["early-promotion", "not-cancelled", "role-before-callback", "completed-events", "failback-unhealthy", "stuck"]
COMPS = [
    V.Component("failover", monitors=MON, kind="gotest"),
]
LEVEL = ("Theorems over a Lean small-step model of pkg/ha/failover.go (state, role, timer instances with deadlines and "
         "generations, in-flight executions split at the unlock points check / grace sleep / callback+commit, the health "
         "flag, counters) for ALL sequences of partner-down/up reports, clock advances, control-loop ticks, timer "
         "deliveries (late and stale ones included), callback outcomes and operator commands: all six clauses hold at "
         "full strength on the repaired code (D44, D45 and the failback-grace defect fixed). The model is tied to the "
         "real FailoverController by differential execution inside testing/synctest bubbles (virtual time, the real "
         "time.AfterFunc timers, control loop and grace sleeps); the monitor judges the real controller's role, state, "
         "counters and time-stamped event stream.")
ASSUME = [
    "each critical section of failover.go is one atomic step; the role-change callback is instantaneous (callback and "
    "commit are one step)",
    "a stale time.AfterFunc callback (fired, then blocked on the mutex while its timer was stopped) is reproduced by "
    "stopping the virtual clock 1 ns before the deadline and invoking the timer's function through a verif hook; the "
    "real goroutine race itself is not scheduled",
    "health events are the monitor's transitions only (partner_down / partner_up alternate), injected through "
    "SetPartnerHealthyForVerif; the HTTP health probe and its thresholds are not exercised",
    "the goroutine started by ForceFailover enters executeFailover before anything else happens (nothing can "
    "interleave observably: every other entry point ignores or refuses while the state is in_progress)",
]


def run(tier, seed):
    return V.standard_check(PROP, SPEC, COMPS, LEVEL, ASSUME, tier, seed)


def replay(path):
    return V.replay(PROP, COMPS, path)
