"""C14 — a standby promotes itself only after sustained partner failure."""
import verif as V
import locks

PROP = "C14"
SPEC = ["Bng.Spec.C14"] + ["Bng.Spec.C14Locks"]
MON = ["early-promotion", "not-cancelled", "role-before-callback", "completed-events", "failback-unhealthy", "stuck",
       "dual-active", "stranded"]
COMPS = [
    V.Component("failover", monitors=MON, kind="gotest"),
]
LEVEL = ("Theorems over a Lean small-step model of pkg/ha/failover.go (state, role, timer instances with deadlines and "
         "generations, in-flight executions split at every unlock point: entry check / grace sleep / re-validation and "
         "callback invocation / callback running without the lock / commit, the health flag, counters) for ALL sequences "
         "of partner-down/up reports, clock advances, control-loop ticks, timer deliveries (late and stale ones included), "
         "callback outcomes and durations, and operator commands: sustained-down at entry, partner still down when the "
         "callback is invoked, recovery cancels, role only after a successful callback, one completed event per "
         "promotion, failback callback only while healthy, never stuck in in_progress, and the two compensation "
         "invariants (no silent dual-active, no stranded standby) hold at full strength on the repaired code. The model "
         "is tied to the real FailoverController by differential execution inside testing/synctest bubbles (virtual "
         "time, the real time.AfterFunc timers, control loop, grace sleeps and slow callbacks); the monitor judges the "
         "real controller's role, state, counters and time-stamped event stream.")
ASSUME = [
    "each critical section of failover.go is one atomic step; the role-change callback runs without the lock for an "
    "arbitrary time (check and commit are separate steps); evaluateState is atomic (it re-checks under the lock)",
    "every change of the monitor's Healthy flag is delivered to the controller as partner_down / partner_up, in order "
    "(health_monitor.go serialises flag changes with their events since bd43000 and SetPartner announces its reset); "
    "events contradicting the flag (raw re-deliveries) are outside the model and are not generated",
    "a stale time.AfterFunc callback (fired, then blocked on the mutex while its timer was stopped) is reproduced by "
    "stopping the virtual clock 1 ns before the deadline and invoking the timer's function through a verif hook "
    "(raceup/stale for the failover timer, racedown/stale-fb for the failback timer on a tick instant); the real "
    "goroutine race itself is not scheduled",
    "the HTTP health probe and its thresholds are not exercised (health transitions are injected through "
    "SetPartnerHealthyForVerif / the real SetPartner)",
    "the goroutine started by ForceFailover enters executeFailover before anything else happens (nothing can "
    "interleave observably: every other entry point ignores or refuses while the state is in_progress)",
]
ASSUME = ASSUME + [locks.ASSUME]


def run(tier, seed):
    return V.standard_check(PROP, SPEC, COMPS, LEVEL, ASSUME, tier, seed, pre=locks.with_locks())


def replay(path):
    return V.replay(PROP, COMPS, path, SPEC, pre=locks.with_locks())
