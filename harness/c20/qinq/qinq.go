// qinq drives the real qinq.Mapper (pkg/qinq/qinq.go): Register, Unregister, UnregisterSubscriber, GetSubscriber,
// GetVLAN, Stats (property C20).
//
//	new <cS> <cE> <s1>-<e1>,… | -   => ok
//	reg <s>.<c> s3      => ok | range | conflict
//	unreg <s>.<c>       => ok
//	unregsub s3         => ok
//	getsub <s>.<c>      => s3 | none
//	getvlan s3          => <s>.<c> | none
//	stats               => <n>
package qinq

import (
	"fmt"
	"math/rand"
	"os"
	"strconv"
	"strings"
	"sync"
	"sync/atomic"

	"bngverif/hx"

	"github.com/codelaboratoryltd/bng/pkg/qinq"
)

type comp struct{}

type cfg struct {
	cS, cE int
	ranges [][2]int
}

func (c cfg) newOp() string {
	var parts []string
	for _, r := range c.ranges {
		parts = append(parts, fmt.Sprintf("%d-%d", r[0], r[1]))
	}
	rs := "-"
	if len(parts) > 0 {
		rs = strings.Join(parts, ",")
	}
	return fmt.Sprintf("new %d %d %s", c.cS, c.cE, rs)
}

var small = cfg{10, 12, [][2]int{{100, 101}}} // 2 x 3

var cfgs = []cfg{
	small, small, small,
	{1, 2, [][2]int{{5, 5}, {7, 8}}},
	{10, 11, nil},
	{4093, 4094, [][2]int{{1, 1}, {4094, 4094}}},
	{3, 3, [][2]int{{2, 1}, {9, 9}}},
}

func (c cfg) tags(r *rand.Rand) (int, int) {
	var s int
	if len(c.ranges) > 0 && r.Intn(10) != 0 {
		rg := c.ranges[r.Intn(len(c.ranges))]
		if rg[1] >= rg[0] {
			s = rg[0] + r.Intn(rg[1]-rg[0]+1)
		} else {
			s = rg[1] + r.Intn(rg[0]-rg[1]+1)
		}
		switch r.Intn(12) {
		case 0:
			s = rg[0] - 1
		case 1:
			s = rg[1] + 1
		}
	} else {
		s = hx.Pick(r, []int{0, 0, 1, 6, 65535})
	}
	ct := c.cS + r.Intn(c.cE-c.cS+1)
	switch r.Intn(14) {
	case 0:
		ct = c.cS - 1
	case 1:
		ct = c.cE + 1
	case 2:
		ct = 0
	}
	if s < 0 {
		s = 0
	}
	if ct < 0 {
		ct = 0
	}
	return s, ct
}

func (c cfg) randOp(r *rand.Rand, subs int) string {
	s, ct := c.tags(r)
	p := fmt.Sprintf("%d.%d", s, ct)
	k := fmt.Sprintf("s%d", 1+r.Intn(subs))
	switch x := r.Intn(100); {
	case x < 40:
		return "reg " + p + " " + k
	case x < 52:
		return "unreg " + p
	case x < 64:
		return "unregsub " + k
	case x < 78:
		return "getsub " + p
	case x < 92:
		return "getvlan " + k
	default:
		return "stats"
	}
}

// genStress emits the concurrency sequences (only when C20_STRESS is set; the check runs them on a -race build).
func genStress(r *rand.Rand, tier string, emit func([]string)) {
	n := 20
	if tier == "thorough" {
		n = 200
	}
	for i := 0; i < n; i++ {
		emit([]string{"new 10 13 100-102", fmt.Sprintf("stress %d 8 200", r.Int63n(1<<31))})
	}
}

func (comp) Gen(r *rand.Rand, tier string, emit func([]string)) {
	if os.Getenv("C20_STRESS") != "" {
		genStress(r, tier, emit)
		return
	}
	n, nLong := 4000, 10
	if tier == "thorough" {
		n, nLong = 50000, 100
	}
	for i := 0; i < n; i++ {
		c := cfgs[r.Intn(len(cfgs))]
		subs := 2 + r.Intn(5)
		seq := []string{c.newOp()}
		for j, l := 0, 3+r.Intn(30); j < l; j++ {
			seq = append(seq, c.randOp(r, subs))
		}
		seq = append(seq, observers(c, subs)...)
		emit(seq)
	}
	for i := 0; i < nLong; i++ {
		c := cfg{10, 10 + r.Intn(8), [][2]int{{100, 100 + r.Intn(6)}}}
		subs := 10 + r.Intn(60)
		seq := []string{c.newOp()}
		for j := 0; j < 1500; j++ {
			seq = append(seq, c.randOp(r, subs))
		}
		seq = append(seq, "stats")
		emit(seq)
	}
	if tier == "thorough" {
		exhaustive(emit)
	}
}

func observers(c cfg, subs int) []string {
	var out []string
	for k := 1; k <= subs; k++ {
		out = append(out, fmt.Sprintf("getvlan s%d", k))
	}
	for _, rg := range c.ranges {
		for s := rg[0]; s <= rg[1]; s++ {
			for ct := c.cS; ct <= c.cE; ct++ {
				out = append(out, fmt.Sprintf("getsub %d.%d", s, ct))
			}
		}
	}
	return append(out, "stats")
}

// exhaustive: all operation sequences to depth 7 over the 2 x 3 tag range and two subscribers (alphabet of 7),
// every lookup in both directions at the end.
func exhaustive(emit func([]string)) {
	c := small
	alpha := []string{"reg 100.10 s1", "reg 100.10 s2", "reg 101.12 s1", "reg 100.11 s2", "unreg 100.10", "unregsub s1", "reg 102.10 s2"}
	var rec func(prefix []string, depth int)
	rec = func(prefix []string, depth int) {
		if depth == 0 {
			seq := append([]string{c.newOp()}, prefix...)
			seq = append(seq, "getvlan s1", "getvlan s2", "getsub 100.10", "getsub 100.11", "getsub 101.12", "stats")
			emit(seq)
			return
		}
		for _, a := range alpha {
			rec(append(prefix[:len(prefix):len(prefix)], a), depth-1)
		}
	}
	rec(nil, 7)
}

type run struct{ m *qinq.Mapper }

func (comp) NewRun() hx.Run { return &run{} }
func (r *run) Close()       {}

func pairOf(tok string) qinq.VLANPair {
	p := strings.Split(tok, ".")
	s, _ := strconv.Atoi(p[0])
	c, _ := strconv.Atoi(p[1])
	return qinq.VLANPair{STag: uint16(s), CTag: uint16(c)}
}

func (r *run) Do(op string) string {
	f := hx.Fields(op)
	if f[0] == "new" {
		cS, _ := strconv.Atoi(f[1])
		cE, _ := strconv.Atoi(f[2])
		conf := qinq.Config{Enabled: true, CTagRange: qinq.VLANRange{Start: uint16(cS), End: uint16(cE)}}
		if f[3] != "-" {
			for _, item := range strings.Split(f[3], ",") {
				p := strings.Split(item, "-")
				a, _ := strconv.Atoi(p[0])
				b, _ := strconv.Atoi(p[1])
				conf.STagRanges = append(conf.STagRanges, qinq.VLANRange{Start: uint16(a), End: uint16(b)})
			}
		}
		r.m = qinq.NewMapper(conf)
		return "ok"
	}
	if r.m == nil {
		return "badop"
	}
	switch f[0] {
	case "reg":
		err := r.m.Register(pairOf(f[1]), f[2])
		switch {
		case err == nil:
			return "ok"
		case strings.Contains(err.Error(), "already mapped"):
			return "conflict"
		case strings.Contains(err.Error(), "not in allowed"):
			return "range"
		}
		return "error " + err.Error()
	case "unreg":
		r.m.Unregister(pairOf(f[1]))
		return "ok"
	case "unregsub":
		r.m.UnregisterSubscriber(f[1])
		return "ok"
	case "getsub":
		id, ok := r.m.GetSubscriber(pairOf(f[1]))
		if !ok {
			return "none"
		}
		return id
	case "getvlan":
		v, ok := r.m.GetVLAN(f[1])
		if !ok {
			return "none"
		}
		return fmt.Sprintf("%d.%d", v.STag, v.CTag)
	case "stats":
		return strconv.Itoa(r.m.Stats().TotalMappings)
	case "stress":
		seed, _ := strconv.ParseInt(f[1], 10, 64)
		g, _ := strconv.Atoi(f[2])
		n, _ := strconv.Atoi(f[3])
		return r.stress(seed, g, n)
	}
	return "badop"
}

// stress runs g goroutines of n random operations each on the shared mapper (subscribers s1…s10, pairs of the
// 3 x 4 range 100-102 x 10-13) and then prints every lookup in both directions.  Schedule dependent: judged by the
// monitor only (no pair twice, reverse = inverse of forward, everything valid).
func (r *run) stress(seed int64, g, n int) string {
	var anomalies int64
	var wg sync.WaitGroup
	for w := 0; w < g; w++ {
		wg.Add(1)
		go func(w int) {
			defer wg.Done()
			rr := rand.New(rand.NewSource(seed + int64(w)))
			for j := 0; j < n; j++ {
				id := fmt.Sprintf("s%d", 1+rr.Intn(10))
				p := qinq.VLANPair{STag: uint16(100 + rr.Intn(3)), CTag: uint16(10 + rr.Intn(4))}
				switch rr.Intn(6) {
				case 0, 1, 2:
					_ = r.m.Register(p, id)
				case 3:
					r.m.Unregister(p)
				case 4:
					r.m.UnregisterSubscriber(id)
				case 5:
					if got, ok := r.m.GetSubscriber(p); ok && got == "" {
						atomic.AddInt64(&anomalies, 1)
					}
					r.m.GetVLAN(id)
				}
			}
		}(w)
	}
	wg.Wait()
	var fwd, rev []string
	for k := 1; k <= 10; k++ {
		if v, ok := r.m.GetVLAN(fmt.Sprintf("s%d", k)); ok {
			fwd = append(fwd, fmt.Sprintf("s%d=%d.%d", k, v.STag, v.CTag))
		}
	}
	for s := 99; s <= 103; s++ {
		for c := 9; c <= 14; c++ {
			if id, ok := r.m.GetSubscriber(qinq.VLANPair{STag: uint16(s), CTag: uint16(c)}); ok {
				rev = append(rev, fmt.Sprintf("%d.%d=%s", s, c, id))
			}
		}
	}
	j := func(xs []string) string {
		if len(xs) == 0 {
			return "-"
		}
		return strings.Join(xs, ",")
	}
	return fmt.Sprintf("anomalies %d fwd %s rev %s total %d", anomalies, j(fwd), j(rev), r.m.Stats().TotalMappings)
}

// Comp is the hx.Component of this package (hosted by cmd/qinq and by the all-in-one cmd/c20).
type Comp = comp
