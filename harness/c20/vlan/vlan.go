// vlan drives the real nexus.VLANAllocator (pkg/nexus/vlan.go): Allocate, AllocateWithSTag, Release, Get,
// LoadFromStore, Stats and (through the verif hook) the reverse index (property C20).
//
//	new <sS> <sE> <cS> <cE>   => ok
//	alloc n1                  => ok <s> <c> | exhausted | error …
//	allocws n1 <t>            => ok <s> <c> | exhausted | range | error …
//	release n1                => ok
//	get n1                    => <s> <c> | none
//	load n1:s:c,n2:s:c | -    => ok|conflict|error… fwd … rev … maps <k> cur <s>   (result, then the same listing as dump)
//	stats                     => <allocations> <stagsInUse>
//	dump                      => fwd n1=s.c,…|- rev s.c=n1,…|- maps <k> cur <s>
package vlan

import (
	"context"
	"fmt"
	"math/rand"
	"os"
	"sort"
	"strconv"
	"strings"
	"sync"
	"sync/atomic"

	"bngverif/hx"

	"github.com/codelaboratoryltd/bng/pkg/nexus"
)

type comp struct{}

type cfg struct{ sS, sE, cS, cE int }

func (c cfg) newOp() string { return fmt.Sprintf("new %d %d %d %d", c.sS, c.sE, c.cS, c.cE) }

var small = cfg{100, 101, 10, 12} // 2 x 3

var cfgs = []cfg{
	small, small, small,
	{100, 100, 10, 11},
	{7, 9, 1, 1},
	{1, 2, 1, 3},
	{4093, 4094, 4093, 4094},
	{100, 102, 5, 6},
	{100, 101, 12, 10},   // empty C-TAG range
	{101, 100, 10, 12},   // empty S-TAG range
	{65534, 65535, 1, 2}, // ranges ending at 65535: the uint16 loop counters wrap (finding KF-vlan-u16-wrap)
	{1, 1, 65534, 65535},
}

func clamp(t int) int {
	if t > 65535 {
		return 65535
	}
	if t < 0 {
		return 0
	}
	return t
}

func (c cfg) randTag(r *rand.Rand) int {
	switch r.Intn(12) {
	case 0:
		return clamp(c.sS - 1)
	case 1:
		return clamp(c.sE + 1)
	case 2:
		return 0
	case 3:
		return 65535
	}
	return clamp(c.sS + r.Intn(span(c.sS, c.sE)))
}

// span is the size of [lo, hi] for the random generators (an empty range still yields nearby values)
func span(lo, hi int) int {
	if hi < lo {
		return 2
	}
	return hi - lo + 1
}

func (c cfg) randLoad(r *rand.Rand, ntes int) string {
	n := r.Intn(5)
	if n == 0 {
		return "load -"
	}
	var parts []string
	for i := 0; i < n; i++ {
		s := c.sS + r.Intn(span(c.sS, c.sE))
		ct := c.cS + r.Intn(span(c.cS, c.cE))
		switch r.Intn(14) {
		case 0:
			s = 0
		case 1:
			ct = 0
		case 2:
			s = c.sE + 1
		case 3:
			ct = c.cE + 1
		case 4:
			ct = c.cS - 1
		}
		parts = append(parts, fmt.Sprintf("n%d:%d:%d", 1+r.Intn(ntes), clamp(s), clamp(ct)))
	}
	return "load " + strings.Join(parts, ",")
}

func (c cfg) randOp(r *rand.Rand, ntes int) string {
	n := fmt.Sprintf("n%d", 1+r.Intn(ntes))
	switch x := r.Intn(100); {
	case x < 25:
		return "alloc " + n
	case x < 45:
		return fmt.Sprintf("allocws %s %d", n, c.randTag(r))
	case x < 62:
		return "release " + n
	case x < 72:
		return c.randLoad(r, ntes)
	case x < 82:
		return "get " + n
	case x < 87:
		return "stats"
	default:
		return "dump"
	}
}

// genStress emits the concurrency sequences (only when C20_STRESS is set; the check runs them on a -race build).
func genStress(r *rand.Rand, tier string, emit func([]string)) {
	n := 20
	if tier == "thorough" {
		n = 200
	}
	for i := 0; i < n; i++ {
		emit([]string{"new 100 102 10 13", fmt.Sprintf("stress %d 8 200", r.Int63n(1<<31))})
	}
}

func (comp) Gen(r *rand.Rand, tier string, emit func([]string)) {
	if os.Getenv("C20_STRESS") != "" {
		genStress(r, tier, emit)
		return
	}
	n, nLong := 4000, 10
	if tier == "thorough" {
		n, nLong = 50000, 100
	}
	for i := 0; i < n; i++ {
		c := cfgs[r.Intn(len(cfgs))]
		capacity := span(c.sS, c.sE) * span(c.cS, c.cE)
		ntes := 2 + r.Intn(capacity+2)
		seq := []string{c.newOp()}
		for j, l := 0, 3+r.Intn(30); j < l; j++ {
			op := c.randOp(r, ntes)
			seq = append(seq, op)
			if strings.HasPrefix(op, "release") && r.Intn(2) == 0 {
				seq = append(seq, "dump")
			}
		}
		seq = append(seq, "stats", "dump")
		emit(seq)
	}
	for i := 0; i < nLong; i++ {
		c := cfg{100, 100 + r.Intn(6), 10, 10 + r.Intn(8)}
		ntes := 10 + r.Intn(60)
		seq := []string{c.newOp()}
		for j := 0; j < 1500; j++ {
			seq = append(seq, c.randOp(r, ntes))
		}
		seq = append(seq, "stats", "dump")
		emit(seq)
	}
	if tier == "thorough" {
		exhaustive(emit)
	}
}

// exhaustive: all operation sequences to depth 7 over the 2 x 3 tag range, from the empty allocator and from one
// pre-loaded with four of the six pairs, over an alphabet that contains allocation, allocation with each outer tag,
// release and a load of conflicting / relocating stored pairs; a full dump at the end.
func exhaustive(emit func([]string)) {
	c := small
	alphas := [][]string{
		{"alloc n1", "alloc n2", "allocws n1 101", "allocws n2 100", "release n1", "load n1:100:10,n2:100:10,n3:101:12"},
		{"alloc n5", "allocws n1 101", "allocws n5 100", "release n2", "release n5", "load n2:101:10,n5:100:10,n2:100:12"},
	}
	starts := [][]string{
		nil,
		{"load n1:100:10,n2:100:11,n3:100:12,n4:101:10"},
	}
	for i, alpha := range alphas {
		var rec func(prefix []string, depth int)
		rec = func(prefix []string, depth int) {
			if depth == 0 {
				seq := append([]string{c.newOp()}, starts[i]...)
				seq = append(seq, prefix...)
				seq = append(seq, "dump", "alloc n6", "alloc n7", "dump")
				emit(seq)
				return
			}
			for _, a := range alpha {
				rec(append(prefix[:len(prefix):len(prefix)], a), depth-1)
			}
		}
		rec(nil, 7)
	}
}

type run struct {
	a    *nexus.VLANAllocator
	seen map[int]bool
}

func (comp) NewRun() hx.Run { return &run{} }
func (r *run) Close()       {}

func classify(err error) string {
	switch {
	case err == nil:
		return "ok"
	case strings.Contains(err.Error(), "exhausted"):
		return "exhausted"
	case strings.Contains(err.Error(), "outside"):
		return "range"
	case strings.Contains(err.Error(), "already allocated"):
		return "conflict"
	}
	return "error " + strings.ReplaceAll(err.Error(), "\n", " ")
}

func (r *run) note(tok string) string {
	if n, err := strconv.Atoi(strings.TrimPrefix(tok, "n")); err == nil {
		r.seen[n] = true
	}
	return tok
}

func (r *run) Do(op string) string {
	f := hx.Fields(op)
	if f[0] == "new" {
		var v [4]int
		for i := range v {
			v[i], _ = strconv.Atoi(f[1+i])
		}
		r.a = nexus.NewVLANAllocator(nexus.VLANAllocatorConfig{
			STagRange: nexus.VLANRange{Start: uint16(v[0]), End: uint16(v[1])},
			CTagRange: nexus.VLANRange{Start: uint16(v[2]), End: uint16(v[3])},
		})
		r.seen = map[int]bool{}
		return "ok"
	}
	if r.a == nil {
		return "badop"
	}
	switch f[0] {
	case "alloc":
		al, err := r.a.Allocate(r.note(f[1]))
		if err != nil {
			return classify(err)
		}
		return fmt.Sprintf("ok %d %d", al.STag, al.CTag)
	case "allocws":
		t, _ := strconv.Atoi(f[2])
		al, err := r.a.AllocateWithSTag(r.note(f[1]), uint16(t))
		if err != nil {
			return classify(err)
		}
		return fmt.Sprintf("ok %d %d", al.STag, al.CTag)
	case "release":
		r.a.Release(r.note(f[1]))
		return "ok"
	case "get":
		al, ok := r.a.Get(r.note(f[1]))
		if !ok {
			return "none"
		}
		return fmt.Sprintf("%d %d", al.STag, al.CTag)
	case "load":
		var ntes []*nexus.NTE
		if f[1] != "-" {
			for _, item := range strings.Split(f[1], ",") {
				p := strings.Split(item, ":")
				s, _ := strconv.Atoi(p[1])
				c, _ := strconv.Atoi(p[2])
				ntes = append(ntes, &nexus.NTE{ID: r.note(p[0]), STag: uint16(s), CTag: uint16(c)})
			}
		}
		return classify(r.a.LoadFromStore(context.Background(), ntes)) + " " + r.dump()
	case "stats":
		st := r.a.Stats()
		return fmt.Sprintf("%d %d", st.TotalAllocations, st.STagsInUse)
	case "dump":
		return r.dump()
	case "stress":
		seed, _ := strconv.ParseInt(f[1], 10, 64)
		g, _ := strconv.Atoi(f[2])
		n, _ := strconv.Atoi(f[3])
		return r.stress(seed, g, n)
	}
	return "badop"
}

// stress runs g goroutines of n random operations each on the shared allocator (NTEs n1…n10, tags of the
// configured 3 x 4 range) and then prints the in-goroutine anomaly count and the full listing of both indexes.
// The outcome depends on the schedule; it is judged by the monitor only (no pair twice, reverse = inverse of
// forward, everything in range).
func (r *run) stress(seed int64, g, n int) string {
	var anomalies int64
	var wg sync.WaitGroup
	for i := 1; i <= 10; i++ {
		r.seen[i] = true
	}
	for w := 0; w < g; w++ {
		wg.Add(1)
		go func(w int) {
			defer wg.Done()
			rr := rand.New(rand.NewSource(seed + int64(w)))
			for j := 0; j < n; j++ {
				id := fmt.Sprintf("n%d", 1+rr.Intn(10))
				switch rr.Intn(6) {
				case 0, 1:
					if al, err := r.a.Allocate(id); err == nil && (al.STag < 100 || al.STag > 102 || al.CTag < 10 || al.CTag > 13) {
						atomic.AddInt64(&anomalies, 1)
					}
				case 2:
					t := uint16(100 + rr.Intn(3))
					if al, err := r.a.AllocateWithSTag(id, t); err == nil && (al.STag != t || al.CTag < 10 || al.CTag > 13) {
						atomic.AddInt64(&anomalies, 1)
					}
				case 3:
					r.a.Release(id)
				case 4:
					r.a.Get(id)
				case 5:
					_ = r.a.LoadFromStore(context.Background(), []*nexus.NTE{{ID: id, STag: uint16(100 + rr.Intn(3)), CTag: uint16(10 + rr.Intn(4))}})
				}
			}
		}(w)
	}
	wg.Wait()
	return fmt.Sprintf("anomalies %d %s", anomalies, r.dump())
}

func (r *run) dump() string {
	{
		var ids []int
		for n := range r.seen {
			ids = append(ids, n)
		}
		sort.Ints(ids)
		var fwd []string
		for _, n := range ids {
			if al, ok := r.a.Get(fmt.Sprintf("n%d", n)); ok {
				fwd = append(fwd, fmt.Sprintf("n%d=%d.%d", n, al.STag, al.CTag))
			}
		}
		entries, maps, cur := r.a.UsageForVerif()
		var rev []string
		for _, e := range entries {
			rev = append(rev, fmt.Sprintf("%d.%d=%s", e.STag, e.CTag, e.NTEID))
		}
		j := func(xs []string) string {
			if len(xs) == 0 {
				return "-"
			}
			return strings.Join(xs, ",")
		}
		return fmt.Sprintf("fwd %s rev %s maps %d cur %d", j(fwd), j(rev), maps, cur)
	}
}

// Comp is the hx.Component of this package (hosted by cmd/vlan and by the all-in-one cmd/c20).
type Comp = comp
