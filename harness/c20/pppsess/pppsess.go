// pppsess drives the real pppoe.SessionManager (pkg/pppoe/session.go): id allocation incl. the uint16
// wrap-around, two sessions from one MAC, removal, lookups by id and by MAC (property C20).
//
//	new                 => ok
//	setnext <n>         => ok                 (hook SetNextIDForVerif)
//	create m1           => ok <id> | error
//	remove <ref>        => ok                 (<ref> = i<id> literal id, or #k = id returned by the k-th successful create)
//	get <ref>           => m1 | none
//	bymac m1            => <id> | none
//	idle <ref>          => ok | none          (zeroes LastActivity so that the next cleanup expires the session)
//	cleanup             => <number removed>   (CleanupExpired(1h))
//	count               => <n>
//	next                => <n>                (hook NextIDForVerif)
//	dump                => <id>=m1,… | -      (GetAllSessions sorted by id)
package pppsess

import (
	"fmt"
	"math/rand"
	"net"
	"sort"
	"strconv"
	"strings"
	"time"

	"bngverif/hx"

	"github.com/codelaboratoryltd/bng/pkg/pppoe"
)

type comp struct{}

func macOf(tok string) net.HardwareAddr {
	n, _ := strconv.Atoi(tok[1:])
	return net.HardwareAddr{0x02, 0, 0, 0, byte(n >> 8), byte(n)}
}

func tokOf(mac net.HardwareAddr) string {
	if len(mac) != 6 {
		return "m?"
	}
	return fmt.Sprintf("m%d", int(mac[4])<<8|int(mac[5]))
}

func randRef(r *rand.Rand, creates int) string {
	switch x := r.Intn(10); {
	case x == 0:
		return fmt.Sprintf("i%d", hx.Pick(r, []int{0, 1, 2, 65534, 65535}))
	case creates == 0:
		return "i1"
	default:
		return fmt.Sprintf("#%d", 1+r.Intn(creates))
	}
}

func (comp) Gen(r *rand.Rand, tier string, emit func([]string)) {
	n := 3000
	nLong := 10
	if tier == "thorough" {
		n = 40000
		nLong = 100
	}
	one := func(macs, length int, near bool) {
		seq := []string{"new"}
		creates := 0
		if near {
			seq = append(seq, fmt.Sprintf("setnext %d", hx.Pick(r, []int{65533, 65534, 65535, 0, 1})))
		}
		for j := 0; j < length; j++ {
			m := fmt.Sprintf("m%d", 1+r.Intn(macs))
			switch x := r.Intn(100); {
			case x < 32:
				seq = append(seq, "create "+m)
				creates++
			case x < 52:
				seq = append(seq, "remove "+randRef(r, creates))
			case x < 64:
				seq = append(seq, "bymac "+m)
			case x < 74:
				seq = append(seq, "get "+randRef(r, creates))
			case x < 79:
				seq = append(seq, "idle "+randRef(r, creates))
			case x < 83:
				seq = append(seq, "cleanup")
			case x < 87:
				seq = append(seq, "count")
			case x < 90:
				seq = append(seq, "next")
			case x < 93:
				seq = append(seq, fmt.Sprintf("setnext %d", hx.Pick(r, []int{65533, 65534, 65535, 0, 1, 2})))
			default:
				seq = append(seq, "dump")
			}
		}
		seq = append(seq, "dump", "count")
		for k := 1; k <= macs; k++ {
			seq = append(seq, fmt.Sprintf("bymac m%d", k))
		}
		emit(seq)
	}
	for i := 0; i < n; i++ {
		one(1+r.Intn(3), 4+r.Intn(30), r.Intn(3) != 0)
	}
	for i := 0; i < nLong; i++ {
		one(2+r.Intn(6), 1500, r.Intn(2) == 0)
	}
	if tier == "thorough" {
		exhaustive(emit)
	}
}

// exhaustive: every sequence of creates (2 MACs) and removes (of the first three created sessions) to depth 7,
// with the id counter pre-set to 65534 so that the wrap-around happens inside the window; observers at the end.
func exhaustive(emit func([]string)) {
	alpha := []string{"create m1", "create m2", "remove #1", "remove #2", "remove #3"}
	for _, start := range []int{65534, 1} {
		var rec func(prefix []string, depth int)
		rec = func(prefix []string, depth int) {
			if depth == 0 {
				seq := append([]string{"new", fmt.Sprintf("setnext %d", start)}, prefix...)
				seq = append(seq, "dump", "bymac m1", "bymac m2", "get #1", "get #2", "get #3", "get i0", "create m1", "dump")
				emit(seq)
				return
			}
			for _, a := range alpha {
				rec(append(prefix[:len(prefix):len(prefix)], a), depth-1)
			}
		}
		d := 7
		if start == 1 {
			d = 5
		}
		rec(nil, d)
	}
}

type run struct {
	m       *pppoe.SessionManager
	created []uint16
}

func (comp) NewRun() hx.Run { return &run{} }
func (r *run) Close()       {}

var serverMAC = net.HardwareAddr{0x02, 0xff, 0, 0, 0, 1}

func (r *run) ref(tok string) (uint16, bool) {
	if strings.HasPrefix(tok, "i") {
		n, err := strconv.Atoi(tok[1:])
		if err != nil || n < 0 || n > 65535 {
			return 0, false
		}
		return uint16(n), true
	}
	if strings.HasPrefix(tok, "#") {
		k, err := strconv.Atoi(tok[1:])
		if err != nil || k < 1 || k > len(r.created) {
			return 0, false
		}
		return r.created[k-1], true
	}
	return 0, false
}

func (r *run) Do(op string) string {
	f := hx.Fields(op)
	if f[0] == "new" {
		r.m = pppoe.NewSessionManager()
		r.created = nil
		return "ok"
	}
	if r.m == nil {
		return "badop"
	}
	switch f[0] {
	case "setnext":
		n, _ := strconv.Atoi(f[1])
		r.m.SetNextIDForVerif(uint16(n))
		return "ok"
	case "next":
		return strconv.Itoa(int(r.m.NextIDForVerif()))
	case "create":
		s, err := r.m.CreateSession(macOf(f[1]), serverMAC)
		if err != nil {
			return "error"
		}
		r.created = append(r.created, s.ID)
		return fmt.Sprintf("ok %d", s.ID)
	case "remove":
		id, ok := r.ref(f[1])
		if !ok {
			return "noref"
		}
		r.m.RemoveSession(id)
		return "ok"
	case "get":
		id, ok := r.ref(f[1])
		if !ok {
			return "noref"
		}
		s := r.m.GetSession(id)
		if s == nil {
			return "none"
		}
		if s.ID != id {
			return fmt.Sprintf("wrongid %d", s.ID)
		}
		return tokOf(s.ClientMAC)
	case "bymac":
		s := r.m.GetSessionByMAC(macOf(f[1]))
		if s == nil {
			return "none"
		}
		if tokOf(s.ClientMAC) != f[1] {
			return fmt.Sprintf("%d wrongmac %s", s.ID, tokOf(s.ClientMAC))
		}
		return strconv.Itoa(int(s.ID))
	case "idle":
		id, ok := r.ref(f[1])
		if !ok {
			return "noref"
		}
		s := r.m.GetSession(id)
		if s == nil {
			return "none"
		}
		s.LastActivity = time.Time{}
		return "ok"
	case "cleanup":
		return strconv.Itoa(r.m.CleanupExpired(time.Hour))
	case "count":
		return strconv.Itoa(r.m.Count())
	case "dump":
		all := r.m.GetAllSessions()
		if len(all) == 0 {
			return "-"
		}
		sort.Slice(all, func(i, j int) bool { return all[i].ID < all[j].ID })
		var parts []string
		for _, s := range all {
			parts = append(parts, fmt.Sprintf("%d=%s", s.ID, tokOf(s.ClientMAC)))
		}
		return strings.Join(parts, ",")
	}
	return "badop"
}

// Comp is the hx.Component of this package (hosted by cmd/pppsess and by the all-in-one cmd/c20).
type Comp = comp
