// pppsess drives the real pppoe.SessionManager (pkg/pppoe/session.go): id allocation incl. the uint16
// wrap-around, two sessions from one MAC, removal, lookups by id and by MAC (property C20).
//
//	new                 => ok
//	setnext <n>         => ok                 (hook SetNextIDForVerif)
//	create m1           => ok <id> | error
//	remove <ref>        => ok                 (<ref> = i<id> literal id, or #k = id returned by the k-th successful create)
//	get <ref>           => m1 | none
//	bymac m1            => <id> | none
//	idle <ref>          => ok | none          (zeroes LastActivity so that the next cleanup expires the session)
//	cleanup             => <number removed>   (CleanupExpired(1h))
//	count               => <n>
//	next                => <n>                (hook NextIDForVerif)
//	dump                => <id>=m1,… | -      (GetAllSessions sorted by id)
package pppsess

import (
	"fmt"
	"math/rand"
	"net"
	"os"
	"sort"
	"strconv"
	"strings"
	"sync"
	"sync/atomic"
	"time"

	"bngverif/hx"

	"github.com/codelaboratoryltd/bng/pkg/pppoe"
)

type comp struct{}

func macOf(tok string) net.HardwareAddr {
	n, _ := strconv.Atoi(tok[1:])
	return net.HardwareAddr{0x02, 0, 0, 0, byte(n >> 8), byte(n)}
}

func tokOf(mac net.HardwareAddr) string {
	if len(mac) != 6 {
		return "m?"
	}
	return fmt.Sprintf("m%d", int(mac[4])<<8|int(mac[5]))
}

func randRef(r *rand.Rand, creates int) string {
	switch x := r.Intn(10); {
	case x == 0:
		return fmt.Sprintf("i%d", hx.Pick(r, []int{0, 1, 2, 65534, 65535}))
	case creates == 0:
		return "i1"
	default:
		return fmt.Sprintf("#%d", 1+r.Intn(creates))
	}
}

// genStress emits the concurrency sequences (only when C20_STRESS is set; the check runs them on a -race build).
func genStress(r *rand.Rand, tier string, emit func([]string)) {
	n := 20
	if tier == "thorough" {
		n = 200
	}
	for i := 0; i < n; i++ {
		emit([]string{"new", fmt.Sprintf("setnext %d", hx.Pick(r, []int{1, 65500, 65535, 0})), fmt.Sprintf("stress %d 8 200", r.Int63n(1<<31))})
	}
}

func (comp) Gen(r *rand.Rand, tier string, emit func([]string)) {
	if os.Getenv("C20_STRESS") != "" {
		genStress(r, tier, emit)
		return
	}
	n := 3000
	nLong := 10
	if tier == "thorough" {
		n = 40000
		nLong = 100
	}
	one := func(macs, length int, near bool) {
		seq := []string{"new"}
		creates := 0
		if near {
			seq = append(seq, fmt.Sprintf("setnext %d", hx.Pick(r, []int{65533, 65534, 65535, 0, 1})))
		}
		for j := 0; j < length; j++ {
			m := fmt.Sprintf("m%d", 1+r.Intn(macs))
			switch x := r.Intn(100); {
			case x < 32:
				seq = append(seq, "create "+m)
				creates++
			case x < 52:
				seq = append(seq, "remove "+randRef(r, creates))
			case x < 64:
				seq = append(seq, "bymac "+m)
			case x < 74:
				seq = append(seq, "get "+randRef(r, creates))
			case x < 79:
				seq = append(seq, "idle "+randRef(r, creates))
			case x < 83:
				seq = append(seq, "cleanup")
			case x < 87:
				seq = append(seq, "count")
			case x < 90:
				seq = append(seq, "next")
			case x < 93:
				seq = append(seq, fmt.Sprintf("setnext %d", hx.Pick(r, []int{65533, 65534, 65535, 0, 1, 2})))
			default:
				seq = append(seq, "dump")
			}
		}
		seq = append(seq, "dump", "count")
		for k := 1; k <= macs; k++ {
			seq = append(seq, fmt.Sprintf("bymac m%d", k))
		}
		emit(seq)
	}
	for i := 0; i < n; i++ {
		one(1+r.Intn(3), 4+r.Intn(30), r.Intn(3) != 0)
	}
	for i := 0; i < nLong; i++ {
		one(2+r.Intn(6), 1500, r.Intn(2) == 0)
	}
	if tier == "thorough" {
		exhaustive(emit)
	}
}

// exhaustive: every sequence of creates (2 MACs) and removes (of the first three created sessions) to depth 7,
// with the id counter pre-set to 65534 so that the wrap-around happens inside the window; observers at the end.
func exhaustive(emit func([]string)) {
	alpha := []string{"create m1", "create m2", "remove #1", "remove #2", "remove #3"}
	for _, start := range []int{65534, 1} {
		var rec func(prefix []string, depth int)
		rec = func(prefix []string, depth int) {
			if depth == 0 {
				seq := append([]string{"new", fmt.Sprintf("setnext %d", start)}, prefix...)
				seq = append(seq, "dump", "bymac m1", "bymac m2", "get #1", "get #2", "get #3", "get i0", "create m1", "dump")
				emit(seq)
				return
			}
			for _, a := range alpha {
				rec(append(prefix[:len(prefix):len(prefix)], a), depth-1)
			}
		}
		d := 7
		if start == 1 {
			d = 5
		}
		rec(nil, d)
	}
}

type run struct {
	m       *pppoe.SessionManager
	created []uint16
}

func (comp) NewRun() hx.Run { return &run{} }
func (r *run) Close()       {}

var serverMAC = net.HardwareAddr{0x02, 0xff, 0, 0, 0, 1}

func (r *run) ref(tok string) (uint16, bool) {
	if strings.HasPrefix(tok, "i") {
		n, err := strconv.Atoi(tok[1:])
		if err != nil || n < 0 || n > 65535 {
			return 0, false
		}
		return uint16(n), true
	}
	if strings.HasPrefix(tok, "#") {
		k, err := strconv.Atoi(tok[1:])
		if err != nil || k < 1 || k > len(r.created) {
			return 0, false
		}
		return r.created[k-1], true
	}
	return 0, false
}

func (r *run) Do(op string) string {
	f := hx.Fields(op)
	if f[0] == "new" {
		r.m = pppoe.NewSessionManager()
		r.created = nil
		return "ok"
	}
	if r.m == nil {
		return "badop"
	}
	switch f[0] {
	case "setnext":
		n, _ := strconv.Atoi(f[1])
		r.m.SetNextIDForVerif(uint16(n))
		return "ok"
	case "next":
		return strconv.Itoa(int(r.m.NextIDForVerif()))
	case "create":
		s, err := r.m.CreateSession(macOf(f[1]), serverMAC)
		if err != nil {
			return "error"
		}
		r.created = append(r.created, s.ID)
		return fmt.Sprintf("ok %d", s.ID)
	case "remove":
		id, ok := r.ref(f[1])
		if !ok {
			return "noref"
		}
		r.m.RemoveSession(id)
		return "ok"
	case "get":
		id, ok := r.ref(f[1])
		if !ok {
			return "noref"
		}
		s := r.m.GetSession(id)
		if s == nil {
			return "none"
		}
		if s.ID != id {
			return fmt.Sprintf("wrongid %d", s.ID)
		}
		return tokOf(s.ClientMAC)
	case "bymac":
		s := r.m.GetSessionByMAC(macOf(f[1]))
		if s == nil {
			return "none"
		}
		if tokOf(s.ClientMAC) != f[1] {
			return fmt.Sprintf("%d wrongmac %s", s.ID, tokOf(s.ClientMAC))
		}
		return strconv.Itoa(int(s.ID))
	case "idle":
		id, ok := r.ref(f[1])
		if !ok {
			return "noref"
		}
		s := r.m.GetSession(id)
		if s == nil {
			return "none"
		}
		s.LastActivity = time.Time{}
		return "ok"
	case "cleanup":
		return strconv.Itoa(r.m.CleanupExpired(time.Hour))
	case "count":
		return strconv.Itoa(r.m.Count())
	case "dump":
		all := r.m.GetAllSessions()
		if len(all) == 0 {
			return "-"
		}
		sort.Slice(all, func(i, j int) bool { return all[i].ID < all[j].ID })
		var parts []string
		for _, s := range all {
			parts = append(parts, fmt.Sprintf("%d=%s", s.ID, tokOf(s.ClientMAC)))
		}
		return strings.Join(parts, ",")
	case "stress":
		seed, _ := strconv.ParseInt(f[1], 10, 64)
		g, _ := strconv.Atoi(f[2])
		n, _ := strconv.Atoi(f[3])
		return r.stress(seed, g, n)
	}
	return "badop"
}

// stress runs g goroutines on the shared manager.  Goroutine w owns MAC m<w+1> and keeps at most ONE live session
// (create, check, remove), so no MAC ever has two live sessions and every lookup must agree; the id space, both maps
// and the id counter are shared.  In-goroutine checks (anomalies): the session just created is found under its id
// with the goroutine's MAC, and the lookup by MAC returns exactly it.  Then the full listing and every lookup by MAC.
func (r *run) stress(seed int64, g, n int) string {
	var anomalies int64
	var wg sync.WaitGroup
	for w := 0; w < g; w++ {
		wg.Add(1)
		go func(w int) {
			defer wg.Done()
			rr := rand.New(rand.NewSource(seed + int64(w)))
			mac := macOf(fmt.Sprintf("m%d", w+1))
			var live *pppoe.Session
			for j := 0; j < n; j++ {
				switch {
				case live == nil:
					s, err := r.m.CreateSession(mac, serverMAC)
					if err != nil {
						continue
					}
					live = s
					if got := r.m.GetSession(s.ID); got != s {
						atomic.AddInt64(&anomalies, 1)
					}
					if got := r.m.GetSessionByMAC(mac); got != s {
						atomic.AddInt64(&anomalies, 1)
					}
					if s.ID == 0 {
						atomic.AddInt64(&anomalies, 1)
					}
				case rr.Intn(3) == 0:
					r.m.Count()
					r.m.GetAllSessions()
					r.m.CleanupExpired(time.Hour)
					if got := r.m.GetSessionByMAC(mac); got != live {
						atomic.AddInt64(&anomalies, 1)
					}
				default:
					r.m.RemoveSession(live.ID)
					if r.m.GetSession(live.ID) == live {
						atomic.AddInt64(&anomalies, 1)
					}
					live = nil
				}
			}
		}(w)
	}
	wg.Wait()
	all := r.m.GetAllSessions()
	sort.Slice(all, func(i, j int) bool { return all[i].ID < all[j].ID })
	var sess, macs []string
	for _, s := range all {
		sess = append(sess, fmt.Sprintf("%d=%s", s.ID, tokOf(s.ClientMAC)))
	}
	for w := 1; w <= g; w++ {
		tok := fmt.Sprintf("m%d", w)
		if s := r.m.GetSessionByMAC(macOf(tok)); s != nil {
			macs = append(macs, fmt.Sprintf("%s=%d", tok, s.ID))
		} else {
			macs = append(macs, tok+"=-")
		}
	}
	j := func(xs []string) string {
		if len(xs) == 0 {
			return "-"
		}
		return strings.Join(xs, ",")
	}
	return fmt.Sprintf("anomalies %d sess %s mac %s", anomalies, j(sess), j(macs))
}

// Comp is the hx.Component of this package (hosted by cmd/pppsess and by the all-in-one cmd/c20).
type Comp = comp
