// circuitkey drives ebpf.MakeCircuitIDKey and ebpf.HashCircuitID (pkg/ebpf/loader.go) on circuit-id byte strings of
// every length 0…64, incl. strings sharing their first 32 bytes and strings differing only in trailing zeros (C20).
//
//	new          => ok
//	key <hex|->  => <64 hex digits>
//	hash <hex|-> => <16 hex digits>
//	mac <hex|->  => <12 hex digits>   (ebpf.MACToUint64 of a hardware address of any length)
package circuitkey

import (
	"encoding/hex"
	"fmt"
	"math/rand"
	"net"
	"os"
	"strconv"
	"sync"
	"sync/atomic"

	"bngverif/hx"

	"github.com/codelaboratoryltd/bng/pkg/ebpf"
)

type comp struct{}

func tok(b []byte) string {
	if len(b) == 0 {
		return "-"
	}
	return hex.EncodeToString(b)
}

func randBytes(r *rand.Rand, n int) []byte {
	b := make([]byte, n)
	for i := range b {
		switch r.Intn(6) {
		case 0:
			b[i] = 0
		case 1:
			b[i] = byte("eth 0/1:2.3"[r.Intn(11)])
		default:
			b[i] = byte(r.Intn(256))
		}
	}
	return b
}

// family returns circuit-ids related to base: itself, with trailing zeros added/removed, with the bytes after the
// first 32 changed, truncated to 32, with one byte inside the first 32 changed.
func family(r *rand.Rand, base []byte) [][]byte {
	out := [][]byte{base}
	z := append(append([]byte{}, base...), make([]byte, 1+r.Intn(3))...)
	if len(z) <= 64 {
		out = append(out, z)
	}
	if len(base) > 32 {
		alt := append([]byte{}, base...)
		alt[32+r.Intn(len(base)-32)] ^= byte(1 + r.Intn(255))
		out = append(out, alt, base[:32])
	}
	if len(base) > 0 {
		alt := append([]byte{}, base...)
		i := r.Intn(len(base))
		if i >= 32 {
			i = r.Intn(32)
		}
		alt[i] ^= byte(1 + r.Intn(255))
		out = append(out, alt)
		j := len(base) - 1
		for j >= 0 && base[j] == 0 {
			j--
		}
		out = append(out, base[:j+1])
	}
	return out
}

// genStress emits the concurrency sequences (only when C20_STRESS is set; the check runs them on a -race build).
func genStress(r *rand.Rand, tier string, emit func([]string)) {
	n := 5
	if tier == "thorough" {
		n = 50
	}
	for i := 0; i < n; i++ {
		emit([]string{"new", fmt.Sprintf("stress %d 8 2000", r.Int63n(1<<31))})
	}
}

func (comp) Gen(r *rand.Rand, tier string, emit func([]string)) {
	if os.Getenv("C20_STRESS") != "" {
		genStress(r, tier, emit)
		return
	}
	rounds, nRand := 3, 300
	if tier == "thorough" {
		rounds, nRand = 40, 6000
	}
	// every length 0…64, each with its family, keys and hashes
	for k := 0; k < rounds; k++ {
		seq := []string{"new"}
		for n := 0; n <= 64; n++ {
			for _, c := range family(r, randBytes(r, n)) {
				seq = append(seq, "key "+tok(c), "hash "+tok(c))
			}
		}
		emit(seq)
	}
	// realistic printable ids: "<olt> eth <slot>/<port>/<onu>:<s>.<c>" — long common prefixes
	for k := 0; k < rounds; k++ {
		seq := []string{"new"}
		prefix := fmt.Sprintf("olt-%s-exchange-%02d eth ", hx.Pick(r, []string{"north", "south-east", "x"}), r.Intn(100))
		for i := 0; i < 60; i++ {
			c := []byte(fmt.Sprintf("%s%d/%d/%d:%d.%d", prefix, r.Intn(2), r.Intn(3), r.Intn(4), 100+r.Intn(2), 10+r.Intn(3)))
			if len(c) > 64 {
				c = c[:64]
			}
			seq = append(seq, "key "+tok(c), "hash "+tok(c))
		}
		emit(seq)
	}
	// hardware addresses of every length 0…16 (DHCP hlen): several per length, incl. longer ones sharing their
	// first 6 bytes with a 6-byte address, and 6-byte addresses differing in one byte
	for k := 0; k < rounds; k++ {
		seq := []string{"new"}
		base := randBytes(r, 16)
		for n := 0; n <= 16; n++ {
			seq = append(seq, "mac "+tok(base[:n]), "mac "+tok(randBytes(r, n)))
			if n >= 6 {
				alt := append(append([]byte{}, base[:6]...), randBytes(r, n-6)...)
				seq = append(seq, "mac "+tok(alt))
			}
		}
		for i := 0; i < 12; i++ {
			alt := append([]byte{}, base[:6]...)
			alt[r.Intn(6)] ^= byte(1 + r.Intn(255))
			seq = append(seq, "mac "+tok(alt))
		}
		emit(seq)
	}
	for i := 0; i < nRand; i++ {
		seq := []string{"new"}
		for j, l := 0, 2+r.Intn(12); j < l; j++ {
			for _, c := range family(r, randBytes(r, r.Intn(65))) {
				if r.Intn(3) > 0 {
					seq = append(seq, "key "+tok(c))
				} else {
					seq = append(seq, "hash "+tok(c))
				}
			}
		}
		emit(seq)
	}
}

// stress: g goroutines compute keys and hashes of one shared set of circuit-ids concurrently and compare them with
// the values computed sequentially beforehand (the functions must be pure; shared input slices must not be written).
func stress(seed int64, g, n int) string {
	r := rand.New(rand.NewSource(seed))
	ids := make([][]byte, 64)
	keys := make([]ebpf.CircuitIDKey, len(ids))
	hashes := make([]uint64, len(ids))
	for i := range ids {
		ids[i] = randBytes(r, r.Intn(65))
		keys[i] = ebpf.MakeCircuitIDKey(ids[i])
		hashes[i] = ebpf.HashCircuitID(ids[i])
	}
	var anomalies int64
	var wg sync.WaitGroup
	for w := 0; w < g; w++ {
		wg.Add(1)
		go func(w int) {
			defer wg.Done()
			rr := rand.New(rand.NewSource(seed + 1 + int64(w)))
			for j := 0; j < n; j++ {
				i := rr.Intn(len(ids))
				if ebpf.MakeCircuitIDKey(ids[i]) != keys[i] || ebpf.HashCircuitID(ids[i]) != hashes[i] {
					atomic.AddInt64(&anomalies, 1)
				}
			}
		}(w)
	}
	wg.Wait()
	return fmt.Sprintf("anomalies %d", anomalies)
}

type run struct{ started bool }

func (comp) NewRun() hx.Run { return &run{} }
func (r *run) Close()       {}

func (r *run) Do(op string) string {
	f := hx.Fields(op)
	if f[0] == "new" {
		r.started = true
		return "ok"
	}
	if r.started && f[0] == "stress" && len(f) == 4 {
		seed, _ := strconv.ParseInt(f[1], 10, 64)
		g, _ := strconv.Atoi(f[2])
		n, _ := strconv.Atoi(f[3])
		return stress(seed, g, n)
	}
	if !r.started || len(f) != 2 {
		return "badop"
	}
	var b []byte
	if f[1] != "-" {
		var err error
		if b, err = hex.DecodeString(f[1]); err != nil {
			return "badop"
		}
	}
	switch f[0] {
	case "key":
		k := ebpf.MakeCircuitIDKey(b)
		return hex.EncodeToString(k[:])
	case "hash":
		return fmt.Sprintf("%016x", ebpf.HashCircuitID(b))
	case "mac":
		return fmt.Sprintf("%012x", ebpf.MACToUint64(net.HardwareAddr(b)))
	}
	return "badop"
}

// Comp is the hx.Component of this package (hosted by cmd/circuitkey and by the all-in-one cmd/c20).
type Comp = comp
