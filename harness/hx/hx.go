// Package hx is the shared plumbing of the bngverif harness: every component main
// (cmd/<component>) drives the REAL bng code in-process and prints a trace in the line
// protocol understood by the Lean driver `bngdrv`:
//
//	<op tokens> => <observation>
//
// Blank lines separate operation sequences.  Modes:
//
//	<bin> gen  -seed N -tier quick|thorough     generate sequences, execute them, print the trace
//	<bin> exec < ops                            execute the given sequences (ops only, or a trace whose
//	                                            observations are ignored) and print the trace
package hx

import (
	"bufio"
	"flag"
	"fmt"
	"math/rand"
	"os"
	"runtime/debug"
	"strings"
)

// Component is one drivable piece of bng.
type Component interface {
	// Gen emits operation sequences (one string per op, no observation).
	Gen(r *rand.Rand, tier string, emit func(seq []string))
	// NewRun returns a fresh executor for one sequence.
	NewRun() Run
}

// Run executes the ops of one sequence in order against the real code.
type Run interface {
	// Do executes one op and returns the observation (canonical, single line).
	Do(op string) string
	// Close releases resources.
	Close()
}

// SafeDo runs r.Do and converts a panic of the real code into the observation "panic".
func SafeDo(r Run, op string) (obs string) {
	defer func() {
		if e := recover(); e != nil {
			msg := fmt.Sprint(e)
			msg = strings.ReplaceAll(msg, "\n", " ")
			if os.Getenv("VERIF_PANIC_TRACE") != "" {
				fmt.Fprintf(os.Stderr, "panic in %q: %v\n%s\n", op, e, debug.Stack())
			}
			obs = "panic " + msg
		}
	}()
	return r.Do(op)
}

// ExecSeq runs one sequence and writes trace lines.
func ExecSeq(c Component, seq []string, w *bufio.Writer) {
	r := c.NewRun()
	defer r.Close()
	for _, op := range seq {
		obs := SafeDo(r, op)
		fmt.Fprintf(w, "%s => %s\n", op, obs)
	}
	fmt.Fprintln(w)
	w.Flush()
}

// ReadSeqs reads sequences (ops only or full trace lines) from a reader.
func ReadSeqs(sc *bufio.Scanner) [][]string {
	var seqs [][]string
	var cur []string
	for sc.Scan() {
		line := strings.TrimRight(sc.Text(), "\r\n")
		if strings.HasPrefix(line, "#") {
			continue
		}
		if strings.TrimSpace(line) == "" {
			if len(cur) > 0 {
				seqs = append(seqs, cur)
				cur = nil
			}
			continue
		}
		if i := strings.Index(line, " => "); i >= 0 {
			line = line[:i]
		}
		cur = append(cur, line)
	}
	if len(cur) > 0 {
		seqs = append(seqs, cur)
	}
	return seqs
}

// Main is the entry point shared by all component binaries.
func Main(c Component) {
	if len(os.Args) < 2 {
		fmt.Fprintln(os.Stderr, "usage: <bin> gen|exec [flags]")
		os.Exit(2)
	}
	mode := os.Args[1]
	fs := flag.NewFlagSet(mode, flag.ExitOnError)
	seed := fs.Int64("seed", 1, "PRNG seed")
	tier := fs.String("tier", "quick", "quick|thorough")
	_ = fs.Parse(os.Args[2:])
	w := bufio.NewWriterSize(os.Stdout, 1<<20)
	defer w.Flush()
	switch mode {
	case "gen":
		r := rand.New(rand.NewSource(*seed))
		c.Gen(r, *tier, func(seq []string) { ExecSeq(c, seq, w) })
	case "exec":
		sc := bufio.NewScanner(os.Stdin)
		sc.Buffer(make([]byte, 1<<20), 1<<26)
		for _, seq := range ReadSeqs(sc) {
			ExecSeq(c, seq, w)
		}
	default:
		fmt.Fprintln(os.Stderr, "unknown mode", mode)
		os.Exit(2)
	}
}

// Pick returns a random element.
func Pick[T any](r *rand.Rand, xs []T) T { return xs[r.Intn(len(xs))] }

// Fields splits an op into tokens.
func Fields(op string) []string { return strings.Fields(op) }

// UtilKind classifies a reported utilisation figure against the reported counts, so that it can be observed
// without printing a float: zero | ratio (allocated/total) | percent (100*allocated/total) | nan | other.
func UtilKind(alloc, total uint64, u float64) string {
	switch {
	case u != u:
		return "nan"
	case u == 0:
		return "zero"
	case total != 0 && u == float64(alloc)/float64(total):
		return "ratio"
	case total != 0 && u == float64(alloc)/float64(total)*100:
		return "percent"
	}
	return "other"
}
