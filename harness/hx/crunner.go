package hx

// CRunner talks to a natively compiled /repo/bpf program: one `runprog-<prog>` process of
// /verif/cshim (see cshim/README.md).  The path of the executable comes from the environment
// variable CSHIM_RUNNER_<PROG> (set by the check through Component.exec_env, see lib/cshim.py).

import (
	"bufio"
	"fmt"
	"os"
	"os/exec"
	"strings"
)

type CRunner struct {
	path string
	cmd  *exec.Cmd
	in   *bufio.Writer
	out  *bufio.Reader
}

// CRunnerPath returns the configured runner executable for a program ("" if not configured).
func CRunnerPath(prog string) string {
	return os.Getenv("CSHIM_RUNNER_" + strings.ToUpper(prog))
}

// StartCRunner starts the runner of bpf/<prog>.c.
func StartCRunner(prog string) (*CRunner, error) {
	p := CRunnerPath(prog)
	if p == "" {
		return nil, fmt.Errorf("CSHIM_RUNNER_%s not set", strings.ToUpper(prog))
	}
	c := &CRunner{path: p}
	if err := c.start(); err != nil {
		return nil, err
	}
	return c, nil
}

func (c *CRunner) start() error {
	c.cmd = exec.Command(c.path)
	if os.Getenv("VERIF_CSHIM_STDERR") != "" {
		c.cmd.Stderr = os.Stderr
	}
	stdin, err := c.cmd.StdinPipe()
	if err != nil {
		return err
	}
	stdout, err := c.cmd.StdoutPipe()
	if err != nil {
		return err
	}
	if err := c.cmd.Start(); err != nil {
		return err
	}
	c.in = bufio.NewWriterSize(stdin, 1<<18)
	c.out = bufio.NewReaderSize(stdout, 1<<18)
	return nil
}

// Do sends one op and returns the observation (the text after " => ").  If the runner process
// died (a sanitizer abort that could not be recovered) the observation is "FAULT runner-dead" and
// a fresh runner (empty maps!) is started for the next op.
func (c *CRunner) Do(op string) string {
	if c.cmd == nil {
		if err := c.start(); err != nil {
			return "FAULT runner-dead"
		}
	}
	if _, err := c.in.WriteString(op + "\n"); err != nil {
		c.kill()
		return "FAULT runner-dead"
	}
	if err := c.in.Flush(); err != nil {
		c.kill()
		return "FAULT runner-dead"
	}
	line, err := c.out.ReadString('\n')
	if err != nil {
		c.kill()
		return "FAULT runner-dead"
	}
	line = strings.TrimRight(line, "\r\n")
	if strings.TrimSpace(op) == "" {
		return ""
	}
	if i := strings.Index(line, " => "); i >= 0 {
		return line[i+4:]
	}
	return line
}

// Reset clears maps, clock, trace and random state (sends the blank sequence separator).
func (c *CRunner) Reset() { c.Do("") }

func (c *CRunner) kill() {
	if c.cmd != nil {
		_ = c.cmd.Process.Kill()
		_ = c.cmd.Wait()
		c.cmd = nil
	}
}

// Close terminates the runner.
func (c *CRunner) Close() { c.kill() }
