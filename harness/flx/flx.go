// Package flx holds what the free-list pool harness mains share: address <-> hex conversion and
// the shape of the random operation generator.
package flx

import (
	"fmt"
	"math/big"
	"math/rand"
	"net"
	"strconv"
)

// Hex4 renders an IPv4 address as the lower-case hex of its numeric value ("-" for nil).
func Hex4(ip net.IP) string {
	v4 := ip.To4()
	if v4 == nil {
		return "bad" + ip.String()
	}
	return strconv.FormatUint(uint64(U32(v4)), 16)
}

func U32(ip net.IP) uint32 {
	v4 := ip.To4()
	return uint32(v4[0])<<24 | uint32(v4[1])<<16 | uint32(v4[2])<<8 | uint32(v4[3])
}

// IP4 is the 4-byte address with numeric value v.
func IP4(v uint32) net.IP { return net.IP{byte(v >> 24), byte(v >> 16), byte(v >> 8), byte(v)} }

// ParseHex4 parses the token of an IPv4 address.
func ParseHex4(tok string) (net.IP, bool) {
	v, err := strconv.ParseUint(tok, 16, 64)
	if err != nil || v > 0xffffffff {
		return nil, false
	}
	return IP4(uint32(v)), true
}

// Hex16 renders a 16-byte address as hex of its numeric value.
func Hex16(ip net.IP) string {
	b := ip.To16()
	if b == nil {
		return "bad"
	}
	return new(big.Int).SetBytes(b).Text(16)
}

// IP16 is the 16-byte address with the numeric value of the hex token.
func IP16(tok string) (net.IP, bool) {
	v, ok := new(big.Int).SetString(tok, 16)
	if !ok || v.Sign() < 0 || v.BitLen() > 128 {
		return nil, false
	}
	out := make([]byte, 16)
	b := v.Bytes()
	copy(out[16-len(b):], b)
	return net.IP(out), true
}

// V4 describes an IPv4 pool geometry of the generators.
type V4 struct {
	Net  uint32 // masked network address
	Ones int
	Gw   uint32
}

func (g V4) CIDR() string { return fmt.Sprintf("%s/%d", IP4(g.Net), g.Ones) }

// Span is the number of addresses of the network.
func (g V4) Span() uint64 { return 1 << uint(32-g.Ones) }

// RandAddr picks an address in or just around the network (network address, broadcast, gateway,
// one below, one beyond included) so that lookups by value hit and miss.
func (g V4) RandAddr(r *rand.Rand) uint32 {
	span := g.Span()
	switch r.Intn(14) {
	case 0:
		return g.Net - 1
	case 1:
		return g.Net + uint32(span)
	case 2:
		return g.Gw
	case 3:
		return g.Net
	case 4:
		return g.Net + uint32(span) - 1
	}
	return g.Net + uint32(r.Int63n(int64(span)))
}
