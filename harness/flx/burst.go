package flx

import (
	"fmt"
	"runtime"
	"sort"
	"strings"
	"sync"
	"sync/atomic"
	"time"

	"github.com/codelaboratoryltd/bng/pkg/pool"
)

// Burst starts k goroutines that each perform call() once.  While they start, hold() keeps the lock of
// the object under test, so that all of them are parked at the entry of its critical section; the lock
// is released when all k have been started (plus a short grace period for them to reach the lock), and
// the callers run into the critical section together.  Returns the k answers.
func Burst(k int, hold func() (release func()), call func() string) []string {
	answers := make([]string, k)
	var started atomic.Int32
	var wg sync.WaitGroup
	release := hold()
	for i := 0; i < k; i++ {
		wg.Add(1)
		go func(i int) {
			defer wg.Done()
			started.Add(1)
			answers[i] = call()
		}(i)
	}
	for started.Load() < int32(k) {
		runtime.Gosched()
	}
	// the callers are between `started` and the lock: give them time to arrive
	deadline := time.Now().Add(300 * time.Microsecond)
	for time.Now().Before(deadline) {
		runtime.Gosched()
	}
	release()
	wg.Wait()
	return answers
}

// Agree renders the answers of a burst: the common answer if all are equal, else "mixed a,b,…"
// (the distinct answers, sorted).
func Agree(answers []string) string {
	set := map[string]bool{}
	for _, a := range answers {
		set[a] = true
	}
	if len(set) == 1 {
		return answers[0]
	}
	var l []string
	for a := range set {
		l = append(l, strings.ReplaceAll(a, " ", ":"))
	}
	sort.Strings(l)
	return "mixed " + strings.Join(l, ",")
}

// AuditLocal checks the three structures of a PeerPool's LocalPool against each other and against the
// number of addresses the pool was built with: "ok", or "bad" followed by what is wrong
// (lost=<n> addresses neither held nor free, stale=<n> reverse-index entries without allocation,
// norev=<n> allocations without reverse-index entry, dup=<n> addresses that occur twice).
func AuditLocal(p *pool.PeerPool, total int) string {
	alloc, avail, rev := p.LocalSnapshotForVerif()
	seen := map[string]int{}
	for _, ip := range alloc {
		seen[ip]++
	}
	for _, ip := range avail {
		seen[ip]++
	}
	dup := 0
	for _, n := range seen {
		if n > 1 {
			dup += n - 1
		}
	}
	norev := 0
	for sub, ip := range alloc {
		if rev[ip] != sub {
			norev++
		}
	}
	stale := 0
	for ip, sub := range rev {
		if alloc[sub] != ip {
			stale++
		}
	}
	lost := total - len(seen)
	if lost == 0 && stale == 0 && norev == 0 && dup == 0 {
		return "ok"
	}
	return fmt.Sprintf("bad lost=%d stale=%d norev=%d dup=%d", lost, stale, norev, dup)
}
