// tcprogs drives the natively compiled TC programs antispoof_ingress (bpf/antispoof.c), qos_egress_prog and
// qos_ingress_prog (bpf/qos_ratelimit.c) through the cshim runners with RAW map bytes (C07: memory safety,
// defined verdict, pass-means-unmodified for every frame and every map state).
//
//	new                                   => ok
//	put <map> <key> <val>                 => ok | err …    maps: subscriber_bindings antispoof_config allowed_ranges_v4 qos_egress qos_ingress
//	clock <ns>                            => ok
//	run <prog> <hexframe> len=<skb->len>  => <ret> same [prio=N] [ev=N] | <ret> <hexframe-after> … | FAULT …
package main

import (
	"encoding/binary"
	"encoding/hex"
	"fmt"
	"math/rand"
	"os"
	"strings"

	"bngverif/hx"
)

type comp struct{}

var runners = map[string]*hx.CRunner{}

func runner(prog string) *hx.CRunner {
	if r, ok := runners[prog]; ok {
		return r
	}
	r, err := hx.StartCRunner(prog)
	if err != nil {
		fmt.Fprintln(os.Stderr, "tcprogs harness:", err)
		os.Exit(3)
	}
	runners[prog] = r
	return r
}

var mapOwner = map[string]string{
	"subscriber_bindings": "antispoof", "antispoof_config": "antispoof", "allowed_ranges_v4": "antispoof",
	"qos_egress": "qos_ratelimit", "qos_ingress": "qos_ratelimit",
}
var progOwner = map[string]string{
	"antispoof_ingress": "antispoof", "qos_egress_prog": "qos_ratelimit", "qos_ingress_prog": "qos_ratelimit",
}

type run struct{}

func (comp) NewRun() hx.Run {
	runner("antispoof").Reset()
	runner("qos_ratelimit").Reset()
	return &run{}
}

func (r *run) Close() {}

func (r *run) Do(op string) string {
	f := hx.Fields(op)
	if len(f) == 0 {
		return "badop"
	}
	switch f[0] {
	case "new":
		return "ok"
	case "clock":
		if len(f) != 2 {
			return "badop"
		}
		runner("antispoof").Do("clock " + f[1])
		return runner("qos_ratelimit").Do("clock " + f[1])
	case "put":
		if len(f) != 4 || mapOwner[f[1]] == "" {
			return "badop"
		}
		return runner(mapOwner[f[1]]).Do(op)
	case "run":
		if len(f) != 4 || progOwner[f[1]] == "" || !strings.HasPrefix(f[3], "len=") {
			return "badop"
		}
		obs := runner(progOwner[f[1]]).Do("run tc " + f[1] + " " + f[2] + " " + f[3])
		if strings.HasPrefix(obs, "FAULT") {
			return obs
		}
		var keep []string
		for i, t := range strings.Fields(obs) {
			if i < 2 || strings.HasPrefix(t, "prio=") || strings.HasPrefix(t, "ev=") {
				keep = append(keep, t)
			}
		}
		return strings.Join(keep, " ")
	}
	return "badop"
}

// ---------------------------------------------------------------- generator

func h(b []byte) string {
	if len(b) == 0 {
		return "-"
	}
	return hex.EncodeToString(b)
}

var macs = [][]byte{{2, 0, 0, 0, 0, 1}, {2, 0, 0, 0, 0, 2}, {0xaa, 0xbb, 0xcc, 0xdd, 0xee, 0xff}}
var ips = [][]byte{{10, 0, 1, 5}, {10, 0, 1, 6}, {192, 168, 7, 9}, {10, 1, 1, 10}}

func macKey(m []byte) []byte { return []byte{m[5], m[4], m[3], m[2], m[1], m[0], 0, 0} }

func frame4(src []byte, sip, dip []byte, etype uint16, extra int) []byte {
	f := append([]byte{0xff, 0xff, 0xff, 0xff, 0xff, 0xff}, src...)
	f = binary.BigEndian.AppendUint16(f, etype)
	ip := []byte{0x45, 0, 0, 40, 0, 0, 0, 0, 64, 6, 0, 0}
	ip = append(ip, sip...)
	ip = append(ip, dip...)
	f = append(f, ip...)
	for i := 0; i < extra; i++ {
		f = append(f, byte(i))
	}
	return f
}

func frame6(src []byte, sip []byte, extra int) []byte {
	f := append([]byte{0xff, 0xff, 0xff, 0xff, 0xff, 0xff}, src...)
	f = append(f, 0x86, 0xdd, 0x60, 0, 0, 0, 0, 20, 6, 64)
	f = append(f, sip...)
	f = append(f, make([]byte, 16)...)
	for i := 0; i < extra; i++ {
		f = append(f, byte(i))
	}
	return f
}

func binding(ip4 []byte, ip6 []byte, v4, v6, mode byte) []byte {
	b := []byte{ip4[3], ip4[2], ip4[1], ip4[0]} // the host-order integer Go writes
	b = append(b, ip6...)
	return append(b, v4, v6, mode, 0)
}

func bucket(tokens, last, rate uint64, burst uint32, prio byte) []byte {
	b := binary.LittleEndian.AppendUint64(nil, tokens)
	b = binary.LittleEndian.AppendUint64(b, last)
	b = binary.LittleEndian.AppendUint64(b, rate)
	b = binary.LittleEndian.AppendUint32(b, burst)
	return append(b, prio, 0, 0, 0)
}

func runOp(prog string, f []byte, skbLen int) string {
	return fmt.Sprintf("run %s %s len=%d", prog, h(f), skbLen)
}

func (comp) Gen(r *rand.Rand, tier string, emit func([]string)) {
	v6 := []byte{0x20, 1, 0xd, 0xb8, 0, 0, 0, 0, 0, 0, 0, 0, 0, 0, 0, 5}
	// antispoof: every mode x binding shape x IPv4 / IPv6 / other frames, truncated at every offset
	for mode := byte(0); mode <= 4; mode++ {
		for shape := 0; shape < 5; shape++ {
			seq := []string{"new", fmt.Sprintf("put antispoof_config 00000000 %s", h([]byte{byte(r.Intn(4)), byte(r.Intn(2)), 0, 0, 0, 0, 0, 0}))}
			switch shape {
			case 0: // no binding: default mode applies
				seq[1] = fmt.Sprintf("put antispoof_config 00000000 %s", h([]byte{mode, 1, 0, 0, 0, 0, 0, 0}))
			case 1:
				seq = append(seq, "put subscriber_bindings "+h(macKey(macs[0]))+" "+h(binding(ips[0], v6, 1, 1, mode)))
			case 2:
				seq = append(seq, "put subscriber_bindings "+h(macKey(macs[0]))+" "+h(binding(ips[1], make([]byte, 16), 1, 0, mode)))
			case 3:
				seq = append(seq, "put subscriber_bindings "+h(macKey(macs[0]))+" "+h(binding(ips[0], v6, 0, 0, mode)))
			case 4:
				b := make([]byte, 24)
				r.Read(b)
				b[22] = mode
				seq = append(seq, "put subscriber_bindings "+h(macKey(macs[0]))+" "+h(b))
			}
			if r.Intn(2) == 0 {
				seq = append(seq, "put allowed_ranges_v4 "+h(append(binary.LittleEndian.AppendUint32(nil, 24), 10, 0, 1, 0))+" 01")
			}
			full4 := frame4(macs[0], ips[0], ips[2], 0x0800, 20)
			full6 := frame6(macs[0], v6, 8)
			for n := 0; n <= len(full4); n++ {
				seq = append(seq, runOp("antispoof_ingress", full4[:n], n))
			}
			for n := 14; n <= len(full6); n++ {
				seq = append(seq, runOp("antispoof_ingress", full6[:n], n))
			}
			for _, et := range []uint16{0x0806, 0x8100, 0x86dd, 0x0800} {
				seq = append(seq, runOp("antispoof_ingress", frame4(macs[r.Intn(3)], ips[r.Intn(4)], ips[r.Intn(4)], et, r.Intn(30)), 60))
			}
			emit(seq)
		}
	}
	// qos: both directions, buckets that admit / drop / are absent, truncated at every offset, skb->len >= linear part
	for _, prog := range []string{"qos_egress_prog", "qos_ingress_prog"} {
		for shape := 0; shape < 4; shape++ {
			seq := []string{"new", "clock 5000000000"}
			key := []byte{ips[0][3], ips[0][2], ips[0][1], ips[0][0]}
			m := "qos_egress"
			if prog == "qos_ingress_prog" {
				m = "qos_ingress"
			}
			switch shape {
			case 0:
				seq = append(seq, "put "+m+" "+h(key)+" "+h(bucket(1000000, 4000000000, 8000000, 1000000, 5)))
			case 1:
				seq = append(seq, "put "+m+" "+h(key)+" "+h(bucket(0, 5000000000, 8, 10, 3)))
			case 2:
				b := make([]byte, 32)
				r.Read(b)
				seq = append(seq, "put "+m+" "+h(key)+" "+h(b))
			}
			full := frame4(macs[1], ips[0], ips[0], 0x0800, 30)
			for n := 0; n <= len(full); n++ {
				seq = append(seq, runOp(prog, full[:n], n+r.Intn(2)*1400))
			}
			seq = append(seq, runOp(prog, frame4(macs[1], ips[0], ips[0], 0x86dd, 30), 64), runOp(prog, frame4(macs[1], ips[1], ips[1], 0x0800, 30), 64))
			emit(seq)
		}
	}
	// every length 0..1600 with random content (quick: a sample), random map bytes
	step := 5
	if tier == "thorough" {
		step = 1
	}
	seq := []string{"new"}
	for n := 0; n <= 1600; n += step {
		b := make([]byte, n)
		r.Read(b)
		if n >= 14 && r.Intn(2) == 0 {
			copy(b[6:], macs[0])
			b[12], b[13] = 8, 0
			if r.Intn(3) == 0 {
				b[12], b[13] = 0x86, 0xdd
			}
		}
		prog := []string{"antispoof_ingress", "qos_egress_prog", "qos_ingress_prog"}[r.Intn(3)]
		if len(seq) == 1 {
			rb := func(n int) string { x := make([]byte, n); r.Read(x); return h(x) }
			x := make([]byte, 24)
			r.Read(x)
			x[22] = byte(r.Intn(5))
			seq = append(seq, "put subscriber_bindings "+h(macKey(macs[0]))+" "+h(x), "put antispoof_config 00000000 "+h([]byte{byte(r.Intn(5)), byte(r.Intn(2)), 0, 0, 0, 0, 0, 0}),
				"put qos_egress "+rb(4)+" "+rb(32), "put qos_ingress "+rb(4)+" "+rb(32), fmt.Sprintf("clock %d", r.Int63()))
		}
		seq = append(seq, runOp(prog, b, n))
		if len(seq) > 120 {
			emit(seq)
			seq = []string{"new"}
		}
	}
	emit(seq)
}

func main() { hx.Main(comp{}) }
