// dhcppool drives the real dhcp.Pool (pkg/dhcp/pool.go): Allocate by MAC, Release BY VALUE,
// MarkUnavailable, Reserve (a specific address for a MAC), Stats, on pools built by NewPool
// (generateAvailableIPs).
//
// Alias probe: the harness keeps every slice Allocate returned and every slice it passed to Release, Reserve and
// MarkUnavailable; `scribble <hex>` overwrites all of them with the bytes of that address (a caller reusing its
// packet buffer, or normalising an address in place).  None of them is pool state: the operation changes nothing.
package main

import (
	"fmt"
	"math/rand"
	"net"
	"sort"
	"strconv"
	"strings"

	"bngverif/flx"
	"bngverif/hx"

	"github.com/codelaboratoryltd/bng/pkg/dhcp"
)

type comp struct{}

type geo struct {
	flx.V4
	rs, re int
}

func (g geo) newOp() string {
	return fmt.Sprintf("new %x %d %x %d %d", g.Net, g.Ones, g.Gw, g.rs, g.re)
}

func a(s string) uint32 { return flx.U32(net.ParseIP(s)) }

var smallGeos = []flx.V4{
	{Net: a("10.0.0.0"), Ones: 29, Gw: a("10.0.0.1")},
	{Net: a("10.0.0.8"), Ones: 29, Gw: a("10.0.0.14")},
	{Net: a("192.168.7.4"), Ones: 30, Gw: a("192.168.7.5")},
	{Net: a("192.168.7.4"), Ones: 30, Gw: a("192.168.1.1")},
	{Net: a("100.64.0.16"), Ones: 28, Gw: a("100.64.0.20")},
	{Net: a("100.64.0.16"), Ones: 28, Gw: a("10.1.1.1")},
	{Net: a("10.9.9.8"), Ones: 31, Gw: a("10.9.9.8")},
	{Net: a("10.9.9.9"), Ones: 32, Gw: a("10.9.9.9")},
	{Net: a("172.16.255.248"), Ones: 29, Gw: a("172.16.255.254")},
	{Net: a("255.255.255.248"), Ones: 29, Gw: a("255.255.255.249")},
}

var largeGeos = []flx.V4{
	{Net: a("10.0.2.0"), Ones: 23, Gw: a("10.0.2.1")},
	{Net: a("10.16.0.0"), Ones: 20, Gw: a("10.16.0.1")},
	{Net: a("172.20.252.0"), Ones: 22, Gw: a("172.20.253.0")},
}

func randOp(r *rand.Rand, g geo, subs int) string {
	m := fmt.Sprintf("m%d", 1+r.Intn(subs))
	switch x := r.Intn(100); {
	case x < 36:
		return "alloc " + m
	case x < 58:
		return fmt.Sprintf("release %x", g.RandAddr(r))
	case x < 68:
		return fmt.Sprintf("mark %x", g.RandAddr(r))
	case x < 84:
		// the requested address is drawn from the whole network and its surroundings: on these small
		// pools it is, in turn, the client's own address, another client's, a free one, a declined one,
		// the gateway, the network/broadcast address, a reserved one or one outside the network
		return fmt.Sprintf("reserve %s %x", m, g.RandAddr(r))
	case x < 89:
		return fmt.Sprintf("scribble %x", g.RandAddr(r))
	case x < 91:
		return "list"
	case x < 95:
		return fmt.Sprintf("contains %x", g.RandAddr(r))
	default:
		return "stats"
	}
}

func tail(subs int) []string {
	out := []string{"stats"}
	for i := 1; i <= subs; i++ {
		out = append(out, fmt.Sprintf("alloc m%d", i))
	}
	return append(out, "stats", "list")
}

func (comp) Gen(r *rand.Rand, tier string, emit func([]string)) {
	nSmall, nLarge := 1500, 6
	if tier == "thorough" {
		nSmall, nLarge = 30000, 60
	}
	for i := 0; i < nSmall; i++ {
		g := geo{V4: smallGeos[r.Intn(len(smallGeos))], rs: r.Intn(3) * r.Intn(2), re: r.Intn(3) * r.Intn(2)}
		subs := 2 + r.Intn(5)
		seq := []string{g.newOp()}
		for j, n := 0, 3+r.Intn(28); j < n; j++ {
			seq = append(seq, randOp(r, g, subs))
		}
		emit(append(seq, tail(subs)...))
	}
	for i := 0; i < nLarge; i++ {
		g := geo{V4: largeGeos[r.Intn(len(largeGeos))], rs: r.Intn(20), re: r.Intn(20)}
		subs := 100 + r.Intn(700)
		seq := []string{g.newOp()}
		for j := 0; j < 1500; j++ {
			seq = append(seq, randOp(r, g, subs))
		}
		emit(append(seq, "stats"))
	}
	if tier == "thorough" {
		exhaustive(emit)
	}
}

// exhaustive: every sequence of 17 operations (12 mutating, 3 out-of-range, 2 read-only) to depth 4
// over 3 MACs, and of the 12 mutating ones to depth 5, on a /29 with the gateway
// inside (5 usable addresses) and a /30, followed by the observers.
func exhaustive(emit func([]string)) {
	for _, g := range []geo{{V4: smallGeos[2]}, {V4: smallGeos[0], re: 2}} {
		var alpha []string
		for s := 1; s <= 3; s++ {
			alpha = append(alpha, fmt.Sprintf("alloc m%d", s))
		}
		first := g.Net + 1
		for u := uint32(0); u < 3; u++ {
			alpha = append(alpha, fmt.Sprintf("release %x", first+u))
		}
		alpha = append(alpha, fmt.Sprintf("mark %x", first), fmt.Sprintf("mark %x", first+1))
		for s := 1; s <= 2; s++ {
			for u := uint32(0); u < 2; u++ {
				alpha = append(alpha, fmt.Sprintf("reserve m%d %x", s, first+u))
			}
		}
		// out-of-range requests (network address, one beyond the network) and read-only operations
		alpha = append(alpha, fmt.Sprintf("scribble %x", first+1))
		all := append(append([]string{}, alpha...), fmt.Sprintf("reserve m1 %x", g.Net),
			fmt.Sprintf("release %x", g.Net+uint32(g.Span())), fmt.Sprintf("mark %x", g.Net+uint32(g.Span())), "stats", "list")
		var rec func(ab, prefix []string, depth int)
		rec = func(ab, prefix []string, depth int) {
			if depth == 0 {
				seq := append([]string{g.newOp()}, prefix...)
				emit(append(seq, tail(3)...))
				return
			}
			for _, x := range ab {
				rec(ab, append(prefix[:len(prefix):len(prefix)], x), depth-1)
			}
		}
		rec(alpha, nil, 5)
		rec(all, nil, 4)
	}
}

type run struct {
	p *dhcp.Pool
	// every slice the pool handed out or was handed
	kept []net.IP
}

func (r *run) keep(ip net.IP) net.IP {
	if ip != nil {
		r.kept = append(r.kept, ip)
	}
	return ip
}

func (comp) NewRun() hx.Run { return &run{} }
func (r *run) Close()       {}

func mac(tok string) net.HardwareAddr {
	n, _ := strconv.Atoi(tok[1:])
	return net.HardwareAddr{0x02, 0, 0, byte(n >> 16), byte(n >> 8), byte(n)}
}

func (r *run) Do(op string) string {
	f := hx.Fields(op)
	if f[0] == "new" {
		if len(f) != 6 {
			return "badop"
		}
		nw, ok1 := flx.ParseHex4(f[1])
		ones, err1 := strconv.Atoi(f[2])
		gw, ok2 := flx.ParseHex4(f[3])
		rs, err2 := strconv.Atoi(f[4])
		re, err3 := strconv.Atoi(f[5])
		if !ok1 || !ok2 || err1 != nil || err2 != nil || err3 != nil {
			return "badop"
		}
		p, err := dhcp.NewPool(dhcp.PoolConfig{ID: 1, Name: "verif", Network: fmt.Sprintf("%s/%d", nw, ones),
			Gateway: gw.String(), ReservedStart: rs, ReservedEnd: re})
		if err != nil {
			return "invalid"
		}
		r.p = p
		r.kept = nil
		return "ok"
	}
	if r.p == nil {
		return "badop"
	}
	switch {
	case f[0] == "alloc" && len(f) == 2 && strings.HasPrefix(f[1], "m"):
		ip, err := r.p.Allocate(mac(f[1]))
		if err != nil {
			if strings.Contains(err.Error(), "exhausted") {
				return "exhausted"
			}
			return "error " + err.Error()
		}
		return "ok " + flx.Hex4(r.keep(ip))
	case f[0] == "scribble" && len(f) == 2:
		ip, ok := flx.ParseHex4(f[1])
		if !ok {
			return "badop"
		}
		for _, k := range r.kept {
			if len(k) >= 4 {
				copy(k[len(k)-4:], ip)
			}
		}
		r.kept = nil
		return "ok"
	case f[0] == "release" && len(f) == 2:
		ip, ok := flx.ParseHex4(f[1])
		if !ok {
			return "badop"
		}
		r.p.Release(r.keep(ip))
		return "ok"
	case f[0] == "mark" && len(f) == 2:
		ip, ok := flx.ParseHex4(f[1])
		if !ok {
			return "badop"
		}
		r.p.MarkUnavailable(r.keep(ip))
		return "ok"
	case f[0] == "reserve" && len(f) == 3 && strings.HasPrefix(f[1], "m"):
		ip, ok := flx.ParseHex4(f[2])
		if !ok {
			return "badop"
		}
		return strconv.FormatBool(r.p.Reserve(mac(f[1]), r.keep(ip)))
	case f[0] == "list" && len(f) == 1:
		alloc, _, _ := r.p.SnapshotForVerif()
		type kv struct {
			n  int
			ip net.IP
		}
		var l []kv
		for m, ip := range alloc {
			hw, err := net.ParseMAC(m)
			if err != nil || len(hw) != 6 {
				return "error mac " + m
			}
			l = append(l, kv{int(hw[3])<<16 | int(hw[4])<<8 | int(hw[5]), ip})
		}
		if len(l) == 0 {
			return "-"
		}
		sort.Slice(l, func(i, j int) bool { return l[i].n < l[j].n })
		parts := make([]string, len(l))
		for i, e := range l {
			parts[i] = fmt.Sprintf("m%d=%s", e.n, flx.Hex4(e.ip))
		}
		return strings.Join(parts, ",")
	case f[0] == "contains" && len(f) == 2:
		ip, ok := flx.ParseHex4(f[1])
		if !ok {
			return "badop"
		}
		return strconv.FormatBool(r.p.Contains(ip))
	case f[0] == "stats" && len(f) == 1:
		s := r.p.Stats()
		return fmt.Sprintf("%d %d %d %d", s.Allocated, s.Available, s.Total, s.Unavailable)
	}
	return "badop"
}

func main() { hx.Main(comp{}) }
