package main

import (
	"encoding/hex"
	"fmt"
	"math/rand"
	"strings"
)

// Generator for C08.
//
// Small scope (the property's quantifier): <= 3 sessions x start/interim/stop orders x every up/down
// answer of the server per request x a crash at every marker of the last operation (every prefix of a
// history is itself enumerated, so this is a crash at every marker of every operation), a graceful
// shutdown or a plain crash at every operation boundary, followed by a restart under every up/down
// vector, optionally a second crash/shutdown, and a settle phase with the server up.
// thorough = all of it, quick = a seeded sample of the same set.  Plus seeded random long histories and
// the counter family (edge values around multiples of 2^32, random 64-bit values).
//
// Answers are three-valued: u = answered, d = not received, l = accepted by the server but the client sees a
// failure.  `!k~` = crash in the middle of the file write of the k-th step.  `@m:deq|retry:<ans>` = a step of
// the background processor executed while the API call is parked in front of marker m (the processor
// goroutine runs concurrently with every API call in production).  `@17:stop:<sid>:<cause>:<ans>` = a complete
// StopSession call executed while an interim update (the interim goroutine) is parked in front of its send;
// `@1|2:stop:<sid>..` after `start <sid>` / `@3..6:stop:<sid>..` after `stop <sid>` = a StopSession of the same
// session overlapping that call.

type sink struct {
	r    *rand.Rand
	keep float64 // probability that an enumerated sequence is emitted
	emit func([]string)
	n    int
}

func (s *sink) out(seq []string) {
	if s.keep >= 1 || s.r.Float64() < s.keep {
		s.n++
		s.emit(append([]string(nil), seq...))
	}
}

func settle(n int) []string {
	var t []string
	for i := 0; i < n+1; i++ {
		t = append(t, "deq u")
	}
	t = append(t, "retry -")
	for i := 0; i < n+1; i++ {
		t = append(t, "deq u")
	}
	return append(t, "final")
}

// answer vectors of length n over {u,d}
func vectors(n int) []string {
	if n == 0 {
		return []string{"-"}
	}
	var out []string
	for m := 0; m < 1<<n; m++ {
		b := make([]byte, n)
		for i := range b {
			b[i] = 'u'
			if m>>i&1 == 1 {
				b[i] = 'd'
			}
		}
		out = append(out, string(b))
	}
	return out
}

// tails after the main part; nfiles bounds the number of orphan files the restart may find.
// A main part that left the instance alive needs no restart variants (restart answers `alive`).
func tails(nfiles, nsess int, dead, full bool) [][]string {
	st := settle(nsess)
	if !dead {
		return [][]string{append([]string{"restart -"}, st...)}
	}
	var out [][]string
	allUp := strings.Repeat("u", nfiles)
	for _, v := range vectors(nfiles) {
		out = append(out, append([]string{"restart " + v}, st...))
		if strings.Contains(v, "d") && (full || !strings.Contains(v, "u")) {
			// the record queued by a failed recovery send is volatile: crash / shutdown again
			t := []string{"restart " + v, "crash", "restart " + allUp}
			out = append(out, append(t, st...))
			t = []string{"restart " + v, "shutdown -", "restart " + allUp}
			out = append(out, append(t, st...))
			if full {
				t = []string{"restart " + v, "retry d", "retry d", "deq d", "crash", "restart " + allUp}
				out = append(out, append(t, st...))
			}
		}
	}
	return out
}

// maximal number of markers an operation can hit (an armed crash point beyond it never fires)
func kmax(op string, nsess int) int {
	switch strings.Fields(op)[0] {
	case "start":
		return 2
	case "stop":
		return 4
	case "interim":
		return 1
	case "deq":
		return 2
	case "retry":
		return 2 * (nsess + 1)
	case "shutdown":
		return 2*nsess + 1
	case "restart":
		return 2*nsess + 2
	}
	return 0
}

// endings of a main part: nothing, crash at every marker of the last op, plain crash, graceful shutdown
// (complete under several answer vectors, and crashed at each of its markers)
func endings(main []string, nsess int, emit func(pre []string, dead bool)) {
	emit(main, false)
	cp := func(extra ...string) []string { return append(append([]string(nil), main...), extra...) }
	if len(main) > 1 {
		last := main[len(main)-1]
		for k := 1; k <= kmax(last, nsess); k++ {
			m := append(append([]string(nil), main[:len(main)-1]...), fmt.Sprintf("%s !%d", last, k))
			emit(m, true)
		}
		if w := strings.Fields(last)[0]; w == "start" || w == "stop" {
			// crash inside the file write of each persist step
			for k := 1; k <= kmax(last, nsess); k++ {
				m := append(append([]string(nil), main[:len(main)-1]...), fmt.Sprintf("%s !%d~", last, k))
				emit(m, true)
			}
		}
	}
	emit(cp("crash"), true)
	vs := vectors(nsess)
	if nsess > 1 {
		vs = []string{strings.Repeat("u", nsess), strings.Repeat("d", nsess), "ud" + strings.Repeat("u", nsess-2)}
	}
	for _, v := range vs {
		emit(cp("shutdown "+v), true)
	}
	for k := 1; k <= kmax("shutdown", nsess); k++ {
		emit(cp(fmt.Sprintf("shutdown %s !%d", vs[0], k)), true)
	}
	// crash inside the write of pending.json (only possible when something is pending: server down)
	emit(cp(fmt.Sprintf("shutdown %s !%d~", vs[len(vs)-1], kmax("shutdown", nsess))), true)
	emit(cp(fmt.Sprintf("shutdown %s !%d~", vs[len(vs)-1], nsess+1)), true)
}

func withTails(s *sink, pre []string, nsess int, dead, full bool) {
	for _, t := range tails(nsess, nsess, dead, full) {
		s.out(append(append([]string(nil), pre...), t...))
	}
}

// one session: `start` followed by every operation sequence up to the given depth (and the orders in
// which another operation comes before the start)
func exhaustive1(s *sink, cfg string, depth int) {
	after := []string{"interim s1 u", "interim s1 d", "stop s1 1 u", "stop s1 1 d", "deq u", "deq d",
		"retry u", "retry d", "retry ud", "retry du", "start s1 i1 u"}
	var rec func(pre []string, d int)
	rec = func(pre []string, d int) {
		endings(pre, 1, func(m []string, dead bool) { withTails(s, m, 1, dead, true) })
		if d == 0 {
			return
		}
		for _, op := range after {
			rec(append(append([]string(nil), pre...), op), d-1)
		}
	}
	for _, st := range []string{"start s1 i1 u", "start s1 i1 d"} {
		rec([]string{cfg, st}, depth)
		for _, junk := range []string{"stop s1 1 u", "interim s1 u", "deq u", "retry u"} {
			rec([]string{cfg, junk, st}, 1)
		}
	}
}

// the third answer: the server accepts the record but the client sees a failure
func exhaustiveLost(s *sink) {
	after := []string{"interim s1 u", "interim s1 l", "stop s1 1 u", "stop s1 1 d", "stop s1 1 l", "deq u", "deq d",
		"deq l", "retry u", "retry l", "retry lu", "retry ul"}
	var rec func(pre []string, d int, hasL bool)
	rec = func(pre []string, d int, hasL bool) {
		if hasL {
			endings(pre, 1, func(m []string, dead bool) { withTails(s, m, 1, dead, true) })
		}
		if d == 0 {
			return
		}
		for _, op := range after {
			rec(append(append([]string(nil), pre...), op), d-1, hasL || strings.Contains(op, "l"))
		}
	}
	rec([]string{"new 3 8", "start s1 i1 u"}, 3, false)
	rec([]string{"new 3 8", "start s1 i1 l"}, 2, true)
	rec([]string{"new 1 1", "start s1 i1 l"}, 2, true)
}

// the background processor runs while an API call is in progress
func exhaustiveInject(s *sink) {
	ans := []string{"u", "d", "l"}
	kinds := []string{"deq", "retry"}
	for _, a0 := range ans {
		for _, pre := range [][]string{nil, {"interim s1 d"}, {"interim s1 l"}} {
			for _, a2 := range ans {
				for _, m := range []int{3, 4, 5, 6} {
					for _, k := range kinds {
						for _, a3 := range []string{"u", "d", "l"} {
							main := append([]string{"new 3 8", "start s1 i1 " + a0}, pre...)
							main = append(main, fmt.Sprintf("stop s1 1 %s @%d:%s:%s", a2, m, k, a3))
							endings(main, 1, func(p []string, dead bool) { withTails(s, p, 1, dead, true) })
							// two injections in one call
							if m == 5 {
								main2 := append([]string(nil), main[:len(main)-1]...)
								main2 = append(main2, fmt.Sprintf("stop s1 1 %s @5:%s:%s @6:retry:u", a2, k, a3))
								endings(main2, 1, func(p []string, dead bool) { withTails(s, p, 1, dead, true) })
							}
						}
					}
				}
			}
		}
	}
	// the processor delivers one session's queued Stop while another session starts / stops / is drained
	for _, a1 := range ans[1:] {
		for _, a3 := range ans {
			for _, k := range kinds {
				for _, second := range []string{"start s2 i2 %s @1:%s:%s", "start s2 i2 %s @2:%s:%s",
					"stop s2 2 %s @4:%s:%s", "stop s2 2 %s @5:%s:%s", "stop s2 2 %s @6:%s:%s"} {
					for _, a2 := range ans {
						main := []string{"new 3 8", "start s1 i1 u", "start s2 i2 u", "stop s1 1 " + a1}
						op := fmt.Sprintf(second, a2, k, a3)
						if strings.HasPrefix(op, "start s2") {
							main = []string{"new 3 8", "start s1 i1 u", "stop s1 1 " + a1}
						}
						main = append(main, op)
						endings(main, 2, func(p []string, dead bool) { withTails(s, p, 2, dead, false) })
					}
				}
				// during the shutdown drain
				for _, v := range []string{"uu", "dd", "ud", "lu", "dl"} {
					for _, m := range []int{9, 19} {
						main := []string{"new 3 8", "start s1 i1 u", "start s2 i2 u", "start s3 i3 u", "stop s3 3 " + a1,
							fmt.Sprintf("shutdown %s @%d:%s:%s", v, m, k, a3)}
						withTails(s, main, 3, true, false)
					}
				}
			}
		}
	}
}

// the interim goroutine runs concurrently with the API: StopSession (of the same or of another session) runs to
// completion while an interim update is parked in front of its send, under every answer of both requests
func exhaustiveInterimStop(s *sink) {
	ans := []string{"u", "d", "l"}
	for _, a0 := range []string{"u", "d"} {
		for _, pre := range [][]string{nil, {"ctr s1 5 100000007"}, {"interim s1 d"}} {
			for _, ai := range ans {
				for _, as := range ans {
					main := append([]string{"new 3 8", "start s1 i1 " + a0}, pre...)
					main = append(main, fmt.Sprintf("interim s1 %s @17:stop:s1:1:%s", ai, as))
					endings(main, 1, func(p []string, dead bool) { withTails(s, p, 1, dead, true) })
					// ... followed by more traffic on the same instance before it goes down
					for _, next := range []string{"retry u", "deq u", "interim s1 u", "stop s1 2 u"} {
						endings(append(append([]string(nil), main...), next), 1, func(p []string, dead bool) { withTails(s, p, 1, dead, false) })
					}
					// another session is stopped meanwhile
					main2 := []string{"new 3 8", "start s1 i1 " + a0, "start s2 i2 u",
						fmt.Sprintf("interim s1 %s @17:stop:s2:2:%s", ai, as), "stop s1 1 u"}
					endings(main2, 2, func(p []string, dead bool) { withTails(s, p, 2, dead, false) })
				}
			}
		}
	}
}

// API calls of the same session overlap (different goroutines of the caller): a StopSession arrives while the
// session's StartSession is still sending / persisting, or while another StopSession is under way
func exhaustiveOverlap(s *sink) {
	ans := []string{"u", "d", "l"}
	for _, a0 := range ans {
		for _, as := range ans {
			for _, m := range []int{1, 2} {
				st := fmt.Sprintf("start s1 i1 %s @%d:stop:s1:1:%s", a0, m, as)
				for _, next := range [][]string{nil, {"stop s1 2 u"}, {"stop s1 2 d"}, {"interim s1 u"}, {"deq u"}} {
					main := append([]string{"new 3 8", st}, next...)
					endings(main, 1, func(p []string, dead bool) { withTails(s, p, 1, dead, true) })
				}
			}
			for _, m := range []int{3, 4, 5, 6} {
				for _, pre := range [][]string{nil, {"interim s1 d"}} {
					main := append([]string{"new 3 8", "start s1 i1 u"}, pre...)
					main = append(main, fmt.Sprintf("stop s1 1 %s @%d:stop:s1:2:%s", a0, m, as))
					endings(main, 1, func(p []string, dead bool) { withTails(s, p, 1, dead, true) })
					for _, next := range []string{"stop s1 3 u", "retry u", "deq u"} {
						endings(append(append([]string(nil), main...), next), 1, func(p []string, dead bool) { withTails(s, p, 1, dead, false) })
					}
				}
			}
		}
	}
}

// interleavings of per-session chains
func merges(chains [][]string, emit func([]string)) {
	idx := make([]int, len(chains))
	var cur []string
	var rec func()
	rec = func() {
		done := true
		for i, c := range chains {
			if idx[i] < len(c) {
				done = false
				cur = append(cur, c[idx[i]])
				idx[i]++
				rec()
				idx[i]--
				cur = cur[:len(cur)-1]
			}
		}
		if done {
			emit(append([]string(nil), cur...))
		}
	}
	rec()
}

// fill the answer placeholders ("?") of the ops with every vector
func fillAnswers(ops []string, emit func([]string)) {
	n := 0
	for _, o := range ops {
		n += strings.Count(o, "?")
	}
	for _, v := range vectors(n) {
		if v == "-" {
			v = ""
		}
		i := 0
		out := make([]string, len(ops))
		for j, o := range ops {
			for strings.Contains(o, "?") {
				o = strings.Replace(o, "?", string(v[i]), 1)
				i++
			}
			out[j] = o
		}
		emit(out)
	}
}

func chainsFor(sid, ident int) [][]string {
	st := fmt.Sprintf("start s%d i%d ?", sid, ident)
	sp := fmt.Sprintf("stop s%d %d ?", sid, sid)
	im := fmt.Sprintf("interim s%d ?", sid)
	return [][]string{{st, sp}, {st}, {st, im, sp}}
}

func exhaustive2(s *sink) {
	c1, c2 := chainsFor(1, 1), chainsFor(2, 2)[:2]
	procs := [][]string{nil, {"retry ??"}}
	for _, a := range c1 {
		for _, b := range c2 {
			merges([][]string{a, b}, func(m []string) {
				for _, p := range procs {
					fillAnswers(append(append([]string(nil), m...), p...), func(ops []string) {
						main := append([]string{"new 3 8"}, ops...)
						endings(main, 2, func(pre []string, dead bool) { withTails(s, pre, 2, dead, false) })
					})
				}
			})
		}
	}
}

func exhaustive3(s *sink) {
	for _, stops := range [][]int{{1, 2, 3}, {3, 1}, {2}, {}} {
		var ops []string
		for i := 1; i <= 3; i++ {
			ops = append(ops, fmt.Sprintf("start s%d i%d ?", i, i+4))
		}
		for _, i := range stops {
			ops = append(ops, fmt.Sprintf("stop s%d %d ?", i, i))
		}
		for _, p := range [][]string{nil, {"retry uuu"}, {"retry ddd"}} {
			fillAnswers(append(append([]string(nil), ops...), p...), func(f []string) {
				main := append([]string{"new 2 2"}, f...)
				endings(main, 3, func(pre []string, dead bool) { withTails(s, pre, 3, dead, false) })
			})
		}
	}
}

var edge64 = func() []uint64 {
	var v []uint64
	for _, k := range []uint64{0, 1, 2, 3, 0x7fffffff, 0x80000000, 0xfffffffe, 0xffffffff} {
		for _, m := range []uint64{0, 1, 2, 0xff, 0xffff, 0x7fffffff, 0xfffffffe, 0xffffffff} {
			v = append(v, m<<32|k)
		}
	}
	return v
}()

func counters(s *sink, r *rand.Rand, nrand int) {
	one := func(a, b, c, d uint64) {
		s.emit([]string{"new 3 8", "start s1 i1 u", fmt.Sprintf("ctr s1 %x %x", a, b), "interim s1 u",
			fmt.Sprintf("ctr s1 %x %x", c, d), "interim s1 d", fmt.Sprintf("ctr s1 %x %x", d, a), "stop s1 1 u", "deq u", "final"})
	}
	for i, a := range edge64 {
		one(a, edge64[(i*7+3)%len(edge64)], edge64[(i*5+1)%len(edge64)], edge64[(i*11+2)%len(edge64)])
	}
	for i := 0; i < nrand; i++ {
		x := func() uint64 {
			switch r.Intn(4) {
			case 0:
				return r.Uint64()
			case 1:
				return uint64(r.Intn(8))<<32 + uint64(r.Intn(5)) - 2
			case 2:
				return uint64(r.Uint32())
			}
			return r.Uint64() >> uint(r.Intn(64))
		}
		one(x(), x(), x(), x())
	}
}

// random long histories.  Session ids are not reused (RADIUS requires Acct-Session-Id to be unique): a
// `start` names a fresh id, or an id that is certainly still active (answered `exists`).
func randomSeq(r *rand.Rand) []string {
	nsess := 1 + r.Intn(4)
	seq := []string{fmt.Sprintf("new %d %d", 1+r.Intn(3), []int{1, 2, 8}[r.Intn(3)])}
	ans := func(n int) string {
		if n == 0 {
			return "-"
		}
		b := make([]byte, n)
		for i := range b {
			b[i] = "uuudl"[r.Intn(5)]
		}
		return string(b)
	}
	used := map[int]bool{}
	active := map[int]bool{} // started, and no stop / crash / shutdown / crash point since
	alive := true
	n := 4 + r.Intn(24)
	for i := 0; i < n; i++ {
		s := 1 + r.Intn(nsess)
		var op string
		switch x := r.Intn(100); {
		case x < 24:
			if !alive || (used[s] && !(active[s] && r.Intn(4) == 0)) {
				continue
			}
			op = fmt.Sprintf("start s%d i%d %s", s, s+10*r.Intn(2), ans(1))
			if used[s] {
				op = fmt.Sprintf("start s%d i%d %s", s, s+20, ans(1))
			}
			used[s] = true
			active[s] = true
		case x < 40:
			op = fmt.Sprintf("stop s%d %d %s", s, r.Intn(19), ans(1))
			delete(active, s)
		case x < 50:
			op = fmt.Sprintf("interim s%d %s", s, ans(1))
		case x < 58:
			op = fmt.Sprintf("ctr s%d %x %x", s, r.Uint64()>>uint(r.Intn(64)), uint64(r.Intn(6))<<32+uint64(r.Intn(3))-1)
		case x < 70:
			op = "deq " + ans(1)
		case x < 80:
			op = "retry " + ans(r.Intn(4))
		case x < 84:
			op = "crash"
			alive, active = false, map[int]bool{}
		case x < 88:
			op = "shutdown " + ans(nsess)
			alive, active = false, map[int]bool{}
		case x < 97:
			op = "restart " + ans(nsess)
			alive = true
		default:
			op = "final"
		}
		switch strings.Fields(op)[0] {
		case "start", "interim", "stop", "shutdown":
			if r.Intn(5) == 0 { // the processor runs while the call is parked at one of its markers
				ms := map[string][]int{"start": {1, 2}, "interim": {17}, "stop": {3, 4, 5, 6}, "shutdown": {9, 19}}[strings.Fields(op)[0]]
				op += fmt.Sprintf(" @%d:%s:%s", ms[r.Intn(len(ms))], []string{"deq", "retry"}[r.Intn(2)], ans(1+r.Intn(2)))
			} else if w := strings.Fields(op)[0]; (w == "start" || w == "stop") && r.Intn(6) == 0 { // an overlapping StopSession of the same session
				ms := map[string][]int{"start": {1, 2}, "stop": {3, 4, 5, 6}}[w]
				op += fmt.Sprintf(" @%d:stop:%s:%d:%s", ms[r.Intn(len(ms))], strings.Fields(op)[1], r.Intn(19), ans(1))
			} else if strings.HasPrefix(op, "interim") && r.Intn(3) == 0 { // StopSession completes while the interim update is in flight
				t := s
				if r.Intn(4) == 0 {
					t = 1 + r.Intn(nsess)
				}
				op += fmt.Sprintf(" @17:stop:s%d:%d:%s", t, r.Intn(19), ans(1))
				delete(active, t)
			}
		}
		if !strings.HasPrefix(op, "ctr") && op != "crash" && op != "final" && r.Intn(6) == 0 {
			op += fmt.Sprintf(" !%d", 1+r.Intn(5))
			if w := strings.Fields(op)[0]; r.Intn(4) == 0 && w != "deq" && w != "retry" {
				op += "~"
			}
			alive, active = false, map[int]bool{}
		}
		seq = append(seq, op)
	}
	seq = append(seq, "restart "+ans(nsess))
	return append(seq, settle(nsess)...)
}

// ---------------------------------------------------------------------------------------------
// Concrete session ids.  The model treats Acct-Session-Ids as opaque; the CODE turns them into file names
// (sessions/<id>.json, <file>.tmp), record ids (<id>-<status>-<nanos>) and map keys.  Every sequence is run with
// one of the following assignments of concrete ids to the tags s1..s9 (`ids=` on its `new` line), drawn from the
// PRNG: ids that are proper prefixes of one another (both directions), an id that is another id plus the suffixes
// the persistence layer appends (.json, .tmp, .json.tmp), glob metacharacters, ids that differ only in case, path
// separators and dot segments, percent signs (the escape character of the file names), spaces / UTF-8 / JSON
// specials, and record-id look-alikes (<id>-2-<digits>).
var idSchemes = map[string][]string{
	"prefix-up":   {"sub-1", "sub-10", "sub-100", "sub-1000", "sub-10000", "sub-", "sub", "su", "s"},
	"prefix-down": {"sub-1000", "sub-100", "sub-10", "sub-1", "sub-", "sub", "su", "s", "sub-10000"},
	"suffix-up":   {"sub-1", "sub-1.json", "sub-1.json.json", "sub-1.json.tmp", "sub-1.tmp", "sub-1.", "sub-1.j", "sub-1.json.tmp.json", "sub-1.tmp.json"},
	"suffix-down": {"sub-1.json.json", "sub-1.json", "sub-1", "sub-1.tmp", "sub-1.json.tmp", "sub-1.tmp.json", ".json", ".tmp", "json"},
	"glob":        {"sub-*", "sub-1", "sub-?", "sub-[12]", "*", "?", "[a-z]*", "sub-\\*", "sub-12"},
	"glob-rev":    {"sub-1", "sub-*", "sub-[0-9]", "sub-?", "sub-2", "s*", "*.json", "sub-1*", "{sub-1,sub-2}"},
	"case":        {"Sub-1", "sub-1", "SUB-1", "sUb-1", "suB-1", "sub-1A", "sub-1a", "SUB-1a", "Sub-1A"},
	"path":        {"a/b", "a", "a/b/c", "../x", "../pending", "..", ".", "/abs", "a/../b"},
	"path-rev":    {"a", "a/b", "../../y", "sessions/a", "./a", "a/", "a//b", "../sessions/a", "..."},
	"percent":     {"a/b", "a%2Fb", "a%252Fb", "%", "%2", "%2F", "a%2fb", "a%", "%%"},
	"text":        {"sub 1", "sub\t1", "sub-\u00e9", "sub-<1>&\"q\"", "sub,1", "sub:1", "sub|1", "sub=1", " "},
	"recid":       {"sub-1", "sub-1-2", "sub-1-2-1", "sub-1-1", "sub-1-2-", "1", "2", "-2-", "-"},
}

var schemeNames = []string{"plain", "prefix-up", "prefix-down", "suffix-up", "suffix-down", "glob", "glob-rev", "case",
	"path", "path-rev", "percent", "text", "recid"}

// idsToken renders a scheme as the `ids=` token of a `new` line ("" for the plain scheme: the tags themselves)
func idsToken(scheme string) string {
	ids, ok := idSchemes[scheme]
	if !ok {
		return ""
	}
	var hs []string
	for _, id := range ids {
		hs = append(hs, hex.EncodeToString([]byte(id)))
	}
	return " ids=" + strings.Join(hs, ",")
}

func withScheme(seq []string, scheme string) []string {
	out := append([]string(nil), seq...)
	out[0] += idsToken(scheme)
	return out
}

// prefixFamily: two sessions whose ids are related (s1 = shorter / pattern, s2 = longer / matched, and the reverse
// assignment in the -down / -rev schemes), one of them stopped and ACKNOWLEDGED by each of the three paths (the
// StopSession call itself, the queued record delivered from the channel, delivered by the retry tick) while the
// other is still active, then a crash (or any other ending), a restart and a settle phase: the other session's
// file must still be there and its Stop must be delivered by the recovery.
func prefixFamily(s *sink, core bool) {
	for _, scheme := range schemeNames {
		for _, x := range [][2]int{{1, 2}, {2, 1}} {
			a, b := x[0], x[1]
			for _, ack := range [][]string{{"stop s%d 1 u"}, {"stop s%d 1 d", "deq u"}, {"stop s%d 1 d", "retry u"},
				{"stop s%d 1 l", "retry u"}} {
				main := []string{"new 3 8", "start s1 i1 u", "start s2 i2 u"}
				if a == 2 {
					main = []string{"new 3 8", "start s2 i2 u", "start s1 i1 u"}
				}
				for _, o := range ack {
					if strings.Contains(o, "%d") {
						o = fmt.Sprintf(o, a)
					}
					main = append(main, o)
				}
				if core {
					t := append(append([]string(nil), main...), "crash", "restart uu")
					s.emit(withScheme(append(t, settle(2)...), scheme))
					continue
				}
				// the other session goes on: interim update, a third session with a related id comes and goes
				for _, more := range [][]string{nil, {fmt.Sprintf("interim s%d u", b)},
					{"start s3 i3 u", "stop s3 3 u"}, {"start s3 i3 u", fmt.Sprintf("stop s%d 2 u", b)}} {
					m := append(append([]string(nil), main...), more...)
					endings(m, 2, func(pre []string, dead bool) {
						for _, t := range tails(2, 2, dead, false) {
							if s.keep >= 1 || s.r.Float64() < s.keep {
								s.n++
								s.emit(withScheme(append(append([]string(nil), pre...), t...), scheme))
							}
						}
					})
				}
			}
		}
	}
}

func generate(r *rand.Rand, tier string, emit0 func([]string)) {
	thorough := tier == "thorough"
	// every generated sequence runs under an id scheme drawn from the PRNG (a `new` line that already names its
	// ids keeps them)
	emit := func(seq []string) {
		if len(seq) > 0 && !strings.Contains(seq[0], " ids=") {
			seq = withScheme(seq, schemeNames[r.Intn(len(schemeNames))])
		}
		emit0(seq)
	}
	s := &sink{r: r, keep: 1, emit: emit}
	// the witnesses once with the tags as ids, as recorded
	for _, w := range witnesses {
		emit0(w)
	}
	prefixFamily(s, true)
	// witnesses of the recorded findings, always
	for _, w := range witnesses {
		emit(w)
	}
	if thorough {
		exhaustive1(s, "new 3 8", 3)
		exhaustive1(s, "new 1 1", 2)
		exhaustiveLost(s)
		exhaustiveInject(s)
		exhaustiveInterimStop(s)
		exhaustiveOverlap(s)
		exhaustive2(s)
		exhaustive3(s)
		prefixFamily(s, false)
		counters(s, r, 4000)
		for i := 0; i < 30000; i++ {
			emit(randomSeq(r))
		}
		return
	}
	s.keep = 0.012
	exhaustive1(s, "new 3 8", 3)
	s.keep = 0.03
	exhaustive1(s, "new 1 1", 2)
	s.keep = 0.008
	exhaustiveLost(s)
	s.keep = 0.01
	exhaustiveInject(s)
	s.keep = 0.05
	exhaustiveInterimStop(s)
	s.keep = 0.03
	exhaustiveOverlap(s)
	s.keep = 0.005
	exhaustive2(s)
	s.keep = 0.02
	exhaustive3(s)
	s.keep = 0.004
	prefixFamily(s, false)
	counters(s, r, 100)
	for i := 0; i < 800; i++ {
		emit(randomSeq(r))
	}
}

// the minimal witnesses of the C08 findings (also in corpus/acct)
var witnesses = [][]string{
	// C08-a: the processor delivers the queued Stop while StopSession is parked before it deletes the session
	{"new 3 8", "start s1 i1 u", "stop s1 1 d @5:deq:u", "final", "shutdown -", "restart u", "final"},
	// … and while the shutdown drain is still running
	{"new 3 8", "start s1 i1 u", "start s2 i2 u", "shutdown du @9:deq:u", "restart uu", "deq u", "retry -", "final"},
	// the interim goroutine: StopSession completes while an interim update is in flight, then graceful restart
	{"new 3 8", "start s1 i1 u", "ctr s1 5 6", "interim s1 u @17:stop:s1:1:u", "final", "shutdown -", "restart u", "final"},
	// overlapping API calls of one session: StopSession during StartSession (before / after the Start is sent), two StopSessions
	{"new 3 8", "start s1 i1 u @2:stop:s1:1:u", "final", "shutdown -", "restart u", "final"},
	{"new 3 8", "start s1 i1 u @1:stop:s1:1:u", "stop s1 1 u", "final"},
	{"new 3 8", "start s1 i1 u", "stop s1 1 u @5:stop:s1:2:u", "final"},
	{"new 3 8", "start s1 i1 u", "stop s1 1 d @4:stop:s1:2:u", "deq u", "final"},
	// C08-b: crash in the middle of the rewrite of an existing session file
	{"new 3 8", "start s1 i1 u", "stop s1 1 u !1~", "restart u", "final"},
	// C08-c: the server accepts the Stop, the reply is lost, the client sends it again
	{"new 3 8", "start s1 i1 u", "stop s1 1 l", "retry u", "deq u", "final"},
	// D23: failed Stop is only queued in memory, session file removed, crash loses it
	{"new 3 8", "start s1 i1 u", "stop s1 1 d", "crash", "restart u", "deq u", "retry -", "final"},
	// D24: queued Start overtaken by an immediately successful Stop
	{"new 3 8", "start s1 i1 d", "stop s1 1 u", "deq u", "final"},
	// D25: record in the queue channel and in the retry map: acknowledged Stop sent again
	{"new 3 8", "start s1 i1 u", "stop s1 1 d", "retry u", "deq u", "final"},
	// graceful shutdown and restart: every drained session's Stop is sent again from its session file
	{"new 3 8", "start s1 i1 u", "shutdown u", "restart u", "final"},
	{"new 3 8", "start s1 i1 u", "shutdown d", "restart u", "deq u", "final"},
	// recovery path: a Stop re-queued by the recovery is volatile again
	{"new 3 8", "start s1 i1 u", "crash", "restart d", "crash", "restart u", "deq u", "retry -", "final"},
	{"new 3 8", "start s1 i1 u", "shutdown d", "restart d", "crash", "restart u", "deq u", "retry -", "final"},
}
