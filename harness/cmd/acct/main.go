// acct drives the real radius.AccountingManager (pkg/radius/accounting.go) and the real
// radius.Client.SendAccounting (pkg/radius/client.go) on a temporary persistence directory against a
// real UDP RADIUS accounting server on loopback run by this process (C08).
//
// "Server down" = the client's request fails at once with ECONNREFUSED, exactly as for a closed port, so no
// timeout is ever waited for: the server's UDP socket is connect()ed to another peer for the duration of
// that request, so the kernel answers the client's datagram with ICMP port-unreachable (see server.set).
// The crash-point markers added to accounting.go (verifCrashPoint, no-ops without the verif tag) call back
// into this harness before every transmit/persist/remove step: that is where the next request's up/down
// answer is applied and where "crash at the k-th marker of this operation" abandons the manager instance
// (runtime.Goexit in the calling goroutine); `restart` constructs a fresh manager on the same directory.
// The concurrent goroutines of the shutdown drain are serialised by the same hook (markers 9/10), their
// order is reported in the observation.
//
// Line protocol (see lean/Bng/Drv/Acct.lean):
//
//	new <maxRetries> <queueCap> [ms] [ids=<hex>,<hex>,...] => ok
//	    ids= : the CONCRETE Acct-Session-Id strings (bytes, hex) the tags s1, s2, ... stand for in this sequence
//	    (default: the tag itself).  Everything the real code is given or returns uses the concrete ids; the
//	    observations name sessions by tag again (an id no tag stands for is printed ?<hex>), and the persistence
//	    directory is reported with the real FILE NAMES (hex) and everything else found under the sequence's
//	    scratch directory (x:<hex of the path relative to it>), so that a file written outside sessions/ shows.
//	start s1 i3 <ans> [!k]                   => ok|exists acc=<records>
//	ctr s1 <inhex> <outhex>                  => ok
//	interim s1 <ans> [!k]                    => ok|skip acc=..
//	interim s1 <ans> @17:stop:s1:<cause>:<ans> => ok acc=.. inj=17:ok|-|-   (StopSession runs to completion while the
//	                                            interim update is parked in front of its send)
//	start s1 i1 <ans> @2:stop:s1:<cause>:<ans>  => ok acc=.. inj=2:refused|-|-  (StopSession of the session being started)
//	stop s1 1 <ans> @5:stop:s1:<cause>:<ans>    => ok acc=.. inj=5:refused|-|-  (a second StopSession; notfound at marker 6)
//	stop s1 <cause> <ans> [!k]               => ok|notfound acc=..
//	deq <ans> [!k]                           => empty | done acc=.. ord=<rN|->
//	retry <ans> [!k]                         => done acc=.. ord=<rN,...|->
//	shutdown <ans> [!k]                      => ok acc=.. ord=<sN,...|-> dur=<files>|<pfile>
//	crash                                    => ok dur=..
//	restart <ans> [!k]                       => ok acc=.. q=<rN,...|-> | alive
//	final                                    => sess=.. pend=.. queue=.. dur=..
//	    dur=<files>|<pfile>, files = sN:<stopPending>:<cause>:<in>:<out>:<hex file name> (sN = tag of the id INSIDE
//	    the file), sorted; anything else found: x:<hex path>
//	any op that hit its armed crash point    => crashed@<marker> acc=.. ord=.. dur=..
//	any op on a dead instance                => dead
//
// <ans> is a string over {u,d} (one letter per request sent by the operation, in order; `-` = none,
// missing letters = u).
package main

import (
	"bufio"
	"encoding/hex"
	"encoding/json"
	"fmt"
	"math/rand"
	"net"
	"os"
	"os/exec"
	"path/filepath"
	"runtime"
	"runtime/pprof"
	"sort"
	"strconv"
	"strings"
	"sync"
	"syscall"
	"time"
	"unsafe"

	"bngverif/hx"

	bng "github.com/codelaboratoryltd/bng/pkg/radius"
	"go.uber.org/zap"
	"layeh.com/radius"
	"layeh.com/radius/rfc2865"
	"layeh.com/radius/rfc2866"
	"layeh.com/radius/rfc2869"
)

const secret = "verif-secret"

// ---------------------------------------------------------------------------------------------
// the RADIUS accounting server

type server struct {
	mu       sync.Mutex
	resv     *net.UDPConn // port P, held for the whole process so that P+1 stays ours
	port     int          // P (the client's "auth" port; accounting goes to P+1)
	conn     *net.UDPConn
	isUp     bool
	reply    byte // what the server does with the next request it receives: 'u' answer, 'l' record it and answer with a reply the client refuses, 'L' record it and stay silent
	stopped  chan struct{}
	accepted []string
	tags     map[string]string // concrete Acct-Session-Id -> tag, of the sequence being executed
}

func (s *server) setTags(m map[string]string) {
	s.mu.Lock()
	s.tags = m
	s.mu.Unlock()
}

// tagOfID names a concrete session id by its tag (an id no tag stands for: ?<hex>)
func tagOfID(tags map[string]string, id string) string {
	if t, ok := tags[id]; ok {
		return t
	}
	return "?" + hex.EncodeToString([]byte(id))
}

func newServer(w int) *server {
	s := &server{}
	// outside the ephemeral range so that nobody's :0 bind can take the accounting port while it is closed
	base := 20000 + (os.Getpid()*7+w*211)%9000
	for i := 0; i < 4000; i++ {
		p := base + 2*i
		if p > 32000 {
			p = 20000 + (p - 32000)
		}
		c, err := net.ListenUDP("udp4", &net.UDPAddr{IP: net.IPv4(127, 0, 0, 1), Port: p})
		if err != nil {
			continue
		}
		a, err := net.ListenUDP("udp4", &net.UDPAddr{IP: net.IPv4(127, 0, 0, 1), Port: p + 1})
		if err != nil {
			c.Close()
			continue
		}
		a.Close()
		s.resv, s.port = c, p
		return s
	}
	panic("no free UDP port pair on loopback")
}

// set switches the accounting port between "up" and "down" without closing it: a UDP socket that is
// connect()ed to some other peer receives nothing from the RADIUS client, so the kernel answers the
// client's datagram with ICMP port-unreachable exactly as for a closed port (the client's read fails with
// ECONNREFUSED at once); connect(AF_UNSPEC) dissolves the association again.
func (s *server) set(mode byte) {
	up := mode != 'd'
	s.mu.Lock()
	s.reply = mode
	s.mu.Unlock()
	if s.conn == nil {
		c, err := net.ListenUDP("udp4", &net.UDPAddr{IP: net.IPv4(127, 0, 0, 1), Port: s.port + 1})
		if err != nil {
			panic("cannot open accounting port: " + err.Error())
		}
		s.conn = c
		s.isUp = true
		s.stopped = make(chan struct{})
		go s.serve(c, s.stopped)
	}
	if up == s.isUp {
		return
	}
	rc, err := s.conn.SyscallConn()
	if err != nil {
		panic(err)
	}
	var cerr error
	rc.Control(func(fd uintptr) {
		if up {
			var sa [16]byte // struct sockaddr with sa_family = AF_UNSPEC
			_, _, e := syscall.Syscall(syscall.SYS_CONNECT, fd, uintptr(unsafe.Pointer(&sa[0])), 16)
			if e != 0 {
				cerr = e
			}
		} else {
			cerr = syscall.Connect(int(fd), &syscall.SockaddrInet4{Port: 9, Addr: [4]byte{127, 0, 0, 1}})
		}
	})
	if cerr != nil {
		panic("cannot switch accounting port: " + cerr.Error())
	}
	s.isUp = up
}

func (s *server) serve(c *net.UDPConn, stopped chan struct{}) {
	defer close(stopped)
	buf := make([]byte, 4096)
	for {
		n, from, err := c.ReadFromUDP(buf)
		if err != nil {
			return
		}
		p, err := radius.Parse(buf[:n], []byte(secret))
		if err != nil || p.Code != radius.CodeAccountingRequest {
			continue
		}
		s.mu.Lock()
		mode := s.reply
		s.mu.Unlock()
		code := radius.CodeAccountingResponse
		mark := ""
		if mode == 'l' || mode == 'L' {
			// the record is accepted, but the client never learns it: 'l' = a reply the client refuses at
			// once (wrong code), 'L' = no reply at all (the client waits for its timeout)
			code, mark = radius.CodeAccessReject, "~"
		}
		out, err := p.Response(code).Encode()
		if err != nil {
			continue
		}
		s.mu.Lock()
		s.accepted = append(s.accepted, describe(p, s.tags)+mark)
		s.mu.Unlock()
		if mode != 'L' {
			c.WriteToUDP(out, from)
		}
	}
}

func (s *server) take() []string {
	s.mu.Lock()
	defer s.mu.Unlock()
	a := s.accepted
	s.accepted = nil
	return a
}

func octets(low uint32, gw uint32, gwPresent bool) string {
	if gwPresent {
		return fmt.Sprintf("%x+%x", low, gw)
	}
	return fmt.Sprintf("%x", low)
}

// describe renders one accepted Accounting-Request from its WIRE attributes
func describe(p *radius.Packet, tags map[string]string) string {
	sid := tagOfID(tags, rfc2866.AcctSessionID_GetString(p))
	st := rfc2866.AcctStatusType_Get(p)
	// identity digest
	user := rfc2865.UserName_GetString(p)
	mac := rfc2865.CallingStationID_GetString(p)
	ip := rfc2865.FramedIPAddress_Get(p)
	port := uint32(rfc2865.NASPort_Get(p))
	class, classErr := rfc2865.Class_Lookup(p)
	ident := "i?" + user + "." + mac + "." + ip.String() + "." + fmt.Sprint(port) + "." + string(class)
	if len(user) > 1 && user[0] == 'u' {
		if k, err := strconv.Atoi(user[1:]); err == nil {
			wu, wm, wi, wp, wc := identOf(k)
			okc := (wc == nil && classErr != nil) || (wc != nil && classErr == nil && string(class) == string(wc))
			if user == wu && mac == fmtMAC(wm) && ip.Equal(wi) && port == wp && okc {
				ident = "i" + strconv.Itoa(k)
			}
		}
	}
	in := uint32(rfc2866.AcctInputOctets_Get(p))
	out := uint32(rfc2866.AcctOutputOctets_Get(p))
	gin, ginErr := rfc2869.AcctInputGigawords_Lookup(p)
	gout, goutErr := rfc2869.AcctOutputGigawords_Lookup(p)
	cause := uint32(rfc2866.AcctTerminateCause_Get(p))
	switch uint32(st) {
	case 1:
		return fmt.Sprintf("start/%s/%s", sid, ident)
	case 3:
		return fmt.Sprintf("interim/%s/%s/%s/%s", sid, ident, octets(in, uint32(gin), ginErr == nil), octets(out, uint32(gout), goutErr == nil))
	case 2:
		return fmt.Sprintf("stop/%s/%s/%d/%s/%s", sid, ident, cause, octets(in, uint32(gin), ginErr == nil), octets(out, uint32(gout), goutErr == nil))
	}
	return fmt.Sprintf("other%d/%s/%s", uint32(st), sid, ident)
}

func fmtMAC(m net.HardwareAddr) string {
	return fmt.Sprintf("%02X-%02X-%02X-%02X-%02X-%02X", m[0], m[1], m[2], m[3], m[4], m[5])
}

// identOf derives a session's identifiers from its ident number
func identOf(k int) (user string, mac net.HardwareAddr, ip net.IP, port uint32, class []byte) {
	user = "u" + strconv.Itoa(k)
	mac = net.HardwareAddr{2, 0, 0, 0, byte(k >> 8), byte(k)}
	ip = net.IPv4(10, 0, byte(k>>8), byte(k))
	port = uint32(k)
	if k%4 != 0 {
		class = []byte("c" + strconv.Itoa(k))
	}
	return
}

// ---------------------------------------------------------------------------------------------
// one sequence

// worker = one RADIUS server (its own port pair) and one scratch directory; sequences are executed
// by several workers in parallel, every sequence entirely on one worker
type worker struct {
	srv  *server
	root string
	nseq int
}

type comp struct {
	workers []*worker
	replay  []string // observations of the sequence being emitted (executed by a worker beforehand)
}

type run struct {
	c          *worker
	dir        string            // scratch directory of the sequence
	pdir       string            // dir/p: the manager's PersistPath (one level down, so that an escape by `..` shows)
	idOf       map[string]string // tag -> concrete Acct-Session-Id
	tagOf      map[string]string // concrete id -> tag
	am         *bng.AccountingManager
	alive      bool
	maxRetries int
	qcap       int
	ctr        map[string][2]uint64
	ids        map[string]int // real record id -> N of rN
	nextID     int

	// per operation
	mu       sync.Mutex
	answers  string
	ansIdx   int
	markers  int
	crashAt  int
	crashed  bool
	crashPt  int
	order    []string
	applied  []byte
	before   map[string]string // pending record id -> session id of a Stop record, before the operation
	drainMu  sync.Mutex
	drainOwn bool
	tornAt   int // `!k~`: crash inside the write of the k-th step (markers 20/21), leaving the file torn
	torn     bool
	lastPt   int
	inject   []*injection
	nested   *injection
	timeout  time.Duration
}

// injection = one step of the background processor executed while an API call is parked at a marker, or (kind
// stop) a complete StopSession call executed while an interim update - a goroutine of its own in production - is
// parked in front of its send (marker 17), or while a StartSession (markers 1, 2) / another StopSession (markers
// 3-6) of the SAME session is parked (callers on different goroutines: session setup vs PADT, PADT vs CoA Disconnect)
type injection struct {
	at      int    // marker id
	kind    string // deq | retry | stop
	sid     string // stop: the session
	cause   uint32 // stop: Acct-Terminate-Cause
	ans     string
	done    bool
	res     string
	ansIdx  int
	order   []string
	applied []byte
	before  map[string]string
	obs     string
}

// live manager instance -> the run that owns it
var runs sync.Map

func init() {
	bng.VerifAcctHook = func(am *bng.AccountingManager, pt int, detail string) {
		v, ok := runs.Load(am)
		if !ok {
			runtime.Goexit() // a goroutine of an abandoned instance: the process it belonged to is gone
		}
		v.(*run).hook(pt, detail)
	}
}

func isSend(pt int) bool {
	switch pt {
	case 1, 4, 7, 9, 13, 17:
		return true
	}
	return false
}

func (r *run) nextAnswer(ans string, idx *int) byte {
	a := byte('u')
	if *idx < len(ans) {
		a = ans[*idx]
	}
	*idx++
	return a
}

// id: the concrete session id a tag stands for; tag: the reverse
func (r *run) id(tag string) string {
	if v, ok := r.idOf[tag]; ok {
		return v
	}
	return tag
}

func (r *run) tag(id string) string { return tagOfID(r.tagOf, id) }

func (r *run) stopRecords() map[string]string {
	m := map[string]string{}
	for _, p := range r.am.PendingForVerif() {
		if p.Request.StatusType == bng.AcctStatusStop {
			m[p.ID] = r.tag(p.Request.SessionID)
		}
	}
	return m
}

// runInjected executes one processor step from inside a marker of the call in progress
func (r *run) runInjected(inj *injection) {
	inj.done = true
	r.learn()
	inj.before = r.stopRecords()
	r.nested = inj
	switch inj.kind {
	case "deq":
		inj.res = "empty"
		if r.am.StepQueueForVerif() {
			inj.res = "done"
		}
	case "retry":
		r.am.RetryForVerif()
		inj.res = "done"
	case "stop":
		inj.res = "ok"
		if err := r.am.StopSession(r.id(inj.sid), inj.cause); err != nil {
			inj.res = "notfound"
			if strings.Contains(err.Error(), "in progress") {
				inj.res = "refused"
			}
		}
	}
	r.nested = nil
	r.learn()
	var ord []string
	for _, id := range inj.order {
		ord = append(ord, r.rtok(id))
	}
	if inj.kind == "stop" {
		inj.obs = inj.res + "|-|-"
		return
	}
	inj.obs = inj.res + "|" + join(ord) + "|" + join(r.abandonedOf(inj.order, inj.applied, inj.before))
}

// nestedMarker: pt is a marker of the injected step itself (not of the call it was injected into)
func nestedMarker(inj *injection, pt int) bool {
	if inj.kind == "stop" {
		return pt == 3 || pt == 4 || pt == 5 || pt == 6 || pt == 20 || pt == 21
	}
	return pt == 7 || pt == 8
}

func (r *run) hook(pt int, detail string) {
	if pt == 10 { // end of one drain send: hand the turn to the next drain goroutine
		if r.drainOwn {
			r.drainOwn = false
			r.drainMu.Unlock()
		}
		return
	}
	if pt == 9 { // drain sends run in concurrent goroutines: serialise them (also against an injected step)
		r.drainMu.Lock()
		r.drainOwn = true
	}
	if inj := r.nested; inj != nil && nestedMarker(inj, pt) { // a marker of the injected step
		if isSend(pt) {
			a := r.nextAnswer(inj.ans, &inj.ansIdx)
			r.c.srv.set(a)
			inj.order = append(inj.order, detail)
			inj.applied = append(inj.applied, a)
		}
		return
	}
	r.mu.Lock()
	die := r.crashed
	counted := pt != 20 && pt != 21 && pt != 12
	if !die && counted {
		r.markers++
		r.lastPt = pt
		if r.crashAt > 0 && r.markers == r.crashAt {
			r.crashed, r.crashPt, die = true, pt, true
		}
	}
	if !die && (pt == 20 || pt == 21) && r.tornAt > 0 && r.markers == r.tornAt {
		// crash inside the write that follows: the file it was about to write is left empty
		os.WriteFile(detail, nil, 0600)
		r.crashed, r.crashPt, r.torn, die = true, r.lastPt, true, true
	}
	var todo *injection
	if !die {
		for _, inj := range r.inject {
			if inj.at == pt && !inj.done {
				todo = inj
				break
			}
		}
	}
	r.mu.Unlock()
	if todo != nil {
		r.runInjected(todo)
	}
	if !die && counted && isSend(pt) {
		r.mu.Lock()
		a := r.nextAnswer(r.answers, &r.ansIdx)
		r.c.srv.set(a)
		r.order = append(r.order, detail)
		r.applied = append(r.applied, a)
		r.mu.Unlock()
	}
	if die {
		if pt == 9 {
			r.drainOwn = false
			r.drainMu.Unlock()
		}
		runtime.Goexit()
	}
}

// call runs f (one API call of the real code) in its own goroutine so that a crash point can end it
func (r *run) call(f func()) {
	done := make(chan struct{})
	var pv any
	go func() {
		defer close(done)
		defer func() {
			if e := recover(); e != nil {
				pv = e
			}
		}()
		f()
	}()
	<-done
	if pv != nil {
		panic(pv)
	}
}

func (w *worker) newRun() *run {
	w.nseq++
	return &run{c: w, ctr: map[string][2]uint64{}, ids: map[string]int{}}
}

// replayRun hands out the observations a worker recorded for the sequence
type replayRun struct {
	obs []string
	i   int
}

func (p *replayRun) Do(string) string {
	p.i++
	if p.i <= len(p.obs) {
		return p.obs[p.i-1]
	}
	return "badop"
}
func (p *replayRun) Close() {}

func (c *comp) NewRun() hx.Run {
	if c.replay != nil {
		p := &replayRun{obs: c.replay}
		c.replay = nil
		return p
	}
	return c.workers[0].newRun()
}

func (r *run) Close() {
	if r.am != nil {
		runs.Delete(r.am)
	}
	r.c.srv.take()
	if r.dir != "" {
		os.RemoveAll(r.dir)
	}
}

func (r *run) newManager() {
	client, err := bng.NewClient(bng.ClientConfig{
		Servers:   []bng.ServerConfig{{Host: "127.0.0.1", Port: r.c.srv.port, Secret: secret}},
		NASID:     "verif-nas",
		Timeout:   r.timeout,
		Retries:   1,
		RateLimit: bng.RateLimitConfig{RequestsPerSecond: 1e9, BurstSize: 1 << 30},
	}, zap.NewNop())
	if err != nil {
		panic(err)
	}
	am, err := bng.NewAccountingManager(client, bng.AccountingConfig{
		InterimEnabled:  true,
		MaxRetries:      r.maxRetries,
		RetryBaseDelay:  time.Nanosecond, // every pending record is due at the next retry tick
		RetryMaxDelay:   time.Nanosecond,
		QueueSize:       r.qcap,
		PersistPath:     r.pdir,
		ShutdownTimeout: 30 * time.Second,
		DrainOnShutdown: true,
	}, zap.NewNop())
	if err != nil {
		panic(err)
	}
	am.SetCounterFetcher(func(sid string) (*bng.SessionCounters, error) {
		v := r.ctr[r.tag(sid)]
		return &bng.SessionCounters{InputOctets: v[0], OutputOctets: v[1]}, nil
	})
	if r.am != nil {
		runs.Delete(r.am)
	}
	r.am = am
	runs.Store(am, r)
	r.alive = true
}

// learn numbers the pending records that appeared, in creation order (the id ends in UnixNano)
func (r *run) learn() {
	if r.am == nil {
		return
	}
	var fresh []string
	note := func(id string) {
		if _, ok := r.ids[id]; !ok {
			r.ids[id] = 0
			fresh = append(fresh, id)
		}
	}
	for _, p := range r.am.PendingForVerif() {
		note(p.ID)
	}
	nanos := func(id string) int64 {
		i := strings.LastIndexByte(id, '-')
		n, _ := strconv.ParseInt(id[i+1:], 10, 64)
		return n
	}
	sort.Slice(fresh, func(i, j int) bool {
		a, b := nanos(fresh[i]), nanos(fresh[j])
		if a != b {
			return a < b
		}
		return fresh[i] < fresh[j]
	})
	for _, id := range fresh {
		r.nextID++
		r.ids[id] = r.nextID
	}
}

func (r *run) rtok(id string) string {
	if n, ok := r.ids[id]; ok && n > 0 {
		return "r" + strconv.Itoa(n)
	}
	return "r?" + id
}

func kindName(t bng.AcctStatusType) string {
	switch t {
	case bng.AcctStatusStart:
		return "start"
	case bng.AcctStatusStop:
		return "stop"
	case bng.AcctStatusInterimUpdate:
		return "interim"
	}
	return "other"
}

func (r *run) prec(p *bng.PendingAcctRecord) string {
	return fmt.Sprintf("%s/%s/%s/%d", r.rtok(p.ID), kindName(p.Request.StatusType), r.tag(p.Request.SessionID), p.RetryCount)
}

func join(xs []string) string {
	if len(xs) == 0 {
		return "-"
	}
	return strings.Join(xs, ",")
}

func byR(xs []string) {
	num := func(s string) int {
		i := strings.IndexByte(s, '/')
		if i < 0 {
			i = len(s)
		}
		n, _ := strconv.Atoi(strings.TrimPrefix(s[:i], "r"))
		return n
	}
	sort.SliceStable(xs, func(i, j int) bool { return num(xs[i]) < num(xs[j]) })
}

// durable renders everything found under the sequence's scratch directory: the session files with their real
// file names, pending.json, and whatever else is there (sub-directories, files outside sessions/: `x:<hex path>`).
// Temporary files of writeFileAtomic (<file>.tmp next to the file) are left-overs of a torn write and not listed.
func (r *run) durable() string {
	var files []string
	pf := "-"
	filepath.WalkDir(r.dir, func(path string, d os.DirEntry, err error) error {
		if err != nil || path == r.dir {
			return nil
		}
		rel, _ := filepath.Rel(r.dir, path)
		extra := func() { files = append(files, "x:"+hex.EncodeToString([]byte(rel))) }
		if d.IsDir() {
			if rel != "p" && rel != filepath.Join("p", "sessions") {
				extra()
			}
			return nil
		}
		switch {
		case rel == filepath.Join("p", "pending.json"):
			data, err := os.ReadFile(path)
			if err != nil {
				return nil
			}
			var recs map[string]*bng.PendingAcctRecord
			if json.Unmarshal(data, &recs) != nil {
				pf = "corrupt"
				return nil
			}
			var xs []string
			for _, p := range recs {
				if p == nil || p.Request == nil {
					pf = "corrupt"
					return nil
				}
				xs = append(xs, r.prec(p))
			}
			byR(xs)
			pf = "[" + strings.Join(xs, ",") + "]"
		case rel == filepath.Join("p", "pending.json.tmp"):
		case filepath.Dir(rel) == filepath.Join("p", "sessions"):
			name := d.Name()
			if filepath.Ext(name) == ".tmp" {
				return nil
			}
			if filepath.Ext(name) != ".json" || !d.Type().IsRegular() {
				extra()
				return nil
			}
			data, err := os.ReadFile(path)
			if err != nil {
				extra()
				return nil
			}
			var s bng.AccountingSession
			if json.Unmarshal(data, &s) != nil {
				files = append(files, "?:corrupt:"+hex.EncodeToString([]byte(name)))
				return nil
			}
			sp := 0
			if s.StopPending {
				sp = 1
			}
			files = append(files, fmt.Sprintf("%s:%d:%d:%x:%x:%s", r.tag(s.SessionID), sp, s.StopCause, s.LastInputOctets,
				s.LastOutputOctets, hex.EncodeToString([]byte(name))))
		default:
			extra()
		}
		return nil
	})
	sort.Strings(files)
	return join(files) + "|" + pf
}

func (r *run) volatile() string {
	if !r.alive {
		return "sess=- pend=- queue=-"
	}
	var ss []string
	for _, s := range r.am.ListSessions() {
		t := r.tag(s.SessionID)
		if s.StopPending {
			t += "*"
		}
		ss = append(ss, t)
	}
	sort.Strings(ss)
	var ps []string
	for _, p := range r.am.PendingForVerif() {
		p := p
		ps = append(ps, r.prec(&p))
	}
	byR(ps)
	var qs []string
	for _, id := range r.am.QueueForVerif() {
		qs = append(qs, r.rtok(id))
	}
	return "sess=" + join(ss) + " pend=" + join(ps) + " queue=" + join(qs)
}

// parseCrash strips a trailing `!k` (crash at the k-th marker) or `!k~` (crash inside the write of the k-th
// step, file left torn); torn is reported as a negative k-1000000 ... kept simple: second result torn flag
func parseCrash(toks []string) ([]string, int, bool) {
	if n := len(toks); n > 0 && strings.HasPrefix(toks[n-1], "!") {
		t := toks[n-1][1:]
		torn := strings.HasSuffix(t, "~")
		t = strings.TrimSuffix(t, "~")
		k, err := strconv.Atoi(t)
		if err == nil && k > 0 {
			return toks[:n-1], k, torn
		}
		return toks[:n-1], -1, false
	}
	return toks, 0, false
}

// parseInject strips trailing `@<marker>:deq|retry:<ans>` and `@17:stop:<sid>:<cause>:<ans>` tokens
func parseInject(toks []string) ([]string, []*injection, bool) {
	var out []*injection
	for len(toks) > 0 && strings.HasPrefix(toks[len(toks)-1], "@") {
		f := strings.Split(toks[len(toks)-1][1:], ":")
		if len(f) == 5 && f[1] == "stop" && validSid(f[2]) && okAns(f[4]) {
			cause, err := strconv.ParseUint(f[3], 10, 32)
			at, err2 := strconv.Atoi(f[0])
			if err != nil || err2 != nil || !(at == 17 || (at >= 1 && at <= 6)) {
				return toks, nil, false
			}
			a := f[4]
			if a == "-" {
				a = ""
			}
			out = append([]*injection{{at: at, kind: "stop", sid: f[2], cause: uint32(cause), ans: a}}, out...)
			toks = toks[:len(toks)-1]
			continue
		}
		if len(f) != 3 || (f[1] != "deq" && f[1] != "retry") || !okAns(f[2]) {
			return toks, nil, false
		}
		at, err := strconv.Atoi(f[0])
		if err != nil {
			return toks, nil, false
		}
		switch at { // markers of API calls at which the background processor may be running
		case 1, 2, 3, 4, 5, 6, 17, 9, 19:
		default:
			return toks, nil, false
		}
		a := f[2]
		if a == "-" {
			a = ""
		}
		out = append([]*injection{{at: at, kind: f[1], ans: a}}, out...)
		toks = toks[:len(toks)-1]
	}
	return toks, out, true
}

func okAns(a string) bool {
	if a == "-" {
		return true
	}
	for _, ch := range a {
		if ch != 'u' && ch != 'd' && ch != 'l' && ch != 'L' {
			return false
		}
	}
	return a != ""
}

// exec runs one API call with the given answers and crash point; returns true if it crashed
func (r *run) exec(ans string, crashAt int, f func()) bool {
	if ans == "-" {
		ans = ""
	}
	r.answers, r.ansIdx, r.markers, r.crashAt, r.crashed, r.crashPt, r.order, r.applied = ans, 0, 0, crashAt, false, 0, nil, nil
	r.torn, r.lastPt = false, 0
	if r.tornAt > 0 {
		r.crashAt = 0
	}
	r.before = r.stopRecords()
	r.call(f)
	r.learn()
	if r.crashed {
		r.alive = false
		return true
	}
	return false
}

func (r *run) acc() string { return "acc=" + join(r.c.srv.take()) }

func (r *run) ordR() string {
	var xs []string
	for _, id := range r.order {
		xs = append(xs, r.rtok(id))
	}
	return "ord=" + join(xs)
}

// abandonedOf lists the sessions a Stop record of which was given up: it was processed, the client got no
// acknowledgement for it, and it is gone from the retry map
func (r *run) abandonedOf(order []string, applied []byte, before map[string]string) []string {
	var xs []string
	now := map[string]bool{}
	for _, p := range r.am.PendingForVerif() {
		now[p.ID] = true
	}
	for i, id := range order {
		if sid, ok := before[id]; ok && i < len(applied) && applied[i] != 'u' && !now[id] {
			xs = append(xs, sid)
		}
	}
	return xs
}

func (r *run) abandoned(proc bool) string {
	if !proc {
		return "ab=-"
	}
	return "ab=" + join(r.abandonedOf(r.order, r.applied, r.before))
}

func (r *run) injObs() string {
	out := ""
	for _, inj := range r.inject {
		if inj.done {
			out += fmt.Sprintf(" inj=%d:%s", inj.at, inj.obs)
		} else {
			out += fmt.Sprintf(" inj=%d:-", inj.at)
		}
	}
	return out
}

func (r *run) crashedObs(ord string, proc bool) string {
	t := ""
	if r.torn {
		t = "~"
	}
	return fmt.Sprintf("crashed@%d%s %s %s %s dur=%s%s", r.crashPt, t, r.acc(), ord, r.abandoned(proc), r.durable(), r.injObs())
}

func (r *run) Do(op string) string {
	toks, crashAt, torn := parseCrash(hx.Fields(op))
	if crashAt < 0 || len(toks) == 0 {
		return "badop"
	}
	toks, inject, okInj := parseInject(toks)
	if !okInj || len(toks) == 0 {
		return "badop"
	}
	r.inject, r.tornAt = inject, 0
	if torn {
		r.tornAt = crashAt
	}
	if toks[0] == "new" {
		idOf, tagOf := map[string]string{}, map[string]string{}
		if n := len(toks); n > 3 && strings.HasPrefix(toks[n-1], "ids=") {
			ids, ok := parseIDs(toks[n-1][4:])
			if !ok {
				return "badop"
			}
			for i, id := range ids {
				idOf["s"+strconv.Itoa(i+1)] = id
			}
			toks = toks[:n-1]
		}
		for i := 1; i <= 9; i++ { // a tag without a given id stands for itself; two tags never stand for one id
			t := "s" + strconv.Itoa(i)
			if _, ok := idOf[t]; !ok {
				idOf[t] = t
			}
			if _, dup := tagOf[idOf[t]]; dup {
				return "badop"
			}
			tagOf[idOf[t]] = t
		}
		if (len(toks) != 3 && len(toks) != 4) || r.dir != "" || crashAt != 0 || len(inject) != 0 {
			return "badop"
		}
		mr, e1 := strconv.Atoi(toks[1])
		qc, e2 := strconv.Atoi(toks[2])
		if e1 != nil || e2 != nil || mr < 1 || qc < 1 {
			return "badop"
		}
		r.timeout = 2 * time.Second
		if len(toks) == 4 { // client timeout in ms (for the silent-server answer `L`)
			ms, e3 := strconv.Atoi(toks[3])
			if e3 != nil || ms < 1 {
				return "badop"
			}
			r.timeout = time.Duration(ms) * time.Millisecond
		}
		r.maxRetries, r.qcap = mr, qc
		r.dir = filepath.Join(r.c.root, fmt.Sprintf("seq%d", r.c.nseq))
		r.pdir = filepath.Join(r.dir, "p")
		r.idOf, r.tagOf = idOf, tagOf
		r.c.srv.setTags(tagOf)
		os.RemoveAll(r.dir)
		if err := os.MkdirAll(r.pdir, 0755); err != nil {
			panic(err)
		}
		r.c.srv.set('u')
		r.c.srv.take()
		r.newManager()
		r.exec("", 0, func() { r.am.StartForVerif() })
		return "ok"
	}
	if r.dir == "" {
		return "badop"
	}
	switch toks[0] {
	case "start", "interim", "stop", "shutdown":
	default:
		if len(inject) != 0 {
			return "badop" // a processor step can only be injected into an API call (the processor itself is one goroutine)
		}
	}
	for _, inj := range inject {
		// a StopSession overlapping StartSession / StopSession: of the SAME session only (markers 1-2 / 3-6)
		if inj.kind == "stop" && inj.at != 17 {
			if !(toks[0] == "start" && inj.at <= 2) && !(toks[0] == "stop" && inj.at >= 3) {
				return "badop"
			}
			if len(toks) < 2 || toks[1] != inj.sid {
				return "badop"
			}
		}
	}
	switch toks[0] {
	case "ctr":
		if len(toks) != 4 || crashAt != 0 {
			return "badop"
		}
		a, e1 := strconv.ParseUint(toks[2], 16, 64)
		b, e2 := strconv.ParseUint(toks[3], 16, 64)
		if e1 != nil || e2 != nil || !validSid(toks[1]) {
			return "badop"
		}
		r.ctr[toks[1]] = [2]uint64{a, b}
		return "ok"
	case "crash":
		if len(toks) != 1 || crashAt != 0 {
			return "badop"
		}
		r.alive = false
		return "ok dur=" + r.durable()
	case "final":
		if len(toks) != 1 || crashAt != 0 {
			return "badop"
		}
		return r.volatile() + " dur=" + r.durable()
	case "restart":
		if len(toks) != 2 || !okAns(toks[1]) {
			return "badop"
		}
		if r.alive {
			return "alive"
		}
		r.newManager()
		if r.exec(toks[1], crashAt, func() { r.am.StartForVerif() }) {
			return r.crashedObs("ord=-", false)
		}
		var qs []string
		for _, id := range r.am.QueueForVerif() {
			qs = append(qs, r.rtok(id))
		}
		return "ok " + r.acc() + " q=" + join(qs)
	}
	// everything below needs a live instance
	var res string
	var f func()
	ordKind := ""
	var ans string
	switch toks[0] {
	case "start":
		if len(toks) != 4 || !validSid(toks[1]) || !okAns(toks[3]) || len(toks[2]) < 2 || toks[2][0] != 'i' {
			return "badop"
		}
		k, err := strconv.Atoi(toks[2][1:])
		if err != nil || k < 0 || k > 60000 {
			return "badop"
		}
		ans = toks[3]
		f = func() {
			u, m, ip, port, class := identOf(k)
			err := r.am.StartSession(&bng.AccountingSession{SessionID: r.id(toks[1]), Username: u, MAC: m, FramedIP: ip,
				NASPort: port, Class: class, CircuitID: "circ" + toks[1], RemoteID: "rem" + toks[1]})
			res = "ok"
			if err != nil {
				res = "exists"
			}
		}
	case "interim":
		if len(toks) != 3 || !validSid(toks[1]) || !okAns(toks[2]) {
			return "badop"
		}
		ans = toks[2]
		f = func() {
			res = "skip"
			if r.am.InterimForVerif(r.id(toks[1])) {
				res = "ok"
			}
		}
	case "stop":
		if len(toks) != 4 || !validSid(toks[1]) || !okAns(toks[3]) {
			return "badop"
		}
		cause, err := strconv.ParseUint(toks[2], 10, 32)
		if err != nil {
			return "badop"
		}
		ans = toks[3]
		f = func() {
			res = "ok"
			if err := r.am.StopSession(r.id(toks[1]), uint32(cause)); err != nil {
				res = "notfound"
			}
		}
	case "deq":
		if len(toks) != 2 || !okAns(toks[1]) {
			return "badop"
		}
		if torn {
			return "badop"
		}
		ans, ordKind = toks[1], "r"
		f = func() {
			res = "empty"
			if r.am.StepQueueForVerif() {
				res = "done"
			}
		}
	case "retry":
		if len(toks) != 2 || !okAns(toks[1]) {
			return "badop"
		}
		if torn {
			return "badop"
		}
		ans, ordKind = toks[1], "r"
		f = func() { r.am.RetryForVerif(); res = "done" }
	case "shutdown":
		if len(toks) != 2 || !okAns(toks[1]) {
			return "badop"
		}
		ans, ordKind = toks[1], "s"
		f = func() { r.am.Stop(); res = "ok" }
	default:
		return "badop"
	}
	if !r.alive {
		return "dead"
	}
	crashed := r.exec(ans, crashAt, f)
	ord := ""
	switch ordKind {
	case "r":
		ord = " " + r.ordR()
	case "s":
		var xs []string
		for _, id := range r.order {
			xs = append(xs, r.tag(id))
		}
		ord = " ord=" + join(xs)
	}
	if crashed {
		if ord == "" {
			ord = " ord=-"
		}
		return r.crashedObs(strings.TrimSpace(ord), ordKind == "r")
	}
	if toks[0] == "deq" && res == "empty" {
		return "empty"
	}
	out := res + " " + r.acc() + ord
	if ordKind == "r" {
		out += " " + r.abandoned(true)
	}
	if toks[0] == "shutdown" {
		r.alive = false
		out += " dur=" + r.durable()
	}
	return out + r.injObs()
}

// parseIDs: `<hex>,<hex>,...` = the concrete ids of s1, s2, ... (1 to 9 of them, 1 to 64 bytes each)
func parseIDs(s string) ([]string, bool) {
	f := strings.Split(s, ",")
	if len(f) < 1 || len(f) > 9 {
		return nil, false
	}
	var out []string
	for _, h := range f {
		b, err := hex.DecodeString(h)
		if err != nil || len(b) < 1 || len(b) > 64 || strings.ToLower(h) != h {
			return nil, false
		}
		out = append(out, string(b))
	}
	return out, true
}

func validSid(s string) bool {
	if len(s) != 2 || s[0] != 's' || s[1] < '1' || s[1] > '9' {
		return false
	}
	return true
}

// sweep removes the scratch directories of executor processes that no longer exist (killed runs)
func sweep() {
	ents, _ := os.ReadDir("/var/tmp")
	for _, e := range ents {
		var pid, i int
		if n, _ := fmt.Sscanf(e.Name(), "bngverif-acct-%d-%d", &pid, &i); n == 2 {
			if err := syscall.Kill(pid, 0); err == syscall.ESRCH {
				os.RemoveAll(filepath.Join("/var/tmp", e.Name()))
			}
		}
	}
}

func newWorker(i int) *worker {
	sweep()
	root := filepath.Join("/var/tmp", fmt.Sprintf("bngverif-acct-%d-%d", os.Getpid(), i))
	os.RemoveAll(root)
	if err := os.MkdirAll(root, 0755); err != nil {
		panic(err)
	}
	return &worker{srv: newServer(i), root: root}
}

func main() {
	if pf := os.Getenv("VERIF_ACCT_PPROF"); pf != "" {
		f, _ := os.Create(pf)
		pprof.StartCPUProfile(f)
		defer pprof.StopCPUProfile()
	}
	c := &comp{workers: []*worker{newWorker(0)}}
	if len(os.Args) > 1 && os.Args[1] == "serve" {
		serve(c)
	} else {
		hx.Main(c)
	}
	for _, w := range c.workers {
		os.RemoveAll(w.root)
	}
}

// ---------------------------------------------------------------------------------------------
// generator (see gen.go).  The sequences are produced by one goroutine from the seeded PRNG, executed on
// the real code by a pool of workers, and emitted in production order.

// A single-threaded process is by far the cheapest way to run the UDP exchanges (no cross-thread wake-ups),
// so the parallelism is by processes: `gen` starts N copies of this binary in `exec` mode with GOMAXPROCS=1,
// deals the sequences round-robin to them and emits their traces in production order.

// serve executes sequences from stdin as they arrive (one trace per sequence, flushed), until EOF
func serve(c *comp) {
	sc := bufio.NewScanner(os.Stdin)
	sc.Buffer(make([]byte, 1<<20), 1<<26)
	w := bufio.NewWriterSize(os.Stdout, 1<<16)
	var cur []string
	for sc.Scan() {
		line := strings.TrimRight(sc.Text(), "\r\n")
		if strings.TrimSpace(line) == "" {
			if len(cur) > 0 {
				hx.ExecSeq(c, cur, w)
				cur = nil
			}
			continue
		}
		cur = append(cur, line)
	}
	if len(cur) > 0 {
		hx.ExecSeq(c, cur, w)
	}
	w.Flush()
}

type child struct {
	cmd  *exec.Cmd
	jobs chan []string
	out  chan []string
}

func startChild() *child {
	cmd := exec.Command(os.Args[0], "serve")
	cmd.Env = append(os.Environ(), "GOMAXPROCS=1")
	cmd.Stderr = os.Stderr
	in, err := cmd.StdinPipe()
	if err != nil {
		panic(err)
	}
	out, err := cmd.StdoutPipe()
	if err != nil {
		panic(err)
	}
	if err := cmd.Start(); err != nil {
		panic(err)
	}
	ch := &child{cmd: cmd, jobs: make(chan []string, 64), out: make(chan []string, 64)}
	go func() { // feed
		w := bufio.NewWriterSize(in, 1<<16)
		for seq := range ch.jobs {
			for _, op := range seq {
				w.WriteString(op)
				w.WriteByte('\n')
			}
			w.WriteByte('\n')
			if len(ch.jobs) == 0 {
				w.Flush()
			}
		}
		w.Flush()
		in.Close()
	}()
	go func() { // collect
		sc := bufio.NewScanner(out)
		sc.Buffer(make([]byte, 1<<20), 1<<26)
		var cur []string
		for sc.Scan() {
			line := sc.Text()
			if line == "" {
				if cur != nil {
					ch.out <- cur
					cur = nil
				}
				continue
			}
			if i := strings.Index(line, " => "); i >= 0 {
				cur = append(cur, line[i+4:])
			}
		}
		close(ch.out)
	}()
	return ch
}

func (c *comp) Gen(r *rand.Rand, tier string, emit func([]string)) {
	if os.Getenv("VERIF_ACCT_COUNT") != "" { // size of the generated set, nothing executed
		n, ops := 0, 0
		generate(r, tier, func(seq []string) { n++; ops += len(seq) })
		fmt.Fprintf(os.Stderr, "sequences=%d ops=%d\n", n, ops)
		return
	}
	nw := 8
	if v, err := strconv.Atoi(os.Getenv("VERIF_ACCT_WORKERS")); err == nil && v > 0 {
		nw = v
	}
	children := make([]*child, nw)
	for i := range children {
		children[i] = startChild()
	}
	type job struct {
		seq []string
		ch  *child
	}
	// every channel between the producer and this loop is bounded, and the sequences are dealt and
	// collected in the same round-robin order, so the pipeline cannot deadlock: the collector always waits
	// for the oldest outstanding sequence, whose input has been handed to its (flushing) feeder
	ordered := make(chan job, 16)
	go func() {
		n := 0
		generate(r, tier, func(seq []string) {
			ch := children[n%nw]
			n++
			ch.jobs <- seq
			ordered <- job{seq, ch}
		})
		for _, ch := range children {
			close(ch.jobs)
		}
		close(ordered)
	}()
	for j := range ordered {
		obs, ok := <-j.ch.out
		if !ok {
			panic("acct: an executor process died")
		}
		c.replay = obs
		emit(j.seq)
	}
	for _, ch := range children {
		ch.cmd.Wait()
	}
}
