// nexushash drives the real hash-based central allocation nexus.(*Client).allocateFromPool
// (pkg/nexus/client.go) through the verif hook AllocateFromPoolForVerif.
// The subscriber id that is hashed is the token itself ("s3").
package main

import (
	"fmt"
	"math/rand"
	"net"
	"strconv"
	"strings"

	"bngverif/flx"
	"bngverif/hx"

	"github.com/codelaboratoryltd/bng/pkg/nexus"
)

type comp struct{}

type geo struct {
	base uint32 // as written in the pool record
	ones int
}

func a(s string) uint32 { return flx.U32(net.ParseIP(s)) }

func (g geo) newOp() string { return fmt.Sprintf("new %x %d", g.base, g.ones) }

var geos = []geo{
	{a("10.0.0.0"), 30}, {a("10.0.0.8"), 29}, {a("100.64.0.16"), 28}, {a("192.168.1.0"), 24},
	{a("10.0.2.0"), 23}, {a("172.16.0.0"), 16}, {a("10.0.0.0"), 8}, {a("10.9.9.8"), 31}, {a("10.9.9.9"), 32},
	{a("255.255.255.0"), 24}, {a("10.1.128.0"), 17},
	// pool records written with host bits set: the allocator masks the base first
	{a("10.0.0.200"), 25}, {a("10.0.0.1"), 24}, {a("192.168.77.77"), 20}, {a("10.0.0.13"), 29},
}

func (comp) Gen(r *rand.Rand, tier string, emit func([]string)) {
	n := 1500
	if tier == "thorough" {
		n = 30000
	}
	for i := 0; i < n; i++ {
		g := geos[r.Intn(len(geos))]
		ids := 3 + r.Intn(40)
		seq := []string{g.newOp()}
		for j, m := 0, 3+r.Intn(25); j < m; j++ {
			seq = append(seq, fmt.Sprintf("alloc s%d", 1+r.Intn(ids)))
		}
		emit(seq)
	}
	// many subscribers on realistic pools: collisions long before the pool is full (birthday bound)
	for _, g := range []geo{{a("192.168.1.0"), 24}, {a("10.0.2.0"), 23}, {a("172.16.0.0"), 16}} {
		seq := []string{g.newOp()}
		for j := 1; j <= 600; j++ {
			seq = append(seq, fmt.Sprintf("alloc s%d", j))
		}
		emit(seq)
	}
}

type run struct{ cidr string }

func (comp) NewRun() hx.Run { return &run{} }
func (r *run) Close()       {}

func (r *run) Do(op string) string {
	f := hx.Fields(op)
	switch {
	case f[0] == "new" && len(f) == 3:
		b, ok := flx.ParseHex4(f[1])
		ones, err := strconv.Atoi(f[2])
		if !ok || err != nil || ones < 0 || ones > 32 {
			return "badop"
		}
		r.cidr = fmt.Sprintf("%s/%d", b, ones)
		return "ok"
	case f[0] == "alloc" && len(f) == 2 && r.cidr != "" && len(f[1]) >= 2 && f[1][0] == 's':
		if _, err := strconv.Atoi(f[1][1:]); err != nil {
			return "badop"
		}
		ip, err := nexus.AllocateFromPoolForVerif(r.cidr, f[1])
		if err != nil {
			if strings.Contains(err.Error(), "no usable addresses") {
				return "nohosts"
			}
			return "error " + err.Error()
		}
		return "ok " + flx.Hex4(net.ParseIP(ip))
	}
	return "badop"
}

func main() { hx.Main(comp{}) }
