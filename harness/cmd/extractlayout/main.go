// extractlayout is the C06 layout translator (DESIGN §3.1 `extract layouts`).
//
// It is run on every `./check C06` from /repo's WORKING TREE and regenerates
//
//	lean/Bng/Gen/Layout.lean   the tables the C06 theorems are `decide`d over
//	<scratch>/layout.json      the same facts for the byte-level harness (cmd/layoutbytes)
//
// C side   every /repo/bpf/*.c is parsed NATIVELY by clang against the parse-only headers of
//
//	/verif/cshim-layout: `clang -Xclang -fdump-record-layouts -fsyntax-only` gives the record
//	layouts (offset, type, sizeof) of every struct declared in /repo/bpf; a regex pass over the
//	`struct { __uint(type, …); __type(key, …); … } name SEC(".maps");` blocks gives the maps;
//	a natively compiled and executed probe cross-checks every key/value size (sizeof of the
//	BTF-style map struct members) so that the regex and the compiler cannot silently disagree.
//
// Go side  go/packages + go/types over pkg/{ebpf,nat,qos,antispoof,walledgarden} (production build:
//
//	no test files, no `verif` tag): the encoding/binary layout (fields in order, blank fields
//	included, NO implicit padding, little-endian — what cilium/ebpf's sysenc writes) of every
//	fixed-size struct/array type; every method call on a *ebpf.Map (`Put/Update/Lookup/Delete/
//	LookupAndDelete`, `Iterate().Next`) with the static types of the key/value arguments; every
//	`x = coll.Maps["name"]` binding of a map variable to a kernel map name.
//
// The translator FAILS LOUDLY (exit 3, message naming the construct) whenever the source leaves the
// subset it understands; it never guesses.
package main

import (
	"encoding/json"
	"flag"
	"fmt"
	"go/ast"
	"go/parser"
	"go/token"
	"go/types"
	"os"
	"os/exec"
	"path/filepath"
	"regexp"
	"sort"
	"strconv"
	"strings"

	"golang.org/x/tools/go/packages"
)

// ---------------------------------------------------------------------------------------------
// common vocabulary (mirrors lean/Bng/Model/Layout.lean)

type Field struct {
	Name  string `json:"name"`  // dotted path of the leaf field ("block.public_ip", "Block.PublicIP"); "_" blank
	Norm  string `json:"norm"`  // lower-case, no underscores; blank/padding fields are "_"; an unnamed top-level leaf is "*"
	Off   int    `json:"off"`   // byte offset from the start of the outermost record
	Width int    `json:"width"` // total bytes
	Kind  string `json:"kind"`  // "int" (integer of Width bytes) | "bytes" (byte array) | "arr" (array of Elem-byte ints)
	Elem  int    `json:"elem"`  // element width for "arr", else 0
	CType string `json:"ctype"` // source type text, for messages only
}

type Struct struct {
	Name   string  `json:"name"`
	Size   int     `json:"size"`
	Fields []Field `json:"fields"`
	Where  string  `json:"where"`
}

type CMap struct {
	Name       string `json:"name"`
	File       string `json:"file"`
	Line       int    `json:"line"`
	Type       string `json:"type"`     // BPF_MAP_TYPE_* with the prefix removed
	TypeNum    int    `json:"type_num"` // numeric value seen by the compiler
	KeyType    string `json:"key_type"` // from __type(key, …); "" when declared with key_size
	ValType    string `json:"val_type"`
	KeySize    int    `json:"key_size"` // from the executed probe
	ValSize    int    `json:"val_size"`
	MaxEntries int    `json:"max_entries"`
	Flags      int    `json:"flags"`
	Refs       int    `json:"refs"` // `&name` references in the C sources
}

type Use struct {
	Map      string  `json:"map"` // kernel map name ("" = the Go handle is never bound to a named map)
	Handle   string  `json:"handle"`
	Op       string  `json:"op"`
	Site     string  `json:"site"`
	GoKey    *Struct `json:"go_key"`
	GoVal    *Struct `json:"go_val"` // nil for Delete
	ValSlice bool    `json:"val_slice"`
}

type Event struct {
	CStruct string `json:"c_struct"`
	GoType  string `json:"go_type"`
	Via     string `json:"via"`
	Map     string `json:"map"`
	Site    string `json:"site"`
}

type Prog struct {
	Name string `json:"name"`
	Ctx  string `json:"ctx"`
	Sec  string `json:"sec"`
	File string `json:"file"`
}

type Out struct {
	Progs            []Prog            `json:"progs"`
	AccessMismatches []string          `json:"c_access_mismatches"`
	MacToU64         []string          `json:"mac_to_u64_funcs"` // every func(net.HardwareAddr) uint64 of the module: "pkg/x.name"
	U64ToMac         []string          `json:"u64_to_mac_funcs"` // every func(uint64) net.HardwareAddr
	CStructs         []Struct          `json:"c_structs"`
	GoStructs        []Struct          `json:"go_structs"`
	CMaps            []CMap            `json:"c_maps"`
	Uses             []Use             `json:"uses"`
	Unbound          []Use             `json:"unbound_uses"`
	Bindings         map[string]string `json:"bindings"` // "pkg.Type.field" -> kernel map name
	MissingMaps      []string          `json:"missing_maps"`
	Events           []Event           `json:"events"`
	Mirrors          []string          `json:"mirror_structs"`
	Nested           []string          `json:"nested_structs"`
}

func die(format string, a ...any) {
	fmt.Fprintf(os.Stderr, "extractlayout: "+format+"\n", a...)
	os.Exit(3)
}

var reCPad = regexp.MustCompile(`^_?(pad|reserved)[0-9]*$`)

// norm gives the comparison name of a leaf: lower-case without underscores.  PADDING ("_") is recognised
// narrowly: on the Go side only blank fields (`_`), on the C side only members called _pad, pad1, _reserved2 …
// (^_?(pad|reserved)[0-9]*$) — a data member such as `reserved_ports` or `padding_mode` stays a data leaf.
func norm(name string, goSide bool) string {
	if i := strings.LastIndex(name, "."); i >= 0 {
		name = name[i+1:]
	}
	if goSide {
		if name == "_" {
			return "_"
		}
	} else if reCPad.MatchString(name) {
		return "_"
	}
	n := strings.ToLower(strings.ReplaceAll(name, "_", ""))
	if n == "" {
		return "_"
	}
	return n
}

// ---------------------------------------------------------------------------------------------
// C side

var cScalar = map[string]int{
	"__u8": 1, "__s8": 1, "unsigned char": 1, "char": 1, "signed char": 1, "_Bool": 1,
	"__u16": 2, "__s16": 2, "__be16": 2, "__le16": 2, "unsigned short": 2, "short": 2, "__sum16": 2,
	"__u32": 4, "__s32": 4, "__be32": 4, "__le32": 4, "unsigned int": 4, "int": 4, "__wsum": 4,
	"__u64": 8, "__s64": 8, "__be64": 8, "__le64": 8, "unsigned long long": 8, "long long": 8,
	"unsigned long": 8, "long": 8,
}

type rawLine struct {
	off   int
	depth int
	typ   string
	name  string
	bitf  bool
}

type rawRec struct {
	name  string
	size  int
	lines []rawLine
}

var reDumpLine = regexp.MustCompile(`^\s*([0-9]+)(:[0-9]+-[0-9]+)? \|( +)(.*)$`)
var reDumpSize = regexp.MustCompile(`\[sizeof=([0-9]+),`)

// parseDump reads the output of -fdump-record-layouts
func parseDump(out string) map[string]*rawRec {
	recs := map[string]*rawRec{}
	var cur *rawRec
	for _, l := range strings.Split(out, "\n") {
		if strings.HasPrefix(l, "*** Dumping AST Record Layout") {
			cur = &rawRec{}
			continue
		}
		if cur == nil {
			continue
		}
		if m := reDumpSize.FindStringSubmatch(l); m != nil && strings.Contains(l, "| [sizeof=") {
			cur.size, _ = strconv.Atoi(m[1])
			if cur.name != "" {
				recs[cur.name] = cur
			}
			cur = nil
			continue
		}
		m := reDumpLine.FindStringSubmatch(l)
		if m == nil {
			continue
		}
		off, _ := strconv.Atoi(m[1])
		depth := (len(m[3]) - 1) / 2
		text := strings.TrimSpace(m[4])
		if cur.name == "" {
			cur.name = text // "struct pool_assignment"
			continue
		}
		// "<type> <name>"; the name is the last token (arrays are part of the type: "__u8[3] _pad")
		i := strings.LastIndex(text, " ")
		typ, name := text, ""
		if i >= 0 {
			typ, name = strings.TrimSpace(text[:i]), text[i+1:]
		}
		cur.lines = append(cur.lines, rawLine{off: off, depth: depth, typ: typ, name: name, bitf: m[2] != ""})
	}
	return recs
}

var reArr = regexp.MustCompile(`^(.*?)\[([0-9]+)\]$`)

// flatten turns a dumped record into leaf fields; nested records are expanded by clang already
// (deeper indentation), so a line is a leaf iff the next line is not deeper.
func flatten(r *rawRec, where string) (Struct, error) {
	s := Struct{Name: strings.TrimPrefix(r.name, "struct "), Size: r.size, Where: where}
	var path []string
	for i, l := range r.lines {
		if l.bitf {
			return s, fmt.Errorf("bit-field %q in %s", l.name, r.name)
		}
		if l.depth < 1 {
			return s, fmt.Errorf("unexpected indentation in dump of %s", r.name)
		}
		path = append(path[:l.depth-1], l.name)
		isParent := i+1 < len(r.lines) && r.lines[i+1].depth > l.depth
		if isParent {
			if strings.HasPrefix(l.typ, "union ") {
				return s, fmt.Errorf("union member %q in %s", l.name, r.name)
			}
			if !strings.HasPrefix(l.typ, "struct ") {
				return s, fmt.Errorf("nested non-struct %q (%s) in %s", l.name, l.typ, r.name)
			}
			if reArr.MatchString(l.typ) {
				return s, fmt.Errorf("array of records %q in %s", l.name, r.name)
			}
			continue
		}
		f := Field{Name: strings.Join(path, "."), Off: l.off, CType: l.typ}
		f.Norm = norm(f.Name, false)
		typ := l.typ
		if m := reArr.FindStringSubmatch(typ); m != nil {
			n, _ := strconv.Atoi(m[2])
			w, ok := cScalar[strings.TrimSpace(m[1])]
			if !ok {
				return s, fmt.Errorf("array of unknown element type %q (field %s of %s)", m[1], l.name, r.name)
			}
			f.Width = w * n
			if w == 1 {
				f.Kind = "bytes"
			} else {
				f.Kind, f.Elem = "arr", w
			}
		} else if w, ok := cScalar[typ]; ok {
			f.Width, f.Kind = w, "int"
		} else if strings.HasPrefix(typ, "union ") || strings.HasPrefix(typ, "struct ") {
			return s, fmt.Errorf("record-typed leaf %q (%s) in %s (empty or opaque record)", l.name, typ, r.name)
		} else {
			return s, fmt.Errorf("unknown scalar type %q (field %s of %s)", typ, l.name, r.name)
		}
		s.Fields = append(s.Fields, f)
	}
	return s, nil
}

func scalarStruct(name string, w int, where string) Struct {
	return Struct{Name: name, Size: w, Where: where, Fields: []Field{{Name: "", Norm: "*", Off: 0, Width: w, Kind: "int", CType: name}}}
}

var reBlockComment = regexp.MustCompile(`(?s)/\*.*?\*/`)
var reLineComment = regexp.MustCompile(`//[^\n]*`)

// stripComments keeps line structure (newlines survive) so that line numbers stay right
func stripComments(src string) string {
	src = reBlockComment.ReplaceAllStringFunc(src, func(m string) string {
		return strings.Repeat("\n", strings.Count(m, "\n"))
	})
	return reLineComment.ReplaceAllString(src, "")
}

var reMapBlock = regexp.MustCompile(`(?s)struct\s*\{([^{}]*)\}\s*(\w+)\s+SEC\("\.maps"\)\s*;`)
var reMapAttr = regexp.MustCompile(`^__(uint|type|array)\(\s*(\w+)\s*,\s*(.+?)\s*\)$`)
var reStructDecl = regexp.MustCompile(`(?m)^\s*struct\s+(\w+)\s*\{`)
var reInclude = regexp.MustCompile(`(?m)^\s*#\s*include\s+"([^"]+)"`)
var reRingbuf = regexp.MustCompile(`(\w+)\s*=\s*bpf_ringbuf_reserve\(\s*&(\w+)\s*,\s*sizeof\(\s*\*?\s*(\w+)\s*\)`)
var rePerfOut = regexp.MustCompile(`(?s)bpf_perf_event_output\(\s*\w+\s*,\s*&(\w+)\s*,[^,]+,\s*&(\w+)\s*,\s*sizeof\(\s*(\w+)\s*\)\s*\)`)

type cProg struct{ name, ctx, sec string }

var reSec = regexp.MustCompile(`SEC\("([^"]+)"\)`)
var reProg = regexp.MustCompile(`SEC\("((?:xdp|tc)[^"]*)"\)\s*int\s+(\w+)\s*\(\s*struct\s+(xdp_md|__sk_buff)\s*\*`)

type cFile struct {
	progs    []cProg
	path     string // the .c file
	srcs     map[string]string
	structs  map[string]string // struct name -> declaring file
	maps     []CMap
	rawAttrs map[string]map[string]string
	events   []Event
}

func lineOf(src string, idx int) int { return 1 + strings.Count(src[:idx], "\n") }

func readCFile(repo, path string) *cFile {
	cf := &cFile{path: path, srcs: map[string]string{}, structs: map[string]string{}, rawAttrs: map[string]map[string]string{}}
	var load func(p string)
	load = func(p string) {
		if _, ok := cf.srcs[p]; ok {
			return
		}
		b, err := os.ReadFile(p)
		if err != nil {
			die("cannot read %s: %v", p, err)
		}
		src := stripComments(string(b))
		cf.srcs[p] = src
		for _, m := range reInclude.FindAllStringSubmatch(src, -1) {
			load(filepath.Join(filepath.Dir(p), m[1]))
		}
	}
	load(path)
	files := make([]string, 0, len(cf.srcs))
	for p := range cf.srcs {
		files = append(files, p)
	}
	sort.Strings(files)
	for _, p := range files {
		src := cf.srcs[p]
		rel, _ := filepath.Rel(repo, p)
		for _, m := range reStructDecl.FindAllStringSubmatch(src, -1) {
			cf.structs[m[1]] = rel
		}
		nSec := strings.Count(src, `SEC(".maps")`)
		blocks := reMapBlock.FindAllStringSubmatchIndex(src, -1)
		if nSec != len(blocks) {
			die("%s: %d SEC(\".maps\") annotations but only %d map declarations of the form `struct { … } name SEC(\".maps\");` understood", rel, nSec, len(blocks))
		}
		for _, b := range blocks {
			body, name := src[b[2]:b[3]], src[b[4]:b[5]]
			cm := CMap{Name: name, File: rel, Line: lineOf(src, b[4])}
			attrs := map[string]string{}
			for _, stmt := range strings.Split(body, ";") {
				stmt = strings.TrimSpace(stmt)
				if stmt == "" {
					continue
				}
				m := reMapAttr.FindStringSubmatch(stmt)
				if m == nil {
					die("%s:%d map %s: declaration line %q is not __uint(…)/__type(…)", rel, cm.Line, name, stmt)
				}
				key := m[1] + ":" + m[2]
				switch key {
				case "uint:type", "uint:max_entries", "uint:key_size", "uint:value_size", "uint:map_flags", "type:key", "type:value":
				default:
					die("%s:%d map %s: attribute %s(%s, …) is not understood", rel, cm.Line, name, "__"+m[1], m[2])
				}
				if _, dup := attrs[key]; dup {
					die("%s:%d map %s: attribute %s given twice", rel, cm.Line, name, key)
				}
				attrs[key] = strings.Join(strings.Fields(m[3]), " ")
			}
			t, ok := attrs["uint:type"]
			if !ok || !strings.HasPrefix(t, "BPF_MAP_TYPE_") {
				die("%s:%d map %s: no __uint(type, BPF_MAP_TYPE_…)", rel, cm.Line, name)
			}
			cm.Type = strings.TrimPrefix(t, "BPF_MAP_TYPE_")
			cm.KeyType, cm.ValType = attrs["type:key"], attrs["type:value"]
			if (cm.KeyType != "") == (attrs["uint:key_size"] != "") && cm.Type != "RINGBUF" {
				die("%s:%d map %s: needs exactly one of __type(key, …) / __uint(key_size, …)", rel, cm.Line, name)
			}
			if (cm.ValType != "") == (attrs["uint:value_size"] != "") && cm.Type != "RINGBUF" {
				die("%s:%d map %s: needs exactly one of __type(value, …) / __uint(value_size, …)", rel, cm.Line, name)
			}
			cf.rawAttrs[name] = attrs
			cf.maps = append(cf.maps, cm)
		}
		// program entry points
		nProgSec := 0
		for _, m := range reSec.FindAllStringSubmatch(src, -1) {
			if m[1] != ".maps" && m[1] != "license" {
				nProgSec++
			}
		}
		pm := reProg.FindAllStringSubmatch(src, -1)
		if nProgSec != len(pm) {
			die("%s: %d program SEC(…) annotations but only %d entry points of the form `SEC(\"xdp|tc…\") int f(struct xdp_md|__sk_buff *ctx)` understood", rel, nProgSec, len(pm))
		}
		for _, m := range pm {
			cf.progs = append(cf.progs, cProg{name: m[2], ctx: m[3], sec: m[1]})
		}
		// event producers
		for _, m := range reRingbuf.FindAllStringSubmatchIndex(src, -1) {
			v, mp := src[m[2]:m[3]], src[m[4]:m[5]]
			re := regexp.MustCompile(`struct\s+(\w+)\s*\*\s*` + regexp.QuoteMeta(v) + `\s*[;=]`)
			d := re.FindAllStringSubmatch(src[:m[0]], -1)
			if len(d) == 0 {
				die("%s:%d bpf_ringbuf_reserve(&%s, …): cannot find the declaration `struct X *%s`", rel, lineOf(src, m[0]), mp, v)
			}
			cf.events = append(cf.events, Event{CStruct: d[len(d)-1][1], Via: "ringbuf", Map: mp, Site: fmt.Sprintf("%s:%d", rel, lineOf(src, m[0]))})
		}
		if n := strings.Count(src, "bpf_ringbuf_reserve("); n != len(reRingbuf.FindAllStringIndex(src, -1)) {
			die("%s: a bpf_ringbuf_reserve call is not of the form `v = bpf_ringbuf_reserve(&map, sizeof(*v), …)`", rel)
		}
		for _, m := range rePerfOut.FindAllStringSubmatchIndex(src, -1) {
			mp, v, v2 := src[m[2]:m[3]], src[m[4]:m[5]], src[m[6]:m[7]]
			if v != v2 {
				die("%s:%d bpf_perf_event_output: data &%s but sizeof(%s)", rel, lineOf(src, m[0]), v, v2)
			}
			re := regexp.MustCompile(`struct\s+(\w+)\s+` + regexp.QuoteMeta(v) + `\s*[;=]`)
			d := re.FindAllStringSubmatch(src[:m[0]], -1)
			if len(d) == 0 {
				die("%s:%d bpf_perf_event_output(&%s): cannot find the declaration `struct X %s`", rel, lineOf(src, m[0]), mp, v)
			}
			cf.events = append(cf.events, Event{CStruct: d[len(d)-1][1], Via: "perf", Map: mp, Site: fmt.Sprintf("%s:%d", rel, lineOf(src, m[0]))})
		}
		if n := strings.Count(src, "bpf_perf_event_output("); n != len(rePerfOut.FindAllStringIndex(src, -1)) {
			die("%s: a bpf_perf_event_output call is not of the form `bpf_perf_event_output(ctx, &map, flags, &v, sizeof(v))`", rel)
		}
		if strings.Contains(src, "bpf_ringbuf_output(") {
			die("%s: bpf_ringbuf_output is not understood by the event extractor", rel)
		}
	}
	return cf
}

func run(dir string, name string, args ...string) (string, error) {
	cmd := exec.Command(name, args...)
	cmd.Dir = dir
	b, err := cmd.CombinedOutput()
	return string(b), err
}

// compileProbe dumps the record layouts and executes a native probe that prints what the COMPILER
// thinks the map key/value sizes are.
func (cf *cFile) compileProbe(repo, shim, scratch string) (map[string]*rawRec, map[string][5]int) {
	base := strings.TrimSuffix(filepath.Base(cf.path), ".c")
	probe := filepath.Join(scratch, "probe_"+base+".c")
	var sb strings.Builder
	fmt.Fprintf(&sb, "#include \"%s\"\n#include <stdio.h>\n", cf.path)
	names := make([]string, 0, len(cf.structs))
	for n := range cf.structs {
		names = append(names, n)
	}
	sort.Strings(names)
	// a constant initializer forces Sema to lay out every declared struct (so that it is dumped)
	sb.WriteString("unsigned long __probe_sizes[] = { 0")
	for _, n := range names {
		fmt.Fprintf(&sb, ", sizeof(struct %s)", n)
	}
	sb.WriteString(" };\n")
	sb.WriteString("int main(void) {\n")
	for _, n := range names {
		// flexible array members make sizeof legal too; this forces the layout of every declared struct
		fmt.Fprintf(&sb, "\tprintf(\"STRUCT %s %%zu\\n\", sizeof(struct %s));\n", n, n)
	}
	for _, m := range cf.maps {
		a := cf.rawAttrs[m.Name]
		ks, vs, fl, me := "0", "0", "0", "0"
		if a["uint:max_entries"] != "" {
			me = fmt.Sprintf("sizeof(*%s.max_entries)/sizeof(int)", m.Name)
		}
		if a["type:key"] != "" {
			ks = fmt.Sprintf("sizeof(*%s.key)", m.Name)
		} else if a["uint:key_size"] != "" {
			ks = fmt.Sprintf("sizeof(*%s.key_size)/sizeof(int)", m.Name)
		}
		if a["type:value"] != "" {
			vs = fmt.Sprintf("sizeof(*%s.value)", m.Name)
		} else if a["uint:value_size"] != "" {
			vs = fmt.Sprintf("sizeof(*%s.value_size)/sizeof(int)", m.Name)
		}
		if a["uint:map_flags"] != "" {
			fl = fmt.Sprintf("sizeof(*%s.map_flags)/sizeof(int)", m.Name)
		}
		fmt.Fprintf(&sb, "\tprintf(\"MAP %s %%zu %%zu %%zu %%zu %%zu\\n\", sizeof(*%s.type)/sizeof(int), (size_t)(%s), (size_t)(%s), (size_t)(%s), (size_t)(%s));\n",
			m.Name, m.Name, ks, vs, me, fl)
	}
	sb.WriteString("\treturn 0;\n}\n")
	if err := os.WriteFile(probe, []byte(sb.String()), 0o644); err != nil {
		die("write probe: %v", err)
	}
	inc := []string{"-I" + shim, "-I" + filepath.Dir(cf.path), "-Wno-everything"}
	out, err := run(scratch, "clang", append([]string{"-Xclang", "-fdump-record-layouts", "-fsyntax-only"}, append(inc, probe)...)...)
	if err != nil {
		die("clang cannot parse %s natively against %s (construct outside the parse-only shim?):\n%s", cf.path, shim, tail(out, 30))
	}
	recs := parseDump(out)
	exe := filepath.Join(scratch, "probe_"+base)
	if out, err := run(scratch, "clang", append([]string{"-O0", "-o", exe}, append(inc, probe)...)...); err != nil {
		die("clang cannot compile the size probe for %s:\n%s", cf.path, tail(out, 30))
	}
	pout, err := run(scratch, exe)
	if err != nil {
		die("size probe for %s failed: %v\n%s", cf.path, err, pout)
	}
	sizes := map[string][5]int{}
	for _, l := range strings.Split(pout, "\n") {
		f := strings.Fields(l)
		if len(f) == 3 && f[0] == "STRUCT" {
			n, _ := strconv.Atoi(f[2])
			r, ok := recs["struct "+f[1]]
			if !ok {
				die("%s: struct %s is declared but clang dumped no layout for it", cf.path, f[1])
			}
			if r.size != n {
				die("%s: struct %s: dumped sizeof=%d but the compiled probe says %d", cf.path, f[1], r.size, n)
			}
		}
		if len(f) == 7 && f[0] == "MAP" {
			var v [5]int
			for i := 0; i < 5; i++ {
				v[i], _ = strconv.Atoi(f[2+i])
			}
			sizes[f[1]] = v
		}
	}
	return recs, sizes
}

// buildCkeys writes the generated header of the key-capture runner and compiles it natively
func (cf *cFile) buildCkeys(shim, dir string, structs []Struct) {
	base := strings.TrimSuffix(filepath.Base(cf.path), ".c")
	var sb strings.Builder
	sb.WriteString("/* generated by extractlayout */\n#define CK_MAPS_LIST")
	for _, m := range cf.maps {
		a := cf.rawAttrs[m.Name]
		ks, vs := "0", "0"
		if a["type:key"] != "" {
			ks = fmt.Sprintf("sizeof(*%s.key)", m.Name)
		} else if a["uint:key_size"] != "" {
			ks = fmt.Sprintf("sizeof(*%s.key_size)/sizeof(int)", m.Name)
		}
		if a["type:value"] != "" {
			vs = fmt.Sprintf("sizeof(*%s.value)", m.Name)
		} else if a["uint:value_size"] != "" {
			vs = fmt.Sprintf("sizeof(*%s.value_size)/sizeof(int)", m.Name)
		}
		fmt.Fprintf(&sb, " \\\n\tCK_MAP(%s, %s, %s)", m.Name, ks, vs)
	}
	sb.WriteString("\n#define CK_PROGS_LIST")
	for _, p := range cf.progs {
		kind := "CK_PROG_SKB"
		if p.ctx == "xdp_md" {
			kind = "CK_PROG_XDP"
		}
		fmt.Fprintf(&sb, " \\\n\t%s(%s)", kind, p.name)
	}
	sb.WriteString("\n")
	// decoders: what the COMPILED C code reads out of a record, member by member (real member access by NAME, so a
	// Go struct whose same-width fields are swapped decodes to swapped values).  One function per record; integer
	// data leaves as decimal numbers, byte arrays as hex.
	sb.WriteString("#define CK_HAVE_DECODERS 1\n")
	for _, st := range structs {
		fmt.Fprintf(&sb, "static void ck_dec_%s(const unsigned char *b) {\n\tstruct %s v;\n\tmemcpy(&v, b, sizeof(v));\n", st.Name, st.Name)
		for _, f := range st.Fields {
			if f.Norm == "_" || f.Name == "" {
				continue
			}
			switch f.Kind {
			case "int":
				fmt.Fprintf(&sb, "\tck_dec_int(\"%s\", (unsigned long long)v.%s);\n", f.Name, f.Name)
			case "bytes":
				fmt.Fprintf(&sb, "\tck_dec_bytes(\"%s\", (const unsigned char *)v.%s, sizeof(v.%s));\n", f.Name, f.Name, f.Name)
			}
		}
		sb.WriteString("}\n")
	}
	sb.WriteString("static struct ck_decoder ck_decoders[] = {\n")
	for _, st := range structs {
		fmt.Fprintf(&sb, "\t{\"%s\", sizeof(struct %s), ck_dec_%s},\n", st.Name, st.Name, st.Name)
	}
	sb.WriteString("\t{0, 0, 0}};\n")
	hdr := filepath.Join(dir, "ckeys_"+base+".h")
	if err := os.WriteFile(hdr, []byte(sb.String()), 0o644); err != nil {
		die("%v", err)
	}
	exe := filepath.Join(dir, "ckeys_"+base)
	out, err := run(dir, "clang", "-O1", "-g", "-Wno-everything", "-I"+shim, "-I"+filepath.Dir(cf.path),
		"-DPROG_FILE=\""+cf.path+"\"", "-DGEN_HEADER=\""+hdr+"\"", "-o", exe, filepath.Join(shim, "ckeys_main.c"))
	if err != nil {
		die("cannot compile the key-capture runner for %s natively:\n%s", cf.path, tail(out, 30))
	}
}

// ---- what the programs read and write THROUGH (the helpers take void *, so the compiler checks nothing)

var reHelperCall = regexp.MustCompile(`\bbpf_map_(lookup|update|delete)_elem\s*\(`)
var reFuncHdr = regexp.MustCompile(`(?:static\s+(?:__always_inline\s+|inline\s+|__noinline\s+)*|\n)((?:struct\s+\w+|unsigned\s+\w+|\w+))\s*(\*?)\s*(\w+)\s*\([^;{}()]*(?:\([^()]*\)[^;{}()]*)*\)\s*\{`)
var cKeywords = map[string]bool{"return": true, "else": true, "goto": true, "case": true, "sizeof": true, "typeof": true, "if": true, "while": true, "for": true, "switch": true, "do": true}

func normType(t string) string {
	return strings.Join(strings.Fields(strings.TrimPrefix(strings.TrimSpace(t), "const ")), " ")
}

// splitArgs splits the text between the parentheses of a call at top-level commas; returns the args and the index after ')'
func splitArgs(src string, open int) ([]string, int) {
	depth, start := 0, open+1
	var args []string
	for i := open; i < len(src); i++ {
		switch src[i] {
		case '(', '[', '{':
			depth++
		case ')', ']', '}':
			depth--
			if depth == 0 {
				args = append(args, strings.TrimSpace(src[start:i]))
				return args, i + 1
			}
		case ',':
			if depth == 1 {
				args = append(args, strings.TrimSpace(src[start:i]))
				start = i + 1
			}
		}
	}
	return nil, -1
}

// declType finds the declaration `T [*]ident` that precedes pos (last one wins): returns T and whether it is a pointer
func declType(src string, pos int, ident string) (string, bool, bool) {
	re := regexp.MustCompile(`\b((?:const\s+)?(?:struct\s+\w+|unsigned\s+\w+|\w+))\s*(\*?)\s*\b` + regexp.QuoteMeta(ident) + `\b\s*(?:=[^=]|;|,|\)|\[)`)
	ms := re.FindAllStringSubmatch(src[:pos], -1)
	for i := len(ms) - 1; i >= 0; i-- {
		t := normType(ms[i][1])
		if cKeywords[t] || t == "" {
			continue
		}
		return t, ms[i][2] == "*", true
	}
	return "", false, false
}

var reAmpIdent = regexp.MustCompile(`^&\s*(\w+)$`)
var reIdent = regexp.MustCompile(`^(\w+)$`)
var reAmpMember = regexp.MustCompile(`^&\s*(\w+)\s*(->|\.)\s*(\w+)$`)

// argPointee gives the C type the argument expression points to
func argPointee(src string, pos int, arg string, cStructs map[string]Struct) (string, error) {
	if m := reAmpIdent.FindStringSubmatch(arg); m != nil {
		t, ptr, ok := declType(src, pos, m[1])
		if !ok {
			return "", fmt.Errorf("no declaration of %s found", m[1])
		}
		if ptr {
			return t + " *", nil
		}
		return t, nil
	}
	if m := reIdent.FindStringSubmatch(arg); m != nil {
		t, ptr, ok := declType(src, pos, m[1])
		if !ok || !ptr {
			return "", fmt.Errorf("%s is not a declared pointer variable", m[1])
		}
		return t, nil
	}
	if m := reAmpMember.FindStringSubmatch(arg); m != nil {
		t, ptr, ok := declType(src, pos, m[1])
		if !ok || ptr != (m[2] == "->") || !strings.HasPrefix(t, "struct ") {
			return "", fmt.Errorf("cannot type %s", arg)
		}
		st, ok := cStructs[strings.TrimPrefix(t, "struct ")]
		if !ok {
			return "", fmt.Errorf("%s has no understood layout", t)
		}
		for _, f := range st.Fields {
			if f.Name == m[3] {
				return normType(f.CType), nil
			}
		}
		return "", fmt.Errorf("%s has no scalar member %s", t, m[3])
	}
	return "", fmt.Errorf("argument %q is not of the form &v, v, &v->f, &v.f", arg)
}

// checkAccesses: every bpf_map_{lookup,update,delete}_elem call must go through the key/value types the map
// declares.  Forms that are not understood are fatal; type disagreements are returned (they become the generated
// list `cAccessMismatches`, which Spec/C06 proves empty).
func (cf *cFile) checkAccesses(repo string, cMaps map[string]CMap, cStructs map[string]Struct) []string {
	var bad []string
	files := make([]string, 0, len(cf.srcs))
	for p := range cf.srcs {
		files = append(files, p)
	}
	sort.Strings(files)
	for _, p := range files {
		src := cf.srcs[p]
		rel, _ := filepath.Rel(repo, p)
		for _, loc := range reHelperCall.FindAllStringSubmatchIndex(src, -1) {
			kind := src[loc[2]:loc[3]]
			at := fmt.Sprintf("%s:%d", rel, lineOf(src, loc[0]))
			args, end := splitArgs(src, loc[1]-1)
			want := map[string]int{"lookup": 2, "update": 4, "delete": 2}[kind]
			if args == nil || len(args) != want {
				die("%s: bpf_map_%s_elem call with %d arguments is not understood", at, kind, len(args))
			}
			mm := reAmpIdent.FindStringSubmatch(args[0])
			if mm == nil {
				die("%s: first argument %q of bpf_map_%s_elem is not &<map variable>", at, args[0], kind)
			}
			m, ok := cMaps[mm[1]]
			if !ok {
				die("%s: bpf_map_%s_elem on %s which is not a map declared with SEC(\".maps\")", at, kind, mm[1])
			}
			chk := func(what, got, decl string) {
				if decl == "" {
					return // declared by size only
				}
				if normType(got) != normType(decl) {
					bad = append(bad, fmt.Sprintf("%s: map %s is declared with %s type `%s` but the program passes/reads `%s`", at, m.Name, what, decl, got))
				}
			}
			kt, err := argPointee(src, loc[0], args[1], cStructs)
			if err != nil {
				die("%s: key argument of bpf_map_%s_elem(&%s, …): %v", at, kind, m.Name, err)
			}
			chk("key", kt, m.KeyType)
			if kind == "update" {
				vt, err := argPointee(src, loc[0], args[2], cStructs)
				if err != nil {
					die("%s: value argument of bpf_map_update_elem(&%s, …): %v", at, m.Name, err)
				}
				chk("value", vt, m.ValType)
			}
			if kind != "lookup" {
				continue
			}
			// the type the result is read through
			ls := strings.LastIndexAny(src[:loc[0]], ";{}")
			before := strings.TrimSpace(src[ls+1 : loc[0]])
			after := strings.TrimSpace(src[end:min(end+12, len(src))])
			reDeclInit := regexp.MustCompile(`^((?:const\s+)?(?:struct\s+\w+|unsigned\s+\w+|\w+))\s*\*\s*\w+\s*=$`)
			reAssign := regexp.MustCompile(`^(\w+)\s*=$`)
			switch {
			case strings.HasPrefix(after, "!=") || strings.HasPrefix(after, "=="):
				// existence test only
			case reDeclInit.MatchString(before):
				chk("value", reDeclInit.FindStringSubmatch(before)[1], m.ValType)
			case reAssign.MatchString(before):
				v := reAssign.FindStringSubmatch(before)[1]
				t, ptr, ok := declType(src, loc[0], v)
				if !ok || !ptr {
					die("%s: result of bpf_map_lookup_elem(&%s, …) is assigned to %s whose declaration `T *%s` cannot be found", at, m.Name, v, v)
				}
				chk("value", t, m.ValType)
			case before == "return":
				hs := reFuncHdr.FindAllStringSubmatch(src[:loc[0]], -1)
				if len(hs) == 0 {
					die("%s: `return bpf_map_lookup_elem(&%s, …)`: enclosing function header not found", at, m.Name)
				}
				h := hs[len(hs)-1]
				if h[2] != "*" {
					bad = append(bad, fmt.Sprintf("%s: map %s value `%s` is returned from %s() as non-pointer `%s`", at, m.Name, m.ValType, h[3], h[1]))
				} else {
					chk("value", h[1], m.ValType)
				}
			default:
				die("%s: result of bpf_map_lookup_elem(&%s, …) is used in a form that is not understood (`%s … %s`): expected `T *v = …`, `v = …`, `return …`, `… != NULL`", at, m.Name, before, after)
			}
		}
	}
	return bad
}

func tail(s string, n int) string {
	l := strings.Split(strings.TrimRight(s, "\n"), "\n")
	if len(l) > n {
		l = l[len(l)-n:]
	}
	return strings.Join(l, "\n")
}

// cTypeStruct resolves the text of a __type(key|value, T) to a flattened record
func cTypeStruct(t string, structs map[string]Struct, where string) (Struct, error) {
	if strings.HasPrefix(t, "struct ") {
		s, ok := structs[strings.TrimSpace(strings.TrimPrefix(t, "struct "))]
		if !ok {
			return Struct{}, fmt.Errorf("type %q is not a struct declared in bpf/ with an understood layout", t)
		}
		return s, nil
	}
	if w, ok := cScalar[t]; ok {
		return scalarStruct(t, w, where), nil
	}
	return Struct{}, fmt.Errorf("key/value type %q is neither `struct X` nor a known scalar", t)
}

// ---------------------------------------------------------------------------------------------
// Go side

const ciliumMap = "github.com/cilium/ebpf.Map"
const ciliumIter = "github.com/cilium/ebpf.MapIterator"
const ciliumColl = "github.com/cilium/ebpf.Collection"

func isPtrTo(t types.Type, full string) bool {
	p, ok := t.(*types.Pointer)
	if !ok {
		return false
	}
	n, ok := p.Elem().(*types.Named)
	if !ok {
		return false
	}
	o := n.Obj()
	return o.Pkg() != nil && o.Pkg().Path()+"."+o.Name() == full
}

type goLayouter struct {
	short map[string]string // package path -> short name
}

// binLayout gives the encoding/binary image of t (what cilium's sysenc.Marshal writes), or an error when t is
// not a fixed-size value in encoding/binary's sense
func (g *goLayouter) binLayout(t types.Type, prefix string, off int, out *[]Field) (int, error) {
	switch u := t.Underlying().(type) {
	case *types.Basic:
		w := 0
		switch u.Kind() {
		case types.Bool, types.Int8, types.Uint8:
			w = 1
		case types.Int16, types.Uint16:
			w = 2
		case types.Int32, types.Uint32:
			w = 4
		case types.Int64, types.Uint64:
			w = 8
		default:
			return 0, fmt.Errorf("%s is not a fixed-size integer (encoding/binary rejects it)", u.String())
		}
		*out = append(*out, Field{Name: prefix, Norm: norm(prefix, true), Off: off, Width: w, Kind: "int", CType: types.TypeString(t, g.qual)})
		return w, nil
	case *types.Array:
		eb, ok := u.Elem().Underlying().(*types.Basic)
		if !ok {
			// array of structs/arrays: flatten element by element
			total := 0
			for i := int64(0); i < u.Len(); i++ {
				w, err := g.binLayout(u.Elem(), fmt.Sprintf("%s[%d]", prefix, i), off+total, out)
				if err != nil {
					return 0, err
				}
				total += w
			}
			return total, nil
		}
		var tmp []Field
		w, err := g.binLayout(eb, prefix, off, &tmp)
		if err != nil {
			return 0, err
		}
		f := Field{Name: prefix, Norm: norm(prefix, true), Off: off, Width: w * int(u.Len()), CType: types.TypeString(t, g.qual)}
		if w == 1 {
			f.Kind = "bytes"
		} else {
			f.Kind, f.Elem = "arr", w
		}
		*out = append(*out, f)
		return f.Width, nil
	case *types.Struct:
		total := 0
		for i := 0; i < u.NumFields(); i++ {
			fv := u.Field(i)
			name := fv.Name()
			p := name
			if prefix != "" {
				p = prefix + "." + name
			}
			w, err := g.binLayout(fv.Type(), p, off+total, out)
			if err != nil {
				return 0, fmt.Errorf("field %s: %w", name, err)
			}
			total += w
		}
		return total, nil
	}
	return 0, fmt.Errorf("%s is not fixed-size (encoding/binary rejects it)", types.TypeString(t, g.qual))
}

func (g *goLayouter) qual(p *types.Package) string {
	if s, ok := g.short[p.Path()]; ok {
		return s
	}
	return p.Name()
}

func (g *goLayouter) structOf(t types.Type, name, where string) (*Struct, error) {
	var fs []Field
	sz, err := g.binLayout(t, "", 0, &fs)
	if err != nil {
		return nil, err
	}
	for i := range fs {
		if fs[i].Name == "" {
			fs[i].Norm = "*" // the value itself (scalar / array key): matches any C leaf name
		}
	}
	return &Struct{Name: name, Size: sz, Fields: fs, Where: where}, nil
}

// ---------------------------------------------------------------------------------------------

var goPkgs = []string{"pkg/ebpf", "pkg/nat", "pkg/qos", "pkg/antispoof", "pkg/walledgarden"}

// explicit pairing of the Go mirrors of event records (nothing in the Go code names the C struct);
// validated against the ring-buffer / perf producers found in the C sources
var eventMirrors = map[string]string{
	"nat.BPFLogEntry":      "nat_log_entry",
	"antispoof.SpoofEvent": "spoof_event",
}

var mapMethodsKV = map[string]bool{"Put": true, "Update": true, "Lookup": true, "LookupAndDelete": true}
var mapMethodsK = map[string]bool{"Delete": true}
var mapMethodsIgnored = map[string]bool{"Close": true, "FD": true, "Info": true, "Type": true, "KeySize": true, "ValueSize": true,
	"MaxEntries": true, "Flags": true, "String": true, "Pin": true, "Unpin": true, "IsPinned": true, "Clone": true, "Freeze": true}

func main() {
	repo := flag.String("repo", "/repo", "repository working tree")
	shim := flag.String("shim", "/verif/cshim-layout", "parse-only include directory")
	scratch := flag.String("scratch", "", "scratch directory")
	leanOut := flag.String("lean", "", "Lean file to write")
	jsonOut := flag.String("json", "", "JSON file to write")
	ckeysDir := flag.String("ckeys", "", "directory to build the native key-capture runners ckeys_<prog> into")
	flag.Parse()
	if *scratch == "" {
		d, err := os.MkdirTemp("/var/tmp", "extractlayout-")
		if err != nil {
			die("%v", err)
		}
		defer os.RemoveAll(d)
		*scratch = d
	}
	out := Out{Bindings: map[string]string{}}

	// ---------------- C
	cfiles, _ := filepath.Glob(filepath.Join(*repo, "bpf", "*.c"))
	sort.Strings(cfiles)
	if len(cfiles) == 0 {
		die("no C sources under %s/bpf", *repo)
	}
	cStructs := map[string]Struct{}
	cStructErr := map[string]string{}
	cMaps := map[string]CMap{}
	var cEvents []Event
	var cfs []*cFile
	for _, p := range cfiles {
		cf := readCFile(*repo, p)
		cfs = append(cfs, cf)
		recs, sizes := cf.compileProbe(*repo, *shim, *scratch)
		for _, pr := range cf.progs {
			out.Progs = append(out.Progs, Prog{Name: pr.name, Ctx: pr.ctx, Sec: pr.sec, File: strings.TrimSuffix(filepath.Base(p), ".c")})
		}
		names := make([]string, 0, len(cf.structs))
		for n := range cf.structs {
			names = append(names, n)
		}
		sort.Strings(names)
		for _, n := range names {
			s, err := flatten(recs["struct "+n], cf.structs[n])
			if err != nil {
				cStructErr[n] = err.Error() // fatal only if a map or event uses it
				continue
			}
			if old, ok := cStructs[n]; ok && !sameStruct(old, s) {
				die("struct %s is declared with two different layouts (%s and %s)", n, old.Where, s.Where)
			}
			cStructs[n] = s
		}
		if *ckeysDir != "" {
			var own []Struct
			for _, n := range names {
				if st, ok := cStructs[n]; ok {
					own = append(own, st)
				}
			}
			cf.buildCkeys(*shim, *ckeysDir, own)
		}
		for _, m := range cf.maps {
			v, ok := sizes[m.Name]
			if !ok {
				die("%s: the compiled probe printed nothing for map %s", p, m.Name)
			}
			m.TypeNum, m.KeySize, m.ValSize, m.MaxEntries, m.Flags = v[0], v[1], v[2], v[3], v[4]
			reRef := regexp.MustCompile(`&\s*` + regexp.QuoteMeta(m.Name) + `\b`)
			for _, src := range cf.srcs {
				m.Refs += len(reRef.FindAllStringIndex(src, -1))
			}
			if old, ok := cMaps[m.Name]; ok {
				if old.Type != m.Type || old.KeyType != m.KeyType || old.ValType != m.ValType || old.KeySize != m.KeySize || old.ValSize != m.ValSize {
					die("map %s is declared differently in %s:%d and %s:%d", m.Name, old.File, old.Line, m.File, m.Line)
				}
				continue
			}
			for _, kv := range [][2]string{{m.KeyType, "key"}, {m.ValType, "value"}} {
				if kv[0] == "" {
					continue
				}
				st, err := cTypeStruct(kv[0], cStructs, fmt.Sprintf("%s:%d", m.File, m.Line))
				if err != nil {
					extra := ""
					if e, ok := cStructErr[strings.TrimPrefix(kv[0], "struct ")]; ok {
						extra = ": " + e
					}
					die("%s:%d map %s: %s %v%s", m.File, m.Line, m.Name, kv[1], err, extra)
				}
				want := m.KeySize
				if kv[1] == "value" {
					want = m.ValSize
				}
				if st.Size != want {
					die("%s:%d map %s: %s type %s has dumped size %d but the compiler says sizeof=%d", m.File, m.Line, m.Name, kv[1], kv[0], st.Size, want)
				}
			}
			cMaps[m.Name] = m
		}
		cEvents = append(cEvents, cf.events...)
	}
	seenBad := map[string]bool{}
	for _, cf := range cfs {
		for _, b := range cf.checkAccesses(*repo, cMaps, cStructs) {
			if !seenBad[b] {
				seenBad[b] = true
				out.AccessMismatches = append(out.AccessMismatches, b)
			}
		}
	}
	for _, n := range sortedKeys(cStructs) {
		out.CStructs = append(out.CStructs, cStructs[n])
	}
	for _, n := range sortedKeys(cMaps) {
		out.CMaps = append(out.CMaps, cMaps[n])
	}

	// ---------------- Go
	cfg := &packages.Config{
		Mode: packages.NeedName | packages.NeedFiles | packages.NeedSyntax | packages.NeedTypes | packages.NeedTypesInfo | packages.NeedImports,
		Dir:  *repo,
		Env:  append(os.Environ(), "GOFLAGS=-mod=mod", "GOPROXY=off", "GOOS=linux", "GOARCH=amd64"),
	}
	// every package of the module that imports github.com/cilium/ebpf can name a *ebpf.Map; handles cannot leave
	// the analysed packages any other way (strictHandles below refuses returns, arguments, conversions), so these
	// are all the packages in which a map use can exist.  Packages outside goPkgs must not touch a map at all.
	glc := exec.Command("go", "list", "-f", "{{.ImportPath}}|{{join .Imports \",\"}}", "./...")
	glc.Dir, glc.Env = *repo, cfg.Env
	glOut, err := glc.Output()
	if err != nil {
		die("go list ./... in %s: %v", *repo, err)
	}
	inList := map[string]bool{}
	for _, p := range goPkgs {
		inList[p] = true
	}
	var outside []string
	modPrefix := ""
	type li struct{ path, imports string }
	var lis []li
	for _, l := range strings.Split(strings.TrimSpace(string(glOut)), "\n") {
		path, imps, _ := strings.Cut(l, "|")
		lis = append(lis, li{path, "," + imps + ","})
		if strings.HasSuffix(path, "/"+goPkgs[0]) {
			modPrefix = strings.TrimSuffix(path, goPkgs[0])
		}
	}
	if modPrefix == "" {
		die("package %s not found in %s", goPkgs[0], *repo)
	}
	for _, p := range lis {
		if !strings.Contains(p.imports, ",github.com/cilium/ebpf,") {
			continue
		}
		if rel := strings.TrimPrefix(p.path, modPrefix); !inList[rel] {
			outside = append(outside, rel)
		}
	}
	sort.Strings(outside)
	var pats []string
	for _, p := range goPkgs {
		pats = append(pats, "./"+p)
	}
	for _, p := range outside {
		pats = append(pats, "./"+p)
	}
	pkgs, err := packages.Load(cfg, pats...)
	if err != nil {
		die("go/packages: %v", err)
	}
	if len(pkgs) != len(pats) {
		die("go/packages loaded %d packages, want %d", len(pkgs), len(pats))
	}
	gl := &goLayouter{short: map[string]string{}}
	for _, p := range pkgs {
		if len(p.Errors) > 0 {
			die("package %s does not type-check: %v", p.PkgPath, p.Errors[0])
		}
		gl.short[p.PkgPath] = p.Name
	}
	sort.Slice(pkgs, func(i, j int) bool { return pkgs[i].PkgPath < pkgs[j].PkgPath })
	goStructs := map[string]*Struct{}
	nested := map[string]bool{}
	usedTypes := map[string]bool{}
	typeName := func(p *packages.Package, t types.Type) string {
		return types.TypeString(t, gl.qual)
	}
	for _, p := range pkgs {
		ex := &goExtractor{p: p, gl: gl, repo: *repo, out: &out, goStructs: goStructs, nested: nested, used: usedTypes,
			bind: map[*types.Var]string{}, unboundSrc: map[*types.Var]string{}, iters: map[*types.Var]*types.Var{}, typeNames: map[*types.TypeName]string{}}
		if !inList[strings.TrimPrefix(p.PkgPath, modPrefix)] {
			// a package the translator does not analyse: it may load/attach programs but must not hold a map handle
			ex.noHandles()
			continue
		}
		ex.collectTypes()
		ex.collectBindings()
		ex.strictHandles()
		ex.collectUses()
		_ = typeName
	}
	for _, n := range sortedKeys(goStructs) {
		out.GoStructs = append(out.GoStructs, *goStructs[n])
	}

	// ---------------- join
	seenMissing := map[string]bool{}
	var bound []Use
	for _, u := range out.Uses {
		if u.Map == "" {
			out.Unbound = append(out.Unbound, u)
			continue
		}
		if _, ok := cMaps[u.Map]; !ok {
			if !seenMissing[u.Map] {
				seenMissing[u.Map] = true
				out.MissingMaps = append(out.MissingMaps, u.Map)
			}
			continue
		}
		bound = append(bound, u)
	}
	for _, name := range out.Bindings {
		if _, ok := cMaps[name]; !ok && !seenMissing[name] {
			seenMissing[name] = true
			out.MissingMaps = append(out.MissingMaps, name)
		}
	}
	sort.Strings(out.MissingMaps)
	out.Uses = bound

	// events
	for _, e := range cEvents {
		if _, ok := cStructs[e.CStruct]; !ok {
			die("%s: event record struct %s has no understood layout: %s", e.Site, e.CStruct, cStructErr[e.CStruct])
		}
		gt := ""
		for g, c := range eventMirrors {
			if c == e.CStruct {
				gt = g
			}
		}
		if gt == "" {
			die("%s: the C program emits `struct %s` through %s map %s but the translator knows no Go mirror for it (add it to eventMirrors)", e.Site, e.CStruct, e.Via, e.Map)
		}
		if _, ok := goStructs[gt]; !ok {
			die("%s: Go mirror %s of event record struct %s not found (renamed or no longer fixed-size)", e.Site, gt, e.CStruct)
		}
		dup := false
		for _, o := range out.Events {
			if o.CStruct == e.CStruct && o.Map == e.Map {
				dup = true
			}
		}
		if !dup {
			e.GoType = gt
			out.Events = append(out.Events, e)
		}
	}
	sort.Slice(out.Events, func(i, j int) bool { return out.Events[i].CStruct < out.Events[j].CStruct })

	// mirror structs: every fixed-size named struct/array type of the five packages
	for _, n := range sortedKeys(goStructs) {
		if strings.Count(n, ".") == 1 { // package-level types only; function-local key types are listed by their uses
			out.Mirrors = append(out.Mirrors, n)
		}
	}
	for _, n := range sortedKeys(nested) {
		out.Nested = append(out.Nested, n)
	}
	out.MacToU64, out.U64ToMac = macFuncs(*repo)

	if *jsonOut != "" {
		b, _ := json.MarshalIndent(out, "", " ")
		if err := os.WriteFile(*jsonOut, b, 0o644); err != nil {
			die("%v", err)
		}
	}
	if *leanOut != "" {
		// atomically: a concurrent `lake build` never sees a half-written table
		tmp := *leanOut + fmt.Sprintf(".tmp%d", os.Getpid())
		if err := os.WriteFile(tmp, []byte(emitLean(&out, cMaps, cStructs)), 0o644); err != nil {
			die("%v", err)
		}
		if err := os.Rename(tmp, *leanOut); err != nil {
			die("%v", err)
		}
	}
	fmt.Printf("extractlayout: %d C structs, %d C maps, %d Go layouts, %d map uses (%d unbound), %d events, %d missing maps\n",
		len(out.CStructs), len(out.CMaps), len(out.GoStructs), len(out.Uses), len(out.Unbound), len(out.Events), len(out.MissingMaps))
}

// macFuncs enumerates, over EVERY non-test Go file of the module (go/parser, no build-tag filtering), the functions
// and methods whose signature is (net.HardwareAddr) uint64 or (uint64) net.HardwareAddr: the MAC <-> map-key
// conversions.  The list is pinned by a theorem and by the harness' table, so a new conversion cannot be overlooked.
func macFuncs(repo string) (to, from []string) {
	fset := token.NewFileSet()
	isHW := func(e ast.Expr) bool {
		se, ok := e.(*ast.SelectorExpr)
		if !ok {
			return false
		}
		x, ok := se.X.(*ast.Ident)
		return ok && x.Name == "net" && se.Sel.Name == "HardwareAddr"
	}
	isU64 := func(e ast.Expr) bool { id, ok := e.(*ast.Ident); return ok && id.Name == "uint64" }
	err := filepath.Walk(repo, func(path string, info os.FileInfo, err error) error {
		if err != nil {
			return err
		}
		if info.IsDir() {
			if n := info.Name(); n == ".git" || n == "vendor" || n == "node_modules" || n == "testdata" {
				return filepath.SkipDir
			}
			return nil
		}
		if !strings.HasSuffix(path, ".go") || strings.HasSuffix(path, "_test.go") {
			return nil
		}
		f, err := parser.ParseFile(fset, path, nil, parser.SkipObjectResolution)
		if err != nil {
			die("cannot parse %s: %v", path, err)
		}
		rel, _ := filepath.Rel(repo, filepath.Dir(path))
		for _, d := range f.Decls {
			fd, ok := d.(*ast.FuncDecl)
			if !ok || fd.Type.Params == nil || fd.Type.Results == nil || len(fd.Type.Params.List) != 1 || len(fd.Type.Results.List) != 1 ||
				len(fd.Type.Params.List[0].Names) > 1 || len(fd.Type.Results.List[0].Names) > 1 {
				continue
			}
			pt, rt := fd.Type.Params.List[0].Type, fd.Type.Results.List[0].Type
			name := rel + "." + fd.Name.Name
			if fd.Recv != nil && len(fd.Recv.List) == 1 {
				name = rel + "." + types.ExprString(fd.Recv.List[0].Type) + "." + fd.Name.Name
			}
			if isHW(pt) && isU64(rt) {
				to = append(to, name)
			}
			if isU64(pt) && isHW(rt) {
				from = append(from, name)
			}
		}
		return nil
	})
	if err != nil {
		die("walking %s: %v", repo, err)
	}
	sort.Strings(to)
	sort.Strings(from)
	return
}

func sameStruct(a, b Struct) bool {
	if a.Size != b.Size || len(a.Fields) != len(b.Fields) {
		return false
	}
	for i := range a.Fields {
		x, y := a.Fields[i], b.Fields[i]
		if x.Name != y.Name || x.Off != y.Off || x.Width != y.Width || x.Kind != y.Kind || x.Elem != y.Elem {
			return false
		}
	}
	return true
}

func sortedKeys[V any](m map[string]V) []string {
	ks := make([]string, 0, len(m))
	for k := range m {
		ks = append(ks, k)
	}
	sort.Strings(ks)
	return ks
}

type goExtractor struct {
	p          *packages.Package
	gl         *goLayouter
	repo       string
	out        *Out
	goStructs  map[string]*Struct
	nested     map[string]bool
	used       map[string]bool
	bind       map[*types.Var]string
	unboundSrc map[*types.Var]string
	iters      map[*types.Var]*types.Var
	typeNames  map[*types.TypeName]string
}

func (ex *goExtractor) pos(n ast.Node) string {
	ps := ex.p.Fset.Position(n.Pos())
	rel, err := filepath.Rel(ex.repo, ps.Filename)
	if err != nil {
		rel = ps.Filename
	}
	return fmt.Sprintf("%s:%d", rel, ps.Line)
}

// collectTypes records the binary layout of every named type (package level or function local) whose value
// encoding/binary can write: these are the candidates for "mirrors an eBPF struct"
func (ex *goExtractor) collectTypes() {
	for _, f := range ex.p.Syntax {
		var fn []string
		ast.Inspect(f, func(n ast.Node) bool {
			switch d := n.(type) {
			case *ast.FuncDecl:
				fn = []string{d.Name.Name}
			case *ast.TypeSpec:
				obj, ok := ex.p.TypesInfo.Defs[d.Name].(*types.TypeName)
				if !ok {
					return true
				}
				t := obj.Type()
				switch t.Underlying().(type) {
				case *types.Struct, *types.Array:
				default:
					return true
				}
				name := ex.p.Name + "." + obj.Name()
				if obj.Parent() != ex.p.Types.Scope() {
					name = ex.p.Name + "." + strings.Join(fn, ".") + "." + obj.Name()
				}
				st, err := ex.gl.structOf(t, name, ex.pos(d))
				if err != nil || st.Size == 0 {
					return true // not a fixed-size record: cannot be a map key/value
				}
				ex.goStructs[name] = st
				ex.typeNames[obj] = name
				// nested named struct members are covered by their parent
				if s, ok := t.Underlying().(*types.Struct); ok {
					for i := 0; i < s.NumFields(); i++ {
						if nt, ok := s.Field(i).Type().(*types.Named); ok {
							if _, ok := nt.Underlying().(*types.Struct); ok && nt.Obj().Pkg() == ex.p.Types {
								ex.nested[ex.p.Name+"."+nt.Obj().Name()] = true
							}
						}
					}
				}
			}
			return true
		})
	}
}

func (ex *goExtractor) varOf(e ast.Expr) *types.Var {
	switch x := e.(type) {
	case *ast.ParenExpr:
		return ex.varOf(x.X)
	case *ast.Ident:
		if v, ok := ex.p.TypesInfo.Uses[x].(*types.Var); ok {
			return v
		}
		if v, ok := ex.p.TypesInfo.Defs[x].(*types.Var); ok {
			return v
		}
	case *ast.SelectorExpr:
		if s, ok := ex.p.TypesInfo.Selections[x]; ok {
			if v, ok := s.Obj().(*types.Var); ok {
				return v
			}
		}
	}
	return nil
}

func (ex *goExtractor) handleName(v *types.Var, e ast.Expr) string {
	if v.IsField() {
		if se, ok := e.(*ast.SelectorExpr); ok {
			t := ex.p.TypesInfo.TypeOf(se.X)
			if p, ok := t.(*types.Pointer); ok {
				t = p.Elem()
			}
			return types.TypeString(t, ex.gl.qual) + "." + v.Name()
		}
	}
	return ex.p.Name + "." + v.Name()
}

// collectBindings: `x = coll.Maps["name"]`
func (ex *goExtractor) collectBindings() {
	for _, f := range ex.p.Syntax {
		ast.Inspect(f, func(n ast.Node) bool {
			as, ok := n.(*ast.AssignStmt)
			if !ok {
				return true
			}
			for i, lhs := range as.Lhs {
				lt := ex.p.TypesInfo.TypeOf(lhs)
				if lt == nil || !isPtrTo(lt, ciliumMap) {
					continue
				}
				v := ex.varOf(lhs)
				if v == nil {
					die("%s: assignment to a *ebpf.Map that is not a plain variable or field", ex.pos(as))
				}
				if len(as.Rhs) != len(as.Lhs) {
					ex.unboundSrc[v] = "multi-value assignment"
					continue
				}
				rhs := as.Rhs[i]
				name := ""
				if ix, ok := rhs.(*ast.IndexExpr); ok {
					if se, ok := ix.X.(*ast.SelectorExpr); ok && se.Sel.Name == "Maps" {
						xt := ex.p.TypesInfo.TypeOf(se.X)
						if xt != nil && isPtrTo(xt, ciliumColl) {
							lit, ok := ix.Index.(*ast.BasicLit)
							if !ok || lit.Kind != token.STRING {
								die("%s: map name in coll.Maps[…] is not a string literal", ex.pos(as))
							}
							name, _ = strconv.Unquote(lit.Value)
						}
					}
				}
				if name == "" {
					ex.unboundSrc[v] = ex.pos(as)
					continue
				}
				if old, ok := ex.bind[v]; ok && old != name {
					die("%s: map handle %s is bound to two kernel maps (%s and %s)", ex.pos(as), v.Name(), old, name)
				}
				ex.bind[v] = name
				ex.out.Bindings[ex.handleName(v, lhs)] = name
			}
			return true
		})
	}
}

func (ex *goExtractor) argStruct(e ast.Expr, what, site string) (*Struct, bool) {
	t := ex.p.TypesInfo.TypeOf(e)
	if t == nil {
		die("%s: no type for the %s argument", site, what)
	}
	if p, ok := t.Underlying().(*types.Pointer); ok {
		t = p.Elem()
	}
	slice := false
	if s, ok := t.Underlying().(*types.Slice); ok {
		if b, ok := s.Elem().Underlying().(*types.Basic); ok && b.Kind() == types.Uint8 {
			die("%s: the %s argument is a raw []byte: its layout is decided at run time", site, what)
		}
		slice = true
		t = s.Elem()
	}
	if _, ok := t.Underlying().(*types.Interface); ok {
		die("%s: the %s argument has interface type %s: its layout is decided at run time", site, what, types.TypeString(t, ex.gl.qual))
	}
	name := types.TypeString(t, ex.gl.qual)
	if nt, ok := t.(*types.Named); ok {
		if n, ok := ex.typeNames[nt.Obj()]; ok {
			name = n // the registered (possibly function-local) name
		}
	}
	st, err := ex.gl.structOf(t, name, site)
	if err != nil {
		die("%s: the %s argument of type %s cannot be marshalled by encoding/binary: %v", site, what, name, err)
	}
	ex.used[name] = true
	return st, slice
}

// mapish: *ebpf.Map itself ("exact") or a type that carries one by embedding
func mapish(t types.Type, depth int) (exact, embeds bool) {
	if t == nil || depth > 4 {
		return false, false
	}
	if isPtrTo(t, ciliumMap) {
		return true, false
	}
	if p, ok := t.Underlying().(*types.Pointer); ok {
		t = p.Elem()
	}
	if n, ok := t.(*types.Named); ok && n.Obj().Pkg() != nil && n.Obj().Pkg().Path()+"."+n.Obj().Name() == ciliumMap {
		return false, true // a Map VALUE (copied handle)
	}
	if st, ok := t.Underlying().(*types.Struct); ok {
		for i := 0; i < st.NumFields(); i++ {
			if st.Field(i).Embedded() {
				if e, m := mapish(st.Field(i).Type(), depth+1); e || m {
					return false, true
				}
			}
		}
	}
	return false, false
}

// noHandles: a package outside goPkgs must not contain any expression that is (or embeds) a *ebpf.Map
func (ex *goExtractor) noHandles() {
	for _, f := range ex.p.Syntax {
		ast.Inspect(f, func(n ast.Node) bool {
			e, ok := n.(ast.Expr)
			if !ok {
				return true
			}
			if tv, ok := ex.p.TypesInfo.Types[e]; ok {
				if ex1, emb := mapish(tv.Type, 0); ex1 || emb {
					die("%s: package %s is not one of the analysed packages %v but handles a *ebpf.Map (%s): its map uses would be invisible — add the package to goPkgs",
						ex.pos(e), ex.p.PkgPath, goPkgs, types.ExprString(e))
				}
			}
			return true
		})
	}
}

// strictHandles walks EVERY value expression whose type is (or embeds) *ebpf.Map and allows only the contexts the
// translator understands: receiver of a method call on the map, either side of an assignment between *ebpf.Map
// values (a binding), comparison with nil, argument of ringbuf.NewReader / perf.NewReader.  Everything else — a
// method value (`put := m.x.Put`), passing the handle to a function, returning it, storing it in an interface or a
// composite literal, embedding it in a struct — would make uses disappear from the table and is refused loudly.
func (ex *goExtractor) strictHandles() {
	info := ex.p.TypesInfo
	for _, f := range ex.p.Syntax {
		var stack []ast.Node
		ast.Inspect(f, func(n ast.Node) bool {
			if n == nil {
				stack = stack[:len(stack)-1]
				return true
			}
			stack = append(stack, n)
			if ts, ok := n.(*ast.TypeSpec); ok {
				if obj, ok := info.Defs[ts.Name].(*types.TypeName); ok {
					if _, emb := mapish(obj.Type(), 0); emb {
						die("%s: type %s embeds a *ebpf.Map: calls through it are not understood", ex.pos(ts), obj.Name())
					}
				}
			}
			e, ok := n.(ast.Expr)
			if !ok {
				return true
			}
			tv, ok := info.Types[e]
			if !ok || !tv.IsValue() {
				return true
			}
			exact, emb := mapish(tv.Type, 0)
			if emb {
				die("%s: expression %s has type %s which embeds / copies a *ebpf.Map: not understood", ex.pos(e), types.ExprString(e), tv.Type)
			}
			if !exact {
				return true
			}
			if tv.IsNil() {
				return true
			}
			// nearest non-paren parent
			i := len(stack) - 2
			for i >= 0 {
				if _, ok := stack[i].(*ast.ParenExpr); !ok {
					break
				}
				i--
			}
			if i < 0 {
				die("%s: map handle %s outside any statement", ex.pos(e), types.ExprString(e))
			}
			child := stack[i+1]
			isMapOrNil := func(x ast.Expr) bool {
				t, ok := info.Types[x]
				if !ok { // a defining identifier (x := …)
					if id, ok := x.(*ast.Ident); ok {
						if o := info.Defs[id]; o != nil {
							return isPtrTo(o.Type(), ciliumMap)
						}
					}
					return false
				}
				return t.IsNil() || isPtrTo(t.Type, ciliumMap)
			}
			switch par := stack[i].(type) {
			case *ast.SelectorExpr:
				if par.X == child {
					sel := info.Selections[par]
					if sel != nil && sel.Kind() == types.MethodVal {
						// must be called on the spot
						j := i - 1
						for j >= 0 {
							if _, ok := stack[j].(*ast.ParenExpr); !ok {
								break
							}
							j--
						}
						if j >= 0 {
							if c, ok := stack[j].(*ast.CallExpr); ok && ast.Node(c.Fun) == stack[j+1] {
								return true // collectUses classifies the method (unknown ones die there)
							}
						}
						die("%s: method value %s of a *ebpf.Map is not called on the spot: the call would be invisible", ex.pos(par), types.ExprString(par))
					}
				}
				die("%s: selector %s on a map handle is not a method call", ex.pos(par), types.ExprString(par))
			case *ast.AssignStmt:
				for k := range par.Lhs {
					if len(par.Lhs) == len(par.Rhs) && (ast.Node(par.Lhs[k]) == child || ast.Node(par.Rhs[k]) == child) {
						if isMapOrNil(par.Lhs[k]) && isMapOrNil(par.Rhs[k]) {
							return true
						}
						die("%s: map handle %s is assigned to/from a value of another type (interface?): not understood", ex.pos(par), types.ExprString(e))
					}
				}
				die("%s: map handle %s in a multi-value assignment", ex.pos(par), types.ExprString(e))
			case *ast.BinaryExpr:
				if par.Op == token.EQL || par.Op == token.NEQ {
					other := par.X
					if ast.Node(par.X) == child {
						other = par.Y
					}
					if t, ok := info.Types[other]; ok && t.IsNil() {
						return true
					}
				}
				die("%s: map handle %s in a comparison with something other than nil", ex.pos(par), types.ExprString(e))
			case *ast.CallExpr:
				if ast.Node(par.Fun) != child {
					if se, ok := par.Fun.(*ast.SelectorExpr); ok {
						if fn, ok := info.Uses[se.Sel].(*types.Func); ok && fn.Pkg() != nil && fn.Name() == "NewReader" &&
							(fn.Pkg().Path() == "github.com/cilium/ebpf/ringbuf" || fn.Pkg().Path() == "github.com/cilium/ebpf/perf") {
							return true
						}
					}
					die("%s: map handle %s is passed to %s: the callee's uses of the map would be invisible", ex.pos(par), types.ExprString(e), types.ExprString(par.Fun))
				}
				die("%s: call of a map-typed function value %s", ex.pos(par), types.ExprString(e))
			case *ast.IndexExpr:
				// coll.Maps["name"]: the index expression itself is the handle; its parent is judged when visited
				die("%s: indexing a map handle %s", ex.pos(par), types.ExprString(e))
			}
			die("%s: map handle %s is used in a %T (returned, stored in a literal, sent, converted …): not understood", ex.pos(e), types.ExprString(e), stack[i])
			return true
		})
	}
}

func (ex *goExtractor) collectUses() {
	for _, f := range ex.p.Syntax {
		var fn string
		// first pass: iterators
		ast.Inspect(f, func(n ast.Node) bool {
			as, ok := n.(*ast.AssignStmt)
			if !ok || len(as.Lhs) != 1 || len(as.Rhs) != 1 {
				return true
			}
			call, ok := as.Rhs[0].(*ast.CallExpr)
			if !ok {
				return true
			}
			se, ok := call.Fun.(*ast.SelectorExpr)
			if !ok || se.Sel.Name != "Iterate" {
				return true
			}
			rt := ex.p.TypesInfo.TypeOf(se.X)
			if rt == nil || !isPtrTo(rt, ciliumMap) {
				return true
			}
			iv, mv := ex.varOf(as.Lhs[0]), ex.varOf(se.X)
			if iv == nil || mv == nil {
				die("%s: Iterate() on a map handle that is not a plain variable or field", ex.pos(as))
			}
			ex.iters[iv] = mv
			return true
		})
		ast.Inspect(f, func(n ast.Node) bool {
			if d, ok := n.(*ast.FuncDecl); ok {
				fn = d.Name.Name
				if d.Recv != nil && len(d.Recv.List) == 1 {
					fn = types.ExprString(d.Recv.List[0].Type) + "." + fn
				}
				return true
			}
			call, ok := n.(*ast.CallExpr)
			if !ok {
				return true
			}
			se, ok := call.Fun.(*ast.SelectorExpr)
			if !ok {
				return true
			}
			rt := ex.p.TypesInfo.TypeOf(se.X)
			if rt == nil {
				return true
			}
			site := fmt.Sprintf("%s %s", ex.pos(call), fn)
			var mv *types.Var
			var handleExpr ast.Expr = se.X
			op := se.Sel.Name
			switch {
			case isPtrTo(rt, ciliumMap):
				if op == "Iterate" {
					// must have been captured by the iterator pass
					found := false
					for _, m := range ex.iters {
						if m == ex.varOf(se.X) {
							found = true
						}
					}
					if !found {
						die("%s: result of Iterate() is not assigned to a variable", site)
					}
					return true
				}
				if mapMethodsIgnored[op] {
					return true
				}
				if !mapMethodsKV[op] && !mapMethodsK[op] {
					die("%s: method (*ebpf.Map).%s is not understood by the translator", site, op)
				}
				mv = ex.varOf(se.X)
				if mv == nil {
					die("%s: %s on a map expression that is not a plain variable or field", site, op)
				}
			case isPtrTo(rt, ciliumIter):
				if op != "Next" {
					return true
				}
				iv := ex.varOf(se.X)
				mv = ex.iters[iv]
				if mv == nil {
					die("%s: MapIterator.Next on an iterator that cannot be traced to its map", site)
				}
				handleExpr = nil
			default:
				return true
			}
			u := Use{Op: op, Site: site, Map: ex.bind[mv]}
			if handleExpr != nil {
				u.Handle = ex.handleName(mv, handleExpr)
			} else {
				u.Handle = ex.p.Name + "." + mv.Name()
			}
			want := 2
			if mapMethodsK[op] {
				want = 1
			}
			if len(call.Args) < want {
				die("%s: %s with %d arguments", site, op, len(call.Args))
			}
			u.GoKey, _ = ex.argStruct(call.Args[0], "key", site)
			if want == 2 {
				u.GoVal, u.ValSlice = ex.argStruct(call.Args[1], "value", site)
			}
			ex.out.Uses = append(ex.out.Uses, u)
			return true
		})
	}
}

// ---------------------------------------------------------------------------------------------
// Lean emission

func leanStr(s string) string { return strconv.Quote(s) }

func leanField(f Field) string {
	k := ".int"
	switch f.Kind {
	case "bytes":
		k = ".bytes"
	case "arr":
		k = fmt.Sprintf("(.arr %d)", f.Elem)
	}
	return fmt.Sprintf("⟨%s, %s, %d, %d, %s⟩", leanStr(f.Name), leanStr(f.Norm), f.Off, f.Width, k)
}

func leanStruct(s Struct) string {
	var fs []string
	for _, f := range s.Fields {
		fs = append(fs, leanField(f))
	}
	return fmt.Sprintf("{ name := %s, size := %d, fields := [\n      %s] }", leanStr(s.Name), s.Size, strings.Join(fs, ",\n      "))
}

func ident(s string) string {
	r := strings.NewReplacer(".", "_", "[", "_", "]", "_", " ", "_", "*", "P", "(", "_", ")", "_")
	return r.Replace(s)
}

func emitLean(o *Out, cMaps map[string]CMap, cStructs map[string]Struct) string {
	var b strings.Builder
	b.WriteString("/-\n  GENERATED by /verif/harness/cmd/extractlayout from /repo's working tree on every `./check C06`.\n")
	b.WriteString("  Do not edit, do not commit as truth, do not import from Bng.lean / Main.lean.\n-/\n")
	b.WriteString("import Bng.Model.Layout\nset_option maxRecDepth 100000\nnamespace Bng.Gen.Layout\nopen Bng.Layout\n\n")
	b.WriteString("-- ===== C records (clang -fdump-record-layouts, x86-64 = BPF target integer widths, little-endian)\n")
	for _, s := range o.CStructs {
		fmt.Fprintf(&b, "/-- `struct %s` (%s) -/\ndef c_%s : Struct :=\n  %s\n\n", s.Name, s.Where, ident(s.Name), leanStruct(s))
	}
	b.WriteString("def cStructs : List Struct := [")
	for i, s := range o.CStructs {
		if i > 0 {
			b.WriteString(", ")
		}
		b.WriteString("c_" + ident(s.Name))
	}
	b.WriteString("]\n\n-- ===== Go types: encoding/binary image (fields in order, blank fields included, no padding)\n")
	for _, s := range o.GoStructs {
		fmt.Fprintf(&b, "/-- `%s` (%s) -/\ndef go_%s : Struct :=\n  %s\n\n", s.Name, s.Where, ident(s.Name), leanStruct(s))
	}
	b.WriteString("def goStructs : List Struct := [")
	for i, s := range o.GoStructs {
		if i > 0 {
			b.WriteString(", ")
		}
		b.WriteString("go_" + ident(s.Name))
	}
	b.WriteString("]\n\n-- ===== kernel maps declared in bpf/*.c, maps.h\n")
	b.WriteString("def cMaps : List CMap := [\n")
	for i, m := range o.CMaps {
		sep := ","
		if i == len(o.CMaps)-1 {
			sep = ""
		}
		fmt.Fprintf(&b, "  ⟨%s, %s, %d, %d, %d, %s, %s, %d⟩%s\n", leanStr(m.Name), leanStr(m.Type), m.TypeNum, m.KeySize, m.ValSize,
			leanStr(m.KeyType), leanStr(m.ValType), m.Refs, sep)
	}
	b.WriteString("]\n\n")
	scalarOr := func(t string, size int, where string) string {
		if strings.HasPrefix(t, "struct ") {
			return "c_" + ident(strings.TrimPrefix(t, "struct "))
		}
		name := t
		if name == "" {
			name = fmt.Sprintf("<%d raw bytes>", size)
		}
		return leanStruct(scalarStruct(name, size, where))
	}
	goRef := func(s *Struct) string {
		for _, g := range o.GoStructs {
			if g.Name == s.Name {
				return "go_" + ident(g.Name)
			}
		}
		return leanStruct(*s)
	}
	emitUses := func(name string, us []Use, boundOnly bool) {
		fmt.Fprintf(&b, "def %s : List MapUse := [\n", name)
		for i, u := range us {
			sep := ","
			if i == len(us)-1 {
				sep = ""
			}
			m := cMaps[u.Map]
			ck, cv := "{ name := \"?\", size := 0, fields := [] }", "{ name := \"?\", size := 0, fields := [] }"
			if boundOnly {
				ck = scalarOr(m.KeyType, m.KeySize, m.File)
				cv = scalarOr(m.ValType, m.ValSize, m.File)
			}
			gv := "none"
			if u.GoVal != nil {
				gv = "some (" + goRef(u.GoVal) + ")"
			}
			fmt.Fprintf(&b, "  { map := %s, mapType := %s, cKeySize := %d, cValSize := %d, op := %s, site := %s, handle := %s,\n    goKey := %s,\n    goVal := %s, goValSlice := %v,\n    cKey := %s,\n    cVal := %s }%s\n",
				leanStr(u.Map), leanStr(m.Type), m.KeySize, m.ValSize, leanStr(u.Op), leanStr(u.Site), leanStr(u.Handle), goRef(u.GoKey), gv, u.ValSlice, ck, cv, sep)
		}
		b.WriteString("]\n\n")
	}
	b.WriteString("-- ===== every Put/Update/Lookup/Delete/Next on a *ebpf.Map bound to a named kernel map\n")
	emitUses("mapUses", o.Uses, true)
	b.WriteString("-- ===== uses of map handles that are never bound to a kernel map name (no C declaration to compare with)\n")
	emitUses("unboundUses", o.Unbound, false)
	b.WriteString("/-- kernel map names the Go code asks the collection for but no C source declares -/\n")
	fmt.Fprintf(&b, "def missingMaps : List String := [%s]\n\n", joinQuoted(o.MissingMaps))
	b.WriteString("/-- bpf_map_lookup/update/delete_elem calls whose key/value C type differs from the map's declared __type -/\n")
	fmt.Fprintf(&b, "def cAccessMismatches : List String := [%s]\n\n", joinQuoted(o.AccessMismatches))
	b.WriteString("/-- (Go type, C record, transport, map): records the programs emit to user space -/\ndef eventStructs : List EventPair := [\n")
	for i, e := range o.Events {
		sep := ","
		if i == len(o.Events)-1 {
			sep = ""
		}
		fmt.Fprintf(&b, "  { goName := %s, cName := %s, via := %s, map := %s, go := go_%s, c := c_%s }%s\n",
			leanStr(e.GoType), leanStr(e.CStruct), leanStr(e.Via), leanStr(e.Map), ident(e.GoType), ident(e.CStruct), sep)
	}
	b.WriteString("]\n\n/-- every package-level fixed-size struct/array type of pkg/{ebpf,nat,qos,antispoof,walledgarden} -/\n")
	fmt.Fprintf(&b, "def mirrorStructs : List String := [%s]\n\n", joinQuoted(o.Mirrors))
	fmt.Fprintf(&b, "/-- types that occur as a struct-typed member of another mirror -/\ndef nestedStructs : List String := [%s]\n\n", joinQuoted(o.Nested))
	fmt.Fprintf(&b, "/-- every function/method of the module with signature (net.HardwareAddr) uint64 -/\ndef macToU64Funcs : List String := [%s]\n\n", joinQuoted(o.MacToU64))
	fmt.Fprintf(&b, "/-- every function/method of the module with signature (uint64) net.HardwareAddr -/\ndef u64ToMacFuncs : List String := [%s]\n\n", joinQuoted(o.U64ToMac))
	b.WriteString("end Bng.Gen.Layout\n")
	return b.String()
}

func joinQuoted(xs []string) string {
	var q []string
	for _, x := range xs {
		q = append(q, leanStr(x))
	}
	return strings.Join(q, ", ")
}
