// vlan — component `vlan` of property C20; the implementation lives in bngverif/c20/vlan.
package main

import (
	"bngverif/c20/vlan"
	"bngverif/hx"
)

func main() { hx.Main(vlan.Comp{}) }
