// v6pool drives the real dhcpv6.AddressPool and dhcpv6.PrefixPool (pkg/dhcpv6/server.go).
// The constructor line decides which one a sequence is about:
//
//	new <basehex> <ones>        AddressPool  (component v6addr)
//	new <basehex> <ones> <dl>   PrefixPool   (component v6prefix)
//
// The generator emits the kind named by the environment variable V6POOL_KIND (addr|prefix).
//
//	alloc d3 | release d3
//	scribble d3      alias probe: Allocate(d3) exactly like `alloc` (same answer), after which the harness overwrites
//	                 every byte of the value it was handed (the net.IP, or the *net.IPNet's IP and Mask) with 0xa5.  A
//	                 caller owns what it is handed; if the pool's own state changes, the result was an alias of the
//	                 pool's map entry / future free-list entry.  The model treats it as `alloc`.
package main

import (
	"fmt"
	"math/big"
	"math/rand"
	"net"
	"os"
	"strconv"

	"bngverif/flx"
	"bngverif/hx"

	"github.com/codelaboratoryltd/bng/pkg/dhcpv6"
)

type comp struct{}

type geo struct {
	base string // textual, masked
	ones int
	dl   int
}

func (g geo) baseHex() string { return flx.Hex16(net.ParseIP(g.base)) }

func (g geo) newOp(prefix bool) string {
	if prefix {
		return fmt.Sprintf("new %s %d %d", g.baseHex(), g.ones, g.dl)
	}
	return fmt.Sprintf("new %s %d", g.baseHex(), g.ones)
}

var addrSmall = []geo{
	{"2001:db8::f8", 125, 0},                            // 7 addresses
	{"2001:db8::4", 126, 0},                             // 3
	{"fd00::2", 127, 0},                                 // 1
	{"fd00::1", 128, 0},                                 // none
	{"2001:db8:0:1::fff0", 124, 0},                      // 15
	{"ffff:ffff:ffff:ffff:ffff:ffff:ffff:fff8", 125, 0}, // the last addresses of the address space
}

var addrLarge = []geo{
	{"2001:db8:1::", 64, 0},    // capped at 1000
	{"2001:db8::fc00", 118, 0}, // 1023 in the network, 1000 generated
	{"2001:db8::400", 119, 0},  // 511
}

var pfxSmall = []geo{
	{"2001:db8:0:8::", 61, 64},    // 8 prefixes
	{"2001:db8:0:100::", 56, 59},  // 8
	{"2001:db8:ab00::", 40, 42},   // 4, inside one byte
	{"2001:db8::", 47, 48},        // 2
	{"2001:db8:0:4::", 62, 64},    // 4
	{"2001:db8::f8", 125, 128},    // 8 "prefixes" of one address
	{"2001:db8:8000::", 33, 36},   // 8, straddling a byte boundary at the top
	{"2001:db8:0:fe00::", 55, 57}, // 4, index bits straddle the byte boundary 55|56
}

var pfxLarge = []geo{
	{"2001:db8::", 48, 56},    // 256
	{"2001:db8:10::", 44, 56}, // 4096 in the pool, 1000 generated
	{"2001:db8::", 32, 64},    // 2^32, 1000 generated
}

// geometries whose index has 62 or more bits: `1 << indexBits` overflowed Go's int from 63 bits on
// (repaired finding KF-v6prefix-wide)
var pfxWide = []geo{
	{"2001:db8::", 64, 128},
	{"2001:db8::", 64, 127},
	{"2001:db8::", 32, 96},
	{"2001::", 16, 78},
}

// rejected configurations (a delegation length above 128 used to panic)
var pfxBad = []geo{
	{"2001:db8::", 64, 64},
	{"2001:db8::", 64, 56},
	{"2001:db8::", 120, 130},
}

func randOp(r *rand.Rand, subs int) string {
	d := fmt.Sprintf("d%d", 1+r.Intn(subs))
	switch x := r.Intn(100); {
	case x < 50:
		return "alloc " + d
	case x < 60:
		return "scribble " + d
	}
	return "release " + d
}

func tail(subs int) []string {
	var out []string
	for i := 1; i <= subs; i++ {
		out = append(out, fmt.Sprintf("alloc d%d", i))
	}
	return out
}

func (comp) Gen(r *rand.Rand, tier string, emit func([]string)) {
	prefix := os.Getenv("V6POOL_KIND") == "prefix"
	small, large := addrSmall, addrLarge
	if prefix {
		small, large = pfxSmall, pfxLarge
	}
	nSmall, nLarge := 1200, 6
	if tier == "thorough" {
		nSmall, nLarge = 25000, 60
	}
	for i := 0; i < nSmall; i++ {
		g := small[r.Intn(len(small))]
		subs := 2 + r.Intn(9)
		seq := []string{g.newOp(prefix)}
		for j, n := 0, 3+r.Intn(30); j < n; j++ {
			seq = append(seq, randOp(r, subs))
		}
		emit(append(seq, tail(subs)...))
	}
	for i := 0; i < nLarge; i++ {
		g := large[r.Intn(len(large))]
		subs := 300 + r.Intn(1200)
		seq := []string{g.newOp(prefix)}
		for j := 0; j < 2500; j++ {
			seq = append(seq, randOp(r, subs))
		}
		emit(seq)
	}
	if prefix {
		for _, g := range pfxWide {
			emit([]string{g.newOp(true), "alloc d1", "alloc d2", "release d1", "alloc d3"})
		}
		for _, g := range pfxBad {
			emit([]string{g.newOp(true), "alloc d1"})
		}
	}
	if tier == "thorough" {
		exhaustive(prefix, emit)
	}
}

// exhaustive: every alloc/release sequence over 3 clients to depth 6 on the larger and depth 7 on the
// smaller of two tiny pools
func exhaustive(prefix bool, emit func([]string)) {
	gs := []geo{addrSmall[1], addrSmall[2]}
	if prefix {
		gs = []geo{pfxSmall[4], pfxSmall[3]}
	}
	for gi, g := range gs {
		var alpha []string
		for s := 1; s <= 3; s++ {
			alpha = append(alpha, fmt.Sprintf("alloc d%d", s), fmt.Sprintf("release d%d", s))
		}
		var rec func(p []string, depth int)
		rec = func(p []string, depth int) {
			if depth == 0 {
				seq := append([]string{g.newOp(prefix)}, p...)
				emit(append(seq, tail(4)...))
				return
			}
			for _, x := range alpha {
				rec(append(p[:len(p):len(p)], x), depth-1)
			}
		}
		rec(nil, 6+gi) // depth 6 on the larger pool, depth 7 on the smaller
	}
	// the alias probe in every position: 2 clients x {alloc, scribble, release} to depth 6 on the smaller pool
	g := gs[1]
	var alpha []string
	for s := 1; s <= 2; s++ {
		alpha = append(alpha, fmt.Sprintf("alloc d%d", s), fmt.Sprintf("scribble d%d", s), fmt.Sprintf("release d%d", s))
	}
	var rec func(p []string, depth int)
	rec = func(p []string, depth int) {
		if depth == 0 {
			seq := append([]string{g.newOp(prefix)}, p...)
			emit(append(seq, tail(3)...))
			return
		}
		for _, x := range alpha {
			rec(append(p[:len(p):len(p)], x), depth-1)
		}
	}
	rec(nil, 6)
}

type run struct {
	ap *dhcpv6.AddressPool
	pp *dhcpv6.PrefixPool
}

func (comp) NewRun() hx.Run { return &run{} }
func (r *run) Close()       {}

func (r *run) construct(f []string) (obs string) {
	base, ok := flx.IP16(f[1])
	ones, err := strconv.Atoi(f[2])
	if !ok || err != nil {
		return "badop"
	}
	cidr := fmt.Sprintf("%s/%d", base, ones)
	if len(f) == 3 {
		p, err := dhcpv6.NewAddressPool(cidr, 3600, 7200)
		if err != nil {
			return "invalid"
		}
		r.ap = p
		return "ok"
	}
	dl, err := strconv.Atoi(f[3])
	if err != nil || dl < 0 || dl > 255 {
		return "badop"
	}
	defer func() {
		if e := recover(); e != nil {
			obs = "panic"
		}
	}()
	p, err := dhcpv6.NewPrefixPool(cidr, uint8(dl), 3600, 7200)
	if err != nil {
		return "invalid"
	}
	r.pp = p
	return "ok"
}

func (r *run) Do(op string) string {
	f := hx.Fields(op)
	if f[0] == "new" {
		if len(f) != 3 && len(f) != 4 {
			return "badop"
		}
		r.ap, r.pp = nil, nil
		return r.construct(f)
	}
	if len(f) != 2 || len(f[1]) < 2 || f[1][0] != 'd' {
		return "badop"
	}
	if _, err := strconv.Atoi(f[1][1:]); err != nil {
		return "badop"
	}
	duid := "duid-" + f[1][1:]
	switch {
	case r.ap != nil && (f[0] == "alloc" || f[0] == "scribble"):
		ip := r.ap.Allocate(duid)
		if ip == nil {
			return "exhausted"
		}
		obs := "ok " + flx.Hex16(ip)
		if f[0] == "scribble" {
			for i := range ip {
				ip[i] = 0xa5
			}
		}
		return obs
	case r.ap != nil && f[0] == "release":
		r.ap.Release(duid)
		return "ok"
	case r.pp != nil && (f[0] == "alloc" || f[0] == "scribble"):
		n := r.pp.Allocate(duid)
		if n == nil {
			return "exhausted"
		}
		ones, _ := n.Mask.Size()
		obs := fmt.Sprintf("ok %s/%d", new(big.Int).SetBytes(n.IP.To16()).Text(16), ones)
		if f[0] == "scribble" {
			for i := range n.IP {
				n.IP[i] = 0xa5
			}
			for i := range n.Mask {
				n.Mask[i] = 0xa5
			}
		}
		return obs
	case r.pp != nil && f[0] == "release":
		r.pp.Release(duid)
		return "ok"
	}
	return "badop"
}

func main() { hx.Main(comp{}) }
