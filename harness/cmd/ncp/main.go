// ncp — drives the REAL pppoe.LCPStateMachine / IPCPStateMachine / IPV6CPStateMachine (property C11).
//
// The machine is selected with NCP_PROTO=lcp|ipcp|ipv6cp.  One op = one event; the observation is the state
// reported by GetState() after the event, whether a restart-timer instance is armed, whether ReceivePacket
// returned an error, and the packets handed to the send callback (see lean/Bng/Drv/Ncp.lean for the syntax).
//
// Time: the restart timer is configured to one hour, so the runtime never fires it; `timeout` delivers the
// expiry of the armed instance through the verif hook VerifTimeout() (only if an instance is armed and has not
// fired), `stale` runs the callback although the instance was stopped or replaced — the time.AfterFunc-vs-Stop
// race.  Random values (magic numbers, interface identifiers) are printed symbolically: `o` = the automaton's own
// current value, `*` = freshly drawn.
package main

import (
	"bytes"
	"encoding/binary"
	"encoding/hex"
	"fmt"
	"math/rand"
	"net"
	"os"
	"strconv"
	"strings"
	"time"

	"bngverif/hx"

	"github.com/codelaboratoryltd/bng/pkg/pppoe"
	"go.uber.org/zap"
)

var proto = func() string {
	p := os.Getenv("NCP_PROTO")
	if p == "" {
		p = "lcp"
	}
	return p
}()

// ---------------------------------------------------------------- adapters

type machine interface {
	Up()
	Down()
	Open()
	Close()
	ReceivePacket([]byte) error
	VerifTimeout()
	VerifTimer() *time.Timer
	VerifLastID() uint8
	VerifFingerprint() string
	State() string
	Ours() []byte // the value a looped-back option would carry (nil if the protocol has none)
}

type lcpM struct{ *pppoe.LCPStateMachine }

func (m lcpM) State() string { return m.GetState().String() }
func (m lcpM) Ours() []byte {
	b := make([]byte, 4)
	binary.BigEndian.PutUint32(b, m.VerifMagic())
	return b
}

type ipcpM struct{ *pppoe.IPCPStateMachine }

func (m ipcpM) State() string { return m.GetState().String() }
func (m ipcpM) Ours() []byte  { return nil }

type ipv6cpM struct{ *pppoe.IPV6CPStateMachine }

func (m ipv6cpM) State() string { return m.GetState().String() }
func (m ipv6cpM) Ours() []byte {
	b := make([]byte, 8)
	binary.BigEndian.PutUint64(b, m.VerifInterfaceID())
	return b
}

// symbolic option type and its length, per protocol
func symOpt() (uint8, int) {
	switch proto {
	case "lcp":
		return pppoe.LCPOptMagicNumber, 4
	case "ipv6cp":
		return pppoe.IPV6CPOptInterfaceID, 8
	}
	return 0, -1
}

// ---------------------------------------------------------------- one run

type run struct {
	m     machine
	sent  [][]byte
	fired *time.Timer // the instance whose expiry was already delivered
	subst []byte      // what `o` stood for in the request being processed
	req   []byte      // option bytes of the Configure-Request being processed (nil: none)
	cbs   []string    // invocations of the onStateChange callback during the op
	pool  *fakePool
	// what the explorer knows about config.PeerIP: the last SetPeerIP / pool call
	peerNote string
}

// fakePool is a scripted pppoe.IPPoolAllocator: the answer to Allocate is a parameter of the run (op `pool <hex|->`),
// every call is part of the observation.
type fakePool struct {
	next  net.IP
	calls []string
}

func (p *fakePool) Allocate(string) net.IP {
	if p.next == nil {
		p.calls = append(p.calls, "A-")
		return nil
	}
	p.calls = append(p.calls, "A"+hex.EncodeToString(p.next.To4()))
	return append(net.IP(nil), p.next...)
}

func (p *fakePool) Release(string) { p.calls = append(p.calls, "R") }

func (r *run) Close() {
	if r.m != nil {
		if t := r.m.VerifTimer(); t != nil {
			t.Stop()
		}
	}
}

func kv(toks []string, k string) (string, bool) {
	for _, t := range toks {
		if strings.HasPrefix(t, k+"=") {
			return t[len(k)+1:], true
		}
	}
	return "", false
}

func ipOf(toks []string, k string) net.IP {
	v, ok := kv(toks, k)
	if !ok || v == "-" {
		return nil
	}
	b, err := hex.DecodeString(v)
	if err != nil || len(b) != 4 {
		return nil
	}
	return net.IP(b)
}

func (r *run) construct(toks []string) string {
	if len(toks) < 2 {
		return "badop"
	}
	mc, err := strconv.Atoi(toks[1])
	if err != nil {
		return "badop"
	}
	send := func(p uint16, data []byte) {
		want := map[string]uint16{"lcp": pppoe.ProtocolLCP, "ipcp": pppoe.ProtocolIPCP, "ipv6cp": pppoe.ProtocolIPv6CP}[proto]
		if p != want {
			r.sent = append(r.sent, []byte{0xff, 0, 0, 4}) // printed as C255: a packet under the wrong protocol number
			return
		}
		r.sent = append(r.sent, append([]byte(nil), data...))
	}
	lg := zap.NewNop()
	switch proto {
	case "lcp":
		c := pppoe.DefaultLCPConfig()
		c.MagicNumber = 0x5eed1e55
		c.MaxConfigure = mc
		c.RestartTimer = time.Hour
		if v, _ := kv(toks, "pfc"); v == "1" {
			c.PFC = true
		}
		if v, _ := kv(toks, "acfc"); v == "1" {
			c.ACFC = true
		}
		if v, ok := kv(toks, "auth"); ok && v == "c22305" {
			c.AuthProtocol = pppoe.ProtocolCHAP
		}
		m, err := pppoe.NewLCPStateMachine(c, send, lg)
		if err != nil {
			return "error"
		}
		m.SetOnStateChange(func(o, n pppoe.LCPState) { r.cbs = append(r.cbs, o.String()+">"+n.String()) })
		r.m = lcpM{m}
	case "ipcp":
		c := pppoe.DefaultIPCPConfig()
		c.MaxRetransmit = mc
		c.RestartTimer = time.Hour
		c.LocalIP = ipOf(toks, "local")
		c.PeerIP = ipOf(toks, "peer")
		c.PrimaryDNS = ipOf(toks, "dns1")
		c.SecondaryDNS = ipOf(toks, "dns2")
		if v, _ := kv(toks, "pool"); v == "1" {
			r.pool = &fakePool{}
			c.IPPool = r.pool
		}
		im := pppoe.NewIPCPStateMachine(c, "sess-1", send, lg)
		im.SetOnStateChange(func(o, n pppoe.IPCPState) { r.cbs = append(r.cbs, o.String()+">"+n.String()) })
		r.m = ipcpM{im}
	case "ipv6cp":
		c := pppoe.IPV6CPConfig{LocalInterfaceID: 0x0200005eed1e5501, MaxRetransmit: mc, RestartTimer: time.Hour}
		m, err := pppoe.NewIPV6CPStateMachine(c, send, lg)
		if err != nil {
			return "error"
		}
		m.SetOnStateChange(func(o, n pppoe.IPV6CPState) { r.cbs = append(r.cbs, o.String()+">"+n.String()) })
		r.m = ipv6cpM{m}
	default:
		return "badop"
	}
	return "ok"
}

func (r *run) armed() bool {
	t := r.m.VerifTimer()
	return t != nil && t != r.fired
}

// options: `-` or `tt:hex,tt:o,tt:-`
func (r *run) buildOpts(s string) ([]byte, bool) {
	if s == "-" {
		return nil, true
	}
	var out []byte
	for _, it := range strings.Split(s, ",") {
		p := strings.SplitN(it, ":", 2)
		if len(p) != 2 {
			return nil, false
		}
		ty, err := strconv.ParseUint(p[0], 16, 8)
		if err != nil {
			return nil, false
		}
		var data []byte
		switch p[1] {
		case "-":
		case "o":
			data = r.m.Ours()
			if data == nil {
				return nil, false
			}
			r.subst = data
		default:
			data, err = hex.DecodeString(p[1])
			if err != nil {
				return nil, false
			}
		}
		out = append(out, byte(ty), byte(2+len(data)))
		out = append(out, data...)
	}
	return out, true
}

func pkt(code, id uint8, data []byte) []byte {
	b := make([]byte, 4+len(data))
	b[0], b[1] = code, id
	binary.BigEndian.PutUint16(b[2:4], uint16(4+len(data)))
	copy(b[4:], data)
	return b
}

func (r *run) id(tok string) (uint8, bool) {
	switch tok {
	case "m":
		return r.m.VerifLastID(), true
	case "s":
		return r.m.VerifLastID() - 1, true
	}
	n, err := strconv.Atoi(tok)
	if err != nil || n < 0 || n > 255 {
		return 0, false
	}
	return uint8(n), true
}

var badOpts = []byte{0x01, 0x01} // option length < 2: ParseLCPOptions fails

func (r *run) Do(op string) string {
	toks := hx.Fields(op)
	if len(toks) == 0 {
		return "badop"
	}
	if toks[0] == "new" {
		return r.construct(toks)
	}
	if r.m == nil {
		return "badop"
	}
	r.sent = nil
	r.subst = nil
	r.req = nil
	r.cbs = nil
	if r.pool != nil {
		r.pool.calls = nil
	}
	var err error
	recv := func(code uint8, idTok string, data []byte) bool {
		id, ok := r.id(idTok)
		if !ok {
			return false
		}
		err = r.m.ReceivePacket(pkt(code, id, data))
		return true
	}
	withOpts := func(code uint8) bool {
		if len(toks) != 3 {
			return false
		}
		data, ok := r.buildOpts(toks[2])
		return ok && recv(code, toks[1], data)
	}
	ok := true
	switch toks[0] {
	case "up":
		r.m.Up()
	case "down":
		r.m.Down()
	case "open":
		r.m.Open()
	case "close":
		r.m.Close()
	case "timeout":
		if r.armed() {
			r.fired = r.m.VerifTimer()
			r.m.VerifTimeout()
		}
	case "stale":
		r.m.VerifTimeout()
	case "sendecho":
		if l, isL := r.m.(lcpM); isL {
			l.SendEchoRequest()
		}
	case "sendprotorej":
		if l, isL := r.m.(lcpM); isL {
			l.SendProtocolReject(0x8035, []byte{1, 2})
		}
	case "rcr":
		if len(toks) != 3 {
			return "badop"
		}
		spec, trail := strings.CutSuffix(toks[2], "+trail")
		data, good := r.buildOpts(spec)
		if !good {
			return "badop"
		}
		if trail {
			data = append(data, 0x00) // one stray byte after the last option
		}
		if data == nil {
			data = []byte{}
		}
		r.req = data
		ok = recv(pppoe.LCPCodeConfigRequest, toks[1], data)
	case "setpeer":
		im, isI := r.m.(ipcpM)
		if len(toks) != 2 || !isI {
			return "badop"
		}
		r.peerNote = "S" + toks[1]
		if toks[1] == "-" {
			im.SetPeerIP(nil)
		} else {
			b, e := hex.DecodeString(toks[1])
			if e != nil || len(b) != 4 {
				return "badop"
			}
			im.SetPeerIP(net.IP(b))
		}
	case "pool":
		if len(toks) != 2 || r.pool == nil {
			return "badop"
		}
		if toks[1] == "-" {
			r.pool.next = nil
		} else {
			b, e := hex.DecodeString(toks[1])
			if e != nil || len(b) != 4 {
				return "badop"
			}
			r.pool.next = net.IP(b)
		}
	case "isopened":
		type opened interface{ IsOpened() bool }
		var o opened
		switch v := r.m.(type) {
		case lcpM:
			o = v.LCPStateMachine
		case ipcpM:
			o = v.IPCPStateMachine
		case ipv6cpM:
			o = v.IPV6CPStateMachine
		}
		return fmt.Sprintf("%v %s", o.IsOpened(), r.m.State())
	case "echoshort":
		ok = len(toks) == 2 && recv(pppoe.LCPCodeEchoRequest, toks[1], []byte{0xaa, 0xbb})
	case "rcn":
		ok = withOpts(pppoe.LCPCodeConfigNak)
	case "rcj":
		ok = withOpts(pppoe.LCPCodeConfigReject)
	case "rcrbad":
		ok = len(toks) == 2 && recv(pppoe.LCPCodeConfigRequest, toks[1], badOpts)
	case "rcnbad":
		ok = len(toks) == 2 && recv(pppoe.LCPCodeConfigNak, toks[1], badOpts)
	case "rcjbad":
		ok = len(toks) == 2 && recv(pppoe.LCPCodeConfigReject, toks[1], badOpts)
	case "rca":
		// a Configure-Ack repeats the options of our request; the automata never look at them
		ok = len(toks) == 2 && recv(pppoe.LCPCodeConfigAck, toks[1], nil)
	case "rtr":
		ok = len(toks) == 2 && recv(pppoe.LCPCodeTermRequest, toks[1], nil)
	case "rta":
		ok = len(toks) == 2 && recv(pppoe.LCPCodeTermAck, toks[1], nil)
	case "coderej":
		if len(toks) != 3 {
			return "badop"
		}
		var data []byte
		if toks[2] != "-" {
			c, e := strconv.Atoi(toks[2])
			if e != nil || c < 0 || c > 255 {
				return "badop"
			}
			data = []byte{byte(c), 1, 0, 4}
		}
		ok = recv(pppoe.LCPCodeCodeReject, toks[1], data)
	case "protorej":
		if len(toks) != 3 {
			return "badop"
		}
		var data []byte
		if toks[2] != "-" {
			p, e := strconv.ParseUint(toks[2], 16, 16)
			if e != nil {
				return "badop"
			}
			data = []byte{byte(p >> 8), byte(p), 1, 1, 0, 4}
		}
		ok = recv(pppoe.LCPCodeProtoReject, toks[1], data)
	case "echoreq":
		if len(toks) != 3 {
			return "badop"
		}
		data := []byte{0xaa, 0xbb, 0xcc, 0xdd} // the peer's magic number
		if toks[2] != "-" {
			d, e := hex.DecodeString(toks[2])
			if e != nil {
				return "badop"
			}
			data = append(data, d...)
		}
		ok = recv(pppoe.LCPCodeEchoRequest, toks[1], data)
	case "other":
		if len(toks) != 3 {
			return "badop"
		}
		c, e := strconv.Atoi(toks[1])
		if e != nil || c < 0 || c > 255 {
			return "badop"
		}
		ok = recv(uint8(c), toks[2], nil)
	default:
		return "badop"
	}
	if !ok {
		return "badop"
	}
	return r.observe(err)
}

var codeNames = map[uint8]string{1: "CR", 2: "CA", 3: "CN", 4: "CJ", 5: "TR", 6: "TA", 7: "XJ", 8: "PJ", 9: "EQ", 10: "ER"}

func (r *run) observe(err error) string {
	t, e := 0, 0
	if r.armed() {
		t = 1
	}
	if err != nil {
		e = 1
	}
	var ps []string
	for _, p := range r.sent {
		ps = append(ps, r.showPkt(p))
	}
	pk := "-"
	if len(ps) > 0 {
		pk = strings.Join(ps, ";")
	}
	// does every Configure-Ack repeat the BYTES of the request's options?
	b := 1
	for _, p := range r.sent {
		if len(p) >= 4 && p[0] == pppoe.LCPCodeConfigAck && (r.req == nil || !bytes.Equal(p[4:], r.req)) {
			b = 0
		}
	}
	pl, cb := "-", "-"
	if r.pool != nil && len(r.pool.calls) > 0 {
		pl = strings.Join(r.pool.calls, ",")
		r.peerNote = r.pool.calls[len(r.pool.calls)-1]
	}
	if len(r.cbs) > 0 {
		cb = strings.Join(r.cbs, ",")
	}
	return fmt.Sprintf("%s t=%d e=%d b=%d p=%s cb=%s %s", r.m.State(), t, e, b, pl, cb, pk)
}

func (r *run) showPkt(b []byte) string {
	p, err := pppoe.ParseLCPPacket(b)
	if err != nil {
		return "unparsable"
	}
	name, ok := codeNames[p.Code]
	if !ok {
		name = fmt.Sprintf("C%d", p.Code)
	}
	body := "-"
	switch p.Code {
	case 1, 2, 3, 4:
		opts, err := pppoe.ParseLCPOptions(p.Data)
		if err != nil {
			body = "unparsable"
			break
		}
		symTy, symLen := symOpt()
		var items []string
		for _, o := range opts {
			v := "-"
			if len(o.Data) > 0 {
				v = hex.EncodeToString(o.Data)
			}
			if o.Type == symTy && len(o.Data) == symLen {
				switch p.Code {
				case 1:
					if bytes.Equal(o.Data, r.m.Ours()) {
						v = "o"
					}
				case 3:
					v = "*"
				default:
					if r.subst != nil && bytes.Equal(o.Data, r.subst) {
						v = "o"
					}
				}
			}
			items = append(items, fmt.Sprintf("%02x:%s", o.Type, v))
		}
		if len(items) > 0 {
			body = strings.Join(items, ",")
		}
	case 10:
		// Echo-Reply: our magic number, then the request's payload
		if len(p.Data) < 4 || !bytes.Equal(p.Data[:4], r.m.Ours()) {
			body = "badmagic"
		} else if len(p.Data) > 4 {
			body = hex.EncodeToString(p.Data[4:])
		}
	}
	return fmt.Sprintf("%s/%d/%s", name, p.Identifier, body)
}

// ---------------------------------------------------------------- generator

type comp struct{}

func (comp) NewRun() hx.Run { return &run{} }

type cfgT struct {
	line     string
	peer     string // ipcp: assigned address (hex) or ""
	dns1set  bool
	dns2set  bool
	lcpExtra bool
	pool     bool
}

func configs(r *rand.Rand) cfgT {
	mc := 1 + r.Intn(3)
	switch proto {
	case "lcp":
		auth := "c023"
		if r.Intn(3) == 0 {
			auth = "c22305"
		}
		return cfgT{line: fmt.Sprintf("new %d pfc=%d acfc=%d auth=%s", mc, r.Intn(2), r.Intn(2), auth), lcpExtra: true}
	case "ipcp":
		if r.Intn(8) == 0 {
			mc = 0 // MaxRetransmit 0 means 10
		}
		c := cfgT{}
		peer, d1, d2, local := "-", "-", "-", "0a000001"
		if r.Intn(3) != 0 {
			peer = "0a000064"
			c.peer = peer
		}
		if r.Intn(2) == 0 {
			d1 = "08080808"
			c.dns1set = true
		}
		if r.Intn(2) == 0 {
			d2 = "08080404"
			c.dns2set = true
		}
		if r.Intn(6) == 0 {
			local = "-"
		}
		c.line = fmt.Sprintf("new %d local=%s peer=%s dns1=%s dns2=%s", mc, local, peer, d1, d2)
		if r.Intn(2) == 0 {
			c.pool = true
			c.line += " pool=1"
		}
		return c
	default:
		if r.Intn(8) == 0 {
			mc = 0
		}
		return cfgT{line: fmt.Sprintf("new %d", mc)}
	}
}

func pick(r *rand.Rand, xs []string) string { return xs[r.Intn(len(xs))] }

// option pools by the class the implementation is expected to put them in
func pools(c cfgT) (ack, nak, rej []string) {
	switch proto {
	case "lcp":
		ack = []string{"01:05d4", "01:0040", "01:0578", "05:1a2b3c4d", "05:00000001", "07:-", "08:-"}
		nak = []string{"01:003f", "01:05d5", "01:ffff", "01:0000", "05:00000000", "05:o"}
		rej = []string{"03:c023", "03:c22305", "03:c0", "01:05", "01:05d400", "05:010203", "07:01", "08:0000", "0d:01", "00:-", "ff:aabb"}
	case "ipcp":
		if c.peer != "" {
			ack = append(ack, "03:"+c.peer)
			nak = append(nak, "03:00000000", "03:0a000065", "03:c0a80001")
		} else {
			// unassigned: the zero address is rejected; a specific address must not be acknowledged (D37)
			rej = append(rej, "03:00000000", "03:0a000065", "03:c0a80001")
		}
		ack = append(ack, "81:01010101", "83:09090909")
		if c.dns1set {
			nak = append(nak, "81:00000000")
		} else {
			ack = append(ack, "81:00000000")
		}
		if c.dns2set {
			nak = append(nak, "83:00000000")
		} else {
			ack = append(ack, "83:00000000")
		}
		rej = append(rej, "02:002d0f01", "03:0a0000", "03:-", "81:0808", "83:0808080808", "01:0a0000010a000002", "82:01010101", "00:-")
	default:
		ack = []string{"01:0200000000000001", "01:a1b2c3d4e5f60718"}
		nak = []string{"01:0000000000000000", "01:o"}
		rej = []string{"01:00000001", "01:-", "01:010203040506070809", "02:0001", "03:0a000001", "00:-"}
	}
	return
}

func someOf(r *rand.Rand, xs []string, min, max int) []string {
	n := min
	if max > min {
		n += r.Intn(max - min + 1)
	}
	var out []string
	for i := 0; i < n && len(xs) > 0; i++ {
		out = append(out, pick(r, xs))
	}
	return out
}

func join(xs []string) string {
	if len(xs) == 0 {
		return "-"
	}
	return strings.Join(xs, ",")
}

func shuffle(r *rand.Rand, xs []string) []string {
	r.Shuffle(len(xs), func(i, j int) { xs[i], xs[j] = xs[j], xs[i] })
	return xs
}

// event classes of the property's alphabet; each call draws fresh option contents / identifiers
func alphabet(c cfgT) []func(r *rand.Rand) string {
	ack, nak, rej := pools(c)
	id := func(r *rand.Rand) int { return []int{0, 1, 2, 3, 7, 200, 255}[r.Intn(7)] }
	evs := []func(r *rand.Rand) string{
		func(*rand.Rand) string { return "up" },
		func(*rand.Rand) string { return "down" },
		func(*rand.Rand) string { return "open" },
		func(*rand.Rand) string { return "close" },
		func(*rand.Rand) string { return "timeout" },
		func(*rand.Rand) string { return "stale" },
		func(r *rand.Rand) string { return fmt.Sprintf("rcr %d %s", id(r), join(someOf(r, ack, 0, 3))) },
		func(r *rand.Rand) string {
			if len(nak) == 0 {
				return fmt.Sprintf("rcr %d %s", id(r), join(someOf(r, ack, 0, 2)))
			}
			return fmt.Sprintf("rcr %d %s", id(r), join(shuffle(r, append(someOf(r, ack, 0, 2), someOf(r, nak, 1, 2)...))))
		},
		func(r *rand.Rand) string {
			return fmt.Sprintf("rcr %d %s", id(r), join(shuffle(r, append(append(someOf(r, ack, 0, 2), someOf(r, nak, 0, 1)...), someOf(r, rej, 1, 2)...))))
		},
		func(r *rand.Rand) string { return fmt.Sprintf("rcrbad %d", id(r)) },
		func(*rand.Rand) string { return "rca m" },
		func(r *rand.Rand) string { return "rca " + pick(r, []string{"s", "s", "0", "9", "255"}) },
		func(r *rand.Rand) string {
			return "rcn m " + join(someOf(r, append(append([]string{}, ack...), nak...), 0, 2))
		},
		func(r *rand.Rand) string {
			return "rcn " + pick(r, []string{"s", "9"}) + " " + join(someOf(r, ack, 0, 1))
		},
		func(r *rand.Rand) string {
			return "rcj m " + join(someOf(r, append(append([]string{}, ack...), rej...), 0, 2))
		},
		func(r *rand.Rand) string {
			return "rcj " + pick(r, []string{"s", "9"}) + " " + join(someOf(r, ack, 0, 1))
		},
		func(r *rand.Rand) string { return pick(r, []string{"rcnbad m", "rcjbad m", "rcnbad s", "rcjbad s"}) },
		func(r *rand.Rand) string { return fmt.Sprintf("rtr %d", id(r)) },
		func(r *rand.Rand) string { return fmt.Sprintf("rta %d", id(r)) },
		func(r *rand.Rand) string {
			return fmt.Sprintf("coderej %d %s", id(r), pick(r, []string{"1", "2", "3", "4"}))
		},
		func(r *rand.Rand) string {
			return fmt.Sprintf("coderej %d %s", id(r), pick(r, []string{"0", "5", "9", "-"}))
		},
		func(r *rand.Rand) string { return fmt.Sprintf("protorej %d c021", id(r)) },
		func(r *rand.Rand) string {
			return fmt.Sprintf("protorej %d %s", id(r), pick(r, []string{"8021", "c023", "-"}))
		},
		func(r *rand.Rand) string {
			return fmt.Sprintf("echoreq %d %s", id(r), pick(r, []string{"-", "01", "deadbeef"}))
		},
		func(r *rand.Rand) string {
			return fmt.Sprintf("other %s %d", pick(r, []string{"10", "11", "12", "0", "255"}), id(r))
		},
	}
	evs = append(evs,
		func(*rand.Rand) string { return "isopened" },
		func(r *rand.Rand) string { return fmt.Sprintf("echoshort %d", id(r)) },
		func(r *rand.Rand) string {
			return fmt.Sprintf("rcr %d %s+trail", id(r), join(someOf(r, ack, 0, 2)))
		})
	if c.lcpExtra {
		evs = append(evs,
			func(*rand.Rand) string { return "sendecho" },
			func(*rand.Rand) string { return "sendprotorej" })
	}
	if proto == "ipcp" {
		// a repeated IP-Address option: first the (probably) assigned address, then another one or a malformed one
		first := []string{"0a000064", "0a000065", "c0a80001"}
		if c.peer != "" {
			first = []string{c.peer, c.peer, "0a000065"}
		}
		second := []string{"0a000065", "c0a80001", "0a000064", "00000000", "0a0000", "-"}
		evs = append(evs, func(r *rand.Rand) string {
			opts := []string{"03:" + pick(r, first), "03:" + pick(r, second)}
			if r.Intn(3) == 0 {
				opts = append(opts, pick(r, ack))
			}
			return fmt.Sprintf("rcr %d %s", id(r), join(opts))
		})
		addrs := []string{"0a000064", "0a000065", "c0a80001", "-"}
		evs = append(evs, func(r *rand.Rand) string { return "setpeer " + pick(r, addrs) })
		if c.pool {
			evs = append(evs, func(r *rand.Rand) string { return "pool " + pick(r, addrs) })
		}
	}
	return evs
}

// execute a prefix on a fresh machine and return the explorer's fingerprint of the state reached
func fingerprint(seq []string) string {
	rn := &run{}
	defer rn.Close()
	last := ""
	for _, op := range seq {
		last = hx.SafeDo(rn, op)
	}
	if rn.m == nil || strings.HasPrefix(last, "panic") {
		return "dead:" + last
	}
	f := strings.Split(rn.m.VerifFingerprint(), "/")
	if len(f) > 2 {
		if d, err := strconv.Atoi(f[2]); err == nil && d > 2 {
			f[2] = "2+" // identifier - lastIdentifier grows without bound; the explorer only needs 0, 1, many
		}
	}
	extra := ""
	if rn.pool != nil {
		extra = "|pool=" + rn.pool.next.String() + "|" + rn.peerNote
	}
	return fmt.Sprintf("%s|t=%v%s|%s", strings.Join(f, "/"), rn.armed(), extra, rn.peerNote)
}

func (comp) Gen(r *rand.Rand, tier string, emit func(seq []string)) {
	walks, wlen := 600, 40
	if tier == "thorough" {
		walks, wlen = 5000, 70
	}
	prefixes := [][]string{
		{}, {"open", "up"}, {"up", "open"},
		{"open", "up", "rcr 1 -"}, {"open", "up", "rca m"},
		{"open", "up", "rcr 1 -", "rca m"}, {"open", "up", "rca m", "rcr 1 -"},
		// Terminate-Request unanswered, re-opened: Stopping with a positive restart counter
		{"open", "up", "close", "open"}, {"open", "up", "rcr 1 -", "rca m", "close", "open"},
		{"open", "up", "rcr 1 -", "close", "open"}, {"open", "up", "close"},
	}
	for i := 0; i < walks; i++ {
		c := configs(r)
		al := alphabet(c)
		seq := []string{c.line}
		seq = append(seq, prefixes[r.Intn(len(prefixes))]...)
		n := 4 + r.Intn(wlen)
		if i%3 == 0 {
			n = r.Intn(4) // short body, long silence: the tail below decides
		}
		for j := 0; j < n; j++ {
			seq = append(seq, al[r.Intn(len(al))](r))
		}
		// the peer falls silent: nothing but expiries of the restart timer (more than any configured retry count)
		if i%3 != 2 {
			for j := 0; j < 5; j++ {
				seq = append(seq, "timeout")
			}
		}
		emit(seq)
	}
	// breadth-first exploration of the real automaton with state fingerprinting, to a fixed point or depth 8,
	// over a fixed list of configurations (quick: two of them, chosen by the seed; thorough: all)
	depth, maxNodes := 8, 300
	cfgs := fixedConfigs()
	if tier == "thorough" {
		maxNodes = 6000
	} else {
		r.Shuffle(len(cfgs), func(i, j int) { cfgs[i], cfgs[j] = cfgs[j], cfgs[i] })
		cfgs = cfgs[:2]
	}
	for _, c := range cfgs {
		al := alphabet(c)
		seen := map[string]bool{}
		frontier := [][]string{{c.line}}
		seen[fingerprint(frontier[0])] = true
		nodes := 1
		for d := 0; d < depth && len(frontier) > 0; d++ {
			var next [][]string
			for _, pre := range frontier {
				for _, ev := range al {
					seq := append(append([]string{}, pre...), ev(r))
					emit(seq)
					fp := fingerprint(seq)
					if !seen[fp] && nodes < maxNodes {
						seen[fp] = true
						nodes++
						next = append(next, seq)
					}
				}
			}
			frontier = next
		}
		fmt.Fprintf(os.Stderr, "ncp/%s bfs: config %q: %d fingerprints, frontier left %d\n", proto, c.line, nodes, len(frontier))
	}
}

// the configurations explored breadth-first
func fixedConfigs() []cfgT {
	var out []cfgT
	switch proto {
	case "lcp":
		for _, l := range []string{"new 1 pfc=0 acfc=0 auth=c023", "new 2 pfc=1 acfc=1 auth=c023", "new 2 pfc=0 acfc=1 auth=c22305",
			"new 3 pfc=1 acfc=0 auth=c023", "new 0 pfc=0 acfc=0 auth=c023"} {
			out = append(out, cfgT{line: l, lcpExtra: true})
		}
	case "ipcp":
		out = append(out,
			cfgT{line: "new 2 local=0a000001 peer=0a000064 dns1=- dns2=-", peer: "0a000064"},
			cfgT{line: "new 1 local=0a000001 peer=0a000064 dns1=08080808 dns2=08080404", peer: "0a000064", dns1set: true, dns2set: true},
			cfgT{line: "new 2 local=0a000001 peer=- dns1=- dns2=-"},
			cfgT{line: "new 3 local=- peer=- dns1=08080808 dns2=-", dns1set: true},
			cfgT{line: "new 0 local=0a000001 peer=0a000064 dns1=- dns2=08080404", peer: "0a000064", dns2set: true},
			cfgT{line: "new 2 local=0a000001 peer=- dns1=- dns2=- pool=1", pool: true},
			cfgT{line: "new 1 local=0a000001 peer=0a000064 dns1=- dns2=- pool=1", peer: "0a000064", pool: true})
	default:
		for _, l := range []string{"new 1", "new 2", "new 3", "new 0"} {
			out = append(out, cfgT{line: l})
		}
	}
	return out
}

func main() { hx.Main(comp{}) }
