// extractlocks is the lock-discipline translator: for the methods whose Lean models are ONE atomic step per critical
// section (DESIGN §0.2 "one critical section = one atomic step") it reads, from the repository's working tree, where
// each method takes and drops which mutex and which receiver fields it touches / which calls it makes while holding
// what, and writes that as a Lean table (lean/Bng/Gen/Locks.lean).  The Spec modules `Bng.Spec.CxxLocks` decide on the
// regenerated table that every modelled-atomic method still is one critical section (or exactly the sections the model
// splits it into), that every access to the guarded tables happens inside it (writes under the exclusive lock) and that
// the calls the model performs inside the step (pool.Release inside the expiry sweep, ...) are made while the lock is held.
// So a change that splits a critical section, downgrades a lock or moves a tear-down call outside the lock breaks an
// obligation at once, whatever interleavings the harnesses produce.
//
// go/parser + go/ast only (no type information).  The walk is in source order with a per-mutex "held" state:
//
//	X.Lock() / X.RLock()        held[X] = W / R       (one acquisition is recorded)
//	X.Unlock() / X.RUnlock()    held[X] removed
//	defer X.Unlock()            held[X] stays to the end of the function
//	if / switch / select arms   walked with a copy of the state; an arm that ends in return/continue/break/goto/panic
//	                            does not flow out; arms that flow out with different states mark the method `ambiguous`
//	for / range bodies          walked with a copy; a body whose end state differs from its start marks `ambiguous`
//	go func() {...}()           walked with an EMPTY held state (another goroutine); other function literals inherit
//
// A method that is renamed or removed makes the translator fail loudly (a broken obligation).
package main

import (
	"flag"
	"fmt"
	"go/ast"
	"go/parser"
	"go/token"
	"go/types"
	"os"
	"path/filepath"
	"sort"
	"strings"
)

type entry struct{ name, file, recv, fn string }

// the methods the Spec modules speak about (name = <package>.<receiver>.<method>)
var entries = []entry{
	// C02 / C16: DHCPv4 server lease table
	{"dhcp.Server.cleanupExpiredLeases", "pkg/dhcp/server.go", "Server", "cleanupExpiredLeases"},
	{"dhcp.Server.handleRelease", "pkg/dhcp/server.go", "Server", "handleRelease"},
	{"dhcp.Server.handleDecline", "pkg/dhcp/server.go", "Server", "handleDecline"},
	{"dhcp.Server.handleRequest", "pkg/dhcp/server.go", "Server", "handleRequest"},
	// C01 / C02 / C05: dhcp.Pool
	{"dhcp.Pool.Allocate", "pkg/dhcp/pool.go", "Pool", "Allocate"},
	{"dhcp.Pool.Reserve", "pkg/dhcp/pool.go", "Pool", "Reserve"},
	{"dhcp.Pool.Release", "pkg/dhcp/pool.go", "Pool", "Release"},
	{"dhcp.Pool.MarkUnavailable", "pkg/dhcp/pool.go", "Pool", "MarkUnavailable"},
	// C01 / C05: peer pool
	{"pool.PeerPool.allocateLocal", "pkg/pool/peer.go", "PeerPool", "allocateLocal"},
	{"pool.PeerPool.releaseLocal", "pkg/pool/peer.go", "PeerPool", "releaseLocal"},
	{"pool.PeerPool.AddPeer", "pkg/pool/peer.go", "PeerPool", "AddPeer"},
	{"pool.PeerPool.RemovePeer", "pkg/pool/peer.go", "PeerPool", "RemovePeer"},
	// C01 / C05: PPPoE client address pool
	{"pppoe.IPPool.Allocate", "pkg/pppoe/server.go", "IPPool", "Allocate"},
	{"pppoe.IPPool.Release", "pkg/pppoe/server.go", "IPPool", "Release"},
	// C01 / C05 / C12: bitmap allocators
	{"allocator.IPAllocator.Allocate", "pkg/allocator/bitmap.go", "IPAllocator", "Allocate"},
	{"allocator.IPAllocator.Release", "pkg/allocator/bitmap.go", "IPAllocator", "Release"},
	{"allocator.IPAllocator.SetAllocation", "pkg/allocator/bitmap.go", "IPAllocator", "SetAllocation"},
	{"allocator.EpochBitmapAllocator.Allocate", "pkg/allocator/epoch_bitmap.go", "EpochBitmapAllocator", "Allocate"},
	{"allocator.EpochBitmapAllocator.Renew", "pkg/allocator/epoch_bitmap.go", "EpochBitmapAllocator", "Renew"},
	{"allocator.EpochBitmapAllocator.Release", "pkg/allocator/epoch_bitmap.go", "EpochBitmapAllocator", "Release"},
	{"allocator.EpochBitmapAllocator.AdvanceEpoch", "pkg/allocator/epoch_bitmap.go", "EpochBitmapAllocator", "AdvanceEpoch"},
	// C10 / C16: NAT manager
	{"nat.Manager.AllocateNAT", "pkg/nat/manager.go", "Manager", "AllocateNAT"},
	{"nat.Manager.DeallocateNAT", "pkg/nat/manager.go", "Manager", "DeallocateNAT"},
	// C16 / C20: subscriber manager
	{"subscriber.Manager.CreateSession", "pkg/subscriber/manager.go", "Manager", "CreateSession"},
	{"subscriber.Manager.TerminateSession", "pkg/subscriber/manager.go", "Manager", "TerminateSession"},
	{"subscriber.Manager.AssignAddress", "pkg/subscriber/manager.go", "Manager", "AssignAddress"},
	// C20: key indexes
	{"pppoe.SessionManager.CreateSession", "pkg/pppoe/session.go", "SessionManager", "CreateSession"},
	{"pppoe.SessionManager.RemoveSession", "pkg/pppoe/session.go", "SessionManager", "RemoveSession"},
	{"pppoe.SessionManager.CleanupExpired", "pkg/pppoe/session.go", "SessionManager", "CleanupExpired"},
	{"qinq.Mapper.Register", "pkg/qinq/qinq.go", "Mapper", "Register"},
	{"qinq.Mapper.Unregister", "pkg/qinq/qinq.go", "Mapper", "Unregister"},
	{"nexus.VLANAllocator.Allocate", "pkg/nexus/vlan.go", "VLANAllocator", "Allocate"},
	{"nexus.VLANAllocator.AllocateWithSTag", "pkg/nexus/vlan.go", "VLANAllocator", "AllocateWithSTag"},
	{"nexus.VLANAllocator.Release", "pkg/nexus/vlan.go", "VLANAllocator", "Release"},
	// C20: state.Store (primary tables and their secondary indexes)
	{"state.Store.CreateSubscriber", "pkg/state/store.go", "Store", "CreateSubscriber"},
	{"state.Store.UpdateSubscriber", "pkg/state/store.go", "Store", "UpdateSubscriber"},
	{"state.Store.DeleteSubscriber", "pkg/state/store.go", "Store", "DeleteSubscriber"},
	{"state.Store.CreateLease", "pkg/state/store.go", "Store", "CreateLease"},
	{"state.Store.DeleteLease", "pkg/state/store.go", "Store", "DeleteLease"},
	{"state.Store.CreateSession", "pkg/state/store.go", "Store", "CreateSession"},
	{"state.Store.DeleteSession", "pkg/state/store.go", "Store", "DeleteSession"},
	{"state.Store.CreateNATBinding", "pkg/state/store.go", "Store", "CreateNATBinding"},
	{"state.Store.DeleteNATBinding", "pkg/state/store.go", "Store", "DeleteNATBinding"},
	// C08: accounting manager
	{"radius.AccountingManager.StartSession", "pkg/radius/accounting.go", "AccountingManager", "StartSession"},
	{"radius.AccountingManager.StopSession", "pkg/radius/accounting.go", "AccountingManager", "StopSession"},
	// C12: distributed allocator
	{"allocator.DistributedAllocator.Start", "pkg/allocator/distributed.go", "DistributedAllocator", "Start"},
	{"allocator.DistributedAllocator.Allocate", "pkg/allocator/distributed.go", "DistributedAllocator", "Allocate"},
	{"allocator.DistributedAllocator.Release", "pkg/allocator/distributed.go", "DistributedAllocator", "Release"},
	{"allocator.DistributedAllocator.handleRemoteChange", "pkg/allocator/distributed.go", "DistributedAllocator", "handleRemoteChange"},
	{"allocator.DistributedAllocator.loadAllocations", "pkg/allocator/distributed.go", "DistributedAllocator", "loadAllocations"},
	// C13: HA session store and push
	{"ha.InMemorySessionStore.PutSession", "pkg/ha/store.go", "InMemorySessionStore", "PutSession"},
	{"ha.InMemorySessionStore.DeleteSession", "pkg/ha/store.go", "InMemorySessionStore", "DeleteSession"},
	{"ha.InMemorySessionStore.GetAllSessions", "pkg/ha/store.go", "InMemorySessionStore", "GetAllSessions"},
	{"ha.HASyncer.PushChange", "pkg/ha/sync.go", "HASyncer", "PushChange"},
	// C14: failover controller
	{"ha.FailoverController.handleHealthEvent", "pkg/ha/failover.go", "FailoverController", "handleHealthEvent"},
	{"ha.FailoverController.executeFailover", "pkg/ha/failover.go", "FailoverController", "executeFailover"},
	// C18 / C19: kernel-map managers (no lock today: recorded as such)
	{"qos.Manager.SetSubscriberQoS", "pkg/qos/manager.go", "Manager", "SetSubscriberQoS"},
	{"qos.Manager.RemoveSubscriberQoS", "pkg/qos/manager.go", "Manager", "RemoveSubscriberQoS"},
	{"antispoof.Manager.AddBinding", "pkg/antispoof/manager.go", "Manager", "AddBinding"},
	{"antispoof.Manager.RemoveBinding", "pkg/antispoof/manager.go", "Manager", "RemoveBinding"},
}

type held map[string]string // mutex expression -> "W" | "R"

func (h held) copy() held {
	c := held{}
	for k, v := range h {
		c[k] = v
	}
	return c
}

func (h held) String() string {
	var ks []string
	for k, v := range h {
		ks = append(ks, fmt.Sprintf("(%q, %q)", k, v))
	}
	sort.Strings(ks)
	return "[" + strings.Join(ks, ", ") + "]"
}

func (h held) equal(o held) bool { return h.String() == o.String() }

type item struct{ kind, what, held string }

type walker struct {
	recv      string // receiver variable name
	acq       [][2]string
	items     []item
	ambiguous bool
	deferred  map[string]bool
}

func recvNames(fd *ast.FuncDecl) (typ, name string) {
	if fd.Recv == nil || len(fd.Recv.List) == 0 {
		return "", ""
	}
	f := fd.Recv.List[0]
	t := f.Type
	if st, ok := t.(*ast.StarExpr); ok {
		t = st.X
	}
	if id, ok := t.(*ast.Ident); ok {
		typ = id.Name
	}
	if len(f.Names) > 0 {
		name = f.Names[0].Name
	}
	return
}

var quietCalls = map[string]bool{"len": true, "cap": true, "append": true, "make": true, "new": true, "copy": true,
	"string": true, "int": true, "uint32": true, "uint64": true, "uint16": true, "uint8": true, "byte": true, "panic": true,
	"delete": true, "min": true, "max": true, "int64": true, "float64": true, "uint": true, "int32": true}

func quiet(callee string) bool {
	if quietCalls[callee] {
		return true
	}
	for _, p := range []string{"zap.", "fmt.", "strings.", "errors.", "atomic.", "time.", "hex.", "binary.", "net.", "sort.", "bytes.", "strconv.", "math.", "big.", "slices."} {
		if strings.HasPrefix(callee, p) {
			return true
		}
	}
	return strings.Contains(callee, "logger.") || strings.Contains(callee, ".logger") || strings.Contains(callee, "log.")
}

// the first-level receiver field an expression is rooted at ("s.leases[k].IP" -> "s.leases"), or ""
func (w *walker) rootField(e ast.Expr) string {
	for {
		switch x := e.(type) {
		case *ast.SelectorExpr:
			if id, ok := x.X.(*ast.Ident); ok && id.Name == w.recv && w.recv != "" {
				return w.recv + "." + x.Sel.Name
			}
			e = x.X
		case *ast.IndexExpr:
			e = x.X
		case *ast.SliceExpr:
			e = x.X
		case *ast.StarExpr:
			e = x.X
		case *ast.ParenExpr:
			e = x.X
		case *ast.UnaryExpr:
			e = x.X
		default:
			return ""
		}
	}
}

func (w *walker) add(kind, what string, h held) {
	w.items = append(w.items, item{kind, what, h.String()})
}

// reads and calls inside an expression, in source order
func (w *walker) expr(e ast.Expr, h held) {
	if e == nil {
		return
	}
	ast.Inspect(e, func(n ast.Node) bool {
		switch x := n.(type) {
		case *ast.FuncLit:
			// a closure defined here: its body runs with what is held where it is CALLED; walk it as if called here
			hh := h.copy()
			w.block(x.Body.List, hh)
			return false
		case *ast.CallExpr:
			callee := types.ExprString(x.Fun)
			if _, isLit := x.Fun.(*ast.FuncLit); isLit {
				return true
			}
			if sel, ok := x.Fun.(*ast.SelectorExpr); ok {
				switch sel.Sel.Name {
				case "Lock", "RLock", "Unlock", "RUnlock":
					if len(x.Args) == 0 {
						return false // handled at statement level
					}
				}
			}
			if callee == "delete" && len(x.Args) > 0 {
				if f := w.rootField(x.Args[0]); f != "" {
					w.add("w", f, h)
				}
				for _, a := range x.Args[1:] {
					w.expr(a, h)
				}
				return false
			}
			if !quiet(callee) {
				w.add("c", callee, h)
			}
			if sel, ok := x.Fun.(*ast.SelectorExpr); ok {
				if id, ok := sel.X.(*ast.Ident); ok && id.Name == w.recv && w.recv != "" {
					// a method of the receiver itself: the call is the fact, not a field read
					for _, a := range x.Args {
						w.expr(a, h)
					}
					return false
				}
			}
			return true
		case *ast.SelectorExpr:
			if id, ok := x.X.(*ast.Ident); ok && id.Name == w.recv && w.recv != "" {
				w.add("r", w.recv+"."+x.Sel.Name, h)
				return false
			}
			return true
		}
		return true
	})
}

func terminates(list []ast.Stmt) bool {
	if len(list) == 0 {
		return false
	}
	switch s := list[len(list)-1].(type) {
	case *ast.ReturnStmt:
		return true
	case *ast.BranchStmt:
		return s.Tok == token.CONTINUE || s.Tok == token.BREAK || s.Tok == token.GOTO
	case *ast.ExprStmt:
		if c, ok := s.X.(*ast.CallExpr); ok {
			if id, ok := c.Fun.(*ast.Ident); ok && id.Name == "panic" {
				return true
			}
		}
	case *ast.BlockStmt:
		return terminates(s.List)
	}
	return false
}

// lock statement? returns (mutex, op)
func lockCall(e ast.Expr) (string, string, bool) {
	c, ok := e.(*ast.CallExpr)
	if !ok || len(c.Args) != 0 {
		return "", "", false
	}
	sel, ok := c.Fun.(*ast.SelectorExpr)
	if !ok {
		return "", "", false
	}
	switch sel.Sel.Name {
	case "Lock", "RLock", "Unlock", "RUnlock":
		return types.ExprString(sel.X), sel.Sel.Name, true
	}
	return "", "", false
}

// merge the states of arms that flow out of a branching statement
func (w *walker) merge(before held, outs []held, h held) {
	if len(outs) == 0 {
		// every arm terminates: what follows is reached only if there was an implicit fall-through arm (handled by the caller)
		return
	}
	first := outs[0]
	for _, o := range outs[1:] {
		if !o.equal(first) {
			w.ambiguous = true
		}
	}
	for k := range h {
		delete(h, k)
	}
	for k, v := range first {
		h[k] = v
	}
}

func (w *walker) block(list []ast.Stmt, h held) {
	for _, st := range list {
		w.stmt(st, h)
	}
}

func (w *walker) stmt(st ast.Stmt, h held) {
	switch s := st.(type) {
	case nil:
	case *ast.ExprStmt:
		if m, op, ok := lockCall(s.X); ok {
			switch op {
			case "Lock":
				h[m] = "W"
				w.acq = append(w.acq, [2]string{m, "W"})
			case "RLock":
				h[m] = "R"
				w.acq = append(w.acq, [2]string{m, "R"})
			default:
				delete(h, m)
			}
			return
		}
		w.expr(s.X, h)
	case *ast.DeferStmt:
		if m, op, ok := lockCall(s.Call); ok && (op == "Unlock" || op == "RUnlock") {
			w.deferred[m] = true
			return
		}
		// a deferred closure / call runs at return: with the deferred-unlocked mutexes still held is the common case
		w.expr(s.Call, h)
	case *ast.GoStmt:
		if fl, ok := s.Call.Fun.(*ast.FuncLit); ok {
			for _, a := range s.Call.Args {
				w.expr(a, h)
			}
			w.block(fl.Body.List, held{})
			return
		}
		w.add("c", "go "+types.ExprString(s.Call.Fun), held{})
		for _, a := range s.Call.Args {
			w.expr(a, h)
		}
	case *ast.AssignStmt:
		for _, r := range s.Rhs {
			w.expr(r, h)
		}
		for _, l := range s.Lhs {
			if f := w.rootField(l); f != "" {
				w.add("w", f, h)
				// index expressions on the left are reads
				if ix, ok := l.(*ast.IndexExpr); ok {
					w.expr(ix.Index, h)
				}
			} else {
				if _, isIdent := l.(*ast.Ident); !isIdent {
					w.expr(l, h)
				}
			}
		}
	case *ast.IncDecStmt:
		if f := w.rootField(s.X); f != "" {
			w.add("w", f, h)
		} else {
			w.expr(s.X, h)
		}
	case *ast.DeclStmt:
		if gd, ok := s.Decl.(*ast.GenDecl); ok {
			for _, sp := range gd.Specs {
				if vs, ok := sp.(*ast.ValueSpec); ok {
					for _, v := range vs.Values {
						w.expr(v, h)
					}
				}
			}
		}
	case *ast.ReturnStmt:
		for _, r := range s.Results {
			w.expr(r, h)
		}
	case *ast.SendStmt:
		w.expr(s.Chan, h)
		w.expr(s.Value, h)
	case *ast.BlockStmt:
		w.block(s.List, h)
	case *ast.LabeledStmt:
		w.stmt(s.Stmt, h)
	case *ast.IfStmt:
		w.stmt(s.Init, h)
		w.expr(s.Cond, h)
		before := h.copy()
		var outs []held
		hb := h.copy()
		w.block(s.Body.List, hb)
		if !terminates(s.Body.List) {
			outs = append(outs, hb)
		}
		if s.Else != nil {
			he := h.copy()
			w.stmt(s.Else, he)
			elseTerm := false
			if eb, ok := s.Else.(*ast.BlockStmt); ok {
				elseTerm = terminates(eb.List)
			}
			if !elseTerm {
				outs = append(outs, he)
			}
		} else {
			outs = append(outs, before)
		}
		w.merge(before, outs, h)
	case *ast.ForStmt:
		w.stmt(s.Init, h)
		w.expr(s.Cond, h)
		hb := h.copy()
		w.block(s.Body.List, hb)
		w.stmt(s.Post, hb)
		if !terminates(s.Body.List) && !hb.equal(h) {
			w.ambiguous = true
		}
	case *ast.RangeStmt:
		w.expr(s.X, h)
		hb := h.copy()
		w.block(s.Body.List, hb)
		if !terminates(s.Body.List) && !hb.equal(h) {
			w.ambiguous = true
		}
	case *ast.SwitchStmt:
		w.stmt(s.Init, h)
		w.expr(s.Tag, h)
		w.cases(s.Body, h)
	case *ast.TypeSwitchStmt:
		w.stmt(s.Init, h)
		w.stmt(s.Assign, h)
		w.cases(s.Body, h)
	case *ast.SelectStmt:
		w.cases(s.Body, h)
	default:
	}
}

func (w *walker) cases(body *ast.BlockStmt, h held) {
	before := h.copy()
	var outs []held
	hasDefault := false
	for _, c := range body.List {
		var list []ast.Stmt
		switch cc := c.(type) {
		case *ast.CaseClause:
			if cc.List == nil {
				hasDefault = true
			}
			for _, e := range cc.List {
				w.expr(e, h)
			}
			list = cc.Body
		case *ast.CommClause:
			if cc.Comm == nil {
				hasDefault = true
			}
			hc := h.copy()
			w.stmt(cc.Comm, hc)
			list = cc.Body
		}
		hc := h.copy()
		w.block(list, hc)
		if !terminates(list) {
			outs = append(outs, hc)
		}
	}
	if !hasDefault {
		outs = append(outs, before)
	}
	w.merge(before, outs, h)
}

func main() {
	repo := flag.String("repo", "/repo", "repository root")
	out := flag.String("out", "", "Lean file to write")
	flag.Parse()
	var b strings.Builder
	b.WriteString("/- GENERATED by harness/cmd/extractlocks from the repository's working tree - do not edit.\n")
	b.WriteString("   per method: the mutex acquisitions in source order, whether the walk was ambiguous, and in source order every\n")
	b.WriteString("   receiver-field read (r) / write (w) and every call (c) with the mutexes held there and how (W exclusive / R shared) -/\n")
	b.WriteString("namespace Bng.Gen.Locks\n\nstructure Facts where\n  fn : String\n  acq : List (String × String)\n  ambiguous : Bool\n  deferred : List String\n  items : List (String × String × List (String × String))\n\n")
	fset := token.NewFileSet()
	files := map[string]*ast.File{}
	var names []string
	for i, e := range entries {
		af := files[e.file]
		if af == nil {
			var err error
			af, err = parser.ParseFile(fset, filepath.Join(*repo, e.file), nil, 0)
			if err != nil {
				fmt.Fprintln(os.Stderr, "extractlocks:", err)
				os.Exit(1)
			}
			files[e.file] = af
		}
		var fd *ast.FuncDecl
		var rname string
		for _, d := range af.Decls {
			if f, ok := d.(*ast.FuncDecl); ok && f.Name.Name == e.fn && f.Body != nil {
				if t, n := recvNames(f); t == e.recv {
					fd, rname = f, n
				}
			}
		}
		if fd == nil {
			fmt.Fprintf(os.Stderr, "extractlocks: %s: no func (%s) %s in %s\n", e.name, e.recv, e.fn, e.file)
			os.Exit(1)
		}
		w := &walker{recv: rname, deferred: map[string]bool{}}
		w.block(fd.Body.List, held{})
		var acq, its, defs []string
		for _, a := range w.acq {
			acq = append(acq, fmt.Sprintf("(%q, %q)", a[0], a[1]))
		}
		for _, it := range w.items {
			its = append(its, fmt.Sprintf("(%q, %q, %s)", it.kind, it.what, it.held))
		}
		for m := range w.deferred {
			defs = append(defs, fmt.Sprintf("%q", m))
		}
		sort.Strings(defs)
		def := fmt.Sprintf("f%d", i)
		names = append(names, def)
		fmt.Fprintf(&b, "def %s : Facts := { fn := %q, acq := [%s], ambiguous := %v, deferred := [%s], items := [\n    %s] }\n\n",
			def, e.name, strings.Join(acq, ", "), w.ambiguous, strings.Join(defs, ", "), strings.Join(its, ",\n    "))
	}
	fmt.Fprintf(&b, "def locks : List Facts := [%s]\n\nend Bng.Gen.Locks\n", strings.Join(names, ", "))
	if *out == "" {
		fmt.Print(b.String())
		return
	}
	tmp := *out + ".tmp"
	if err := os.WriteFile(tmp, []byte(b.String()), 0o644); err != nil {
		fmt.Fprintln(os.Stderr, "extractlocks:", err)
		os.Exit(1)
	}
	if err := os.Rename(tmp, *out); err != nil {
		fmt.Fprintln(os.Stderr, "extractlocks:", err)
		os.Exit(1)
	}
	fmt.Fprintln(os.Stderr, "extractlocks: wrote", *out)
}
