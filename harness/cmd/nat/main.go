// nat drives the real nat.Manager (pkg/nat/manager.go) with a real nat.Logger (pkg/nat/logging.go)
// writing JSON records into a buffer.  Concurrent callers are placed deterministically: `hold` takes
// the pool lock through a verif hook, every `spawn` starts a goroutine and waits until it is parked on
// a lock (or has returned), `unhold` releases the lock and collects the answers in queue order.
package main

import (
	"bytes"
	"encoding/json"
	"fmt"
	"math/rand"
	"net"
	"regexp"
	"runtime"
	"strconv"
	"strings"
	"sync"
	"time"

	"bngverif/hx"

	"github.com/codelaboratoryltd/bng/pkg/nat"
	"go.uber.org/zap"
)

type comp struct{}

// ---------------------------------------------------------------- entity <-> address mapping

func privIP(n int) net.IP { return net.IPv4(10, byte(n>>16), byte(n>>8), byte(n)) }
func pubIP(n int) net.IP  { return net.IPv4(203, 0, byte(113+n>>8), byte(n)) }

func privTok(ip net.IP) string {
	v := ip.To4()
	if v == nil || v[0] != 10 {
		return "k?" + ip.String()
	}
	return fmt.Sprintf("k%d", int(v[1])<<16|int(v[2])<<8|int(v[3]))
}

func pubTok(ip net.IP) string {
	v := ip.To4()
	if v == nil || v[0] != 203 || v[1] != 0 || v[2] < 113 {
		return "p?" + ip.String()
	}
	return fmt.Sprintf("p%d", int(v[2]-113)<<8|int(v[3]))
}

func tagNum(tok string) int {
	n, _ := strconv.Atoi(tok[1:])
	return n
}

// ---------------------------------------------------------------- generator

type cfg struct{ pps, rs, re int }

// configurations: default, dividing, non-dividing, the 65535 edge, one-slot, whole range, inverted ranges
var cfgs = []cfg{
	{1000, 10000, 12999}, // 3 blocks
	{1000, 10000, 12500}, // non-dividing: 2 blocks, 501 ports unused
	{2, 65530, 65535},    // 3 blocks ending at 65535
	{1, 65535, 65535},    // one block of one port
	{4, 1, 10},           // 2 blocks, non-dividing
	{16384, 1024, 65535}, // 3 blocks, non-dividing
	{0, 0, 0},            // the defaults: 1024 / 1024..65535 (63 blocks)
	{65535, 1, 65535},    // one block covering the whole range
	{30000, 5536, 65535}, // 2 blocks, the second ends at 65535
	{3, 100, 99},         // empty range
	{2, 100, 90},         // inverted range: MaxSubscribers negative
	{7, 1000, 1001},      // range smaller than a block
	{10, 5, -3},          // negative range end: accepted, MaxSubscribers negative
	// rejected by NewManager (they used to wrap in uint16 and hand out overlapping blocks)
	{1024, 1024, 70000},
	{1024, -1000, 65535},
	{70000, 1, 65535},
	{-5, 1024, 65535},
	{100, 65536, 65536},
}

var modes = []string{"bulk", "trad", "off"}

func newOp(c cfg, mode string) string { return fmt.Sprintf("new %d %d %d %s", c.pps, c.rs, c.re, mode) }

func randSeq(r *rand.Rand, n int) []string {
	c := cfgs[r.Intn(len(cfgs))]
	if r.Intn(3) > 0 {
		c = cfgs[r.Intn(6)] // the small ones: exhaustion and reuse happen constantly
	}
	subs := 2 + r.Intn(5)
	ips := 1 + r.Intn(3)
	seq := []string{newOp(c, modes[r.Intn(len(modes))])}
	k := func() string { return fmt.Sprintf("k%d", 1+r.Intn(subs)) }
	for i := 0; i < ips; i++ {
		if r.Intn(4) > 0 {
			seq = append(seq, fmt.Sprintf("addip p%d", 1+i))
		}
	}
	for j := 0; j < n; j++ {
		switch x := r.Intn(100); {
		case x < 34:
			seq = append(seq, "alloc "+k())
		case x < 58:
			seq = append(seq, "dealloc "+k())
		case x < 66:
			seq = append(seq, "get "+k())
		case x < 70:
			seq = append(seq, "count")
		case x < 77:
			seq = append(seq, "pools")
		case x < 84:
			seq = append(seq, fmt.Sprintf("addip p%d", 1+r.Intn(ips)))
		case x < 90:
			// a stretch during which the logger is not flushed after each call, usually with a flush parked
			// inside its first Write while calls go on (the background flushLoop on a slow log file)
			seq = append(seq, "buffer")
			calls := 0
			some := func(n int) {
				for ; n > 0 && calls < 30; n-- {
					calls++
					if r.Intn(3) > 0 {
						seq = append(seq, "alloc "+k())
					} else {
						seq = append(seq, "dealloc "+k())
					}
				}
			}
			some(r.Intn(5))
			for rounds := r.Intn(3); rounds > 0; rounds-- {
				seq = append(seq, "flushhold")
				some(1 + r.Intn(5))
				if r.Intn(4) == 0 && calls < 26 {
					seq = append(seq, "hold", "spawn alloc "+k(), "spawn dealloc "+k(), "unhold")
					calls += 2
				}
				if rounds > 1 {
					seq = append(seq, "flushrelease", "buffer")
					calls = 0
					some(r.Intn(4))
				}
			}
			seq = append(seq, "flushrelease")
		default:
			seq = append(seq, "hold")
			for m := 1 + r.Intn(4); m > 0; m-- {
				if r.Intn(3) > 0 {
					seq = append(seq, "spawn alloc "+k())
				} else {
					seq = append(seq, "spawn dealloc "+k())
				}
				if r.Intn(5) == 0 {
					seq = append(seq, "get "+k())
				}
			}
			seq = append(seq, "unhold")
		}
	}
	for i := 1; i <= subs; i++ {
		seq = append(seq, fmt.Sprintf("get k%d", i))
	}
	return append(seq, "count", "pools")
}

// exhaustive enumerates every sequence of alloc/dealloc of up to `subs` subscribers to the given depth, up to
// renaming of subscribers (k(i+1) is first used only after k(i); a release of a never-used subscriber is left to
// the random generator), on `ips` public addresses of the given configuration; `keep` selects the fraction that is run.
func exhaustive(subs, depth int, c cfg, ips int, mode string, keep func() bool, emit func([]string)) {
	head := []string{newOp(c, mode)}
	for i := 1; i <= ips; i++ {
		head = append(head, fmt.Sprintf("addip p%d", i))
	}
	var tail []string
	for i := 1; i <= subs; i++ {
		tail = append(tail, fmt.Sprintf("get k%d", i))
	}
	tail = append(tail, "pools")
	var rec func(prefix []string, used, depth int)
	rec = func(prefix []string, used, d int) {
		if d == 0 {
			if keep() {
				seq := append(append([]string{}, head...), prefix...)
				emit(append(seq, tail...))
			}
			return
		}
		lim := used + 1
		if lim > subs {
			lim = subs
		}
		for i := 1; i <= lim; i++ {
			u := used
			if i > u {
				u = i
			}
			rec(append(prefix[:len(prefix):len(prefix)], fmt.Sprintf("alloc k%d", i)), u, d-1)
			if i <= used {
				rec(append(prefix[:len(prefix):len(prefix)], fmt.Sprintf("dealloc k%d", i)), u, d-1)
			}
		}
	}
	rec(nil, 0, depth)
}

// windows enumerates the precheck/commit interleavings: up to 3 callers queued at the pool lock after a
// short sequential prefix.
func windows(emit func([]string)) {
	calls := []string{"alloc k1", "alloc k2", "alloc k3", "dealloc k1", "dealloc k2"}
	prefixes := [][]string{{}, {"alloc k1"}, {"alloc k1", "alloc k2"}, {"alloc k1", "alloc k2", "dealloc k1"},
		{"alloc k1", "alloc k2", "alloc k3", "dealloc k2"}}
	for _, mode := range []string{"bulk", "trad"} {
		for _, pre := range prefixes {
			for _, a := range calls {
				for _, b := range calls {
					for _, c := range append([]string{""}, calls...) {
						seq := []string{newOp(cfg{1000, 10000, 12999}, mode), "addip p1", "addip p2"}
						seq = append(seq, pre...)
						seq = append(seq, "hold", "spawn "+a, "spawn "+b)
						if c != "" {
							seq = append(seq, "spawn "+c)
						}
						seq = append(seq, "get k1", "unhold", "get k1", "get k2", "get k3", "alloc k4", "pools")
						emit(seq)
					}
				}
			}
		}
	}
}

// flushWindows enumerates calls landing while a flush of the log is in flight: b calls buffered before the flush
// starts (the batch), then every sequence of 1..3 calls from a small alphabet during the flush, in both formats.
func flushWindows(emit func([]string)) {
	during := []string{"alloc k4", "alloc k5", "dealloc k1", "dealloc k2", "alloc k1"}
	before := [][]string{{}, {"alloc k1"}, {"alloc k1", "alloc k2"}, {"alloc k1", "alloc k2", "alloc k3"},
		{"alloc k1", "alloc k2", "dealloc k1", "alloc k3"}}
	for _, mode := range []string{"bulk", "trad"} {
		for _, pre := range before {
			var rec func(cur []string, d int)
			rec = func(cur []string, d int) {
				if len(cur) > 0 {
					seq := []string{newOp(cfg{1000, 10000, 14999}, mode), "addip p1", "buffer"}
					seq = append(seq, pre...)
					seq = append(seq, "flushhold")
					seq = append(seq, cur...)
					seq = append(seq, "flushrelease", "get k1", "get k2", "get k3", "get k4", "get k5", "alloc k6", "pools")
					emit(seq)
				}
				if d == 0 {
					return
				}
				for _, c := range during {
					rec(append(cur[:len(cur):len(cur)], c), d-1)
				}
			}
			rec(nil, 3)
		}
	}
}

// fills: configurations with MANY blocks per public address (small ports-per-subscriber), one address filled far beyond
// 64 (and, in the long variants, beyond 128 and 256) live subscribers, a few releases from the middle -- below and above
// slot 64 -- then more allocations, which must take exactly the freed blocks and then the next fresh ones.
func fills(r *rand.Rand, tier string, emit func([]string)) {
	type fc struct {
		c      cfg
		blocks int
	}
	short := []fc{
		{cfg{512, 1024, 65535}, 126}, // the usual range with half-size blocks
		{cfg{256, 1024, 65535}, 252}, // quarter-size blocks
		{cfg{16, 40000, 42111}, 132}, // a narrow range
		{cfg{1, 5000, 5199}, 200},    // one port per subscriber
		{cfg{700, 1, 65535}, 93},     // non-dividing
		{cfg{1000, 1536, 65535}, 64}, // exactly 64 blocks: the boundary itself
		{cfg{1000, 536, 65535}, 65},  // 65 blocks
	}
	long := []fc{
		{cfg{256, 1024, 65535}, 252},
		{cfg{8, 60000, 65535}, 692},
		{cfg{100, 1024, 65535}, 645},
	}
	one := func(f fc, n int, mode string) {
		seq := []string{newOp(f.c, mode), "addip p1"}
		if r.Intn(3) == 0 {
			seq = append(seq, "addip p2") // overflow goes to a second address
		}
		for i := 1; i <= n; i++ {
			seq = append(seq, fmt.Sprintf("alloc k%d", i))
		}
		// releases from the middle, on both sides of slot 64
		rel := 2 + r.Intn(5)
		for j := 0; j < rel; j++ {
			seq = append(seq, fmt.Sprintf("dealloc k%d", 1+r.Intn(n)))
		}
		if n > 70 {
			seq = append(seq, fmt.Sprintf("dealloc k%d", 66+r.Intn(n-66)), fmt.Sprintf("dealloc k%d", 1+r.Intn(60)))
		}
		more := rel + 2 + r.Intn(6)
		for j := 1; j <= more; j++ {
			seq = append(seq, fmt.Sprintf("alloc k%d", n+j))
		}
		for _, i := range []int{1, 33, 64, 65, 66, 67, n, n + 1, n + more} {
			seq = append(seq, fmt.Sprintf("get k%d", i))
		}
		emit(append(seq, "count", "pools"))
	}
	ms := []string{"bulk", "trad", "off"}
	for i, f := range short {
		n := 66 + r.Intn(75) // 66..140 allocations
		if n > f.blocks+3 {
			n = f.blocks + 3 // a little beyond full: exhaustion (or spill to p2) is part of the picture
		}
		one(f, n, ms[i%3])
		one(f, 66+r.Intn(10), ms[(i+1)%3])
	}
	if tier == "thorough" {
		for rep := 0; rep < 6; rep++ {
			for i, f := range short {
				one(f, 66+r.Intn(75), ms[(i+rep)%3])
			}
			for i, f := range long {
				one(f, 130+r.Intn(f.blocks-125), ms[(i+rep)%3]) // beyond 128, up to beyond 256 / 640
			}
		}
	}
}

func (comp) Gen(r *rand.Rand, tier string, emit func([]string)) {
	nShort, nLong := 2500, 40
	if tier == "thorough" {
		nShort, nLong = 40000, 600
	}
	for i := 0; i < nShort; i++ {
		emit(randSeq(r, 4+r.Intn(28)))
	}
	for i := 0; i < nLong; i++ {
		emit(randSeq(r, 300+r.Intn(500)))
	}
	windows(emit)
	flushWindows(emit)
	fills(r, tier, emit)
	// truly concurrent callers (no placement): only the final table and the log are observed, judged by the monitor
	nStress := 40
	if tier == "thorough" {
		nStress = 1500
	}
	for i := 0; i < nStress; i++ {
		c := cfgs[r.Intn(6)]
		seq := []string{newOp(c, modes[r.Intn(2)])}
		for j := 1; j <= 1+r.Intn(3); j++ {
			seq = append(seq, fmt.Sprintf("addip p%d", j))
		}
		seq = append(seq, fmt.Sprintf("stress %d %d %d %d", 2+r.Intn(5), 2+r.Intn(5), 50+r.Intn(300), r.Int63n(1<<40)))
		emit(seq)
	}
	// small scope: <= 6 subscribers, 1-3 public addresses, depth 8 (75 848 sequences per geometry)
	geos := []struct {
		c    cfg
		ips  int
		mode string
	}{
		{cfg{1000, 10000, 12999}, 1, "bulk"}, // one address, three blocks
		{cfg{1000, 10000, 12500}, 2, "trad"}, // two addresses, two blocks each, non-dividing
		{cfg{2, 65532, 65535}, 3, "bulk"},    // three addresses, two blocks each, ending at 65535
	}
	for _, g := range geos {
		if tier == "thorough" {
			exhaustive(6, 8, g.c, g.ips, g.mode, func() bool { return true }, emit)
		} else {
			exhaustive(6, 8, g.c, g.ips, g.mode, func() bool { return r.Intn(60) == 0 }, emit)
		}
	}
}

// ---------------------------------------------------------------- executor

type task struct {
	done chan string
}

// stallWriter is the logger's output.  When armed, the next Write records its data and then parks until
// released: a flush of the NAT log is then "in flight" (its batch taken, one record written) while the
// harness goes on allocating and releasing -- what the background flushLoop does with a slow log file.
type stallWriter struct {
	mu      sync.Mutex
	buf     bytes.Buffer
	armed   bool
	inWrite chan struct{}
	resume  chan struct{}
}

func (w *stallWriter) Write(p []byte) (int, error) {
	w.mu.Lock()
	w.buf.Write(p)
	park := w.armed
	w.armed = false
	w.mu.Unlock()
	if park {
		close(w.inWrite)
		<-w.resume
	}
	return len(p), nil
}

func (w *stallWriter) take() string {
	w.mu.Lock()
	defer w.mu.Unlock()
	s := w.buf.String()
	w.buf.Reset()
	return s
}

// at most this many calls between `buffer` and `flushrelease`: the logger flushes by itself (and would block on
// the parked flush) when 50 port-block records are buffered
const maxBufCalls = 40

type run struct {
	m         *nat.Manager
	l         *nat.Logger
	w         stallWriter
	buffering bool          // no flush after each call
	flushDone chan struct{} // a parked flush is in flight
	bufCalls  int
	held      bool
	pending   []*task
	lastTS    time.Time
}

func (comp) NewRun() hx.Run { return &run{} }

func (r *run) Close() {
	if r.flushDone != nil {
		close(r.w.resume)
		<-r.flushDone
		r.flushDone = nil
	}
	if r.held {
		r.m.ReleasePoolForVerif()
		for _, t := range r.pending {
			<-t.done
		}
	}
}

func showAlloc(a *nat.Allocation) string {
	return fmt.Sprintf("%s %d %d i%d id%d", pubTok(a.PublicIP), a.PortStart, a.PortEnd, a.PoolIndex, a.SubscriberID)
}

func (r *run) doAlloc(k string) string {
	a, err := r.m.AllocateNAT(privIP(tagNum(k)))
	if err != nil {
		if strings.Contains(err.Error(), "exhausted") {
			return "exhausted"
		}
		return "error " + err.Error()
	}
	return "ok " + showAlloc(a)
}

func (r *run) doDealloc(k string) string {
	if err := r.m.DeallocateNAT(privIP(tagNum(k))); err != nil {
		return "error " + err.Error()
	}
	return "ok"
}

type rec struct {
	Timestamp    time.Time `json:"timestamp"`
	EventType    string    `json:"event_type"`
	SubscriberID uint32    `json:"subscriber_id"`
	PrivateIP    string    `json:"private_ip"`
	PublicIP     string    `json:"public_ip"`
	PortStart    uint16    `json:"port_start"`
	PortEnd      uint16    `json:"port_end"`
	BlockSize    uint16    `json:"block_size"`
	PublicPort   uint16    `json:"public_port"`
}

// logSuffix flushes the logger and renders the records written since the last call
func (r *run) logSuffix() string {
	if r.l == nil || r.buffering {
		return ""
	}
	r.l.Flush()
	r.l.FlushPortBlocks()
	data := r.w.take()
	var out []string
	back := false
	for _, line := range strings.Split(data, "\n") {
		if strings.TrimSpace(line) == "" {
			continue
		}
		var e rec
		if err := json.Unmarshal([]byte(line), &e); err != nil {
			out = append(out, "?unparsable")
			continue
		}
		if e.Timestamp.Before(r.lastTS) {
			back = true
		}
		r.lastTS = e.Timestamp
		k, p := privTok(net.ParseIP(e.PrivateIP)), pubTok(net.ParseIP(e.PublicIP))
		switch e.EventType {
		case "port_block_assign":
			out = append(out, fmt.Sprintf("A:%d:%s:%s:%d:%d:%d", e.SubscriberID, k, p, e.PortStart, e.PortEnd, e.BlockSize))
		case "port_block_release":
			out = append(out, fmt.Sprintf("R:%s:%s:%d", k, p, e.PortStart))
		case "allocate":
			out = append(out, fmt.Sprintf("a:%d:%s:%s:%d", e.SubscriberID, k, p, e.PublicPort))
		case "deallocate":
			out = append(out, fmt.Sprintf("d:%s:%s:%d", k, p, e.PublicPort))
		default:
			out = append(out, "?"+e.EventType)
		}
	}
	if len(out) == 0 {
		return ""
	}
	s := " | " + strings.Join(out, ",")
	if back {
		s += ",tsback"
	}
	return s
}

var gidRe = regexp.MustCompile(`^goroutine (\d+) \[`)

func curGID() string {
	var b [64]byte
	n := runtime.Stack(b[:], false)
	m := gidRe.FindSubmatch(b[:n])
	if m == nil {
		return "?"
	}
	return string(m[1])
}

var stackBuf = make([]byte, 1<<15)

// parkedOnLock reports whether goroutine gid is waiting for a mutex
func parkedOnLock(gid string) bool {
	buf := stackBuf
	for {
		n := runtime.Stack(buf, true)
		if n < len(buf) {
			buf = buf[:n]
			break
		}
		stackBuf = make([]byte, 2*len(buf))
		buf = stackBuf
	}
	hdr := "goroutine " + gid + " ["
	i := bytes.Index(buf, []byte(hdr))
	if i < 0 {
		return false
	}
	rest := buf[i+len(hdr):]
	j := bytes.IndexByte(rest, ']')
	if j < 0 {
		return false
	}
	st := string(rest[:j])
	return strings.HasPrefix(st, "sync.Mutex.Lock") || strings.HasPrefix(st, "sync.RWMutex.Lock") ||
		strings.HasPrefix(st, "sync.RWMutex.RLock") || strings.HasPrefix(st, "semacquire")
}

// spawn starts f in a goroutine and waits until it has returned or is parked on a lock
func (r *run) spawn(f func() string) string {
	t := &task{done: make(chan string, 1)}
	gidc := make(chan string, 1)
	go func() {
		defer func() {
			if e := recover(); e != nil {
				t.done <- "panic " + strings.ReplaceAll(fmt.Sprint(e), "\n", " ")
			}
		}()
		gidc <- curGID()
		t.done <- f()
	}()
	gid := <-gidc
	deadline := time.Now().Add(10 * time.Second)
	for i := 0; ; i++ {
		select {
		case res := <-t.done:
			return res
		default:
		}
		if parkedOnLock(gid) {
			r.pending = append(r.pending, t)
			return "blocked"
		}
		if i < 50 {
			runtime.Gosched()
		} else {
			time.Sleep(20 * time.Microsecond)
		}
		if time.Now().After(deadline) {
			r.pending = append(r.pending, t)
			return "stuck"
		}
	}
}

// stress: g goroutines perform n random AllocateNAT/DeallocateNAT calls each over `subs` subscribers in parallel.
// Observation: the final table (GetAllocation of every subscriber) and every log record written meanwhile.
func (r *run) stress(f []string) string {
	subs, _ := strconv.Atoi(f[1])
	g, _ := strconv.Atoi(f[2])
	n, _ := strconv.Atoi(f[3])
	seed, _ := strconv.ParseInt(f[4], 10, 64)
	if subs < 1 || g < 1 || n < 1 || subs > 64 || g > 64 || n > 100000 {
		return "badop"
	}
	old := runtime.GOMAXPROCS(4)
	defer runtime.GOMAXPROCS(old)
	done := make(chan string, g)
	for i := 0; i < g; i++ {
		rng := rand.New(rand.NewSource(seed + int64(i)))
		go func() {
			defer func() {
				if e := recover(); e != nil {
					done <- "panic " + strings.ReplaceAll(fmt.Sprint(e), "\n", " ")
				}
			}()
			for j := 0; j < n; j++ {
				ip := privIP(1 + rng.Intn(subs))
				if rng.Intn(5) < 3 {
					r.m.AllocateNAT(ip)
				} else {
					r.m.DeallocateNAT(ip)
				}
			}
			done <- ""
		}()
	}
	bad := ""
	for i := 0; i < g; i++ {
		select {
		case res := <-done:
			if res != "" {
				bad = res
			}
		case <-time.After(60 * time.Second):
			return "hang"
		}
	}
	if bad != "" {
		return bad
	}
	var parts []string
	for k := 1; k <= subs; k++ {
		if a := r.m.GetAllocation(privIP(k)); a != nil {
			parts = append(parts, fmt.Sprintf("k%d:%s:%d:%d", k, pubTok(a.PublicIP), a.PortStart, a.PortEnd))
		}
	}
	tab := "-"
	if len(parts) > 0 {
		tab = strings.Join(parts, ",")
	}
	return "table=" + tab + r.logSuffix()
}

func (r *run) Do(op string) string {
	f := hx.Fields(op)
	if f[0] == "new" {
		if len(f) != 5 {
			return "badop"
		}
		pps, _ := strconv.Atoi(f[1])
		rs, _ := strconv.Atoi(f[2])
		re, _ := strconv.Atoi(f[3])
		m, err := nat.NewManager(nat.ManagerConfig{Interface: "verif0", PortsPerSubscriber: pps,
			PortRangeStart: rs, PortRangeEnd: re}, zap.NewNop())
		if err != nil {
			if strings.Contains(err.Error(), "invalid") {
				r.m = nil
				return "invalid"
			}
			return "error " + err.Error()
		}
		r.m = m
		if f[4] == "bulk" || f[4] == "trad" {
			l, err := nat.NewLogger(nat.LoggerConfig{Enabled: true, Format: nat.LogFormatJSON,
				BulkLogging: f[4] == "bulk", BufferSize: 500}, zap.NewNop())
			if err != nil {
				return "error " + err.Error()
			}
			l.SetWriterForVerif(&r.w)
			r.l = l
			m.SetLogger(l)
		} else if f[4] != "off" {
			return "badop"
		}
		return "ok"
	}
	if r.m == nil {
		return "badop"
	}
	needsPool := map[string]bool{"addip": true, "alloc": true, "dealloc": true, "pools": true, "stress": true}
	if r.held && needsPool[f[0]] {
		return "badop" // would deadlock on the lock the harness holds
	}
	if r.buffering {
		switch f[0] {
		case "stress":
			return "badop"
		case "alloc", "dealloc":
			if r.bufCalls >= maxBufCalls {
				return "badop"
			}
			r.bufCalls++
		case "spawn":
			if r.held {
				if r.bufCalls >= maxBufCalls {
					return "badop"
				}
				r.bufCalls++
			}
		}
	}
	switch {
	case f[0] == "addip" && len(f) == 2:
		if err := r.m.AddPublicIP(pubIP(tagNum(f[1]))); err != nil {
			if strings.Contains(err.Error(), "already") {
				return "dup"
			}
			return "error " + err.Error()
		}
		return "ok"
	case f[0] == "alloc" && len(f) == 2:
		return r.doAlloc(f[1]) + r.logSuffix()
	case f[0] == "dealloc" && len(f) == 2:
		return r.doDealloc(f[1]) + r.logSuffix()
	case f[0] == "get" && len(f) == 2:
		a := r.m.GetAllocation(privIP(tagNum(f[1])))
		if a == nil {
			return "none"
		}
		return showAlloc(a)
	case f[0] == "count":
		return strconv.Itoa(r.m.GetAllocationCount())
	case f[0] == "pools":
		var parts []string
		for _, e := range r.m.GetPoolStats() {
			parts = append(parts, fmt.Sprintf("%s:%d/%d", pubTok(e.PublicIP), e.Subscribers, e.MaxSubscribers))
		}
		if len(parts) == 0 {
			return "-"
		}
		return strings.Join(parts, ",")
	case f[0] == "buffer" && len(f) == 1:
		if r.buffering || r.held {
			return "badop"
		}
		r.logSuffix() // nothing is pending: every call so far was followed by a flush
		r.buffering = true
		r.bufCalls = 0
		return "ok"
	case f[0] == "flushhold" && len(f) == 1:
		if !r.buffering || r.flushDone != nil || r.held {
			return "badop"
		}
		if r.l == nil {
			return "idle"
		}
		r.w.mu.Lock()
		r.w.armed = true
		r.w.inWrite = make(chan struct{})
		r.w.resume = make(chan struct{})
		r.w.mu.Unlock()
		done := make(chan struct{})
		go func() {
			r.l.Flush()
			r.l.FlushPortBlocks()
			close(done)
		}()
		select {
		case <-r.w.inWrite:
			r.flushDone = done
			return "held"
		case <-done:
			r.w.mu.Lock()
			r.w.armed = false
			r.w.mu.Unlock()
			return "idle"
		case <-time.After(60 * time.Second):
			return "stuck"
		}
	case f[0] == "flushrelease" && len(f) == 1:
		if !r.buffering || r.held {
			return "badop"
		}
		if r.flushDone != nil {
			close(r.w.resume)
			select {
			case <-r.flushDone:
			case <-time.After(60 * time.Second):
				return "hang"
			}
			r.flushDone = nil
		}
		r.buffering = false
		r.bufCalls = 0
		return "ok" + r.logSuffix()
	case f[0] == "stress" && len(f) == 5:
		return r.stress(f)
	case f[0] == "hold":
		if r.held {
			return "badop"
		}
		r.m.HoldPoolForVerif()
		r.held = true
		return "ok"
	case f[0] == "spawn" && len(f) == 3:
		if !r.held {
			return "badop"
		}
		k := f[2]
		switch f[1] {
		case "alloc":
			return r.spawn(func() string { return r.doAlloc(k) })
		case "dealloc":
			return r.spawn(func() string { return r.doDealloc(k) })
		}
		return "badop"
	case f[0] == "unhold":
		if !r.held {
			return "badop"
		}
		r.m.ReleasePoolForVerif()
		r.held = false
		var outs []string
		for _, t := range r.pending {
			select {
			case res := <-t.done:
				outs = append(outs, res)
			case <-time.After(60 * time.Second):
				outs = append(outs, "hang")
			}
		}
		r.pending = nil
		if len(outs) == 0 {
			return "-" + r.logSuffix()
		}
		return strings.Join(outs, " ; ") + r.logSuffix()
	}
	return "badop"
}

func main() {
	// one P: a spawned caller runs until it parks on the pool lock before the harness looks at it again,
	// and no cross-thread wake-ups are needed (the interleavings are placed by hold/spawn/unhold, not by the scheduler)
	runtime.GOMAXPROCS(1)
	hx.Main(comp{})
}
