// nat drives the real nat.Manager (pkg/nat/manager.go) with a real nat.Logger (pkg/nat/logging.go)
// writing JSON records into a buffer.  Concurrent callers are placed deterministically: `hold` takes
// the pool lock through a verif hook, every `spawn` starts a goroutine and waits until it is parked on
// a lock (or has returned), `unhold` releases the lock and collects the answers in queue order.
package main

import (
	"bytes"
	"encoding/binary"
	"encoding/json"
	"errors"
	"fmt"
	"math/rand"
	"net"
	"os"
	"path/filepath"
	"regexp"
	"runtime"
	"sort"
	"strconv"
	"strings"
	"sync"
	"time"

	"bngverif/hx"

	"github.com/cilium/ebpf"
	"github.com/cilium/ebpf/rlimit"
	"github.com/codelaboratoryltd/bng/pkg/nat"
	"go.uber.org/zap"
)

type comp struct{}

// ---------------------------------------------------------------- entity <-> address mapping

func privIP(n int) net.IP { return net.IPv4(10, byte(n>>16), byte(n>>8), byte(n)) }
func pubIP(n int) net.IP  { return net.IPv4(203, 0, byte(113+n>>8), byte(n)) }

func privTok(ip net.IP) string {
	v := ip.To4()
	if v == nil || v[0] != 10 {
		return "k?" + ip.String()
	}
	return fmt.Sprintf("k%d", int(v[1])<<16|int(v[2])<<8|int(v[3]))
}

func pubTok(ip net.IP) string {
	v := ip.To4()
	if v == nil || v[0] != 203 || v[1] != 0 || v[2] < 113 {
		return "p?" + ip.String()
	}
	return fmt.Sprintf("p%d", int(v[2]-113)<<8|int(v[3]))
}

func tagNum(tok string) int {
	n, _ := strconv.Atoi(tok[1:])
	return n
}

// ---------------------------------------------------------------- generator

type cfg struct{ pps, rs, re int }

// configurations: default, dividing, non-dividing, the 65535 edge, one-slot, whole range, inverted ranges
var cfgs = []cfg{
	{1000, 10000, 12999}, // 3 blocks
	{1000, 10000, 12500}, // non-dividing: 2 blocks, 501 ports unused
	{2, 65530, 65535},    // 3 blocks ending at 65535
	{1, 65535, 65535},    // one block of one port
	{4, 1, 10},           // 2 blocks, non-dividing
	{16384, 1024, 65535}, // 3 blocks, non-dividing
	{0, 0, 0},            // the defaults: 1024 / 1024..65535 (63 blocks)
	{65535, 1, 65535},    // one block covering the whole range
	{30000, 5536, 65535}, // 2 blocks, the second ends at 65535
	{3, 100, 99},         // empty range
	{2, 100, 90},         // inverted range: MaxSubscribers negative
	{7, 1000, 1001},      // range smaller than a block
	{10, 5, -3},          // negative range end: accepted, MaxSubscribers negative
	// rejected by NewManager (they used to wrap in uint16 and hand out overlapping blocks)
	{1024, 1024, 70000},
	{1024, -1000, 65535},
	{70000, 1, 65535},
	{-5, 1024, 65535},
	{100, 65536, 65536},
}

var modes = []string{"bulk", "trad", "off"}

func newOp(c cfg, mode string) string { return fmt.Sprintf("new %d %d %d %s", c.pps, c.rs, c.re, mode) }

func randSeq(r *rand.Rand, n int) []string {
	c := cfgs[r.Intn(len(cfgs))]
	if r.Intn(3) > 0 {
		c = cfgs[r.Intn(6)] // the small ones: exhaustion and reuse happen constantly
	}
	subs := 2 + r.Intn(5)
	ips := 1 + r.Intn(3)
	kern := r.Intn(2) == 0
	first := newOp(c, modes[r.Intn(len(modes))])
	if kern {
		first += " kern"
	}
	seq := []string{first}
	k := func() string { return fmt.Sprintf("k%d", 1+r.Intn(subs)) }
	failing, backlog := false, false // the log writer (wfail), records it may have refused
	for i := 0; i < ips; i++ {
		if r.Intn(4) > 0 {
			seq = append(seq, fmt.Sprintf("addip p%d", 1+i))
		}
	}
	for j := 0; j < n; j++ {
		switch x := r.Intn(114); {
		case x >= 100 && x < 105:
			// the caller writes over what it was handed / what it passed in
			switch r.Intn(4) {
			case 0:
				seq = append(seq, "poke arg "+k())
			case 1:
				seq = append(seq, fmt.Sprintf("poke addip p%d", 1+r.Intn(ips)))
			case 2:
				seq = append(seq, "poke pool")
			default:
				seq = append(seq, "poke ret "+k()+" "+hx.Pick(r, []string{"idx", "idx", "idx0", "pub", "priv", "ports", "sub"}))
			}
		case x >= 105 && x < 109:
			if !kern {
				seq = append(seq, "get "+k())
			} else if r.Intn(3) == 0 {
				seq = append(seq, "kmap")
			} else {
				seq = append(seq, "fault "+hx.Pick(r, []string{"on", "on", "off"}))
			}
		case x >= 109:
			switch r.Intn(5) {
			case 0:
				seq = append(seq, "wfail off")
				failing = false
			case 1, 2:
				seq = append(seq, "flush")
			default:
				seq = append(seq, fmt.Sprintf("wfail %d", r.Intn(4)))
				failing, backlog = true, true
			}
		case x < 34:
			seq = append(seq, "alloc "+k())
		case x < 58:
			seq = append(seq, "dealloc "+k())
		case x < 66:
			seq = append(seq, "get "+k())
		case x < 70:
			seq = append(seq, "count")
		case x < 77:
			seq = append(seq, "pools")
		case x < 84:
			seq = append(seq, fmt.Sprintf("addip p%d", 1+r.Intn(ips)))
		case x < 90:
			// a stretch during which the logger is not flushed after each call, usually with a flush parked
			// inside its first Write while calls go on (the background flushLoop on a slow log file), or queued at the
			// write lock and overtaken by an inline flush
			if failing || backlog {
				seq = append(seq, "wfail off", "flush")
				failing, backlog = false, false
			}
			seq = append(seq, "buffer")
			calls := 0
			some := func(n int) {
				for ; n > 0 && calls < 30; n-- {
					calls++
					if r.Intn(3) > 0 {
						seq = append(seq, "alloc "+k())
					} else {
						seq = append(seq, "dealloc "+k())
					}
				}
			}
			some(r.Intn(5))
			for rounds := r.Intn(3); rounds > 0; rounds-- {
				seq = append(seq, hx.Pick(r, []string{"flushhold", "flushhold", "flushpark"}))
				some(1 + r.Intn(5))
				if r.Intn(4) == 0 && calls < 26 {
					seq = append(seq, "hold", "spawn alloc "+k(), "spawn dealloc "+k(), "unhold")
					calls += 2
				}
				if rounds > 1 {
					seq = append(seq, "flushrelease", "buffer")
					calls = 0
					some(r.Intn(4))
				}
			}
			seq = append(seq, "flushrelease")
		default:
			seq = append(seq, "hold")
			for m := 1 + r.Intn(4); m > 0; m-- {
				if r.Intn(3) > 0 {
					seq = append(seq, "spawn alloc "+k())
				} else {
					seq = append(seq, "spawn dealloc "+k())
				}
				if r.Intn(5) == 0 {
					seq = append(seq, "get "+k())
				}
			}
			seq = append(seq, "unhold")
		}
	}
	if failing {
		seq = append(seq, "wfail off", "flush")
	}
	if kern {
		seq = append(seq, "fault off", "kmap")
	}
	for i := 1; i <= subs; i++ {
		seq = append(seq, fmt.Sprintf("get k%d", i))
	}
	return append(seq, "count", "pools")
}

// aliasSeqs: after a short history the caller scribbles over one thing it was handed or passed in; everything that
// follows must be as if it had not (the manager keeps and hands out copies).
func aliasSeqs(emit func([]string)) {
	pokes := []string{"poke ret k1 idx", "poke ret k1 idx0", "poke ret k2 idx", "poke ret k1 pub", "poke ret k1 priv",
		"poke ret k1 ports", "poke ret k1 sub", "poke arg k1", "poke arg k2", "poke addip p1", "poke addip p2", "poke pool"}
	prefixes := [][]string{
		{"alloc k1", "alloc k2"},
		{"alloc k1", "alloc k2", "get k1", "get k2"},
		{"alloc k1", "alloc k2", "alloc k3", "alloc k4", "get k1"},
		{"alloc k1", "alloc k2", "dealloc k2", "alloc k2"},
	}
	for _, mode := range []string{"bulk", "trad"} {
		for _, pre := range prefixes {
			for _, pk := range pokes {
				seq := []string{newOp(cfg{1000, 10000, 12999}, mode) + " kern", "addip p1", "addip p2"}
				seq = append(seq, pre...)
				seq = append(seq, pk, "get k1", "get k2", "pools", "alloc k5", "dealloc k1", "pools", "alloc k6", "alloc k1",
					"addip p1", "addip p2", "kmap", "get k1", "get k5", "get k6", "dealloc k2", "alloc k7", "pools", "count")
				emit(seq)
			}
		}
	}
}

// faultSeqs: the kernel map refuses every Put and Delete for a while (`fault on`): every call shape inside the fault,
// then the retries and the re-use of whatever was (not) freed.
func faultSeqs(emit func([]string)) {
	inside := [][]string{
		{"dealloc k1"}, {"dealloc k2"}, {"dealloc k4"}, {"alloc k1"}, {"alloc k4"}, {"alloc k4", "alloc k5"},
		{"dealloc k1", "dealloc k1"}, {"dealloc k1", "alloc k1"}, {"dealloc k2", "alloc k4"}, {"alloc k4", "dealloc k4"},
		{"hold", "spawn dealloc k1", "spawn alloc k4", "unhold"},
		{"hold", "spawn alloc k4", "spawn alloc k4", "spawn dealloc k2", "unhold"},
	}
	after := [][]string{
		{"alloc k4"}, {"dealloc k1", "alloc k4"}, {"alloc k4", "alloc k5"}, {"dealloc k2", "dealloc k1", "alloc k5", "alloc k4"},
	}
	for _, mode := range []string{"bulk", "trad", "off"} {
		for _, c := range []cfg{{1000, 10000, 12999}, {4, 2000, 2011}} {
			for _, in := range inside {
				for _, af := range after {
					seq := []string{newOp(c, mode) + " kern", "addip p1", "alloc k1", "alloc k2", "alloc k3", "dealloc k3", "kmap", "fault on"}
					seq = append(seq, in...)
					seq = append(seq, "kmap", "get k1", "get k2", "get k4", "pools", "fault off")
					seq = append(seq, af...)
					seq = append(seq, "kmap", "get k1", "get k2", "get k4", "get k5", "pools", "count")
					emit(seq)
				}
			}
		}
	}
}

// flushRaceWindows: a flush queued at the write lock (the flushLoop's) is overtaken by an inline flush after 1..2 more
// calls; b calls were buffered before it started.
func flushRaceWindows(emit func([]string)) {
	during := []string{"alloc k4", "alloc k5", "dealloc k1", "dealloc k2", "alloc k1"}
	before := [][]string{{}, {"alloc k1"}, {"alloc k1", "alloc k2"}, {"alloc k1", "alloc k2", "alloc k3"},
		{"alloc k1", "alloc k2", "dealloc k1", "alloc k3"}}
	for _, mode := range []string{"bulk", "trad"} {
		for _, pre := range before {
			for _, a := range during {
				for _, b := range append([]string{""}, during...) {
					seq := []string{newOp(cfg{1000, 10000, 14999}, mode), "addip p1", "buffer"}
					seq = append(seq, pre...)
					seq = append(seq, "flushpark", a)
					if b != "" {
						seq = append(seq, b)
					}
					seq = append(seq, "flushrelease", "get k1", "get k2", "get k4", "alloc k6", "pools")
					emit(seq)
				}
			}
		}
	}
}

// wfailSeqs: the log writer accepts n more records and then fails; calls go on; it recovers; nothing may be lost or
// out of order.
func wfailSeqs(emit func([]string)) {
	calls := [][]string{{"alloc k3"}, {"dealloc k1"}, {"dealloc k1", "alloc k3"}, {"dealloc k1", "alloc k3", "dealloc k2"},
		{"hold", "spawn dealloc k1", "spawn alloc k3", "unhold"}, {"dealloc k1", "flush", "alloc k3"}}
	for _, mode := range []string{"bulk", "trad"} {
		for n := 0; n <= 2; n++ {
			for _, cs := range calls {
				for _, rec := range [][]string{{"flush"}, {"alloc k4"}, {"dealloc k2", "alloc k5"}} {
					seq := []string{newOp(cfg{1000, 10000, 12999}, mode), "addip p1", "alloc k1", "alloc k2", fmt.Sprintf("wfail %d", n)}
					seq = append(seq, cs...)
					seq = append(seq, "wfail off")
					seq = append(seq, rec...)
					seq = append(seq, "flush", "get k1", "get k2", "get k3", "pools")
					emit(seq)
				}
			}
		}
	}
}

// fileSeq: the logger writes a real file that is rotated about every sixth record; for a while the rotation cannot
// open the new file (`rotfail on`: at most maxRotCalls calls); `sync` shows what reached the files.
func fileSeq(r *rand.Rand) []string {
	mode := hx.Pick(r, []string{"bulkf", "tradf"})
	seq := []string{newOp(cfg{100, 10000, 10999}, mode), "addip p1"}
	k := func() string { return fmt.Sprintf("k%d", 1+r.Intn(8)) }
	call := func() string {
		if r.Intn(3) > 0 {
			return "alloc " + k()
		}
		return "dealloc " + k()
	}
	for round := 1 + r.Intn(4); round > 0; round-- {
		for i := r.Intn(9); i > 0; i-- {
			seq = append(seq, call())
		}
		if r.Intn(4) == 0 {
			seq = append(seq, "sync")
		}
		seq = append(seq, "rotfail on")
		for i := 1 + r.Intn(maxRotCalls); i > 0; i-- {
			seq = append(seq, call())
		}
		if r.Intn(5) == 0 {
			seq = append(seq, "hold", "spawn "+call(), "unhold")
		}
		seq = append(seq, "rotfail off")
		for i := r.Intn(4); i > 0; i-- {
			seq = append(seq, call())
		}
		seq = append(seq, "sync")
	}
	return append(seq, "get k1", "get k2", "pools")
}

// exhaustive enumerates every sequence of alloc/dealloc of up to `subs` subscribers to the given depth, up to
// renaming of subscribers (k(i+1) is first used only after k(i); a release of a never-used subscriber is left to
// the random generator), on `ips` public addresses of the given configuration; `keep` selects the fraction that is run.
func exhaustive(subs, depth int, c cfg, ips int, mode string, keep func() bool, emit func([]string)) {
	head := []string{newOp(c, mode)}
	for i := 1; i <= ips; i++ {
		head = append(head, fmt.Sprintf("addip p%d", i))
	}
	var tail []string
	for i := 1; i <= subs; i++ {
		tail = append(tail, fmt.Sprintf("get k%d", i))
	}
	tail = append(tail, "pools")
	var rec func(prefix []string, used, depth int)
	rec = func(prefix []string, used, d int) {
		if d == 0 {
			if keep() {
				seq := append(append([]string{}, head...), prefix...)
				emit(append(seq, tail...))
			}
			return
		}
		lim := used + 1
		if lim > subs {
			lim = subs
		}
		for i := 1; i <= lim; i++ {
			u := used
			if i > u {
				u = i
			}
			rec(append(prefix[:len(prefix):len(prefix)], fmt.Sprintf("alloc k%d", i)), u, d-1)
			if i <= used {
				rec(append(prefix[:len(prefix):len(prefix)], fmt.Sprintf("dealloc k%d", i)), u, d-1)
			}
		}
	}
	rec(nil, 0, depth)
}

// windows enumerates the precheck/commit interleavings: up to 3 callers queued at the pool lock after a
// short sequential prefix.
func windows(emit func([]string)) {
	calls := []string{"alloc k1", "alloc k2", "alloc k3", "dealloc k1", "dealloc k2"}
	prefixes := [][]string{{}, {"alloc k1"}, {"alloc k1", "alloc k2"}, {"alloc k1", "alloc k2", "dealloc k1"},
		{"alloc k1", "alloc k2", "alloc k3", "dealloc k2"}}
	for _, mode := range []string{"bulk", "trad"} {
		for _, pre := range prefixes {
			for _, a := range calls {
				for _, b := range calls {
					for _, c := range append([]string{""}, calls...) {
						seq := []string{newOp(cfg{1000, 10000, 12999}, mode), "addip p1", "addip p2"}
						seq = append(seq, pre...)
						seq = append(seq, "hold", "spawn "+a, "spawn "+b)
						if c != "" {
							seq = append(seq, "spawn "+c)
						}
						seq = append(seq, "get k1", "unhold", "get k1", "get k2", "get k3", "alloc k4", "pools")
						emit(seq)
					}
				}
			}
		}
	}
}

// flushWindows enumerates calls landing while a flush of the log is in flight: b calls buffered before the flush
// starts (the batch), then every sequence of 1..3 calls from a small alphabet during the flush, in both formats.
func flushWindows(emit func([]string)) {
	during := []string{"alloc k4", "alloc k5", "dealloc k1", "dealloc k2", "alloc k1"}
	before := [][]string{{}, {"alloc k1"}, {"alloc k1", "alloc k2"}, {"alloc k1", "alloc k2", "alloc k3"},
		{"alloc k1", "alloc k2", "dealloc k1", "alloc k3"}}
	for _, mode := range []string{"bulk", "trad"} {
		for _, pre := range before {
			var rec func(cur []string, d int)
			rec = func(cur []string, d int) {
				if len(cur) > 0 {
					seq := []string{newOp(cfg{1000, 10000, 14999}, mode), "addip p1", "buffer"}
					seq = append(seq, pre...)
					seq = append(seq, "flushhold")
					seq = append(seq, cur...)
					seq = append(seq, "flushrelease", "get k1", "get k2", "get k3", "get k4", "get k5", "alloc k6", "pools")
					emit(seq)
				}
				if d == 0 {
					return
				}
				for _, c := range during {
					rec(append(cur[:len(cur):len(cur)], c), d-1)
				}
			}
			rec(nil, 3)
		}
	}
}

// fills: configurations with MANY blocks per public address (small ports-per-subscriber), one address filled far beyond
// 64 (and, in the long variants, beyond 128 and 256) live subscribers, a few releases from the middle -- below and above
// slot 64 -- then more allocations, which must take exactly the freed blocks and then the next fresh ones.
func fills(r *rand.Rand, tier string, emit func([]string)) {
	type fc struct {
		c      cfg
		blocks int
	}
	short := []fc{
		{cfg{512, 1024, 65535}, 126}, // the usual range with half-size blocks
		{cfg{256, 1024, 65535}, 252}, // quarter-size blocks
		{cfg{16, 40000, 42111}, 132}, // a narrow range
		{cfg{1, 5000, 5199}, 200},    // one port per subscriber
		{cfg{700, 1, 65535}, 93},     // non-dividing
		{cfg{1000, 1536, 65535}, 64}, // exactly 64 blocks: the boundary itself
		{cfg{1000, 536, 65535}, 65},  // 65 blocks
	}
	long := []fc{
		{cfg{256, 1024, 65535}, 252},
		{cfg{8, 60000, 65535}, 692},
		{cfg{100, 1024, 65535}, 645},
	}
	one := func(f fc, n int, mode string) {
		seq := []string{newOp(f.c, mode), "addip p1"}
		if r.Intn(3) == 0 {
			seq = append(seq, "addip p2") // overflow goes to a second address
		}
		for i := 1; i <= n; i++ {
			seq = append(seq, fmt.Sprintf("alloc k%d", i))
		}
		// releases from the middle, on both sides of slot 64
		rel := 2 + r.Intn(5)
		for j := 0; j < rel; j++ {
			seq = append(seq, fmt.Sprintf("dealloc k%d", 1+r.Intn(n)))
		}
		if n > 70 {
			seq = append(seq, fmt.Sprintf("dealloc k%d", 66+r.Intn(n-66)), fmt.Sprintf("dealloc k%d", 1+r.Intn(60)))
		}
		more := rel + 2 + r.Intn(6)
		for j := 1; j <= more; j++ {
			seq = append(seq, fmt.Sprintf("alloc k%d", n+j))
		}
		for _, i := range []int{1, 33, 64, 65, 66, 67, n, n + 1, n + more} {
			seq = append(seq, fmt.Sprintf("get k%d", i))
		}
		emit(append(seq, "count", "pools"))
	}
	ms := []string{"bulk", "trad", "off"}
	for i, f := range short {
		n := 66 + r.Intn(75) // 66..140 allocations
		if n > f.blocks+3 {
			n = f.blocks + 3 // a little beyond full: exhaustion (or spill to p2) is part of the picture
		}
		one(f, n, ms[i%3])
		one(f, 66+r.Intn(10), ms[(i+1)%3])
	}
	if tier == "thorough" {
		for rep := 0; rep < 6; rep++ {
			for i, f := range short {
				one(f, 66+r.Intn(75), ms[(i+rep)%3])
			}
			for i, f := range long {
				one(f, 130+r.Intn(f.blocks-125), ms[(i+rep)%3]) // beyond 128, up to beyond 256 / 640
			}
		}
	}
}

func (comp) Gen(r *rand.Rand, tier string, emit func([]string)) {
	nShort, nLong := 2500, 40
	if tier == "thorough" {
		nShort, nLong = 40000, 600
	}
	for i := 0; i < nShort; i++ {
		emit(randSeq(r, 4+r.Intn(28)))
	}
	for i := 0; i < nLong; i++ {
		emit(randSeq(r, 300+r.Intn(500)))
	}
	windows(emit)
	flushWindows(emit)
	fills(r, tier, emit)
	aliasSeqs(emit)
	faultSeqs(emit)
	flushRaceWindows(emit)
	wfailSeqs(emit)
	nFile := 150
	if tier == "thorough" {
		nFile = 3000
	}
	for i := 0; i < nFile; i++ {
		emit(fileSeq(r))
	}
	// truly concurrent callers (no placement): only the final table and the log are observed, judged by the monitor
	nStress := 40
	if tier == "thorough" {
		nStress = 1500
	}
	for i := 0; i < nStress; i++ {
		c := cfgs[r.Intn(6)]
		seq := []string{newOp(c, modes[r.Intn(2)])}
		for j := 1; j <= 1+r.Intn(3); j++ {
			seq = append(seq, fmt.Sprintf("addip p%d", j))
		}
		seq = append(seq, fmt.Sprintf("stress %d %d %d %d", 2+r.Intn(5), 2+r.Intn(5), 50+r.Intn(300), r.Int63n(1<<40)))
		emit(seq)
	}
	// small scope: <= 6 subscribers, 1-3 public addresses, depth 8 (75 848 sequences per geometry)
	geos := []struct {
		c    cfg
		ips  int
		mode string
	}{
		{cfg{1000, 10000, 12999}, 1, "bulk"}, // one address, three blocks
		{cfg{1000, 10000, 12500}, 2, "trad"}, // two addresses, two blocks each, non-dividing
		{cfg{2, 65532, 65535}, 3, "bulk"},    // three addresses, two blocks each, ending at 65535
	}
	for _, g := range geos {
		if tier == "thorough" {
			exhaustive(6, 8, g.c, g.ips, g.mode, func() bool { return true }, emit)
		} else {
			exhaustive(6, 8, g.c, g.ips, g.mode, func() bool { return r.Intn(60) == 0 }, emit)
		}
	}
}

// ---------------------------------------------------------------- executor

type task struct {
	done chan string
}

// stallWriter is the logger's output.  When armed, the next Write records its data and then parks until
// released: a flush of the NAT log is then "in flight" (its batch taken, one record written) while the
// harness goes on allocating and releasing -- what the background flushLoop does with a slow log file.
//
// `wfail n`: the next n Writes succeed, every later one fails (a full disk) until `wfail off`.
type stallWriter struct {
	mu      sync.Mutex
	buf     bytes.Buffer
	armed   bool
	failing bool
	left    int
	inWrite chan struct{}
	resume  chan struct{}
}

var errDisk = errors.New("write nat.log: no space left on device")

func (w *stallWriter) Write(p []byte) (int, error) {
	w.mu.Lock()
	if w.failing {
		if w.left == 0 {
			w.mu.Unlock()
			return 0, errDisk
		}
		w.left--
	}
	w.buf.Write(p)
	park := w.armed
	w.armed = false
	w.mu.Unlock()
	if park {
		close(w.inWrite)
		<-w.resume
	}
	return len(p), nil
}

func (w *stallWriter) take() string {
	w.mu.Lock()
	defer w.mu.Unlock()
	s := w.buf.String()
	w.buf.Reset()
	return s
}

// at most this many calls between `buffer` and `flushrelease`: the logger flushes by itself (and would block on
// the parked flush) when 50 port-block records are buffered
const maxBufCalls = 40

// file mode (`bulkf` / `tradf`): the logger writes a real file with size-based rotation.  The file is rotated about
// every sixth record; while `rotfail on` at most maxRotCalls calls are accepted, so that the backlog written by the
// first flush after `rotfail off` never spans two rotations (rotated files are named by the second).
const (
	fileMaxSize = 1200
	maxRotCalls = 4
)

// the real kernel subscriber_nat map (`new … kern`) and a closed duplicate of its handle: with the closed handle
// installed (`fault on`) every Put and every Delete of the manager fails
var (
	kernMap *ebpf.Map
	deadMap *ebpf.Map
)

func kernelMaps() error {
	if kernMap != nil {
		return nil
	}
	_ = rlimit.RemoveMemlock()
	m, err := ebpf.NewMap(&ebpf.MapSpec{Type: ebpf.Hash, KeySize: 4, ValueSize: 64, MaxEntries: 4096})
	if err != nil {
		return err
	}
	d, err := m.Clone()
	if err != nil {
		return err
	}
	d.Close()
	kernMap, deadMap = m, d
	return nil
}

func clearKernel() {
	var k uint32
	var v nat.SubscriberNAT
	var keys []uint32
	it := kernMap.Iterate()
	for it.Next(&k, &v) {
		keys = append(keys, k)
	}
	for i := range keys {
		_ = kernMap.Delete(&keys[i])
	}
}

type run struct {
	m         *nat.Manager
	l         *nat.Logger
	w         stallWriter
	buffering bool          // no flush after each call
	flushDone chan struct{} // a parked flush is in flight
	parkDone  chan struct{} // a flush is parked at the logger's write lock, which the harness holds
	bufCalls  int
	held      bool
	pending   []*task
	lastTS    time.Time

	kern  bool // a real kernel subscriber_nat map is attached
	fault bool // … through its closed handle

	// what the caller keeps: the Allocation it was handed last for each subscriber, the address slices it passed in
	keepMu  sync.Mutex
	kept    map[int]*nat.Allocation
	args    map[int]net.IP
	pubArgs map[int]net.IP

	// file mode
	file     bool
	dir      string
	moved    bool  // `rotfail on`: the log directory has been renamed away
	curOff   int64 // bytes of the current nat.log already read
	rotCalls int
	fileRecs []string
	fileBack bool
}

func (comp) NewRun() hx.Run {
	return &run{kept: map[int]*nat.Allocation{}, args: map[int]net.IP{}, pubArgs: map[int]net.IP{}}
}

func (r *run) Close() {
	if r.flushDone != nil {
		close(r.w.resume)
		<-r.flushDone
		r.flushDone = nil
	}
	if r.parkDone != nil {
		r.l.ReleaseWriterForVerif()
		<-r.parkDone
		r.parkDone = nil
	}
	if r.held {
		r.m.ReleasePoolForVerif()
		for _, t := range r.pending {
			<-t.done
		}
	}
	if r.file {
		if r.moved {
			_ = os.Rename(r.dir+".off", r.dir)
		}
		if r.l != nil {
			r.l.Stop()
		}
		_ = os.RemoveAll(r.dir)
		_ = os.RemoveAll(r.dir + ".off")
	}
}

func showAlloc(a *nat.Allocation) string {
	return fmt.Sprintf("%s %d %d i%d id%d %s", pubTok(a.PublicIP), a.PortStart, a.PortEnd, a.PoolIndex, a.SubscriberID,
		privTok(a.PrivateIP))
}

func kernErr(err error) bool {
	return strings.Contains(err.Error(), "eBPF map") || strings.Contains(err.Error(), "subscriber NAT entry")
}

func (r *run) doAlloc(k string) string {
	n := tagNum(k)
	ip := privIP(n)
	a, err := r.m.AllocateNAT(ip)
	r.keepMu.Lock()
	r.args[n] = ip
	if err == nil {
		r.kept[n] = a
	}
	r.keepMu.Unlock()
	if err != nil {
		if strings.Contains(err.Error(), "exhausted") {
			return "exhausted"
		}
		if kernErr(err) {
			return "kernerr"
		}
		return "error " + err.Error()
	}
	return "ok " + showAlloc(a)
}

func (r *run) doDealloc(k string) string {
	if err := r.m.DeallocateNAT(privIP(tagNum(k))); err != nil {
		if kernErr(err) {
			return "kernerr"
		}
		return "error " + err.Error()
	}
	return "ok"
}

type rec struct {
	Timestamp    time.Time `json:"timestamp"`
	EventType    string    `json:"event_type"`
	SubscriberID uint32    `json:"subscriber_id"`
	PrivateIP    string    `json:"private_ip"`
	PublicIP     string    `json:"public_ip"`
	PortStart    uint16    `json:"port_start"`
	PortEnd      uint16    `json:"port_end"`
	BlockSize    uint16    `json:"block_size"`
	PublicPort   uint16    `json:"public_port"`
}

// render turns log lines into record tokens; back reports a timestamp that goes backwards
func (r *run) render(data string) (out []string, back bool) {
	for _, line := range strings.Split(data, "\n") {
		if strings.TrimSpace(line) == "" {
			continue
		}
		var e rec
		if err := json.Unmarshal([]byte(line), &e); err != nil {
			out = append(out, "?unparsable")
			continue
		}
		if e.Timestamp.Before(r.lastTS) {
			back = true
		}
		r.lastTS = e.Timestamp
		k, p := privTok(net.ParseIP(e.PrivateIP)), pubTok(net.ParseIP(e.PublicIP))
		switch e.EventType {
		case "port_block_assign":
			out = append(out, fmt.Sprintf("A:%d:%s:%s:%d:%d:%d", e.SubscriberID, k, p, e.PortStart, e.PortEnd, e.BlockSize))
		case "port_block_release":
			out = append(out, fmt.Sprintf("R:%s:%s:%d", k, p, e.PortStart))
		case "allocate":
			out = append(out, fmt.Sprintf("a:%d:%s:%s:%d", e.SubscriberID, k, p, e.PublicPort))
		case "deallocate":
			out = append(out, fmt.Sprintf("d:%s:%s:%d", k, p, e.PublicPort))
		default:
			out = append(out, "?"+e.EventType)
		}
	}
	return out, back
}

func suffix(out []string, back bool) string {
	if len(out) == 0 {
		return ""
	}
	s := " | " + strings.Join(out, ",")
	if back {
		s += ",tsback"
	}
	return s
}

// logSuffix flushes the logger and renders the records written since the last call.  In file mode the records are
// collected (rotated files are read and removed at once) and shown by `sync` only: when a record reaches the file
// depends on the length of the JSON lines written before it.
func (r *run) logSuffix() string {
	if r.l == nil || r.buffering {
		return ""
	}
	r.l.Flush()
	r.l.FlushPortBlocks()
	if r.file {
		r.consume()
		return ""
	}
	return suffix(r.render(r.w.take()))
}

// consume reads what the logger has written into its files since the last call
func (r *run) consume() {
	d := r.dir
	if r.moved {
		d += ".off"
	}
	take := func(b []byte) {
		out, back := r.render(string(b))
		r.fileRecs = append(r.fileRecs, out...)
		r.fileBack = r.fileBack || back
	}
	ents, _ := os.ReadDir(d)
	var rot []string
	for _, e := range ents {
		if strings.HasPrefix(e.Name(), "nat.log.") {
			rot = append(rot, e.Name())
		}
	}
	sort.Strings(rot)
	for i, n := range rot {
		b, _ := os.ReadFile(filepath.Join(d, n))
		if i == 0 {
			if int64(len(b)) < r.curOff {
				r.fileRecs = append(r.fileRecs, "?rotated-file-shrank")
				b = nil
			} else {
				b = b[r.curOff:]
			}
		}
		take(b)
		_ = os.Remove(filepath.Join(d, n))
	}
	if len(rot) > 0 {
		r.curOff = 0
	}
	b, err := os.ReadFile(filepath.Join(d, "nat.log"))
	if err == nil && int64(len(b)) > r.curOff {
		chunk := b[r.curOff:]
		if j := bytes.LastIndexByte(chunk, '\n'); j >= 0 {
			take(chunk[:j+1])
			r.curOff += int64(j + 1)
		}
	}
}

var gidRe = regexp.MustCompile(`^goroutine (\d+) \[`)

func curGID() string {
	var b [64]byte
	n := runtime.Stack(b[:], false)
	m := gidRe.FindSubmatch(b[:n])
	if m == nil {
		return "?"
	}
	return string(m[1])
}

var stackBuf = make([]byte, 1<<15)

// parkedOnLock reports whether goroutine gid is waiting for a mutex
func parkedOnLock(gid string) bool {
	buf := stackBuf
	for {
		n := runtime.Stack(buf, true)
		if n < len(buf) {
			buf = buf[:n]
			break
		}
		stackBuf = make([]byte, 2*len(buf))
		buf = stackBuf
	}
	hdr := "goroutine " + gid + " ["
	i := bytes.Index(buf, []byte(hdr))
	if i < 0 {
		return false
	}
	rest := buf[i+len(hdr):]
	j := bytes.IndexByte(rest, ']')
	if j < 0 {
		return false
	}
	st := string(rest[:j])
	return strings.HasPrefix(st, "sync.Mutex.Lock") || strings.HasPrefix(st, "sync.RWMutex.Lock") ||
		strings.HasPrefix(st, "sync.RWMutex.RLock") || strings.HasPrefix(st, "semacquire")
}

// start runs f in a goroutine and waits until it has returned (its result) or is parked on a lock ("blocked")
func (r *run) start(f func() string) (*task, string) {
	t := &task{done: make(chan string, 1)}
	gidc := make(chan string, 1)
	go func() {
		defer func() {
			if e := recover(); e != nil {
				t.done <- "panic " + strings.ReplaceAll(fmt.Sprint(e), "\n", " ")
			}
		}()
		gidc <- curGID()
		t.done <- f()
	}()
	gid := <-gidc
	deadline := time.Now().Add(10 * time.Second)
	for i := 0; ; i++ {
		select {
		case res := <-t.done:
			return nil, res
		default:
		}
		if parkedOnLock(gid) {
			return t, "blocked"
		}
		if i < 50 {
			runtime.Gosched()
		} else {
			time.Sleep(20 * time.Microsecond)
		}
		if time.Now().After(deadline) {
			return t, "stuck"
		}
	}
}

// spawn starts a caller that is expected to queue at the pool lock
func (r *run) spawn(f func() string) string {
	t, res := r.start(f)
	if t != nil {
		r.pending = append(r.pending, t)
	}
	return res
}

// stress: g goroutines perform n random AllocateNAT/DeallocateNAT calls each over `subs` subscribers in parallel.
// Observation: the final table (GetAllocation of every subscriber) and every log record written meanwhile.
func (r *run) stress(f []string) string {
	subs, _ := strconv.Atoi(f[1])
	g, _ := strconv.Atoi(f[2])
	n, _ := strconv.Atoi(f[3])
	seed, _ := strconv.ParseInt(f[4], 10, 64)
	if subs < 1 || g < 1 || n < 1 || subs > 64 || g > 64 || n > 100000 {
		return "badop"
	}
	old := runtime.GOMAXPROCS(4)
	defer runtime.GOMAXPROCS(old)
	done := make(chan string, g)
	for i := 0; i < g; i++ {
		rng := rand.New(rand.NewSource(seed + int64(i)))
		go func() {
			defer func() {
				if e := recover(); e != nil {
					done <- "panic " + strings.ReplaceAll(fmt.Sprint(e), "\n", " ")
				}
			}()
			for j := 0; j < n; j++ {
				ip := privIP(1 + rng.Intn(subs))
				if rng.Intn(5) < 3 {
					r.m.AllocateNAT(ip)
				} else {
					r.m.DeallocateNAT(ip)
				}
			}
			done <- ""
		}()
	}
	bad := ""
	for i := 0; i < g; i++ {
		select {
		case res := <-done:
			if res != "" {
				bad = res
			}
		case <-time.After(60 * time.Second):
			return "hang"
		}
	}
	if bad != "" {
		return bad
	}
	var parts []string
	for k := 1; k <= subs; k++ {
		if a := r.m.GetAllocation(privIP(k)); a != nil {
			parts = append(parts, fmt.Sprintf("k%d:%s:%d:%d", k, pubTok(a.PublicIP), a.PortStart, a.PortEnd))
		}
	}
	tab := "-"
	if len(parts) > 0 {
		tab = strings.Join(parts, ",")
	}
	return "table=" + tab + r.logSuffix()
}

// kmapDump renders the kernel subscriber_nat map: k1:p1:<start>:<end>:id<subscriber id>, sorted by subscriber
func kmapDump() string {
	type ent struct {
		n int
		s string
	}
	var es []ent
	var k uint32
	var v nat.SubscriberNAT
	it := kernMap.Iterate()
	for it.Next(&k, &v) {
		priv := make(net.IP, 4)
		binary.BigEndian.PutUint32(priv, k)
		pub := make(net.IP, 4)
		binary.BigEndian.PutUint32(pub, v.Block.PublicIP)
		s := fmt.Sprintf("%s:%s:%d:%d:id%d", privTok(priv), pubTok(pub), v.Block.PortStart, v.Block.PortEnd, v.Block.SubscriberID)
		if v.Block.NextPort != uint32(v.Block.PortStart) {
			s += fmt.Sprintf(":next%d", v.Block.NextPort)
		}
		es = append(es, ent{tagNum(privTok(priv)), s})
	}
	if err := it.Err(); err != nil {
		return "error " + err.Error()
	}
	if len(es) == 0 {
		return "-"
	}
	sort.Slice(es, func(i, j int) bool { return es[i].n < es[j].n })
	parts := make([]string, len(es))
	for i, e := range es {
		parts[i] = e.s
	}
	return strings.Join(parts, ",")
}

func scribble(ip net.IP) {
	for i := range ip {
		ip[i] ^= 0x5a
	}
}

// poke: the caller writes over memory that belongs to it -- the Allocation it was handed, the address slices it
// passed in, the entries GetPoolStats returned.  None of this is a call into the manager.
func (r *run) poke(f []string) string {
	r.keepMu.Lock()
	defer r.keepMu.Unlock()
	switch {
	case f[1] == "ret" && len(f) == 4:
		a := r.kept[tagNum(f[2])]
		if a == nil {
			a = &nat.Allocation{} // nothing was handed out for this subscriber: the write goes nowhere
		}
		switch f[3] {
		case "idx":
			a.PoolIndex++
		case "idx0":
			a.PoolIndex = 0
		case "pub":
			scribble(a.PublicIP)
		case "priv":
			scribble(a.PrivateIP)
		case "ports":
			a.PortStart += 7
			a.PortEnd += 7
		case "sub":
			a.SubscriberID += 100
		default:
			return "badop"
		}
		return "ok"
	case f[1] == "arg" && len(f) == 3:
		scribble(r.args[tagNum(f[2])])
		return "ok"
	case f[1] == "addip" && len(f) == 3:
		scribble(r.pubArgs[tagNum(f[2])])
		return "ok"
	case f[1] == "pool" && len(f) == 2:
		for _, e := range r.m.GetPoolStats() {
			scribble(e.PublicIP)
		}
		return "ok"
	}
	return "badop"
}

func (r *run) Do(op string) string {
	f := hx.Fields(op)
	if f[0] == "new" {
		if len(f) != 5 && !(len(f) == 6 && f[5] == "kern") {
			return "badop"
		}
		pps, _ := strconv.Atoi(f[1])
		rs, _ := strconv.Atoi(f[2])
		re, _ := strconv.Atoi(f[3])
		m, err := nat.NewManager(nat.ManagerConfig{Interface: "verif0", PortsPerSubscriber: pps,
			PortRangeStart: rs, PortRangeEnd: re}, zap.NewNop())
		if err != nil {
			if strings.Contains(err.Error(), "invalid") {
				r.m = nil
				return "invalid"
			}
			return "error " + err.Error()
		}
		r.m = m
		if len(f) == 6 {
			if err := kernelMaps(); err != nil {
				return "error kernel-map " + err.Error()
			}
			clearKernel()
			m.SetSubscriberNATMapForVerif(kernMap)
			r.kern = true
		}
		switch f[4] {
		case "bulk", "trad", "bulkf", "tradf":
			cfg := nat.LoggerConfig{Enabled: true, Format: nat.LogFormatJSON,
				BulkLogging: strings.HasPrefix(f[4], "bulk"), BufferSize: 500}
			if strings.HasSuffix(f[4], "f") {
				dir, err := os.MkdirTemp("", "bngverif-natlog-")
				if err != nil {
					return "error " + err.Error()
				}
				r.file, r.dir = true, dir
				cfg.FilePath = filepath.Join(dir, "nat.log")
				cfg.MaxFileSize = fileMaxSize
			}
			l, err := nat.NewLogger(cfg, zap.NewNop())
			if err != nil {
				return "error " + err.Error()
			}
			if !r.file {
				l.SetWriterForVerif(&r.w)
			}
			r.l = l
			m.SetLogger(l)
		case "off":
		default:
			return "badop"
		}
		return "ok"
	}
	if r.m == nil {
		return "badop"
	}
	needsPool := map[string]bool{"addip": true, "alloc": true, "dealloc": true, "pools": true, "stress": true}
	if r.held && (needsPool[f[0]] || (f[0] == "poke" && len(f) == 2)) {
		return "badop" // would deadlock on the lock the harness holds
	}
	isCall := f[0] == "alloc" || f[0] == "dealloc" || (f[0] == "spawn" && r.held)
	if r.buffering {
		switch f[0] {
		case "stress":
			return "badop"
		case "alloc", "dealloc":
			if r.bufCalls >= maxBufCalls {
				return "badop"
			}
			r.bufCalls++
		case "spawn":
			if r.held {
				if r.bufCalls >= maxBufCalls {
					return "badop"
				}
				r.bufCalls++
			}
		}
	}
	if r.file {
		switch f[0] {
		case "stress", "buffer", "flushhold", "flushpark", "flushrelease", "wfail", "flush":
			return "badop"
		}
		if r.moved && isCall {
			if r.rotCalls >= maxRotCalls {
				return "badop"
			}
			r.rotCalls++
		}
	}
	switch {
	case f[0] == "addip" && len(f) == 2:
		ip := pubIP(tagNum(f[1]))
		err := r.m.AddPublicIP(ip)
		if err != nil {
			if strings.Contains(err.Error(), "already") {
				return "dup"
			}
			return "error " + err.Error()
		}
		r.keepMu.Lock()
		r.pubArgs[tagNum(f[1])] = ip
		r.keepMu.Unlock()
		return "ok"
	case f[0] == "alloc" && len(f) == 2:
		return r.doAlloc(f[1]) + r.logSuffix()
	case f[0] == "dealloc" && len(f) == 2:
		return r.doDealloc(f[1]) + r.logSuffix()
	case f[0] == "get" && len(f) == 2:
		a := r.m.GetAllocation(privIP(tagNum(f[1])))
		if a == nil {
			return "none"
		}
		r.keepMu.Lock()
		r.kept[tagNum(f[1])] = a
		r.keepMu.Unlock()
		return showAlloc(a)
	case f[0] == "count":
		return strconv.Itoa(r.m.GetAllocationCount())
	case f[0] == "pools":
		var parts []string
		for _, e := range r.m.GetPoolStats() {
			parts = append(parts, fmt.Sprintf("%s:%d/%d", pubTok(e.PublicIP), e.Subscribers, e.MaxSubscribers))
		}
		if len(parts) == 0 {
			return "-"
		}
		return strings.Join(parts, ",")
	case f[0] == "poke" && len(f) >= 2:
		return r.poke(f)
	case f[0] == "fault" && len(f) == 2 && (f[1] == "on" || f[1] == "off"):
		if !r.kern {
			return "badop"
		}
		r.fault = f[1] == "on"
		if r.fault {
			r.m.SetSubscriberNATMapForVerif(deadMap)
		} else {
			r.m.SetSubscriberNATMapForVerif(kernMap)
		}
		return "ok"
	case f[0] == "kmap" && len(f) == 1:
		if !r.kern {
			return "badop"
		}
		return kmapDump()
	case f[0] == "wfail" && len(f) == 2:
		if r.buffering {
			return "badop"
		}
		r.w.mu.Lock()
		defer r.w.mu.Unlock()
		if f[1] == "off" {
			r.w.failing = false
			return "ok"
		}
		n, err := strconv.Atoi(f[1])
		if err != nil || n < 0 || n > 1000 {
			return "badop"
		}
		r.w.failing, r.w.left = true, n
		return "ok"
	case f[0] == "flush" && len(f) == 1:
		if r.buffering || r.held {
			return "badop"
		}
		return "ok" + r.logSuffix()
	case f[0] == "rotfail" && len(f) == 2 && (f[1] == "on" || f[1] == "off"):
		if !r.file || r.held || r.moved == (f[1] == "on") {
			return "badop"
		}
		var err error
		if f[1] == "on" {
			err = os.Rename(r.dir, r.dir+".off")
		} else {
			err = os.Rename(r.dir+".off", r.dir)
		}
		if err != nil {
			return "error " + err.Error()
		}
		r.moved = f[1] == "on"
		r.rotCalls = 0
		return "ok"
	case f[0] == "sync" && len(f) == 1:
		if !r.file || r.held || r.moved {
			return "badop"
		}
		r.logSuffix()
		s := "ok" + suffix(r.fileRecs, r.fileBack)
		r.fileRecs, r.fileBack = nil, false
		return s
	case f[0] == "buffer" && len(f) == 1:
		if r.buffering || r.held {
			return "badop"
		}
		r.w.mu.Lock()
		failing := r.w.failing
		r.w.mu.Unlock()
		if failing {
			return "badop"
		}
		if r.l != nil { // nothing may be pending (records a failing writer left in the logger's buffers)
			st := r.l.GetStats()
			if st["buffer_used"].(int)+st["port_block_buffer_used"].(int) > 0 {
				return "badop"
			}
		}
		r.buffering = true
		r.bufCalls = 0
		return "ok"
	case f[0] == "flushhold" && len(f) == 1:
		if !r.buffering || r.flushDone != nil || r.parkDone != nil || r.held {
			return "badop"
		}
		if r.l == nil {
			return "idle"
		}
		r.w.mu.Lock()
		r.w.armed = true
		r.w.inWrite = make(chan struct{})
		r.w.resume = make(chan struct{})
		r.w.mu.Unlock()
		done := make(chan struct{})
		go func() {
			r.l.Flush()
			r.l.FlushPortBlocks()
			close(done)
		}()
		select {
		case <-r.w.inWrite:
			r.flushDone = done
			return "held"
		case <-done:
			r.w.mu.Lock()
			r.w.armed = false
			r.w.mu.Unlock()
			return "idle"
		case <-time.After(60 * time.Second):
			return "stuck"
		}
	case f[0] == "flushpark" && len(f) == 1:
		// the harness takes the logger's write lock; a flush (the background flushLoop's) starts and queues at it
		if !r.buffering || r.flushDone != nil || r.parkDone != nil || r.held {
			return "badop"
		}
		if r.l == nil {
			return "parked"
		}
		r.l.HoldWriterForVerif()
		done := make(chan struct{})
		t, res := r.start(func() string {
			r.l.Flush()
			r.l.FlushPortBlocks()
			close(done)
			return "returned"
		})
		if t == nil {
			// it did not need the lock: nothing was buffered and the code looks at the buffer first
			r.l.ReleaseWriterForVerif()
			return res
		}
		if res != "blocked" {
			r.l.ReleaseWriterForVerif()
			return res
		}
		r.parkDone = done
		return "parked"
	case f[0] == "flushrelease" && len(f) == 1:
		if !r.buffering || r.held {
			return "badop"
		}
		if r.flushDone != nil {
			close(r.w.resume)
			select {
			case <-r.flushDone:
			case <-time.After(60 * time.Second):
				return "hang"
			}
			r.flushDone = nil
		}
		if r.parkDone != nil {
			// the lock is free again and an inline flush (a caller whose record filled the buffer) gets there
			// before the parked one has been scheduled
			r.l.ReleaseWriterForVerif()
			r.l.Flush()
			r.l.FlushPortBlocks()
			select {
			case <-r.parkDone:
			case <-time.After(60 * time.Second):
				return "hang"
			}
			r.parkDone = nil
		}
		r.buffering = false
		r.bufCalls = 0
		return "ok" + r.logSuffix()
	case f[0] == "stress" && len(f) == 5:
		return r.stress(f)
	case f[0] == "hold":
		if r.held {
			return "badop"
		}
		r.m.HoldPoolForVerif()
		r.held = true
		return "ok"
	case f[0] == "spawn" && len(f) == 3:
		if !r.held {
			return "badop"
		}
		k := f[2]
		switch f[1] {
		case "alloc":
			return r.spawn(func() string { return r.doAlloc(k) })
		case "dealloc":
			return r.spawn(func() string { return r.doDealloc(k) })
		}
		return "badop"
	case f[0] == "unhold":
		if !r.held {
			return "badop"
		}
		r.m.ReleasePoolForVerif()
		r.held = false
		var outs []string
		for _, t := range r.pending {
			select {
			case res := <-t.done:
				outs = append(outs, res)
			case <-time.After(60 * time.Second):
				outs = append(outs, "hang")
			}
		}
		r.pending = nil
		if len(outs) == 0 {
			return "-" + r.logSuffix()
		}
		return strings.Join(outs, " ; ") + r.logSuffix()
	}
	return "badop"
}

func main() {
	// one P: a spawned caller runs until it parks on the pool lock before the harness looks at it again,
	// and no cross-thread wake-ups are needed (the interleavings are placed by hold/spawn/unhold, not by the scheduler)
	runtime.GOMAXPROCS(1)
	hx.Main(comp{})
}
