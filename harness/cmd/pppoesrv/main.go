// pppoesrv drives the real pppoe.Server (pkg/pppoe/server.go) through its frame entry points on an
// in-memory socket (verif hook), with a real RADIUS server on loopback whose answer is scripted per op.
package main

import (
	"context"
	"encoding/binary"
	"fmt"
	"math/rand"
	"net"
	"os"
	"sort"
	"strconv"
	"strings"
	"sync"
	"time"

	"bngverif/hx"

	"github.com/codelaboratoryltd/bng/pkg/pppoe"
	bngradius "github.com/codelaboratoryltd/bng/pkg/radius"
	"go.uber.org/zap"
	"layeh.com/radius"
)

type comp struct{}

var stateNames = map[pppoe.SessionState]string{
	pppoe.StateDiscovery: "DISC", pppoe.StateLCPNegotiation: "LCP", pppoe.StateAuthentication: "AUTH",
	pppoe.StateIPCPNegotiation: "IPCP", pppoe.StateEstablished: "EST", pppoe.StateTerminating: "TERM", pppoe.StateClosed: "CLOSED",
}

func mac(n int) net.HardwareAddr { return net.HardwareAddr{0x02, 0, 0, 0, 0, byte(n)} }
func macTok(m net.HardwareAddr) string {
	if len(m) == 6 && m[0] == 0x02 && m[1] == 0 {
		return fmt.Sprintf("m%d", m[5])
	}
	return "m?"
}

var serverMAC = net.HardwareAddr{0x02, 0xaa, 0, 0, 0, 1}

// scripted RADIUS server.  "down" = the port is CLOSED (the client's connected UDP socket gets ECONNREFUSED
// at once), so no verdict ever depends on a real timeout racing the scheduler.
type radSrv struct {
	conn   *net.UDPConn
	ip     net.IP // a loopback address of this process's own (127.a.b.c): nobody else binds there, so the port that "down"
	port   int    // closes can always be re-opened and is never answered by another process's stub

	mu     sync.Mutex
	mode   string // accept | reject | down | park
	secret []byte

	// mode "park": the first Access-Request is kept unanswered (pppoe.Server.handlePAP stays inside
	// radius.Client.Authenticate, on the server's one receive goroutine) until release() answers it; later datagrams
	// (retransmissions) are ignored while one is held
	held     *radius.Packet
	heldAddr *net.UDPAddr
	heldConn *net.UDPConn
	parkedCh chan struct{} // one token per request that has been parked
}

var radSeq int

func newRadSrv() *radSrv {
	pid := os.Getpid()
	radSeq++
	ip := net.IPv4(127, byte(1+pid%250), byte(1+(pid/250)%250), byte(1+radSeq%250))
	c, err := net.ListenUDP("udp4", &net.UDPAddr{IP: ip})
	if err != nil {
		panic(err)
	}
	r := &radSrv{conn: c, ip: ip, port: c.LocalAddr().(*net.UDPAddr).Port, mode: "accept", secret: []byte("s3cret"),
		parkedCh: make(chan struct{}, 1)}
	go r.loop(c)
	return r
}

// setMode opens or closes the port as needed.
func (r *radSrv) setMode(mode string) {
	r.mu.Lock()
	defer r.mu.Unlock()
	r.mode = mode
	if mode == "down" {
		if r.conn != nil {
			r.conn.Close()
			r.conn = nil
		}
		return
	}
	if r.conn == nil {
		for i := 0; i < 5000; i++ {
			c, err := net.ListenUDP("udp4", &net.UDPAddr{IP: r.ip, Port: r.port})
			if err == nil {
				r.conn = c
				go r.loop(c)
				return
			}
			time.Sleep(time.Millisecond)
		}
		panic("cannot re-open the RADIUS port")
	}
}

func (r *radSrv) close() {
	r.mu.Lock()
	defer r.mu.Unlock()
	if r.conn != nil {
		r.conn.Close()
		r.conn = nil
	}
}

// release answers the parked Access-Request (accept or reject) and leaves park mode.
func (r *radSrv) release(answer string) {
	r.mu.Lock()
	defer r.mu.Unlock()
	r.mode = answer
	if r.held == nil {
		return
	}
	code := radius.CodeAccessReject
	if answer == "accept" {
		code = radius.CodeAccessAccept
	}
	if b, err := r.held.Response(code).Encode(); err == nil {
		r.heldConn.WriteToUDP(b, r.heldAddr)
	}
	r.held, r.heldAddr, r.heldConn = nil, nil, nil
}

func (r *radSrv) loop(c *net.UDPConn) {
	buf := make([]byte, 4096)
	for {
		n, addr, err := c.ReadFromUDP(buf)
		if err != nil {
			return
		}
		pkt, err := radius.Parse(buf[:n], r.secret)
		if err != nil {
			continue
		}
		r.mu.Lock()
		mode := r.mode
		if mode == "park" {
			if r.held == nil {
				r.held, r.heldAddr, r.heldConn = pkt, addr, c
				r.parkedCh <- struct{}{}
			}
			r.mu.Unlock()
			continue
		}
		r.mu.Unlock()
		var resp *radius.Packet
		switch mode {
		case "accept":
			resp = pkt.Response(radius.CodeAccessAccept)
		case "reject":
			resp = pkt.Response(radius.CodeAccessReject)
		default:
			continue
		}
		b, err := resp.Encode()
		if err == nil {
			c.WriteToUDP(b, addr)
		}
	}
}

type run struct {
	s      *pppoe.Server
	sock   *pppoe.VerifRxSocket
	rad    *radSrv
	radius bool
	cancel context.CancelFunc
	// a PAP frame whose RADIUS exchange is parked: closed when receiveLoop has finished with the frame
	parkDone chan struct{}
}

// feed hands one whole Ethernet frame to the server's own receiveLoop (one reused receive buffer, as in production)
func (r *run) feed(src net.HardwareAddr, etherType uint16, payload []byte) {
	fr := make([]byte, 14+len(payload))
	copy(fr[0:6], serverMAC)
	copy(fr[6:12], src)
	binary.BigEndian.PutUint16(fr[12:14], etherType)
	copy(fr[14:], payload)
	r.sock.Feed(fr)
}

func (comp) NewRun() hx.Run { return &run{} }
func (r *run) Close() {
	if r.parkDone != nil {
		r.rad.release("reject")
		<-r.parkDone
		r.parkDone = nil
	}
	if r.cancel != nil {
		r.cancel()
		r.s.Stop()
	}
	if r.rad != nil {
		r.rad.close()
	}
}

func disc(code uint8, sid uint16, tags []pppoe.Tag) []byte {
	td := pppoe.SerializeTags(tags)
	h := &pppoe.PPPoEHeader{VerType: 0x11, Code: code, SessionID: sid, Length: uint16(len(td))}
	return append(h.Serialize(), td...)
}

func sess(sid uint16, proto uint16, body []byte) []byte {
	p := make([]byte, 2+len(body))
	binary.BigEndian.PutUint16(p, proto)
	copy(p[2:], body)
	h := &pppoe.PPPoEHeader{VerType: 0x11, Code: pppoe.CodeSession, SessionID: sid, Length: uint16(len(p))}
	return append(h.Serialize(), p...)
}

func lcpPkt(code, id uint8, opts []pppoe.LCPOption) []byte {
	p := &pppoe.LCPPacket{Code: code, Identifier: id, Data: pppoe.SerializeLCPOptions(opts)}
	return p.Serialize()
}

func papReq(id uint8, user, pass string) []byte {
	b := []byte{pppoe.PAPCodeAuthRequest, id, 0, 0, byte(len(user))}
	b = append(b, user...)
	b = append(b, byte(len(pass)))
	b = append(b, pass...)
	binary.BigEndian.PutUint16(b[2:4], uint16(len(b)))
	return b
}

// describe renders one frame the server sent
func describe(f pppoe.VerifFrame) string {
	d := f.Data
	if len(d) >= 14 {
		d = d[14:] // BuildEthernetFrame prepends the Ethernet header
	}
	if len(d) < 6 {
		return "SHORT"
	}
	code := d[1]
	sid := binary.BigEndian.Uint16(d[2:4])
	dst := macTok(f.Dst)
	if f.EtherType == pppoe.EtherTypePPPoEDiscovery {
		switch code {
		case pppoe.CodePADO:
			return "PADO>" + dst
		case pppoe.CodePADS:
			return fmt.Sprintf("PADS:%d>%s", sid, dst)
		case pppoe.CodePADT:
			return fmt.Sprintf("PADT:%d>%s", sid, dst)
		}
		return fmt.Sprintf("DISC%02x:%d>%s", code, sid, dst)
	}
	if len(d) < 10 {
		return "SHORTSESS"
	}
	proto := binary.BigEndian.Uint16(d[6:8])
	pc := d[8]
	body := d[8:]
	name := fmt.Sprintf("P%04x-%d", proto, pc)
	switch proto {
	case pppoe.ProtocolLCP:
		name = map[uint8]string{1: "LCPREQ", 2: "LCPACK", 3: "LCPNAK", 6: "LCPTACK", 10: "LCPEREP"}[pc]
	case pppoe.ProtocolPAP:
		name = map[uint8]string{2: "PAPACK", 3: "PAPNAK"}[pc]
	case pppoe.ProtocolIPCP:
		name = map[uint8]string{1: "IPCPREQ", 2: "IPCPACK", 3: "IPCPNAK", 4: "IPCPREJ"}[pc]
		if pc == 3 && len(body) >= 4 {
			// the offered client address, if any
			if opts, err := pppoe.ParseLCPOptions(body[4:]); err == nil {
				for _, o := range opts {
					if o.Type == pppoe.IPCPOptIPAddress && len(o.Data) == 4 {
						name += fmt.Sprintf("[%d]", o.Data[3])
					}
				}
			}
		}
	}
	if name == "" {
		name = fmt.Sprintf("P%04x-%d", proto, pc)
	}
	return fmt.Sprintf("%s:%d>%s", name, sid, dst)
}

func (r *run) snapshot() string {
	var sent []string
	for _, f := range r.sock.Drain() {
		sent = append(sent, describe(f))
	}
	ss := r.s.SessionsForVerif()
	sort.Slice(ss, func(i, j int) bool { return ss[i].ID < ss[j].ID })
	var sl []string
	for _, s := range ss {
		ip := "-"
		if s.ClientIP != nil {
			if v4 := s.ClientIP.To4(); v4 != nil {
				ip = strconv.Itoa(int(v4[3]))
			}
		}
		au := "unauth"
		if s.Authenticated {
			au = "auth"
		}
		sl = append(sl, fmt.Sprintf("%d:%s:%s:%s:%s", s.ID, macTok(s.ClientMAC), stateNames[s.GetState()], au, ip))
	}
	free, alloc := r.s.PoolCountsForVerif()
	j := func(x []string) string {
		if len(x) == 0 {
			return "-"
		}
		return strings.Join(x, ",")
	}
	// the pool's own view: what it records for each live session, entries that belong to no live session, the free list in order
	avail, table := r.s.PoolViewForVerif()
	oct := func(ip net.IP) string {
		if v4 := ip.To4(); v4 != nil {
			return strconv.Itoa(int(v4[3]))
		}
		return "?"
	}
	var held, fl []string
	owned := 0
	for _, s := range ss {
		if ip, ok := table[s.SessionID]; ok {
			held = append(held, fmt.Sprintf("%d:%s", s.ID, oct(ip)))
			owned++
		}
	}
	for _, ip := range avail {
		fl = append(fl, oct(ip))
	}
	return fmt.Sprintf("sent=%s sess=%s pool=%d/%d held=%s orph=%d free=%s", j(sent), j(sl), free, alloc, j(held), len(table)-owned, j(fl))
}

func macOf(tok string) net.HardwareAddr {
	n, _ := strconv.Atoi(tok[1:])
	return mac(n)
}

func (r *run) Do(op string) string {
	f := hx.Fields(op)
	if f[0] == "new" {
		r.radius = f[1] == "radius"
		bits := 29
		if len(f) > 2 {
			bits, _ = strconv.Atoi(f[2])
		}
		cfg := pppoe.ServerConfig{Interface: "verif0", ServerIP: "10.77.0.1", ClientPool: fmt.Sprintf("10.77.0.0/%d", bits),
			PoolGateway: "10.77.0.1", PrimaryDNS: "9.9.9.9"}
		ctx, cancel := context.WithCancel(context.Background())
		s, sock, err := pppoe.NewServerRxForVerif(ctx, cfg, zap.NewNop(), serverMAC)
		if err != nil {
			cancel()
			return "error " + err.Error()
		}
		r.s, r.sock, r.cancel = s, sock, cancel
		if r.radius {
			r.rad = newRadSrv()
			cl, err := bngradius.NewClient(bngradius.ClientConfig{
				Servers: []bngradius.ServerConfig{{Host: r.rad.ip.String(), Port: r.rad.port, Secret: "s3cret"}},
				NASID:   "verif", Timeout: 10 * time.Second, Retries: 1,
			}, zap.NewNop())
			if err != nil {
				return "error " + err.Error()
			}
			s.SetRADIUSClient(cl)
		}
		return "ok"
	}
	if r.s == nil {
		return "badop"
	}
	src := net.HardwareAddr(nil)
	if len(f) > 1 && strings.HasPrefix(f[1], "m") {
		src = macOf(f[1])
	}
	sidOf := func(i int) uint16 { n, _ := strconv.Atoi(f[i]); return uint16(n) }
	if r.parkDone != nil {
		// the one receive goroutine sits in handlePAP's RADIUS call: no frame is taken off the socket; what still runs is
		// the cleanup goroutine (the idle sweep) and the clock
		switch f[0] {
		case "sweep", "age":
		case "authresume":
			if len(f) != 2 || (f[1] != "accept" && f[1] != "reject") {
				return "badop"
			}
			r.rad.release(f[1])
			<-r.parkDone
			r.parkDone = nil
			return r.snapshot()
		default:
			return "busy"
		}
	}
	prefix := ""
	switch f[0] {
	case "authresume":
		if len(f) != 2 || (f[1] != "accept" && f[1] != "reject") {
			return "badop"
		}
		return "notparked"
	case "authpark": // authpark m<k> <sid> good|bad|empty: a PAP request whose Access-Request the RADIUS server leaves unanswered for now
		if len(f) != 4 {
			return "badop"
		}
		pass := "right"
		if f[3] == "bad" {
			pass = "wrong"
		} else if f[3] == "empty" {
			pass = ""
		} else if f[3] != "good" {
			return "badop"
		}
		var parked chan struct{}
		if r.rad != nil {
			r.rad.setMode("park")
			parked = r.rad.parkedCh
		}
		done := make(chan struct{})
		go func() {
			defer close(done)
			r.feed(src, pppoe.EtherTypePPPoESession, sess(sidOf(2), pppoe.ProtocolPAP, papReq(5, "user"+f[1], pass)))
		}()
		select {
		case <-done: // no RADIUS exchange (no RADIUS client, empty password, frame not accepted): handled at once
			prefix = "done "
		case <-parked:
			r.parkDone = done
			prefix = "parked "
		}
	case "stop": // Server.Stop(), as the process does on shutdown (the caller's context is cancelled with it)
		r.cancel()
		r.s.Stop()
	case "padi":
		r.feed(src, pppoe.EtherTypePPPoEDiscovery, disc(pppoe.CodePADI, 0, []pppoe.Tag{{Type: pppoe.TagServiceName}, {Type: pppoe.TagHostUniq, Value: []byte{1, 2}}}))
	case "padr":
		tags := []pppoe.Tag{{Type: pppoe.TagServiceName}}
		if f[2] == "cookie" {
			tags = append(tags, pppoe.Tag{Type: pppoe.TagACCookie, Value: []byte("0123456789abcdef")})
		}
		before := len(r.s.SessionsForVerif())
		r.feed(src, pppoe.EtherTypePPPoEDiscovery, disc(pppoe.CodePADR, 0, tags))
		if len(r.s.SessionsForVerif()) > before {
			// PADS + the LCP Configure-Request sent by the goroutine the server starts
			deadline := time.Now().Add(20 * time.Second)
			for r.sock.Count() < 2 && time.Now().Before(deadline) {
				time.Sleep(50 * time.Microsecond)
			}
		}
	case "padt":
		r.feed(src, pppoe.EtherTypePPPoEDiscovery, disc(pppoe.CodePADT, sidOf(2), nil))
	case "lcp":
		var body []byte
		switch f[3] {
		case "creq":
			body = lcpPkt(pppoe.LCPCodeConfigRequest, 7, []pppoe.LCPOption{{Type: pppoe.LCPOptMRU, Data: []byte{5, 0xd4}}, {Type: pppoe.LCPOptMagicNumber, Data: []byte{1, 2, 3, 4}}})
		case "cack":
			body = lcpPkt(pppoe.LCPCodeConfigAck, 1, nil)
		case "cnak":
			body = lcpPkt(pppoe.LCPCodeConfigNak, 1, []pppoe.LCPOption{{Type: pppoe.LCPOptMRU, Data: []byte{5, 0xd4}}})
		case "term":
			body = lcpPkt(pppoe.LCPCodeTermRequest, 9, nil)
		case "echo":
			body = lcpPkt(pppoe.LCPCodeEchoRequest, 3, nil)
			body = append(body, 0, 0, 0, 0)
			binary.BigEndian.PutUint16(body[2:4], uint16(len(body)))
		default:
			return "badop"
		}
		r.feed(src, pppoe.EtherTypePPPoESession, sess(sidOf(2), pppoe.ProtocolLCP, body))
	case "pap":
		if r.rad != nil {
			r.rad.setMode(f[4])
		}
		pass := "right"
		if f[3] == "bad" {
			pass = "wrong"
		} else if f[3] == "empty" {
			pass = ""
		}
		r.feed(src, pppoe.EtherTypePPPoESession, sess(sidOf(2), pppoe.ProtocolPAP, papReq(5, "user"+f[1], pass)))
	case "ipcp":
		var body []byte
		switch f[3] {
		case "creq-ip":
			body = lcpPkt(pppoe.LCPCodeConfigRequest, 11, []pppoe.LCPOption{{Type: pppoe.IPCPOptIPAddress, Data: []byte{0, 0, 0, 0}}})
		case "creq-own":
			// the peer names an address itself: 10.77.0.2, the first address of the pool (some other session's, typically)
			body = lcpPkt(pppoe.LCPCodeConfigRequest, 14, []pppoe.LCPOption{{Type: pppoe.IPCPOptIPAddress, Data: []byte{10, 77, 0, 2}}})
		case "creq-dns":
			body = lcpPkt(pppoe.LCPCodeConfigRequest, 12, []pppoe.LCPOption{{Type: pppoe.IPCPOptPrimaryDNS, Data: []byte{0, 0, 0, 0}}})
		case "creq-none":
			body = lcpPkt(pppoe.LCPCodeConfigRequest, 13, nil)
		case "cack":
			body = lcpPkt(pppoe.LCPCodeConfigAck, 1, nil)
		default:
			return "badop"
		}
		r.feed(src, pppoe.EtherTypePPPoESession, sess(sidOf(2), pppoe.ProtocolIPCP, body))
	case "ip":
		r.feed(src, pppoe.EtherTypePPPoESession, sess(sidOf(2), pppoe.ProtocolIP, []byte{0x45, 0, 0, 20}))
	case "sweep":
		if len(f) == 1 {
			r.s.CleanupExpiredForVerif(-1) // everything counts as idle
		} else {
			// virtual hours; the half hour keeps the real microseconds a sequence takes away from the comparison
			h, _ := strconv.Atoi(f[1])
			r.s.CleanupExpiredForVerif(int64(time.Duration(h)*time.Hour + 30*time.Minute))
		}
	case "age":
		h, _ := strconv.Atoi(f[1])
		r.s.AgeSessionsForVerif(time.Duration(h) * time.Hour)
	default:
		return "badop"
	}
	return prefix + r.snapshot()
}

func (comp) Gen(rg *rand.Rand, tier string, emit func([]string)) {
	n := 1500
	if tier == "thorough" {
		n = 30000
	}
	for i := 0; i < n; i++ {
		useRad := rg.Intn(3) == 0 // RADIUS ops cost a real (short) timeout when the server is "down"
		bits := []int{29, 30}[rg.Intn(2)]
		rad := "noradius"
		if useRad {
			rad = "radius"
		}
		seq := []string{fmt.Sprintf("new %s %d", rad, bits)}
		macs := 2 + rg.Intn(2)
		ln := 4 + rg.Intn(14)
		for j := 0; j < ln; j++ {
			seq = append(seq, randOp(rg, macs, useRad))
		}
		emit(seq)
	}
	// the idle sweep against the clock: sessions of different idle times, traffic that refreshes some, timed passes
	k := 200
	if tier == "thorough" {
		k = 4000
	}
	for i := 0; i < k; i++ {
		seq := []string{fmt.Sprintf("new noradius %d", []int{28, 29}[rg.Intn(2)])}
		live := 0
		for j, ln := 0, 6+rg.Intn(14); j < ln; j++ {
			switch x := rg.Intn(10); {
			case x < 2 && live < 4:
				live++
				seq = append(seq, fmt.Sprintf("padr m%d cookie", live))
			case x < 4 && live > 0:
				n := 1 + rg.Intn(live)
				seq = append(seq, fmt.Sprintf("pap m%d %d good accept", n, n))
			case x < 6 && live > 0:
				n := 1 + rg.Intn(live)
				seq = append(seq, hx.Pick(rg, []string{fmt.Sprintf("ip m%d %d", n, n), fmt.Sprintf("lcp m%d %d echo", n, n),
					fmt.Sprintf("ip m%d %d", 1+rg.Intn(4), n), fmt.Sprintf("padt m%d %d", 1+rg.Intn(4), n)}))
			case x < 8:
				seq = append(seq, fmt.Sprintf("age %d", 1+rg.Intn(3)))
			default:
				seq = append(seq, fmt.Sprintf("sweep %d", rg.Intn(5)))
			}
		}
		emit(seq)
	}
	// the pool runs dry: more authenticated sessions than addresses; the ones left without an address go on with IPCP
	// (a request carrying an address must not be acknowledged: the peer would pick its own, possibly another session's)
	k = 150
	if tier == "thorough" {
		k = 3000
	}
	for i := 0; i < k; i++ {
		seq := []string{"new noradius 30"}
		ns := 2 + rg.Intn(2)
		for m := 1; m <= ns; m++ {
			seq = append(seq, fmt.Sprintf("padr m%d cookie", m))
			if rg.Intn(4) != 0 {
				seq = append(seq, fmt.Sprintf("lcp m%d %d cack", m, m))
			}
			seq = append(seq, fmt.Sprintf("pap m%d %d good accept", m, m))
		}
		for j, ln := 0, 2+rg.Intn(8); j < ln; j++ {
			m := 1 + rg.Intn(ns)
			switch x := rg.Intn(10); {
			case x < 5:
				seq = append(seq, fmt.Sprintf("ipcp m%d %d %s", m, m, hx.Pick(rg, []string{"creq-ip", "creq-own", "creq-none", "creq-dns", "cack"})))
			case x < 6:
				seq = append(seq, fmt.Sprintf("padt m%d %d", m, m))
			case x < 7:
				seq = append(seq, fmt.Sprintf("ip m%d %d", m, m))
			case x < 8:
				seq = append(seq, fmt.Sprintf("pap m%d %d good accept", m, m)) // a second accepted PAP: may now find an address
			default:
				seq = append(seq, randOp(rg, ns, false))
			}
		}
		emit(seq)
	}
	// a PAP exchange that waits for RADIUS (handlePAP inside radius.Client.Authenticate on the one receive goroutine) while the
	// idle sweep and the clock go on (review r-gaps A2): the sweep removes the very session that is being authenticated, or
	// another one, or none; the answer is accept or reject; the session held an address before or not
	k = 300
	if tier == "thorough" {
		k = 6000
	}
	for i := 0; i < k; i++ {
		seq := []string{fmt.Sprintf("new radius %d", []int{29, 30}[rg.Intn(2)])}
		ns := 1 + rg.Intn(3)
		for m := 1; m <= ns; m++ {
			seq = append(seq, fmt.Sprintf("padr m%d cookie", m))
			if rg.Intn(3) == 0 {
				seq = append(seq, fmt.Sprintf("lcp m%d %d cack", m, m))
			}
			if rg.Intn(3) == 0 {
				seq = append(seq, fmt.Sprintf("pap m%d %d good accept", m, m)) // holds an address before the parked exchange
			}
		}
		for round, rounds := 0, 1+rg.Intn(3); round < rounds; round++ {
			if rg.Intn(3) == 0 {
				seq = append(seq, fmt.Sprintf("age %d", 1+rg.Intn(3)))
			}
			m := 1 + rg.Intn(ns)
			sid := m
			if rg.Intn(8) == 0 {
				sid = 1 + rg.Intn(ns+1) // someone else's session, or none
			}
			seq = append(seq, fmt.Sprintf("authpark m%d %d %s", m, sid, hx.Pick(rg, []string{"good", "good", "good", "bad", "empty"})))
			for j, w := 0, rg.Intn(4); j < w; j++ {
				switch x := rg.Intn(10); {
				case x < 3:
					seq = append(seq, fmt.Sprintf("age %d", 1+rg.Intn(3)))
				case x < 7:
					seq = append(seq, fmt.Sprintf("sweep %d", rg.Intn(4)))
				case x < 8:
					seq = append(seq, "sweep")
				default: // a frame while the receive goroutine is busy
					seq = append(seq, randOp(rg, ns, true))
				}
			}
			seq = append(seq, "authresume "+hx.Pick(rg, []string{"accept", "accept", "reject"}))
			for j, w := 0, rg.Intn(4); j < w; j++ {
				switch x := rg.Intn(10); {
				case x < 3:
					seq = append(seq, fmt.Sprintf("ipcp m%d %d %s", m, sid, hx.Pick(rg, []string{"creq-ip", "cack"})))
				case x < 5:
					seq = append(seq, fmt.Sprintf("sweep %d", rg.Intn(4)))
				case x < 6:
					seq = append(seq, fmt.Sprintf("padr m%d cookie", 1+rg.Intn(ns+1)))
				default:
					seq = append(seq, randOp(rg, ns, true))
				}
			}
		}
		emit(seq)
	}
	if tier == "thorough" {
		exhaustive(emit)
		exhaustivePark(emit)
	}
}

// exhaustivePark: one or two sessions (the first with or without an address), a parked PAP request of m1 on session 1, every
// window of length <= 2 over {age 2, sweep 1, sweep 3, sweep, a frame}, both answers, every one-op continuation.
func exhaustivePark(emit func([]string)) {
	window := []string{"age 2", "sweep 1", "sweep 3", "sweep", "padt m1 1"}
	after := []string{"ipcp m1 1 creq-ip", "padr m1 cookie", "pap m1 1 good accept", "sweep 1", "padt m1 1", "authresume accept", "authpark m1 1 good"}
	for _, pre := range [][]string{{}, {"pap m1 1 good accept"}, {"padr m2 cookie", "pap m2 2 good accept"}, {"age 1"}} {
		for _, pw := range []string{"good", "empty"} {
			var ws [][]string
			ws = append(ws, nil)
			for _, a := range window {
				ws = append(ws, []string{a})
				for _, b := range window {
					ws = append(ws, []string{a, b})
				}
			}
			for _, w := range ws {
				for _, ans := range []string{"accept", "reject"} {
					for _, c := range after {
						seq := append([]string{"new radius 29", "padr m1 cookie"}, pre...)
						seq = append(seq, "authpark m1 1 "+pw)
						seq = append(seq, w...)
						seq = append(seq, "authresume "+ans, c, "sweep")
						emit(seq)
					}
				}
			}
		}
	}
}

func randOp(rg *rand.Rand, macs int, useRad bool) string {
	m := fmt.Sprintf("m%d", 1+rg.Intn(macs))
	sid := 1 + rg.Intn(3)
	switch x := rg.Intn(100); {
	case x < 6:
		return "padi " + m
	case x < 26:
		if rg.Intn(8) == 0 {
			return "padr " + m + " nocookie"
		}
		return "padr " + m + " cookie"
	case x < 32:
		return fmt.Sprintf("padt %s %d", m, sid)
	case x < 52:
		return fmt.Sprintf("lcp %s %d %s", m, sid, hx.Pick(rg, []string{"creq", "cack", "cack", "cnak", "term", "echo"}))
	case x < 72:
		out := "accept"
		if useRad {
			out = hx.Pick(rg, []string{"accept", "accept", "reject", "reject", "down"})
		}
		return fmt.Sprintf("pap %s %d %s %s", m, sid, hx.Pick(rg, []string{"good", "good", "bad", "empty"}), out)
	case x < 92:
		return fmt.Sprintf("ipcp %s %d %s", m, sid, hx.Pick(rg, []string{"creq-ip", "creq-own", "creq-dns", "creq-none", "cack", "cack"}))
	case x < 94:
		return fmt.Sprintf("ip %s %d", m, sid)
	case x < 97:
		return fmt.Sprintf("age %d", 1+rg.Intn(3))
	case x < 99:
		return fmt.Sprintf("sweep %d", rg.Intn(4))
	default:
		if useRad && rg.Intn(2) == 0 {
			// a PAP exchange parked at RADIUS, or the answer to one (most of what follows a park is `busy`)
			if rg.Intn(2) == 0 {
				return fmt.Sprintf("authpark %s %d good", m, sid)
			}
			return "authresume " + hx.Pick(rg, []string{"accept", "reject"})
		}
		return "sweep"
	}
}

// exhaustive: every sequence of length 4 after "padr m1 cookie" over an alphabet of two MACs acting on
// session 1 (created for m1) and on session 2 (created when a second PADR arrives), incl. sweep,
// Configure-Nak, echo, RADIUS reject/no-answer and a PADR without cookie.
func exhaustive(emit func([]string)) {
	var alpha []string
	for _, m := range []string{"m1", "m2"} {
		alpha = append(alpha, "padr "+m+" cookie", "padt "+m+" 1", "padt "+m+" 2",
			"lcp "+m+" 1 cack", "lcp "+m+" 1 term", "lcp "+m+" 2 cack",
			"pap "+m+" 1 good accept", "pap "+m+" 1 good reject", "pap "+m+" 2 good accept", "pap "+m+" 1 bad down", "pap "+m+" 1 empty accept",
			"ipcp "+m+" 1 creq-ip", "ipcp "+m+" 1 creq-none", "ipcp "+m+" 1 cack", "ipcp "+m+" 2 cack", "ip "+m+" 1")
	}
	alpha = append(alpha, "sweep", "age 2", "sweep 1", "lcp m1 1 cnak", "lcp m1 1 echo", "ipcp m1 1 creq-dns", "padr m2 nocookie")
	for _, rad := range []string{"noradius", "radius"} {
		var rec func(prefix []string, d int)
		rec = func(prefix []string, d int) {
			if d == 0 {
				emit(append([]string{"new " + rad + " 29", "padr m1 cookie"}, prefix...))
				return
			}
			for _, a := range alpha {
				rec(append(prefix[:len(prefix):len(prefix)], a), d-1)
			}
		}
		rec(nil, 3)
	}
}

func main() { hx.Main(comp{}) }
