// coaproc drives the real radius.CoAProcessor (pkg/radius/coa_handler.go) behind the real radius.CoAServer
// (pkg/radius/coa.go) for property C15: every datagram goes through the unmodified receiveLoop over a loopback
// UDP socket, the server's handlers are the processor's HandleCoA / HandleDisconnect, and the processor's
// callbacks are a session table kept here.
//
//	new <secret hex> <flags>                 => ok      flags: which callbacks are set, a subset of "ipmtue" or "-"
//	                                                   (i/p/m = lookup by id / IP / MAC, t = terminator, u = policy updater, e = eBPF QoS updater)
//	sess <sid> <ip> <mac> <down> <up>        => ok | dup                      (add a live session; values are hex, rates bit/s)
//	fail term|pol|ebpf on|off                => ok
//	dg <datagram hex>                        => drop | act <response hex|-> <calls|-> | extra … | panic … | hang
//	hcoa <sid> <ip|-> <mac> <filter> <st> <it> <qd> <qu>   => ret <ok|fail> <error cause> <message hex> <calls|->
//	hdm <sid> <acct> <ip|-> <mac>                           => ret …         (HandleCoA / HandleDisconnect called directly:
//	                                                          the only way to reach the QoS-rate / eBPF branch and the
//	                                                          Acct-Session-Id ≠ Session-Id branch, which the listener's parser never produces)
//	tbl                                      => <sessions in insertion order>|-
//
// calls: the callback invocations in order, comma separated:
//
//	id=<hex>?<y|n>  ip=<hex>?<y|n>  mac=<hex>?<y|n>                      lookups and whether they found a session
//	term=<sid>/<reason>!<ok|err>  pol=<sid>/<filter>/<down>/<up>/<st ns>/<it ns>!<ok|err>  ebpf=<sid>/<down>/<up>!<ok|err>
//
// session: <sid>/<ip>/<mac>/<down>/<up>/<filter>/<st ns>/<it ns>/<ebpf down>/<ebpf up>
package main

import (
	"bytes"
	"context"
	"crypto/md5"
	"encoding/binary"
	"encoding/hex"
	"errors"
	"fmt"
	"math/rand"
	"net"
	"strconv"
	"strings"
	"sync"
	"time"

	"bngverif/hx"

	"github.com/codelaboratoryltd/bng/pkg/radius"
	"go.uber.org/zap"
)

const sentinelPrefix = "\x00verif-sentinel-"

func hexs(b []byte) string {
	if len(b) == 0 {
		return "-"
	}
	return hex.EncodeToString(b)
}

func unhex(s string) ([]byte, bool) {
	if s == "-" {
		return nil, true
	}
	b, err := hex.DecodeString(s)
	return b, err == nil
}

// ---------------------------------------------------------------------------------------------
// the session table behind the processor's callbacks

type sess struct {
	sid, ip, mac []byte
	down, up     uint64
	filter       []byte
	st, it       int64 // nanoseconds
	ed, eu       uint64
}

type world struct {
	mu                          sync.Mutex
	tbl                         []*sess
	failTerm, failPol, failEbpf bool
	calls                       []string
}

func yn(b bool) string {
	if b {
		return "y"
	}
	return "n"
}

func okerr(err error) string {
	if err == nil {
		return "ok"
	}
	return "err"
}

func (w *world) info(s *sess) *radius.SessionInfo {
	return &radius.SessionInfo{SessionID: string(s.sid), MAC: net.HardwareAddr(s.mac), FramedIP: net.IP(s.ip),
		State: "active", DownloadRateBPS: s.down, UploadRateBPS: s.up, QoSPolicyID: string(s.filter),
		SessionTimeout: time.Duration(s.st), IdleTimeout: time.Duration(s.it)}
}

func (w *world) find(kind string, key []byte, match func(*sess) bool) (*radius.SessionInfo, bool) {
	w.mu.Lock()
	defer w.mu.Unlock()
	var hit *sess
	for _, s := range w.tbl {
		if match(s) {
			hit = s
			break
		}
	}
	if !(kind == "id" && strings.HasPrefix(string(key), sentinelPrefix)) {
		w.calls = append(w.calls, fmt.Sprintf("%s=%s?%s", kind, hexs(key), yn(hit != nil)))
	}
	if hit == nil {
		return nil, false
	}
	return w.info(hit), true
}

func (w *world) lookupByID(id string) (*radius.SessionInfo, bool) {
	return w.find("id", []byte(id), func(s *sess) bool { return string(s.sid) == id })
}

func (w *world) lookupByIP(ip net.IP) (*radius.SessionInfo, bool) {
	return w.find("ip", []byte(ip), func(s *sess) bool { return bytes.Equal(s.ip, []byte(ip)) })
}

func (w *world) lookupByMAC(mac string) (*radius.SessionInfo, bool) {
	return w.find("mac", []byte(mac), func(s *sess) bool { return string(s.mac) == mac })
}

func (w *world) terminate(ctx context.Context, sid string, reason uint32) (err error) {
	w.mu.Lock()
	defer w.mu.Unlock()
	defer func() { w.calls = append(w.calls, fmt.Sprintf("term=%s/%d!%s", hexs([]byte(sid)), reason, okerr(err))) }()
	if w.failTerm {
		return errors.New("terminator failed")
	}
	var keep []*sess
	for _, s := range w.tbl {
		if string(s.sid) != sid {
			keep = append(keep, s)
		}
	}
	w.tbl = keep
	return nil
}

func (w *world) updatePolicy(ctx context.Context, sid string, u *radius.PolicyUpdate) (err error) {
	w.mu.Lock()
	defer w.mu.Unlock()
	defer func() {
		w.calls = append(w.calls, fmt.Sprintf("pol=%s/%s/%d/%d/%d/%d!%s", hexs([]byte(sid)), hexs([]byte(u.FilterID)),
			u.DownloadRateBPS, u.UploadRateBPS, int64(u.SessionTimeout), int64(u.IdleTimeout), okerr(err)))
	}()
	if w.failPol {
		return errors.New("policy updater failed")
	}
	for _, s := range w.tbl {
		if string(s.sid) != sid {
			continue
		}
		if u.FilterID != "" {
			s.filter = []byte(u.FilterID)
		}
		if u.DownloadRateBPS > 0 {
			s.down = u.DownloadRateBPS
		}
		if u.UploadRateBPS > 0 {
			s.up = u.UploadRateBPS
		}
		if u.SessionTimeout > 0 {
			s.st = int64(u.SessionTimeout)
		}
		if u.IdleTimeout > 0 {
			s.it = int64(u.IdleTimeout)
		}
	}
	return nil
}

func (w *world) updateEbpf(sid string, down, up uint64) (err error) {
	w.mu.Lock()
	defer w.mu.Unlock()
	defer func() {
		w.calls = append(w.calls, fmt.Sprintf("ebpf=%s/%d/%d!%s", hexs([]byte(sid)), down, up, okerr(err)))
	}()
	if w.failEbpf {
		return errors.New("ebpf updater failed")
	}
	for _, s := range w.tbl {
		if string(s.sid) == sid {
			s.ed, s.eu = down, up
		}
	}
	return nil
}

func (w *world) takeCalls() string {
	w.mu.Lock()
	defer w.mu.Unlock()
	c := w.calls
	w.calls = nil
	if len(c) == 0 {
		return "-"
	}
	return strings.Join(c, ",")
}

func (w *world) dump() string {
	w.mu.Lock()
	defer w.mu.Unlock()
	if len(w.tbl) == 0 {
		return "-"
	}
	var out []string
	for _, s := range w.tbl {
		out = append(out, fmt.Sprintf("%s/%s/%s/%d/%d/%s/%d/%d/%d/%d", hexs(s.sid), hexs(s.ip), hexs(s.mac), s.down, s.up,
			hexs(s.filter), s.st, s.it, s.ed, s.eu))
	}
	return strings.Join(out, ",")
}

// ---------------------------------------------------------------------------------------------
// one real CoAServer per shared secret (kept across sequences; every `new` installs a fresh processor)

type listener struct {
	secret  string
	srv     *radius.CoAServer
	cli     *net.UDPConn
	replies chan []byte
	panics  chan string
	seq     uint32
}

var listeners = map[string]*listener{}

func getListener(secret string) *listener {
	if l, ok := listeners[secret]; ok {
		return l
	}
	srv, err := radius.NewCoAServer(radius.CoAServerConfig{Address: "127.0.0.1:0", Secret: secret}, zap.NewNop())
	if err != nil {
		panic("harness: " + err.Error())
	}
	addr, err := srv.ListenForVerif()
	if err != nil {
		panic("harness: " + err.Error())
	}
	cli, err := net.DialUDP("udp", nil, addr.(*net.UDPAddr))
	if err != nil {
		panic("harness: " + err.Error())
	}
	l := &listener{secret: secret, srv: srv, cli: cli, replies: make(chan []byte, 16), panics: make(chan string, 4)}
	go func() {
		buf := make([]byte, 65536)
		for {
			n, err := cli.Read(buf)
			if err != nil {
				return
			}
			l.replies <- append([]byte(nil), buf[:n]...)
		}
	}()
	l.runLoop()
	listeners[secret] = l
	return l
}

func (l *listener) runLoop() {
	go func() {
		defer func() {
			if e := recover(); e != nil {
				l.panics <- strings.ReplaceAll(fmt.Sprint(e), "\n", " ")
				l.runLoop() // the listener is dead: start a new one for the next datagram
			}
		}()
		l.srv.ReceiveLoopForVerif(context.Background())
	}()
}

func sign(code, id byte, attrs []byte, secret string) []byte {
	p := make([]byte, 20+len(attrs))
	p[0], p[1] = code, id
	binary.BigEndian.PutUint16(p[2:4], uint16(len(p)))
	copy(p[20:], attrs)
	h := md5.New()
	h.Write(p)
	h.Write([]byte(secret))
	copy(p[4:20], h.Sum(nil))
	return p
}

func attr(t byte, v []byte) []byte { return append([]byte{t, byte(2 + len(v))}, v...) }

func (l *listener) isReplyTo(resp, reqAuth []byte) bool {
	if len(resp) < 20 {
		return false
	}
	h := md5.New()
	h.Write(resp[:4])
	h.Write(reqAuth)
	h.Write(resp[20:])
	h.Write([]byte(l.secret))
	return string(h.Sum(nil)) == string(resp[4:20])
}

// exchange sends the test datagram and, right behind it, a signed sentinel Disconnect-Request naming a session id
// no table can hold (the listener is one goroutine and loopback UDP between one socket pair keeps the order): the
// sentinel's NAK marks the point where the listener has finished with the test datagram.
func (l *listener) exchange(w *world, dgram []byte) string {
	w.takeCalls()
	l.seq++
	sentinel := sign(40, byte(l.seq), attr(44, []byte(fmt.Sprintf("%s%d", sentinelPrefix, l.seq))), l.secret)
	if _, err := l.cli.Write(dgram); err != nil {
		return "senderr " + err.Error()
	}
	if _, err := l.cli.Write(sentinel); err != nil {
		return "senderr " + err.Error()
	}
	var got [][]byte
	panicked := ""
	wait := func(d time.Duration) bool {
		timeout := time.After(d)
		for {
			select {
			case r := <-l.replies:
				if l.isReplyTo(r, sentinel[4:20]) {
					return true
				}
				got = append(got, r)
			case p := <-l.panics:
				panicked = p // the restarted loop finds the sentinel still queued on the socket
			case <-timeout:
				return false
			}
		}
	}
	if !wait(10*time.Second) && !wait(60*time.Second) {
		return "hang"
	}
	if panicked != "" {
		return "panic " + panicked
	}
	calls := w.takeCalls()
	if len(got) > 1 {
		return fmt.Sprintf("extra replies=%d calls=%s", len(got), calls)
	}
	if len(got) == 0 && calls == "-" {
		return "drop"
	}
	var resp []byte
	if len(got) == 1 {
		resp = got[0]
	}
	return fmt.Sprintf("act %s %s", hexs(resp), calls)
}

// ---------------------------------------------------------------------------------------------

type comp struct{}

type run struct {
	l *listener
	w *world
	p *radius.CoAProcessor
}

func (comp) NewRun() hx.Run { return &run{} }
func (r *run) Close() {
	if r.l != nil { // leave the shared listener with the server's defaults until the next `new`
		r.l.srv.SetCoAHandler(nil)
		r.l.srv.SetDisconnectHandler(nil)
	}
}

func validFlags(f string) bool {
	if f == "-" {
		return true
	}
	last := -1
	for _, c := range f {
		i := strings.IndexRune("ipmtue", c)
		if i <= last {
			return false
		}
		last = i
	}
	return f != ""
}

func u32arg(s string) (uint32, bool) {
	v, err := strconv.ParseUint(s, 10, 32)
	return uint32(v), err == nil
}

func ipArg(s string) (net.IP, bool) {
	b, ok := unhex(s)
	if !ok || (len(b) != 0 && len(b) != 4) {
		return nil, false
	}
	if len(b) == 0 {
		return nil, true
	}
	return net.IP(b), true
}

func (r *run) Do(op string) string {
	f := hx.Fields(op)
	if len(f) == 0 {
		return "badop"
	}
	if f[0] == "new" {
		if len(f) != 3 || !validFlags(f[2]) {
			return "badop"
		}
		sec, ok := unhex(f[1])
		if !ok || len(sec) == 0 {
			return "badop"
		}
		r.l = getListener(string(sec))
		r.w = &world{}
		r.p = radius.NewCoAProcessor(zap.NewNop())
		for _, c := range f[2] {
			switch c {
			case 'i':
				r.p.SetSessionLookup(r.w.lookupByID)
			case 'p':
				r.p.SetSessionLookupByIP(r.w.lookupByIP)
			case 'm':
				r.p.SetSessionLookupByMAC(r.w.lookupByMAC)
			case 't':
				r.p.SetSessionTerminator(r.w.terminate)
			case 'u':
				r.p.SetSessionPolicyUpdater(r.w.updatePolicy)
			case 'e':
				r.p.SetEBPFQoSUpdater(r.w.updateEbpf)
			}
		}
		r.l.srv.SetCoAHandler(r.p.HandleCoA)
		r.l.srv.SetDisconnectHandler(r.p.HandleDisconnect)
		return "ok"
	}
	if r.w == nil {
		return "badop"
	}
	switch {
	case f[0] == "sess" && len(f) == 6:
		sid, ok1 := unhex(f[1])
		ip, ok2 := unhex(f[2])
		mac, ok3 := unhex(f[3])
		down, e1 := strconv.ParseUint(f[4], 10, 64)
		up, e2 := strconv.ParseUint(f[5], 10, 64)
		if !ok1 || !ok2 || !ok3 || e1 != nil || e2 != nil || strings.HasPrefix(string(sid), sentinelPrefix) {
			return "badop"
		}
		r.w.mu.Lock()
		defer r.w.mu.Unlock()
		for _, s := range r.w.tbl {
			if bytes.Equal(s.sid, sid) {
				return "dup"
			}
		}
		r.w.tbl = append(r.w.tbl, &sess{sid: sid, ip: ip, mac: mac, down: down, up: up})
		return "ok"
	case f[0] == "fail" && len(f) == 3 && (f[2] == "on" || f[2] == "off"):
		r.w.mu.Lock()
		defer r.w.mu.Unlock()
		switch f[1] {
		case "term":
			r.w.failTerm = f[2] == "on"
		case "pol":
			r.w.failPol = f[2] == "on"
		case "ebpf":
			r.w.failEbpf = f[2] == "on"
		default:
			return "badop"
		}
		return "ok"
	case f[0] == "dg" && len(f) == 2:
		d, ok := unhex(f[1])
		if !ok {
			return "badop"
		}
		return r.l.exchange(r.w, d)
	case f[0] == "hcoa" && len(f) == 9:
		sid, ok1 := unhex(f[1])
		ip, ok2 := ipArg(f[2])
		mac, ok3 := unhex(f[3])
		fi, ok4 := unhex(f[4])
		st, ok5 := u32arg(f[5])
		it, ok6 := u32arg(f[6])
		qd, ok7 := u32arg(f[7])
		qu, ok8 := u32arg(f[8])
		if !(ok1 && ok2 && ok3 && ok4 && ok5 && ok6 && ok7 && ok8) {
			return "badop"
		}
		r.w.takeCalls()
		resp := r.p.HandleCoA(context.Background(), &radius.CoARequest{SessionID: string(sid), FramedIP: ip, CallingStation: string(mac),
			FilterID: string(fi), SessionTimeout: st, IdleTimeout: it, QoSDownload: qd, QoSUpload: qu})
		return fmt.Sprintf("ret %s %d %s %s", map[bool]string{true: "ok", false: "fail"}[resp.Success], resp.ErrorCause,
			hexs([]byte(resp.Message)), r.w.takeCalls())
	case f[0] == "hdm" && len(f) == 5:
		sid, ok1 := unhex(f[1])
		acct, ok2 := unhex(f[2])
		ip, ok3 := ipArg(f[3])
		mac, ok4 := unhex(f[4])
		if !(ok1 && ok2 && ok3 && ok4) {
			return "badop"
		}
		r.w.takeCalls()
		resp := r.p.HandleDisconnect(context.Background(), &radius.DisconnectRequest{SessionID: string(sid), AcctSessionID: string(acct),
			FramedIP: ip, CallingStation: string(mac)})
		return fmt.Sprintf("ret %s %d %s %s", map[bool]string{true: "ok", false: "fail"}[resp.Success], resp.ErrorCause,
			hexs([]byte(resp.Message)), r.w.takeCalls())
	case f[0] == "tbl" && len(f) == 1:
		return r.w.dump()
	}
	return "badop"
}

// ---------------------------------------------------------------------------------------------
// generator

var (
	sids  = [][]byte{[]byte("s1"), []byte("s2"), []byte("s3"), []byte("s4")}
	ips   = [][]byte{{10, 0, 0, 1}, {10, 0, 0, 2}, {10, 0, 0, 3}}
	macs  = [][]byte{[]byte("aa:bb:cc:00:00:01"), []byte("aa:bb:cc:00:00:02"), []byte("AA-BB-CC-00-00-03")}
	rates = []uint64{0, 1000000, 5000000}
)

func u32(v uint32) []byte { b := make([]byte, 4); binary.BigEndian.PutUint32(b, v); return b }

func cat(parts ...[]byte) []byte {
	var out []byte
	for _, p := range parts {
		out = append(out, p...)
	}
	return out
}

func sessOp(sid, ip, mac []byte, down, up uint64) string {
	return fmt.Sprintf("sess %s %s %s %d %d", hexs(sid), hexs(ip), hexs(mac), down, up)
}

// choice lists for the attributes of a request; nil entry = attribute absent
type choice struct {
	present bool
	v       []byte
}

func absent() choice      { return choice{} }
func val(v []byte) choice { return choice{true, v} }
func idChoices() []choice {
	return []choice{absent(), val(nil), val(sids[0]), val(sids[1]), val(sids[2]), val([]byte("sX"))}
}
func ipChoices() []choice {
	return []choice{absent(), val(ips[0]), val(ips[1]), val(ips[2]), val([]byte{10, 0, 0, 9}), val([]byte{10, 0, 0}), val([]byte{10, 0, 0, 2, 0}), val(nil)}
}
func macChoices() []choice {
	return []choice{absent(), val(nil), val(macs[0]), val(macs[1]), val(macs[2]), val([]byte("aa:bb:cc:00:00:09"))}
}
func filtChoices() []choice {
	return []choice{absent(), val(nil), val([]byte("gold")), val([]byte("silver"))}
}
func stChoices() []choice {
	return []choice{absent(), val(u32(0)), val(u32(3600)), val(u32(4294967295)), val([]byte{0, 14, 16})}
}
func itChoices() []choice {
	return []choice{absent(), val(u32(0)), val(u32(600)), val([]byte{0, 0, 2, 88, 0})}
}
func pickC(r *rand.Rand, cs []choice) choice { return cs[r.Intn(len(cs))] }

func buildAttrs(r *rand.Rand, code byte, id, ip, mac, fi, st, it choice) []byte {
	var parts [][]byte
	add := func(t byte, c choice) {
		if c.present {
			parts = append(parts, attr(t, c.v))
		}
	}
	add(44, id)
	add(8, ip)
	add(31, mac)
	if code == 43 || (r != nil && r.Intn(6) == 0) { // the Disconnect parser ignores these
		add(11, fi)
		add(27, st)
		add(28, it)
	}
	if r != nil {
		if r.Intn(4) == 0 {
			parts = append(parts, attr(1, []byte("user")))
		}
		if r.Intn(8) == 0 {
			parts = append(parts, attr(4, []byte{192, 0, 2, 1}))
		}
		if r.Intn(8) == 0 { // a repeated identifying attribute: the last one wins
			parts = append(parts, attr(44, sids[r.Intn(len(sids))]))
		}
		if r.Intn(10) == 0 {
			parts = append(parts, attr(26, []byte{0, 0, 0, 9, 1, 6, 0, 0, 3, 232}))
		}
		r.Shuffle(len(parts), func(i, j int) { parts[i], parts[j] = parts[j], parts[i] })
	}
	return cat(parts...)
}

// an unauthentic relative of a signed request
func spoil(r *rand.Rand, p []byte, attrs []byte, secret string) []byte {
	m := append([]byte(nil), p...)
	switch r.Intn(8) {
	case 0: // one bit of the authenticator
		m[4+r.Intn(16)] ^= 1 << uint(r.Intn(8))
	case 1: // one bit anywhere
		bit := r.Intn(len(m) * 8)
		m[bit/8] ^= 1 << uint(bit%8)
	case 2: // signed with another secret
		return sign(p[0], p[1], attrs, secret+"x")
	case 3: // truncated
		return m[:r.Intn(len(m))]
	case 4: // zero authenticator
		copy(m[4:20], make([]byte, 16))
	case 5: // length field off by a few
		binary.BigEndian.PutUint16(m[2:4], uint16(len(m)+[]int{-3, -2, -1, 1, 2}[r.Intn(5)]))
	case 6: // another session named, authenticator kept
		if len(m) > 22 {
			m[20+2+r.Intn(len(m)-22)] ^= 0x01
		} else {
			m[1] ^= 0x10
		}
	default: // a response code, correctly signed as a request
		return sign([]byte{41, 44, 45, 1, 4}[r.Intn(5)], p[1], attrs, secret)
	}
	return m
}

const allFlags = "ipmtue"

func generate(r *rand.Rand, tier string, emit func([]string)) {
	thorough := tier == "thorough"
	secrets := []string{"s3cret", "k", "a-rather-long-shared-secret-0123456789-0123456789-0123456789-0123456789"}
	newOp := func(sec, flags string) string {
		return fmt.Sprintf("new %s %s", hex.EncodeToString([]byte(sec)), flags)
	}
	// the fixed table: s3 shares its address with s2 and its MAC with s1; s4 has neither address nor MAC
	fixed := []string{
		sessOp(sids[0], ips[0], macs[0], 1000000, 500000),
		sessOp(sids[1], ips[1], macs[1], 0, 0),
		sessOp(sids[2], ips[1], macs[0], 5000000, 5000000),
		sessOp(sids[3], nil, nil, 1000000, 0),
	}
	nid := 0
	nextID := func() byte { nid += 37; return byte(nid) }

	// 1. small scope, exhaustively: every combination of the three identifying attributes on the fixed table, for a
	// Disconnect, a CoA that changes something and a CoA that changes nothing, with the relevant fault off and on;
	// each authentic request is preceded by an unauthentic relative that meets the same table
	type shape struct {
		code       byte
		fi, st, it choice
		fault      string
	}
	shapes := []shape{
		{40, absent(), absent(), absent(), "term"},
		{43, val([]byte("gold")), absent(), absent(), "pol"},
		{43, absent(), val(u32(3600)), val(u32(0)), "pol"},
		{43, val(nil), val(u32(0)), absent(), "pol"},
	}
	flagSets := []string{allFlags}
	if thorough {
		flagSets = []string{allFlags, "pmtue", "imtue", "iptue", "ipmue", "ipmte", "ipmtu", "itu", "-"}
	}
	for fsi, flags := range flagSets {
		for si, sh := range shapes {
			for _, faultOn := range []bool{false, true} {
				sec := secrets[(si+fsi)%len(secrets)]
				seq := []string{newOp(sec, flags)}
				seq = append(seq, fixed...)
				if faultOn {
					seq = append(seq, "fail "+sh.fault+" on")
				}
				for _, id := range idChoices() {
					for _, ip := range ipChoices() {
						for _, mac := range macChoices() {
							if !thorough && (len(id.v)+len(ip.v)+len(mac.v)+si)%2 == 1 && id.present && ip.present && mac.present {
								continue // quick tier: half of the three-attribute combinations
							}
							attrs := buildAttrs(nil, sh.code, id, ip, mac, sh.fi, sh.st, sh.it)
							p := sign(sh.code, nextID(), attrs, sec)
							seq = append(seq, "dg "+hexs(spoil(r, p, attrs, sec)), "tbl", "dg "+hexs(p), "tbl")
							if sh.code == 40 && !faultOn {
								seq = append(seq, fixed...) // put back whatever was disconnected
							}
						}
					}
					emit(seq)
					seq = []string{newOp(sec, flags)}
					seq = append(seq, fixed...)
					if faultOn {
						seq = append(seq, "fail "+sh.fault+" on")
					}
				}
			}
		}
	}

	// 2. every single-bit flip and every truncation of a few requests, on a live table
	nflip := 2
	if thorough {
		nflip = 8
	}
	for k := 0; k < nflip; k++ {
		sec := secrets[k%len(secrets)]
		code := []byte{40, 43}[k%2]
		attrs := buildAttrs(nil, code, val(sids[k%3]), val(ips[(k+1)%3]), absent(), val([]byte("gold")), absent(), absent())
		p := sign(code, nextID(), attrs, sec)
		seq := []string{newOp(sec, allFlags)}
		seq = append(seq, fixed...)
		for bit := 0; bit < len(p)*8; bit++ {
			m := append([]byte(nil), p...)
			m[bit/8] ^= 1 << uint(bit%8)
			seq = append(seq, "dg "+hexs(m))
			if bit%16 == 0 {
				seq = append(seq, "tbl")
			}
		}
		for n := 0; n < len(p); n++ {
			seq = append(seq, "dg "+hexs(p[:n]))
		}
		seq = append(seq, "tbl", "dg "+hexs(p), "tbl")
		emit(seq)
	}

	// 3. random histories: random tables (addresses and MACs collide), faults toggled, authentic and unauthentic
	// requests, direct calls of the handlers (QoS rates, Acct-Session-Id different from the session id)
	nseq, nops := 70, 50
	if thorough {
		nseq, nops = 1500, 80
	}
	for i := 0; i < nseq; i++ {
		sec := secrets[r.Intn(len(secrets))]
		flags := allFlags
		if r.Intn(3) == 0 {
			flags = ""
			for _, c := range allFlags {
				if r.Intn(4) != 0 {
					flags += string(c)
				}
			}
			if flags == "" {
				flags = "-"
			}
		}
		seq := []string{newOp(sec, flags)}
		addSess := func() {
			var ip, mac []byte
			if r.Intn(8) != 0 {
				ip = ips[r.Intn(len(ips))]
			}
			if r.Intn(8) != 0 {
				mac = macs[r.Intn(len(macs))]
			}
			sid := sids[r.Intn(len(sids))]
			if r.Intn(30) == 0 {
				sid = nil
			}
			seq = append(seq, sessOp(sid, ip, mac, rates[r.Intn(3)], rates[r.Intn(3)]))
		}
		for k := 2 + r.Intn(3); k > 0; k-- {
			addSess()
		}
		for len(seq) < nops {
			switch x := r.Intn(20); {
			case x < 2:
				addSess()
			case x < 5:
				seq = append(seq, fmt.Sprintf("fail %s %s", []string{"term", "pol", "ebpf"}[r.Intn(3)], []string{"on", "off", "off"}[r.Intn(3)]))
			case x < 8:
				pickB := func(cs []choice) []byte { return pickC(r, cs).v }
				ipc := pickC(r, ipChoices()[:5])
				ip := "-"
				if ipc.present {
					ip = hexs(ipc.v)
				}
				if r.Intn(2) == 0 {
					qd, qu := []uint32{0, 0, 2000, 4294967295}[r.Intn(4)], []uint32{0, 0, 1000, 50000}[r.Intn(4)]
					st, it := []uint32{0, 0, 3600, 4294967295}[r.Intn(4)], []uint32{0, 600}[r.Intn(2)]
					seq = append(seq, fmt.Sprintf("hcoa %s %s %s %s %d %d %d %d", hexs(pickB(idChoices())), ip, hexs(pickB(macChoices())),
						hexs(pickB(filtChoices())), st, it, qd, qu), "tbl")
				} else {
					seq = append(seq, fmt.Sprintf("hdm %s %s %s %s", hexs(pickB(idChoices())), hexs(pickB(idChoices())), ip, hexs(pickB(macChoices()))), "tbl")
				}
			default:
				code := []byte{40, 43, 43}[r.Intn(3)]
				id, ip, mac := pickC(r, idChoices()), pickC(r, ipChoices()), pickC(r, macChoices())
				if r.Intn(3) == 0 { // a request that names one session only
					id, ip, mac = absent(), absent(), absent()
					switch r.Intn(3) {
					case 0:
						id = val(sids[r.Intn(len(sids))])
					case 1:
						ip = val(ips[r.Intn(len(ips))])
					default:
						mac = val(macs[r.Intn(len(macs))])
					}
				}
				attrs := buildAttrs(r, code, id, ip, mac, pickC(r, filtChoices()), pickC(r, stChoices()), pickC(r, itChoices()))
				p := sign(code, byte(r.Intn(256)), attrs, sec)
				switch r.Intn(5) {
				case 0, 1:
					p = spoil(r, p, attrs, sec)
				case 2:
					if r.Intn(4) == 0 {
						p = cat(p, []byte{1, 2, 3}) // bytes after the RADIUS length are ignored
					}
				}
				seq = append(seq, "dg "+hexs(p), "tbl")
			}
		}
		emit(seq)
	}

	// 4. random datagrams against a live table
	nrand := 300
	if thorough {
		nrand = 20000
	}
	seq := []string{newOp(secrets[0], allFlags)}
	seq = append(seq, fixed...)
	for i := 0; i < nrand; i++ {
		d := make([]byte, r.Intn(80))
		r.Read(d)
		if len(d) >= 20 && r.Intn(2) == 0 {
			d[0] = []byte{40, 43}[r.Intn(2)]
			binary.BigEndian.PutUint16(d[2:4], uint16(len(d)-r.Intn(3)))
		}
		seq = append(seq, "dg "+hexs(d))
		if i%50 == 49 {
			seq = append(seq, "tbl")
		}
		if len(seq) >= 400 {
			emit(append(seq, "tbl"))
			seq = []string{newOp(secrets[i%3], allFlags)}
			seq = append(seq, fixed...)
		}
	}
	emit(append(seq, "tbl"))
}

func (comp) Gen(r *rand.Rand, tier string, emit func([]string)) { generate(r, tier, emit) }

func main() { hx.Main(comp{}) }
