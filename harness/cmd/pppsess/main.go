// pppsess — component `pppsess` of property C20; the implementation lives in bngverif/c20/pppsess.
package main

import (
	"bngverif/c20/pppsess"
	"bngverif/hx"
)

func main() { hx.Main(pppsess.Comp{}) }
