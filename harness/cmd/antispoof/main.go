// antispoof drives the real antispoof.Manager (pkg/antispoof/manager.go) writing into REAL kernel maps
// (hash, array, LPM trie), and the natively compiled bpf/antispoof.c (cshim runner) reading the raw bytes
// the manager wrote.
//
//	new <mode 0..3>                    => ok cfg=<valhex>            NewManager(DefaultMode) + publish config as Start() does
//	setmode <0..3>                     => ok [cfg=<valhex>]
//	bind m=<mac12hex> a=<ip8hex|->     => ok [b=<keyhex>:<valhex>]   AddBinding
//	bind6 m=<mac12hex> a=<ip32hex|->   => ok [b=<keyhex>:<valhex>]   AddBindingV6
//	unbind m=<mac12hex>                => ok [b-=<keyhex>]           RemoveBinding
//	range <ip8hex>/<len>               => ok [r=<keyhex>:<valhex>]   AddAllowedRange
//	rangemask <ip8hex> <mask8hex>      => ok [r=…] | err …           AddAllowedRange with an arbitrary mask
//	range16 <ip8hex>/<len>             => as range, the address handed over in 16-byte form (net.IPv4)
//	range16m <ip8hex>/<len>            => err …                      16-byte address with a 128-bit mask
//	(bind/bind6/unbind accept MACs of 1..8 bytes: the manager must refuse all but 6)
//	rawbind <keyhex> <valhex>          => ok | err size              arbitrary binding bytes
//	rawcfg <valhex>                    => ok | err size
//	rawrange <keyhex> <valhex>         => ok | err …
//	frame <hexframe>                   => <ret> [ev=N] | FAULT …     antispoof_ingress
//
// After every manager call the kernel maps are read in full and every difference to the previous snapshot is
// applied to the runner and reported: the observation lists exactly the bytes the manager wrote.  For every
// IPv4 frame whose run looked up allowed_ranges_v4, the same key is looked up in the REAL kernel LPM trie and
// the two answers are compared (suffix LPM-MISMATCH if the shim's trie disagrees with the kernel's).
package main

import (
	"encoding/hex"
	"fmt"
	"math/rand"
	"net"
	"os"
	"sort"
	"strconv"
	"strings"

	"bngverif/hx"

	"github.com/cilium/ebpf"
	"github.com/cilium/ebpf/rlimit"
	"github.com/codelaboratoryltd/bng/pkg/antispoof"
	"go.uber.org/zap"
)

type comp struct{}

var shared *hx.CRunner
var kBind, kCfg, kStats, kRanges *ebpf.Map

type run struct {
	c    *hx.CRunner
	mgr  *antispoof.Manager
	snap map[string]map[string]string // map name -> key -> value
	init bool
	kerr string
}

var names = []string{"subscriber_bindings", "antispoof_config", "allowed_ranges_v4"}
var tags = map[string]string{"subscriber_bindings": "b", "antispoof_config": "cfg", "allowed_ranges_v4": "r"}

func kmap(name string) *ebpf.Map {
	switch name {
	case "subscriber_bindings":
		return kBind
	case "antispoof_config":
		return kCfg
	}
	return kRanges
}

func (comp) NewRun() hx.Run {
	if shared == nil {
		c, err := hx.StartCRunner("antispoof")
		if err != nil {
			fmt.Fprintln(os.Stderr, "antispoof harness:", err)
			os.Exit(3)
		}
		shared = c
	}
	shared.Reset()
	return &run{c: shared}
}

func (r *run) Close() {}

func clearMap(m *ebpf.Map) {
	var kb, vb []byte
	var keys [][]byte
	it := m.Iterate()
	for it.Next(&kb, &vb) {
		keys = append(keys, append([]byte(nil), kb...))
	}
	for _, k := range keys {
		_ = m.Delete(k)
	}
}

func kernelDump(m *ebpf.Map) map[string]string {
	out := map[string]string{}
	var kb, vb []byte
	it := m.Iterate()
	for it.Next(&kb, &vb) {
		out[hex.EncodeToString(kb)] = hex.EncodeToString(vb)
	}
	return out
}

func (r *run) start(mode int) string {
	var err error
	if kBind == nil {
		// created once per process, emptied for every sequence; geometries as declared in bpf/antispoof.c:
		// __u64 -> struct subscriber_binding (24), __u32 -> struct antispoof_config (8), lpm_key_v4 (8) -> __u8
		_ = rlimit.RemoveMemlock()
		if kBind, err = ebpf.NewMap(&ebpf.MapSpec{Type: ebpf.Hash, KeySize: 8, ValueSize: 24, MaxEntries: 4096}); err != nil {
			return "err kernel-map " + err.Error()
		}
		if kCfg, err = ebpf.NewMap(&ebpf.MapSpec{Type: ebpf.Array, KeySize: 4, ValueSize: 8, MaxEntries: 1}); err != nil {
			return "err kernel-map " + err.Error()
		}
		if kStats, err = ebpf.NewMap(&ebpf.MapSpec{Type: ebpf.PerCPUArray, KeySize: 4, ValueSize: 48, MaxEntries: 1}); err != nil {
			return "err kernel-map " + err.Error()
		}
		if kRanges, err = ebpf.NewMap(&ebpf.MapSpec{Type: ebpf.LPMTrie, KeySize: 8, ValueSize: 1, MaxEntries: 256, Flags: 1}); err != nil {
			return "err kernel-map " + err.Error()
		}
	}
	clearMap(kBind)
	clearMap(kRanges)
	if err := kCfg.Put(uint32(0), make([]byte, 8)); err != nil {
		return "err kernel-map " + err.Error()
	}
	r.snap = map[string]map[string]string{}
	for _, n := range names {
		r.snap[n] = kernelDump(kmap(n))
	}
	r.c.Do("trace on")
	r.c.Do("put antispoof_config 00000000 0000000000000000")
	mgr, err := antispoof.NewManager(antispoof.ManagerConfig{Interface: "verif0", DefaultMode: antispoof.Mode(mode)}, zap.NewNop())
	if err != nil {
		return "err " + err.Error()
	}
	mgr.SetMapsForVerif(kBind, kCfg, kStats, kRanges)
	r.mgr = mgr
	r.init = true
	// Start() publishes {default_mode: m.mode, log_violations: 1}; SetMode(m.mode) writes the same record
	err = mgr.SetMode(mgr.ModeForVerif())
	return r.report(err)
}

// report applies kernel-map differences to the runner and renders them
func (r *run) report(err error) string {
	var toks []string
	for _, n := range names {
		after := kernelDump(kmap(n))
		before := r.snap[n]
		// deletions first: in an LPM trie a new key may replace the node of an old one
		var gone []string
		for k := range before {
			if _, ok := after[k]; !ok {
				gone = append(gone, k)
			}
		}
		sort.Strings(gone)
		for _, k := range gone {
			r.c.Do("del " + n + " " + k)
		}
		keys := make([]string, 0, len(after))
		for k := range after {
			keys = append(keys, k)
		}
		sort.Strings(keys)
		for _, k := range keys {
			if before[k] != after[k] {
				r.c.Do("put " + n + " " + k + " " + after[k])
				if n == "antispoof_config" {
					toks = append(toks, "cfg="+after[k])
				} else {
					toks = append(toks, tags[n]+"="+k+":"+after[k])
				}
			}
		}
		for _, k := range gone {
			toks = append(toks, tags[n]+"-="+k)
		}
		r.snap[n] = after
	}
	if err != nil {
		e := strings.ReplaceAll(strings.ReplaceAll(err.Error(), "\n", " "), " ", "_")
		return strings.Join(append([]string{"err", e}, toks...), " ")
	}
	return strings.Join(append([]string{"ok"}, toks...), " ")
}

func arg(toks []string, k string) (string, bool) {
	for _, t := range toks {
		if strings.HasPrefix(t, k+"=") {
			return t[len(k)+1:], true
		}
	}
	return "", false
}

func (r *run) raw(name, k, v string) string {
	kb, e1 := hex.DecodeString(k)
	vb, e2 := hex.DecodeString(v)
	if e1 != nil || e2 != nil {
		return "badop"
	}
	if err := kmap(name).Put(kb, vb); err != nil {
		if strings.Contains(err.Error(), "marshal") || strings.Contains(err.Error(), "size") || strings.Contains(err.Error(), "length") {
			return "err size"
		}
		return "err kernel"
	}
	r.snap[name] = kernelDump(kmap(name))
	// mirror the kernel's content of that map (an LPM put may have replaced a node with other trailing bits)
	cur := parseDump(r.c.Do("dump " + name))
	for key := range cur {
		if _, ok := r.snap[name][key]; !ok {
			r.c.Do("del " + name + " " + key)
		}
	}
	for key, val := range r.snap[name] {
		if cur[key] != val {
			r.c.Do("put " + name + " " + key + " " + val)
		}
	}
	return "ok"
}

func parseDump(s string) map[string]string {
	out := map[string]string{}
	if s == "-" || s == "" {
		return out
	}
	for _, kv := range strings.Split(s, ",") {
		if i := strings.IndexByte(kv, '='); i > 0 {
			out[kv[:i]] = kv[i+1:]
		}
	}
	return out
}

func (r *run) Do(op string) string {
	t := hx.Fields(op)
	if len(t) == 0 {
		return "badop"
	}
	if t[0] == "new" {
		if len(t) != 2 {
			return "badop"
		}
		n, err := strconv.Atoi(t[1])
		if err != nil || n < 0 || n > 255 {
			return "badop"
		}
		return r.start(n)
	}
	if !r.init {
		return "badop"
	}
	switch t[0] {
	case "setmode":
		if len(t) != 2 {
			return "badop"
		}
		n, err := strconv.Atoi(t[1])
		if err != nil || n < 0 || n > 255 {
			return "badop"
		}
		return r.report(r.mgr.SetMode(antispoof.Mode(n)))
	case "bind", "bind6", "unbind":
		ms, ok := arg(t[1:], "m")
		mac, err := hex.DecodeString(ms)
		if !ok || err != nil || len(mac) == 0 || len(mac) > 8 {
			return "badop"
		}
		if t[0] == "unbind" {
			return r.report(r.mgr.RemoveBinding(net.HardwareAddr(mac)))
		}
		as, ok := arg(t[1:], "a")
		if !ok {
			return "badop"
		}
		var ip net.IP
		if as != "-" {
			b, err := hex.DecodeString(as)
			if err != nil || (t[0] == "bind" && len(b) != 4) || (t[0] == "bind6" && len(b) != 16) {
				return "badop"
			}
			ip = net.IP(b)
		}
		if t[0] == "bind" {
			return r.report(r.mgr.AddBinding(net.HardwareAddr(mac), ip))
		}
		return r.report(r.mgr.AddBindingV6(net.HardwareAddr(mac), ip))
	case "range":
		if len(t) != 2 {
			return "badop"
		}
		p := strings.Split(t[1], "/")
		if len(p) != 2 {
			return "badop"
		}
		b, err := hex.DecodeString(p[0])
		l, err2 := strconv.Atoi(p[1])
		if err != nil || err2 != nil || len(b) != 4 || l < 0 || l > 32 {
			return "badop"
		}
		return r.report(r.mgr.AddAllowedRange(&net.IPNet{IP: net.IP(b), Mask: net.CIDRMask(l, 32)}))
	case "range16", "range16m": // the IPv4 network with its address in the 16-byte form net.ParseIP / IP.To16 produce
		if len(t) != 2 {
			return "badop"
		}
		p := strings.Split(t[1], "/")
		if len(p) != 2 {
			return "badop"
		}
		b, err := hex.DecodeString(p[0])
		l, err2 := strconv.Atoi(p[1])
		if err != nil || err2 != nil || len(b) != 4 || l < 0 || l > 32 {
			return "badop"
		}
		ip16 := net.IPv4(b[0], b[1], b[2], b[3]) // 16 bytes
		if t[0] == "range16m" {
			return r.report(r.mgr.AddAllowedRange(&net.IPNet{IP: ip16, Mask: net.CIDRMask(96+l, 128)}))
		}
		return r.report(r.mgr.AddAllowedRange(&net.IPNet{IP: ip16, Mask: net.CIDRMask(l, 32)}))
	case "rangemask": // an IPNet with an arbitrary (possibly non-contiguous) mask
		if len(t) != 3 {
			return "badop"
		}
		b, e1 := hex.DecodeString(t[1])
		mk, e2 := hex.DecodeString(t[2])
		if e1 != nil || e2 != nil || len(b) != 4 || len(mk) != 4 {
			return "badop"
		}
		return r.report(r.mgr.AddAllowedRange(&net.IPNet{IP: net.IP(b), Mask: net.IPMask(mk)}))
	case "rawbind":
		if len(t) != 3 {
			return "badop"
		}
		return r.raw("subscriber_bindings", t[1], t[2])
	case "rawcfg":
		if len(t) != 2 {
			return "badop"
		}
		return r.raw("antispoof_config", "00000000", t[1])
	case "rawrange":
		if len(t) != 3 {
			return "badop"
		}
		return r.raw("allowed_ranges_v4", t[1], t[2])
	case "frame":
		if len(t) != 2 {
			return "badop"
		}
		obs := r.c.Do("run tc antispoof_ingress " + t[1])
		if strings.HasPrefix(obs, "FAULT") {
			return obs
		}
		f := strings.Fields(obs)
		if len(f) < 2 {
			return obs
		}
		out := []string{f[0]}
		if f[1] != "same" {
			out = append(out, "frame="+f[1])
		}
		for _, x := range f[2:] {
			switch {
			case strings.HasPrefix(x, "ev="), strings.HasPrefix(x, "prio="), strings.HasPrefix(x, "mark="):
				out = append(out, x)
			case strings.HasPrefix(x, "ops="):
				for _, o := range strings.Split(x[4:], ",") {
					p := strings.Split(o, ":")
					if len(p) == 4 && p[0] == "l" && p[1] == "allowed_ranges_v4" {
						kb, _ := hex.DecodeString(p[2])
						var v []byte
						err := kRanges.Lookup(kb, &v)
						kernelHit := err == nil
						if kernelHit != (p[3] == "h") {
							out = append(out, fmt.Sprintf("LPM-MISMATCH(kernel=%v,shim=%s)", kernelHit, p[3]))
						}
					}
				}
			}
		}
		return strings.Join(out, " ")
	}
	return "badop"
}

// ---------------------------------------------------------------------------------------------- generator

var macs = []string{"020000000001", "020000000002", "0200000000ff", "a0b1c2d3e4f5"}
var v4s = []string{"0a000005", "0a000006", "0a01010a", "c0a80a0a", "0500000a", "64400001", "0a000105"}
var v6s = []string{"20010db8000000000000000000000001", "20010db8000000000000000000000002", "fe800000000000000200000000000001",
	"01000000000000000000000000000120"}
var nets = []string{"0a000000/8", "0a000000/24", "0a000004/30", "c0a80000/16", "00000000/0", "0a000005/32", "64400000/10", "0a000080/25", "0a0001ff/24"}

func le(v uint64, n int) string {
	b := make([]byte, n)
	for i := 0; i < n; i++ {
		b[i] = byte(v >> (8 * i))
	}
	return hex.EncodeToString(b)
}

func nearMiss(r *rand.Rand, a string) string {
	b, _ := hex.DecodeString(a)
	switch r.Intn(4) {
	case 0: // one bit flipped
		i := r.Intn(len(b))
		b[i] ^= 1 << uint(r.Intn(8))
	case 1: // byte order reversed
		for i, j := 0, len(b)-1; i < j; i, j = i+1, j-1 {
			b[i], b[j] = b[j], b[i]
		}
	case 2: // last byte +1
		b[len(b)-1]++
	default:
		b[0] ^= 0x80
	}
	return hex.EncodeToString(b)
}

// mkFrame builds dst|src|[tags]|ethertype|payload, truncated to n bytes if n >= 0
// vlan: 0 none, 1 = 802.1Q, 2 = 802.1ad + 802.1Q, 3 = legacy 0x9100 + 0x8100, 4 = 0x9200,
// 5 = PPPoE session (ethertype 0x8864, PPP protocol 0x0021 / 0x0057 in front of the IP header)
func mkFrame(srcMac string, vlan int, ethertype uint16, payload []byte, n int) string {
	f, _ := hex.DecodeString("ffffffffffff" + srcMac)
	switch vlan {
	case 1:
		f = append(f, 0x81, 0x00, 0x00, 100)
	case 2:
		f = append(f, 0x88, 0xa8, 0x00, 100, 0x81, 0x00, 0x00, 101)
	case 3:
		f = append(f, 0x91, 0x00, 0x00, 100, 0x81, 0x00, 0x00, 101)
	case 4:
		f = append(f, 0x92, 0x00, 0x00, 100)
	case 5:
		ppp := uint16(0xc021)
		if ethertype == 0x0800 {
			ppp = 0x0021
		} else if ethertype == 0x86dd {
			ppp = 0x0057
		}
		l := len(payload) + 2
		f = append(f, 0x88, 0x64, 0x11, 0x00, 0x00, 0x01, byte(l>>8), byte(l), byte(ppp>>8), byte(ppp))
		f = append(f, payload...)
		if n >= 0 && n < len(f) {
			f = f[:n]
		}
		return hex.EncodeToString(f)
	}
	f = append(f, byte(ethertype>>8), byte(ethertype))
	f = append(f, payload...)
	if n >= 0 && n < len(f) {
		f = f[:n]
	}
	if len(f) == 0 {
		return "-"
	}
	return hex.EncodeToString(f)
}

func ip4hdr(src, dst string) []byte {
	h := []byte{0x45, 0, 0, 28, 0, 0, 0, 0, 64, 17, 0, 0}
	s, _ := hex.DecodeString(src)
	d, _ := hex.DecodeString(dst)
	h = append(h, s...)
	h = append(h, d...)
	return append(h, 1, 2, 3, 4, 5, 6, 7, 8)
}

func ip6hdr(src, dst string) []byte {
	h := []byte{0x60, 0, 0, 0, 0, 8, 17, 64}
	s, _ := hex.DecodeString(src)
	d, _ := hex.DecodeString(dst)
	h = append(h, s...)
	h = append(h, d...)
	return append(h, 1, 2, 3, 4, 5, 6, 7, 8)
}

type gstate struct {
	bound4 map[string]string
	bound6 map[string]string
}

func genFrame(r *rand.Rand, g *gstate) string {
	mac := hx.Pick(r, macs)
	vlan := 0
	if r.Intn(7) == 0 {
		vlan = 1 + r.Intn(5)
	}
	n := -1
	if r.Intn(6) == 0 {
		n = r.Intn(80)
	}
	switch x := r.Intn(100); {
	case x < 55: // IPv4
		src := hx.Pick(r, v4s)
		if b, ok := g.bound4[mac]; ok && r.Intn(2) == 0 {
			src = b
			if r.Intn(3) == 0 {
				src = nearMiss(r, b)
			}
		}
		return "frame " + mkFrame(mac, vlan, 0x0800, ip4hdr(src, "08080808"), n)
	case x < 85: // IPv6
		src := hx.Pick(r, v6s)
		if b, ok := g.bound6[mac]; ok && r.Intn(2) == 0 {
			src = b
			if r.Intn(3) == 0 {
				src = nearMiss(r, b)
			}
		}
		return "frame " + mkFrame(mac, vlan, 0x86dd, ip6hdr(src, "20010db8000000000000000000000099"), n)
	case x < 92: // ARP / other
		return "frame " + mkFrame(mac, vlan, hx.Pick(r, []uint16{0x0806, 0x8863, 0x8864, 0x0008, 0xdd86, 0xffff}), ip4hdr("0a000005", "0a000001"), n)
	default: // random bytes
		b := make([]byte, r.Intn(70))
		r.Read(b)
		if len(b) == 0 {
			return "frame -"
		}
		return "frame " + hex.EncodeToString(b)
	}
}

func macKey(mac string) string {
	b, _ := hex.DecodeString(mac)
	var v uint64
	for _, x := range b {
		v = v<<8 | uint64(x)
	}
	return le(v, 8)
}

func genSeq(r *rand.Rand) []string {
	g := &gstate{bound4: map[string]string{}, bound6: map[string]string{}}
	seq := []string{fmt.Sprintf("new %d", r.Intn(4))}
	n := 12 + r.Intn(40)
	for i := 0; i < n; i++ {
		switch x := r.Intn(100); {
		case x < 50:
			seq = append(seq, genFrame(r, g))
		case x < 60:
			seq = append(seq, fmt.Sprintf("setmode %d", r.Intn(4)))
		case x < 72:
			mac, a := hx.Pick(r, macs), hx.Pick(r, v4s)
			if r.Intn(10) == 0 {
				a = "-"
				delete(g.bound4, mac)
			} else {
				g.bound4[mac] = a
			}
			seq = append(seq, "bind m="+mac+" a="+a)
		case x < 80:
			mac, a := hx.Pick(r, macs), hx.Pick(r, v6s)
			g.bound6[mac] = a
			seq = append(seq, "bind6 m="+mac+" a="+a)
		case x < 84:
			mac := hx.Pick(r, macs)
			delete(g.bound4, mac)
			delete(g.bound6, mac)
			seq = append(seq, "unbind m="+mac)
		case x < 85: // what the manager must refuse: MACs that are not 6 bytes, masks that are not prefixes
			switch r.Intn(4) {
			case 0:
				seq = append(seq, "unbind m="+hx.Pick(r, []string{"02", "0200000000", "02000000000102", "0200000000010203"}))
			case 1:
				seq = append(seq, "bind m="+hx.Pick(r, []string{"0200", "02000000000102"})+" a=0a000005")
			case 2:
				seq = append(seq, "bind6 m=020000 a="+v6s[0])
			default:
				seq = append(seq, "rangemask "+hx.Pick(r, v4s)+" "+hx.Pick(r, []string{"ff00ff00", "ffffff00", "00ffffff", "ffff0001", "00000000", "fffffffe", "80000001"}))
			}
		case x < 93:
			switch r.Intn(6) {
			case 0, 1: // the same network, address in 16-byte form
				seq = append(seq, "range16 "+hx.Pick(r, nets))
			case 2:
				seq = append(seq, "range16m "+hx.Pick(r, nets))
			default:
				seq = append(seq, "range "+hx.Pick(r, nets))
			}
		case x < 96: // arbitrary binding bytes: every valid-flag / mode combination, modes beyond 3
			mac := hx.Pick(r, macs)
			a4, _ := hex.DecodeString(hx.Pick(r, v4s))
			if r.Intn(2) == 0 { // the other byte order
				a4[0], a4[1], a4[2], a4[3] = a4[3], a4[2], a4[1], a4[0]
			}
			a6 := hx.Pick(r, v6s)
			mode := r.Intn(6)
			if r.Intn(10) == 0 {
				mode = r.Intn(256)
			}
			val := hex.EncodeToString(a4) + a6 + fmt.Sprintf("%02x%02x%02x%02x", r.Intn(2)*(1+r.Intn(255)), r.Intn(2)*(1+r.Intn(255)), mode, r.Intn(2)*r.Intn(256))
			seq = append(seq, "rawbind "+macKey(mac)+" "+val)
			g.bound4[mac] = hex.EncodeToString([]byte{a4[0], a4[1], a4[2], a4[3]})
			g.bound6[mac] = a6
		case x < 98:
			seq = append(seq, fmt.Sprintf("rawcfg %02x%02x000000000000", r.Intn(5), r.Intn(2)))
		default:
			p := strings.Split(hx.Pick(r, nets), "/")
			l, _ := strconv.Atoi(p[1])
			if r.Intn(4) == 0 {
				l = 33 + r.Intn(4) // the kernel refuses prefix lengths beyond 32
			}
			seq = append(seq, "rawrange "+le(uint64(l), 4)+p[0]+" 01")
		}
	}
	return seq
}

// small-scope exhaustive: (default mode) x (binding: none / manager mode at bind time) x (v4 bound?) x (v6 bound?)
// x (range covering / not) x frame kind, with source = bound / near miss / other
func genExhaustive(emit func([]string)) {
	mac := macs[0]
	for def := 0; def < 4; def++ {
		for bmode := -1; bmode < 4; bmode++ {
			for b4 := 0; b4 < 2; b4++ {
				for b6 := 0; b6 < 2; b6++ {
					if bmode < 0 && (b4+b6) > 0 {
						continue
					}
					for rg := 0; rg < 3; rg++ {
						seq := []string{fmt.Sprintf("new %d", def)}
						if bmode >= 0 {
							seq = append(seq, fmt.Sprintf("setmode %d", bmode))
							a := "-"
							if b4 == 1 {
								a = "0a000005"
							}
							if rg == 1 { // dual stack in the other order: IPv6 first, then the IPv4 lease
								if b6 == 1 {
									seq = append(seq, "bind6 m="+mac+" a="+v6s[0])
								}
								seq = append(seq, "bind m="+mac+" a="+a)
							} else {
								seq = append(seq, "bind m="+mac+" a="+a)
								if b6 == 1 {
									seq = append(seq, "bind6 m="+mac+" a="+v6s[0])
								}
							}
							seq = append(seq, fmt.Sprintf("setmode %d", def))
						}
						switch rg {
						case 1:
							seq = append(seq, "range 0a000000/24")
						case 2:
							seq = append(seq, "range c0a80000/16", "range 0a000005/32")
						}
						for _, src := range []string{"0a000005", "0500000a", "0a000006", "c0a80101", "0a000105"} {
							seq = append(seq, "frame "+mkFrame(mac, 0, 0x0800, ip4hdr(src, "08080808"), -1))
						}
						for _, src := range []string{v6s[0], v6s[1]} {
							seq = append(seq, "frame "+mkFrame(mac, 0, 0x86dd, ip6hdr(src, v6s[2]), -1))
						}
						seq = append(seq, "frame "+mkFrame(mac, 1, 0x0800, ip4hdr("0a000006", "08080808"), -1))
						seq = append(seq, "frame "+mkFrame(mac, 2, 0x86dd, ip6hdr(v6s[1], v6s[2]), -1))
						seq = append(seq, "frame "+mkFrame(mac, 3, 0x0800, ip4hdr("0a000006", "08080808"), -1))
						seq = append(seq, "frame "+mkFrame(mac, 5, 0x0800, ip4hdr("0a000006", "08080808"), -1))
						seq = append(seq, "frame "+mkFrame(mac, 5, 0x86dd, ip6hdr(v6s[1], v6s[2]), -1))
						seq = append(seq, "frame "+mkFrame(mac, 1, 0x0800, ip4hdr("0a000005", "08080808"), -1))
						seq = append(seq, "frame "+mkFrame(mac, 0, 0x0806, ip4hdr("0a000006", "08080808"), -1))
						seq = append(seq, "frame "+mkFrame(mac, 0, 0x0800, ip4hdr("0a000006", "08080808"), 33))
						seq = append(seq, "frame "+mkFrame(mac, 0, 0x86dd, ip6hdr(v6s[1], v6s[2]), 53))
						seq = append(seq, "frame "+mkFrame(macs[1], 0, 0x0800, ip4hdr("0a000005", "08080808"), -1))
						seq = append(seq, "unbind m="+mac)
						seq = append(seq, "frame "+mkFrame(mac, 0, 0x0800, ip4hdr("0a000005", "08080808"), -1))
						emit(seq)
					}
				}
			}
		}
	}
}

// every frame length 0..80 for the three frame kinds under every mode (C07-style truncation sweep)
func genLengths(emit func([]string)) {
	mac := macs[0]
	for mode := 0; mode < 4; mode++ {
		seq := []string{fmt.Sprintf("new %d", mode), "bind m=" + mac + " a=0a000005", "bind6 m=" + mac + " a=" + v6s[0], "range 0a000000/8"}
		for n := 0; n <= 80; n++ {
			seq = append(seq, "frame "+mkFrame(mac, 0, 0x0800, ip4hdr("0a000006", "08080808"), n))
			seq = append(seq, "frame "+mkFrame(mac, 0, 0x86dd, ip6hdr(v6s[1], v6s[2]), n))
			seq = append(seq, "frame "+mkFrame(mac, 1, 0x0800, ip4hdr("0a000006", "08080808"), n))
		}
		emit(seq)
	}
}

func (comp) Gen(r *rand.Rand, tier string, emit func([]string)) {
	genExhaustive(emit)
	genLengths(emit)
	n := 1200
	if tier == "thorough" {
		n = 25000
	}
	for i := 0; i < n; i++ {
		emit(genSeq(r))
	}
}

func main() { hx.Main(comp{}) }
