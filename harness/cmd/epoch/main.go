// epoch drives the real allocator.EpochBitmapAllocator (pkg/allocator/epoch_bitmap.go).
//
//	new <fam> <basehex> <ones> <plen> <grace>   => ok | invalid
//	alloc s3        => ok <hex> | exhausted
//	renew s3        => ok | notfound
//	release s3      => ok
//	advance         => <new epoch>
//	lookup s3       => <hex> | none
//	owner <hex>     => s3 | none
//	stats           => <allocated> <total>
//	util            => <kind> <allocated> <total>   the third Stats() result: zero | ratio (= allocated/total) |
//	                   percent (= 100*allocated/total) | nan | other
//	epoch           => <current epoch>
//	roundtrip       => ok | error      (MarshalJSON, UnmarshalJSON into a zero allocator)
//	stress <seed>   => ok | viol <monitor> <detail>   8 goroutines allocate/renew/release/look up/advance concurrently on a
//	                   FRESH allocator of the same geometry; afterwards uniqueness, range and count are audited
package main

import (
	"context"
	"encoding/json"
	"fmt"
	"math/big"
	"math/rand"
	"net"
	"strconv"
	"strings"
	"sync"

	"bngverif/hx"

	"github.com/codelaboratoryltd/bng/pkg/allocator"
)

type comp struct{}

type geo struct {
	fam   int
	base  string
	ones  int
	plen  int
	grace int
}

func (g geo) baseNum() *big.Int {
	ip := net.ParseIP(g.base)
	if g.fam == 32 {
		return new(big.Int).SetBytes(ip.To4())
	}
	return new(big.Int).SetBytes(ip.To16())
}

func (g geo) newOp() string {
	return fmt.Sprintf("new %d %s %d %d %d", g.fam, g.baseNum().Text(16), g.ones, g.plen, g.grace)
}

func (g geo) total() int64 { return int64(1) << uint(g.plen-g.ones) }

// addrTok: base + i (numeric)
func (g geo) addrTok(i int64) string {
	v := new(big.Int).Add(g.baseNum(), big.NewInt(i))
	if v.Sign() < 0 {
		v.SetInt64(0)
	}
	return v.Text(16)
}

var bases = []struct {
	base       string
	ones, plen int
}{
	{"10.0.0.0", 29, 32},     // 8 slots, 6 usable
	{"192.168.7.4", 30, 32},  // 4 slots, 2 usable
	{"10.0.0.240", 28, 32},   // 16 slots, last nibble 0xf0: byte-wise add must not carry
	{"10.9.9.8", 31, 32},     // 2 slots, none usable
	{"10.9.9.9", 32, 32},     // 1 slot, none usable (usable count wraps)
	{"100.64.0.16", 28, 30},  // prefix length 30: 4 slots
	{"172.16.255.0", 24, 32}, // 256 slots
}

var graces = []int{1, 1, 1, 0, 2, 2, 3, 5, 1, 2, 256, 257, 258, 259}

func (g geo) randAddr(r *rand.Rand) string {
	n := g.total()
	switch r.Intn(10) {
	case 0:
		return g.addrTok(n) // just beyond the end
	case 1:
		return g.addrTok(-1) // before the base
	case 2:
		return g.addrTok(n + 255) // a byte-wise wrap candidate
	}
	return g.addrTok(r.Int63n(n))
}

func (g geo) randOp(r *rand.Rand, subs int) string {
	s := fmt.Sprintf("s%d", 1+r.Intn(subs))
	switch x := r.Intn(100); {
	case x < 28:
		return "alloc " + s
	case x < 38:
		return "renew " + s
	case x < 50:
		return "release " + s
	case x < 68:
		return "advance"
	case x < 76:
		return "lookup " + s
	case x < 83:
		return "owner " + g.randAddr(r)
	case x < 90:
		return "stats"
	case x < 93:
		return "util"
	case x < 95:
		return "epoch"
	default:
		return "roundtrip"
	}
}

func tail(subs int) []string {
	out := []string{"stats", "util"}
	for s := 1; s <= subs; s++ {
		out = append(out, fmt.Sprintf("lookup s%d", s))
	}
	return out
}

func (comp) Gen(r *rand.Rand, tier string, emit func([]string)) {
	nSmall, nLarge := 3000, 10
	if tier == "thorough" {
		nSmall, nLarge = 60000, 100
	}
	for i := 0; i < nSmall; i++ {
		b := bases[r.Intn(len(bases))]
		g := geo{32, b.base, b.ones, b.plen, graces[r.Intn(len(graces))]}
		subs := 2 + r.Intn(4)
		n := 3 + r.Intn(40)
		seq := []string{g.newOp()}
		// a prefix of epoch advances reaches every residue of the 2-bit generation counter
		for k := r.Intn(6); k > 0; k-- {
			seq = append(seq, "advance")
		}
		for j := 0; j < n; j++ {
			seq = append(seq, g.randOp(r, subs))
		}
		seq = append(seq, tail(subs)...)
		emit(seq)
	}
	for i := 0; i < nLarge; i++ {
		g := geo{32, "10.16.0.0", 22, 32, 1 + r.Intn(2)}
		subs := 50 + r.Intn(300)
		seq := []string{g.newOp()}
		for j := 0; j < 1500; j++ {
			seq = append(seq, g.randOp(r, subs))
		}
		seq = append(seq, "stats")
		emit(seq)
	}
	// epoch advances far beyond the generation wrap (k up to 12) around one long-lived and one lapsing lease
	for k := 0; k <= 12; k++ {
		for _, gr := range []int{1, 2} {
			g := geo{32, "10.0.0.0", 29, 32, gr}
			seq := []string{g.newOp()}
			for j := 0; j < k; j++ {
				seq = append(seq, "advance")
			}
			seq = append(seq, "stats", "alloc s1", "alloc s2", "advance", "renew s1", "stats", "advance", "renew s1", "lookup s1",
				"lookup s2", "stats", "advance", "lookup s1", "lookup s2", "alloc s3", "alloc s4", "alloc s5", "alloc s6", "alloc s7", "alloc s8", "stats")
			emit(seq)
		}
	}
	// concurrent callers (the interleaving is the scheduler's; the audit afterwards is deterministic)
	for i := 0; i < 12; i++ {
		g := geo{32, []string{"10.0.0.0", "192.168.7.0"}[i%2], 28, 32, 1 + i%2}
		emit([]string{g.newOp(), fmt.Sprintf("stress %d", r.Intn(1<<30)), "stats"})
	}
	// an IPv6 base network (the allocator's address arithmetic is IPv4 only)
	emit([]string{"new 128 20010db8000000000000000000000000 120 128 1", "alloc s1", "lookup s1", "stats"})
	if tier == "thorough" {
		exhaustive(emit)
	}
}

// exhaustive: every sequence of mutating operations to depth 6 over 2 subscribers (+ a third asking last)
// on the 4-slot and 8-slot pools, for grace 1 and 2.
func exhaustive(emit func([]string)) {
	alpha := []string{"alloc s1", "alloc s2", "renew s1", "release s1", "release s2", "advance", "roundtrip"}
	for _, g := range []geo{{32, "192.168.7.4", 30, 32, 1}, {32, "192.168.7.4", 30, 32, 2}, {32, "10.0.0.0", 29, 32, 1}} {
		var rec func(prefix []string, depth int)
		rec = func(prefix []string, depth int) {
			if depth == 0 {
				seq := append([]string{g.newOp()}, prefix...)
				seq = append(seq, "stats", "lookup s1", "lookup s2", "alloc s3", "alloc s1", "alloc s2", "stats")
				emit(seq)
				return
			}
			for _, a := range alpha {
				rec(append(prefix[:len(prefix):len(prefix)], a), depth-1)
			}
		}
		rec(nil, 6)
	}
}

type run struct {
	a   *allocator.EpochBitmapAllocator
	fam int
	cfg allocator.EpochBitmapConfig
}

func (comp) NewRun() hx.Run { return &run{} }
func (r *run) Close()       {}

func ipOf(v *big.Int, fam int) net.IP {
	n := fam / 8
	b := v.Bytes()
	if len(b) > n {
		b = b[len(b)-n:]
	}
	out := make([]byte, n)
	copy(out[n-len(b):], b)
	return net.IP(out)
}

func showIP(ip net.IP) string {
	if v4 := ip.To4(); v4 != nil {
		return new(big.Int).SetBytes(v4).Text(16)
	}
	return new(big.Int).SetBytes(ip).Text(16)
}

func classify(err error) string {
	switch {
	case err == nil:
		return "ok"
	case strings.Contains(err.Error(), allocator.ErrPoolExhausted.Error()):
		return "exhausted"
	case strings.Contains(err.Error(), allocator.ErrNotFound.Error()):
		return "notfound"
	}
	return "error " + strings.ReplaceAll(err.Error(), "\n", " ")
}

func (r *run) Do(op string) string {
	f := hx.Fields(op)
	ctx := context.Background()
	if f[0] == "new" {
		if len(f) != 6 {
			return "badop"
		}
		fam, _ := strconv.Atoi(f[1])
		base, ok := new(big.Int).SetString(f[2], 16)
		ones, _ := strconv.Atoi(f[3])
		pl, _ := strconv.Atoi(f[4])
		grace, _ := strconv.ParseUint(f[5], 10, 64)
		if !ok || (fam != 32 && fam != 128) {
			return "badop"
		}
		r.fam = fam
		r.cfg = allocator.EpochBitmapConfig{
			BaseNetwork:  fmt.Sprintf("%s/%d", ipOf(base, fam).String(), ones),
			PrefixLength: pl,
			GracePeriod:  grace,
		}
		a, err := allocator.NewEpochBitmapAllocator(r.cfg)
		if err != nil {
			return "invalid"
		}
		r.a = a
		return "ok"
	}
	if r.a == nil {
		return "badop"
	}
	switch f[0] {
	case "alloc":
		ip, err := r.a.Allocate(ctx, f[1])
		if err != nil {
			return classify(err)
		}
		return "ok " + showIP(ip)
	case "renew":
		return classify(r.a.Renew(ctx, f[1]))
	case "release":
		return classify(r.a.Release(ctx, f[1]))
	case "advance":
		return strconv.FormatUint(r.a.AdvanceEpoch(), 10)
	case "lookup":
		ip := r.a.Lookup(f[1])
		if ip == nil {
			return "none"
		}
		return showIP(ip)
	case "owner":
		v, ok := new(big.Int).SetString(f[1], 16)
		if !ok {
			return "badop"
		}
		s := r.a.LookupByIP(ipOf(v, 32))
		if s == "" {
			return "none"
		}
		return s
	case "stats":
		al, tot, _ := r.a.Stats()
		return fmt.Sprintf("%d %d", al, tot)
	case "util":
		al, tot, u := r.a.Stats()
		return fmt.Sprintf("%s %d %d", hx.UtilKind(al, tot, u), al, tot)
	case "epoch":
		return strconv.FormatUint(r.a.GetCurrentEpoch(), 10)
	case "stress":
		seed, _ := strconv.ParseInt(f[1], 10, 64)
		return r.stress(seed)
	case "roundtrip":
		data, err := json.Marshal(r.a)
		if err != nil {
			return "error"
		}
		var b allocator.EpochBitmapAllocator
		if err := json.Unmarshal(data, &b); err != nil {
			return "error"
		}
		r.a = &b
		return "ok"
	}
	return "badop"
}

// stress: concurrent callers on a fresh allocator, then a sequential audit of the C01/C05 clauses
func (r *run) stress(seed int64) string {
	// the races are rare: many short rounds
	for round := int64(0); round < 30; round++ {
		if v := r.stressOnce(seed + round*7919); v != "ok" {
			return v
		}
	}
	return "ok"
}

func (r *run) stressOnce(seed int64) string {
	a, err := allocator.NewEpochBitmapAllocator(r.cfg)
	if err != nil {
		return "ok"
	}
	ctx := context.Background()
	const workers, steps, subs = 8, 300, 12
	var wg sync.WaitGroup
	for w := 0; w < workers; w++ {
		wg.Add(1)
		go func(w int) {
			defer wg.Done()
			rr := rand.New(rand.NewSource(seed*131 + int64(w)))
			for i := 0; i < steps; i++ {
				sub := fmt.Sprintf("s%d", 1+rr.Intn(subs))
				switch rr.Intn(10) {
				case 0, 1, 2, 3:
					a.Allocate(ctx, sub)
				case 4:
					a.Renew(ctx, sub)
				case 5, 6:
					a.Release(ctx, sub)
				case 7:
					a.Lookup(sub)
				case 8:
					a.Stats()
				default:
					if w == 0 && rr.Intn(4) == 0 {
						a.AdvanceEpoch()
					}
				}
			}
		}(w)
	}
	wg.Wait()
	seen := map[string]string{}
	held := uint64(0)
	for i := 1; i <= subs; i++ {
		sub := fmt.Sprintf("s%d", i)
		ip := a.Lookup(sub)
		if ip == nil {
			continue
		}
		held++
		k := showIP(ip)
		if o, dup := seen[k]; dup {
			return fmt.Sprintf("viol unique %s answered to %s and %s after concurrent callers", k, o, sub)
		}
		seen[k] = sub
		if a.LookupByIP(ip) != sub {
			return fmt.Sprintf("viol agree reverse lookup of %s is not %s after concurrent callers", k, sub)
		}
	}
	if al, _, _ := a.Stats(); al != held {
		return fmt.Sprintf("viol count reported allocated=%d, holders=%d after concurrent callers", al, held)
	}
	return "ok"
}

func main() { hx.Main(comp{}) }
