package failover

import (
	"bufio"
	"errors"
	"flag"
	"fmt"
	"math/rand"
	"os"
	"sort"
	"strconv"
	"strings"
	"testing"
	"testing/synctest"
	"time"

	"bngverif/hx"

	"github.com/codelaboratoryltd/bng/pkg/ha"
	"go.uber.org/zap"
)

var (
	realArgs []string
	realOut  *os.File
)

func TestMain(m *testing.M) {
	realArgs = os.Args[1:]
	realOut = os.Stdout
	// the testing package's own chatter ("PASS") must not end up in the trace
	if null, err := os.OpenFile(os.DevNull, os.O_WRONLY, 0); err == nil {
		os.Stdout = null
	} else {
		os.Stdout = os.Stderr
	}
	os.Args = []string{os.Args[0], "-test.run=^TestHarness$", "-test.timeout=0"}
	code := m.Run()
	os.Exit(code)
}

// TestHarness is hx.Main with every sequence executed inside its own synctest bubble.
func TestHarness(t *testing.T) {
	if len(realArgs) < 1 {
		t.Skip("usage: <bin> gen|exec [flags]")
	}
	mode := realArgs[0]
	fs := flag.NewFlagSet(mode, flag.ExitOnError)
	seed := fs.Int64("seed", 1, "PRNG seed")
	tier := fs.String("tier", "quick", "quick|thorough")
	_ = fs.Parse(realArgs[1:])
	w := bufio.NewWriterSize(realOut, 1<<20)
	defer w.Flush()
	c := comp{t: t}
	execSeq := func(seq []string) {
		synctest.Test(t, func(*testing.T) { hx.ExecSeq(c, seq, w) })
	}
	switch mode {
	case "gen":
		c.Gen(rand.New(rand.NewSource(*seed)), *tier, execSeq)
	case "exec":
		sc := bufio.NewScanner(os.Stdin)
		sc.Buffer(make([]byte, 1<<20), 1<<26)
		for _, seq := range hx.ReadSeqs(sc) {
			execSeq(seq)
		}
	default:
		t.Fatalf("unknown mode %s", mode)
	}
}

type comp struct{ t *testing.T }

// ---------------------------------------------------------------------------------------------

type emitted struct {
	name string
	at   time.Duration
}

type run struct {
	start   time.Time
	mon     *ha.HealthMonitor
	ctl     *ha.FailoverController
	cbOK    bool
	cbDelay time.Duration // how long the role-change callback takes
	cbAct   string        // what happens to the partner while it runs: down | up | none
	evs     []emitted
	drift   time.Duration // the real (virtual) clock is this much behind the scripted clock
	stale   []func()
	staleFb []func()
	delay   time.Duration
	fbDelay time.Duration
	grace   time.Duration
}

func (comp) NewRun() hx.Run { return &run{cbOK: true} }

func (r *run) Close() {
	if r.ctl != nil {
		// Bring the controller to rest before the bubble ends (a bubble must not end while a goroutine is in a
		// grace sleep or a slow callback, and a failing callback next to a dead partner is retried for ever):
		// callbacks succeed at once, the partner is healthy, and everything in flight gets time to finish.
		old := r.cbDelay
		r.cbOK, r.cbDelay, r.cbAct = true, 0, "none"
		r.evs = nil
		r.mon.SetPartnerHealthyForVerif(true)
		time.Sleep(2*(r.delay+r.fbDelay+r.grace+old) + time.Second)
		r.ctl.Stop()
	}
	synctest.Wait()
}

func ms(d time.Duration) int64 { return int64((d + 500*time.Microsecond) / time.Millisecond) }

func (r *run) emit(name string) {
	r.evs = append(r.evs, emitted{name, time.Since(r.start) + r.drift})
}

func (r *run) obs() string {
	synctest.Wait()
	i, c, x, f := r.ctl.Stats()
	h := 0
	if r.mon.IsPartnerHealthy() {
		h = 1
	}
	ev := "-"
	if len(r.evs) > 0 {
		parts := make([]string, len(r.evs))
		for k, e := range r.evs {
			parts[k] = fmt.Sprintf("%s@%d", e.name, ms(e.at))
		}
		ev = strings.Join(parts, ",")
	}
	r.evs = nil
	return fmt.Sprintf("t=%d %s %s h=%d i=%d c=%d x=%d f=%d ev=%s", ms(time.Since(r.start)+r.drift),
		r.ctl.CurrentRole(), r.ctl.State(), h, i, c, x, f, ev)
}

func (r *run) Do(op string) string {
	f := hx.Fields(op)
	if f[0] == "new" {
		// new <standby|active> <delay> <fbdelay> <grace> <failback 0|1>
		if len(f) != 6 || r.ctl != nil {
			return "badop"
		}
		d, _ := strconv.Atoi(f[2])
		fb, _ := strconv.Atoi(f[3])
		g, _ := strconv.Atoi(f[4])
		r.delay, r.fbDelay, r.grace = time.Duration(d)*time.Millisecond, time.Duration(fb)*time.Millisecond, time.Duration(g)*time.Millisecond
		cfg := ha.FailoverConfig{Enabled: true, FailoverDelay: r.delay, FailbackDelay: r.fbDelay,
			FailbackEnabled: f[5] == "1", GracePeriod: r.grace}
		logger := zap.NewNop()
		r.start = time.Now()
		r.mon = ha.NewHealthMonitor(ha.DefaultHealthConfig(), &ha.PartnerInfo{NodeID: "P", Endpoint: "127.0.0.1:1"}, logger)
		r.ctl = ha.NewFailoverController(cfg, "N", ha.Role(f[1]), 1, r.mon, logger)
		r.ctl.SetRoleChangeCallback(func(role ha.Role) error {
			ok := r.cbOK
			if ok {
				r.emit("cb:" + string(role) + ":ok")
			} else {
				r.emit("cb:" + string(role) + ":fail")
			}
			// a slow callback during which the partner's health changes (1 ms in, so never on a tick instant);
			// what happens is fixed when the callback starts
			act, delay := r.cbAct, r.cbDelay
			spent := time.Duration(0)
			if act == "down" || act == "up" {
				time.Sleep(time.Millisecond)
				spent = time.Millisecond
				want := act == "up"
				if r.mon.IsPartnerHealthy() != want {
					r.emit("health:" + act)
				}
				r.mon.SetPartnerHealthyForVerif(want)
			}
			if delay > spent {
				time.Sleep(delay - spent)
			}
			if !ok {
				r.emit("cbfailed:" + string(role))
			}
			if ok {
				return nil
			}
			return errors.New("refused")
		})
		r.ctl.OnFailoverEvent(func(e ha.FailoverEvent) {
			switch e.Type {
			case ha.FailoverEventCompleted:
				if e.Reason == "partner health check failure" {
					r.emit("completed:auto")
				} else {
					r.emit("completed:forced")
				}
			case ha.FailoverEventRoleChanged:
				r.emit("role:" + string(e.OldRole) + ">" + string(e.NewRole))
			default:
				r.emit(string(e.Type))
			}
		})
		if err := r.ctl.Start(); err != nil {
			return "error start"
		}
		return r.obs()
	}
	if r.ctl == nil {
		return "badop"
	}
	switch f[0] {
	case "down":
		r.mon.SetPartnerHealthyForVerif(false)
		return r.obs()
	case "up":
		r.mon.SetPartnerHealthyForVerif(true)
		return r.obs()
	case "adv":
		if len(f) != 2 {
			return "badop"
		}
		n, _ := strconv.Atoi(f[1])
		time.Sleep(time.Duration(n)*time.Millisecond + r.drift)
		r.drift = 0
		return r.obs()
	case "cb":
		r.cbOK = len(f) > 1 && f[1] == "ok"
		return r.obs()
	case "setpartner":
		// the partner is reconfigured (HealthMonitor.SetPartner): the health state is reset to healthy
		r.mon.SetPartner(&ha.PartnerInfo{NodeID: "P2", Endpoint: "127.0.0.1:2"})
		return r.obs()
	case "cbslow":
		// cbslow <ms> <down|up|none>: from now on the callback takes <ms> and the partner's health changes
		// as soon as it starts
		if len(f) != 3 {
			return "badop"
		}
		n, _ := strconv.Atoi(f[1])
		r.cbDelay, r.cbAct = time.Duration(n)*time.Millisecond, f[2]
		return r.obs()
	case "force-failover":
		err := r.ctl.ForceFailover("operator")
		if err != nil {
			return "err " + r.obs()
		}
		return "ok " + r.obs()
	case "force-failback":
		err := r.ctl.ForceFailback("operator")
		if err != nil {
			return "err " + r.obs()
		}
		return "ok " + r.obs()
	case "raceup":
		// The failover timer reaches its deadline, its callback starts and loses the race for the controller's
		// mutex against a partner_up.  Reproduced deterministically: the clock stops 1 ns short of the deadline
		// (so the real timer is still stoppable and Stop() takes it out), the callback the timer would have run
		// is kept and can be delivered later by `stale`.  The scripted clock reads the deadline.
		if r.ctl.State() != ha.FailoverStatePending || r.drift != 0 {
			return "none"
		}
		fo, _ := r.ctl.DeadlinesForVerif()
		left := time.Until(fo)
		if left > 0 {
			time.Sleep(left - time.Nanosecond)
			r.drift = time.Nanosecond
		} else {
			return "none"
		}
		synctest.Wait()
		r.stale = append(r.stale, r.ctl.StaleFailoverTimerForVerif())
		r.mon.SetPartnerHealthyForVerif(true)
		return r.obs()
	case "racedown":
		// The failback timer reaches its deadline on a control-loop tick instant; its callback starts and loses
		// the race for the mutex against a partner_down and the tick's cancellation (evaluateState).  Same
		// technique as raceup: the clock stops 1 ns short, the callback is kept for `stale-fb`.
		if r.ctl.State() != ha.FailoverStateFailbackPending || r.drift != 0 {
			return "none"
		}
		_, fb := r.ctl.DeadlinesForVerif()
		left := time.Until(fb)
		if left <= 0 || ms(fb.Sub(r.start))%1000 != 0 {
			return "none"
		}
		time.Sleep(left - time.Nanosecond)
		r.drift = time.Nanosecond
		synctest.Wait()
		r.staleFb = append(r.staleFb, r.ctl.StaleFailbackTimerForVerif())
		r.mon.SetPartnerHealthyForVerif(false)
		r.ctl.EvaluateStateForVerif()
		return r.obs()
	case "stale-fb":
		if len(r.staleFb) == 0 {
			return "none"
		}
		h := r.staleFb[0]
		r.staleFb = r.staleFb[1:]
		go h()
		return r.obs()
	case "stale":
		if len(r.stale) == 0 {
			return "none"
		}
		h := r.stale[0]
		r.stale = r.stale[1:]
		go h() // a timer callback runs on its own goroutine
		return r.obs()
	}
	return "badop"
}

// ---------------------------------------------------------------------------------------------
// generator

const (
	D  = 2500
	FB = 3500
	G  = 700
	E  = 100
)

var alphabet = []string{"down", "up",
	fmt.Sprintf("adv %d", D-E), fmt.Sprintf("adv %d", D), fmt.Sprintf("adv %d", D+E), fmt.Sprintf("adv %d", G),
	fmt.Sprintf("adv %d", FB), "adv 1000",
	"force-failover", "force-failback", "cb ok", "cb fail", "raceup", "stale",
	"cbslow 1500 down", "cbslow 1500 up", "cbslow 0 none", "setpartner"}

// alphabet of the configuration whose deadlines fall on the control loop's tick instants (delay 1000,
// failback delay 2000, grace 3000): the failback-timer race needs a tick at the deadline
var alphabetTick = []string{"down", "up", "adv 1000", "adv 2000", "adv 3000", "adv 900", "adv 100",
	"force-failover", "cb ok", "cb fail", "raceup", "stale", "racedown", "stale-fb",
	"cbslow 1000 down", "cbslow 1000 up", "cbslow 0 none", "setpartner"}

var flush = []string{"adv 1000", fmt.Sprintf("adv %d", D+G+FB+3000), "stale", "stale-fb", fmt.Sprintf("adv %d", D+G+FB+3000),
	fmt.Sprintf("adv %d", D+G+FB+3000)}

func newOp(role string, d, fb, g int, fbEnabled bool) string {
	e := 0
	if fbEnabled {
		e = 1
	}
	return fmt.Sprintf("new %s %d %d %d %d", role, d, fb, g, e)
}

func (c comp) Gen(r *rand.Rand, tier string, emit func([]string)) {
	nRand := 1500
	if tier == "thorough" {
		nRand = 20000
	}
	configs := []string{
		newOp("standby", D, FB, G, true),
		newOp("standby", D, FB, G, false),
		newOp("standby", D, FB, 0, true),
		newOp("standby", 1000, 2000, 3000, true), // grace longer than both delays, deadlines on the 1 s tick
		newOp("active", D, FB, G, true),
	}
	for i := 0; i < nRand; i++ {
		seq := []string{configs[r.Intn(len(configs))]}
		switch r.Intn(4) {
		case 0:
			seq[0] = configs[0]
		case 1:
			seq[0] = configs[3]
		}
		n := 3 + r.Intn(22)
		al := alphabet
		if seq[0] == configs[3] {
			al = alphabetTick
		}
		if seq[0] == configs[3] && r.Intn(2) == 0 {
			// start from a failback pending on a tick instant, where the failback-timer race can be scripted
			seq = append(seq, "down", "adv 1000", "adv 3000", "up")
			if r.Intn(2) == 0 {
				seq = append(seq, "racedown", "up")
			}
		} else if seq[0] == configs[0] && r.Intn(3) == 0 {
			seq = append(seq, "down", fmt.Sprintf("adv %d", D), fmt.Sprintf("adv %d", G), "up")
			if r.Intn(2) == 0 {
				// the failback's callback fails next to a healthy partner, then time passes
				seq = append(seq, "cb fail", fmt.Sprintf("adv %d", FB), fmt.Sprintf("adv %d", G),
					fmt.Sprintf("adv %d", 100*(1+r.Intn(80))))
			}
		}
		for j := 0; j < n; j++ {
			if r.Intn(6) == 0 {
				seq = append(seq, fmt.Sprintf("adv %d", 100*(1+r.Intn(40))))
			} else {
				seq = append(seq, al[r.Intn(len(al))])
			}
		}
		emit(append(seq, flush...))
	}
	depth := 5
	if tier == "thorough" {
		depth = 8
	}
	bfs(c, configs[0], alphabet, depth, emit)
	bfs(c, configs[3], alphabetTick, depth-1, emit)
	if tier == "thorough" {
		bfs(c, configs[2], alphabet, 6, emit)
	}
}

// bfs enumerates operation sequences breadth first up to `depth`, extending only prefixes that ended in a
// controller state not seen before.  The fingerprint is what the controller exposes (role, state, health,
// callback mode, stale callbacks outstanding) plus the time left on the armed timers and on the grace sleep;
// counters are left out.  Every extension of every kept prefix is emitted (with the flush tail), so every
// transition out of every distinct state reached within the depth is executed at least once.
func bfs(c comp, cfg string, alphabet []string, depth int, emit func([]string)) {
	seen := map[string]bool{}
	frontier := [][]string{{cfg}}
	for d := 0; d < depth && len(frontier) > 0; d++ {
		var next [][]string
		for _, prefix := range frontier {
			for _, a := range alphabet {
				seq := append(prefix[:len(prefix):len(prefix)], a)
				fp := fingerprint(c, seq)
				emit(append(seq[:len(seq):len(seq)], flush...))
				if !seen[fp] {
					seen[fp] = true
					next = append(next, seq)
				}
			}
		}
		frontier = next
	}
}

func fingerprint(c comp, seq []string) string {
	var fp string
	synctest.Test(c.t, func(*testing.T) {
		r := c.NewRun().(*run)
		defer r.Close()
		var inProgressSince time.Duration = -1
		for _, op := range seq {
			before := r.ctl != nil && r.ctl.State() == ha.FailoverStateInProgress
			f := hx.Fields(op)
			if f[0] == "adv" && r.ctl != nil {
				// step in 100 ms slices to learn when an execution entered its grace sleep
				n, _ := strconv.Atoi(f[1])
				for k := 0; k < n/100; k++ {
					hx.SafeDo(r, "adv 100")
					now := r.ctl.State() == ha.FailoverStateInProgress
					if now && !before {
						inProgressSince = time.Since(r.start) + r.drift
					}
					before = now
				}
				continue
			}
			hx.SafeDo(r, op)
			if r.ctl.State() == ha.FailoverStateInProgress && !before {
				inProgressSince = time.Since(r.start) + r.drift
			}
		}
		now := time.Since(r.start) + r.drift
		fo, fb := r.ctl.DeadlinesForVerif()
		parts := []string{string(r.ctl.CurrentRole()), r.ctl.State().String(),
			strconv.FormatBool(r.mon.IsPartnerHealthy()), strconv.FormatBool(r.cbOK), strconv.Itoa(len(r.stale)),
			strconv.Itoa(len(r.staleFb)), r.cbAct, r.cbDelay.String(), strconv.FormatInt(ms(now)%1000, 10)}
		switch r.ctl.State() {
		case ha.FailoverStatePending:
			parts = append(parts, "fo", strconv.FormatInt(ms(fo.Sub(r.start)-now), 10))
		case ha.FailoverStateFailbackPending:
			parts = append(parts, "fb", strconv.FormatInt(ms(fb.Sub(r.start)-now), 10))
		case ha.FailoverStateInProgress:
			parts = append(parts, "ip", strconv.FormatInt(ms(now-inProgressSince), 10))
		}
		sort.Strings(parts[len(parts):])
		fp = strings.Join(parts, " ")
	})
	return fp
}
