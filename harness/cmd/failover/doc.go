// Package failover is the C14 harness.  It is a TEST package (built with `go test -c -tags verif`) because the
// real FailoverController is driven inside testing/synctest bubbles (virtual time), and Go 1.25 offers
// synctest.Test(t, f) only to code that owns a *testing.T.  TestMain gives the binary the usual harness command
// line:  <bin> gen -seed N -tier quick|thorough   |   <bin> exec < ops
package failover
