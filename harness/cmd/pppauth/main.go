// pppauth drives the real pppoe.Authenticator (pkg/pppoe/auth.go: PAP and CHAP authenticator state machine)
// through its public API (Start, ReceivePacket, SendReauthChallenge, GetState, GetUsername, the completion
// callback and the packet sender), with a real RADIUS server on loopback whose answer is scripted per op and
// which reports what every Access-Request it received carried.
//
//	new pap|chap|other radius|noradius
//	start | reauth | age <seconds> | setid <n>
//	pap  <id> u<k> good|bad|empty        accept|reject|down|challenge|verify
//	chap <id> u<k> match|nomatch|short   accept|reject|down|challenge|verify
//	     => ret=ok|err sent=<packets|-> state=<None|Pending|Success|Failure> user=<u<k>|-> cb=<PAP+|PAP-|CHAP+|CHAP-|-> rad=<requests|->
//
// packets: ACK:<id>:<msg> NAK:<id>:<msg> CHAL:<id>:<len>:fresh|repeat SUCC:<id>:<msg> FAIL:<id>:<msg>
// requests (what the RADIUS server saw): <user>/none | <user>/pap:p|x | <user>/chap:<id>:r|x:c|x
//
//	(p = the password of this op, r = the response value of this op, c = the outstanding challenge value)
//
// RADIUS modes: accept / reject = unconditional answer, down = no answer (the client times out: costs radTimeout, so the
// generator uses it sparingly), challenge = the server answers Access-Challenge, which the client reports as an error at
// once (the cheap way into the "RADIUS error" branch), verify = an honest server: accepts iff the credentials in the
// request verify against its user table (every user's password / CHAP secret is "right").
package main

import (
	"bytes"
	"crypto/md5"
	"encoding/binary"
	"fmt"
	"math/rand"
	"net"
	"strconv"
	"strings"
	"sync"
	"time"

	"bngverif/hx"

	"github.com/codelaboratoryltd/bng/pkg/pppoe"
	bngradius "github.com/codelaboratoryltd/bng/pkg/radius"
	"go.uber.org/zap"
	"layeh.com/radius"
	"layeh.com/radius/rfc2865"
)

type comp struct{}

const secretOfUsers = "right"

// generous: an answer that is merely late on a loaded machine must not look like "no answer"
const radTimeout = 2 * time.Second

// what one Access-Request carried
type radReq struct {
	user     string
	pw       []byte // nil = no User-Password attribute
	chapPw   []byte // nil = no CHAP-Password attribute
	chapChal []byte // nil = no CHAP-Challenge attribute
}

type radSrv struct {
	conn   *net.UDPConn
	mu     sync.Mutex
	mode   string
	secret []byte
	reqs   []radReq
}

func newRadSrv() *radSrv {
	c, err := net.ListenUDP("udp4", &net.UDPAddr{IP: net.IPv4(127, 0, 0, 1)})
	if err != nil {
		panic(err)
	}
	r := &radSrv{conn: c, mode: "accept", secret: []byte("s3cret")}
	go r.loop()
	return r
}

func verifyCreds(q radReq) bool {
	switch {
	case q.pw != nil && q.chapPw == nil:
		return string(q.pw) == secretOfUsers
	case q.chapPw != nil && q.pw == nil:
		if len(q.chapPw) != 17 || q.chapChal == nil {
			return false
		}
		h := md5.New()
		h.Write(q.chapPw[:1])
		h.Write([]byte(secretOfUsers))
		h.Write(q.chapChal)
		return bytes.Equal(h.Sum(nil), q.chapPw[1:])
	}
	return false
}

func (r *radSrv) loop() {
	buf := make([]byte, 4096)
	last := ""
	for {
		n, addr, err := r.conn.ReadFromUDP(buf)
		if err != nil {
			return
		}
		pkt, err := radius.Parse(buf[:n], r.secret)
		if err != nil {
			continue
		}
		// the RADIUS library retransmits the identical datagram every second while it waits: a retransmission is
		// answered again but is not a second request
		retrans := last == string(buf[:n])
		last = string(buf[:n])
		var q radReq
		q.user = rfc2865.UserName_GetString(pkt)
		if v, err := rfc2865.UserPassword_Lookup(pkt); err == nil {
			q.pw = append([]byte{}, v...)
		}
		if v, err := rfc2865.CHAPPassword_Lookup(pkt); err == nil {
			q.chapPw = append([]byte{}, v...)
		}
		if v, err := rfc2865.CHAPChallenge_Lookup(pkt); err == nil {
			q.chapChal = append([]byte{}, v...)
		}
		r.mu.Lock()
		mode := r.mode
		if !retrans {
			r.reqs = append(r.reqs, q)
		}
		r.mu.Unlock()
		var resp *radius.Packet
		switch mode {
		case "accept":
			resp = pkt.Response(radius.CodeAccessAccept)
		case "reject":
			resp = pkt.Response(radius.CodeAccessReject)
		case "challenge":
			resp = pkt.Response(radius.CodeAccessChallenge)
		case "verify":
			if verifyCreds(q) {
				resp = pkt.Response(radius.CodeAccessAccept)
			} else {
				resp = pkt.Response(radius.CodeAccessReject)
			}
		default:
			continue
		}
		b, err := resp.Encode()
		if err == nil {
			r.conn.WriteToUDP(b, addr)
		}
	}
}

type sentPkt struct {
	proto uint16
	data  []byte
}

type run struct {
	a       *pppoe.Authenticator
	rad     *radSrv
	sent    []sentPkt
	cb      []string
	chal    []byte   // value of the last Challenge the authenticator sent
	allChal [][]byte // every challenge value seen so far (freshness)
}

func (comp) NewRun() hx.Run { return &run{} }
func (r *run) Close() {
	if r.rad != nil {
		r.rad.conn.Close()
	}
}

func msgClass(m []byte) string {
	switch string(m) {
	case "Login OK":
		return "ok"
	case "Too many failed attempts":
		return "rl"
	case "RADIUS error":
		return "err"
	case "Authentication failed":
		return "rej"
	case "Empty password":
		return "emptypw"
	case "":
		return "empty"
	}
	return "m?"
}

func (r *run) describe(p sentPkt) string {
	d := p.data
	if len(d) < 4 {
		return "SHORT"
	}
	bad := ""
	if int(binary.BigEndian.Uint16(d[2:4])) != len(d) {
		bad = "!len"
	}
	switch p.proto {
	case pppoe.ProtocolPAP:
		name := map[uint8]string{pppoe.PAPCodeAuthAck: "ACK", pppoe.PAPCodeAuthNak: "NAK"}[d[0]]
		if name == "" || len(d) < 5 || int(d[4]) != len(d)-5 {
			return fmt.Sprintf("PAP?%d:%d%s", d[0], d[1], bad)
		}
		return fmt.Sprintf("%s:%d:%s%s", name, d[1], msgClass(d[5:]), bad)
	case pppoe.ProtocolCHAP:
		switch d[0] {
		case pppoe.CHAPCodeChallenge:
			if len(d) < 5 || 5+int(d[4]) > len(d) {
				return fmt.Sprintf("CHAL?:%d%s", d[1], bad)
			}
			v := append([]byte{}, d[5:5+int(d[4])]...)
			fresh := "fresh"
			for _, o := range r.allChal {
				if bytes.Equal(o, v) {
					fresh = "repeat"
				}
			}
			r.allChal = append(r.allChal, v)
			r.chal = v
			return fmt.Sprintf("CHAL:%d:%d:%s%s", d[1], len(v), fresh, bad)
		case pppoe.CHAPCodeSuccess:
			return fmt.Sprintf("SUCC:%d:%s%s", d[1], msgClass(d[4:]), bad)
		case pppoe.CHAPCodeFailure:
			return fmt.Sprintf("FAIL:%d:%s%s", d[1], msgClass(d[4:]), bad)
		}
		return fmt.Sprintf("CHAP?%d:%d%s", d[0], d[1], bad)
	}
	return fmt.Sprintf("P%04x", p.proto)
}

func j(x []string) string {
	if len(x) == 0 {
		return "-"
	}
	return strings.Join(x, ",")
}

// snapshot renders the observation; pw / resp are the credentials this op sent (nil when none)
func (r *run) snapshot(err error, pw, resp []byte, chalBefore []byte) string {
	var sent []string
	for _, p := range r.sent {
		sent = append(sent, r.describe(p))
	}
	r.sent = nil
	cb := j(r.cb)
	r.cb = nil
	var rq []string
	if r.rad != nil {
		r.rad.mu.Lock()
		for _, q := range r.rad.reqs {
			u := q.user
			if u == "" {
				u = "-"
			}
			var cs []string
			if q.pw != nil {
				if pw != nil && bytes.Equal(q.pw, pw) {
					cs = append(cs, "pap:p")
				} else {
					cs = append(cs, "pap:x")
				}
			}
			if q.chapPw != nil {
				id, rr, cc := "?", "x", "x"
				if len(q.chapPw) >= 1 {
					id = strconv.Itoa(int(q.chapPw[0]))
					if resp != nil && bytes.Equal(q.chapPw[1:], resp) {
						rr = "r"
					}
				}
				if q.chapChal != nil && chalBefore != nil && bytes.Equal(q.chapChal, chalBefore) {
					cc = "c"
				}
				cs = append(cs, fmt.Sprintf("chap:%s:%s:%s", id, rr, cc))
			}
			if len(cs) == 0 {
				cs = []string{"none"}
			}
			rq = append(rq, u+"/"+strings.Join(cs, "+"))
		}
		r.rad.reqs = nil
		r.rad.mu.Unlock()
	}
	ret := "ok"
	if err != nil {
		ret = "err"
	}
	user := r.a.GetUsername()
	if user == "" {
		user = "-"
	}
	return fmt.Sprintf("ret=%s sent=%s state=%s user=%s cb=%s rad=%s", ret, j(sent), r.a.GetState().String(), user, cb, j(rq))
}

func papReq(id uint8, user string, pass []byte) []byte {
	b := []byte{pppoe.PAPCodeAuthRequest, id, 0, 0, byte(len(user))}
	b = append(b, user...)
	b = append(b, byte(len(pass)))
	b = append(b, pass...)
	binary.BigEndian.PutUint16(b[2:4], uint16(len(b)))
	return b
}

func chapResp(id uint8, name string, value []byte) []byte {
	b := []byte{pppoe.CHAPCodeResponse, id, 0, 0, byte(len(value))}
	b = append(b, value...)
	b = append(b, name...)
	binary.BigEndian.PutUint16(b[2:4], uint16(len(b)))
	return b
}

func (r *run) setMode(m string) bool {
	switch m {
	case "accept", "reject", "down", "challenge", "verify":
	default:
		return false
	}
	if r.rad != nil {
		r.rad.mu.Lock()
		r.rad.mode = m
		r.rad.mu.Unlock()
	}
	return true
}

func (r *run) Do(op string) string {
	f := hx.Fields(op)
	if len(f) == 0 {
		return "badop"
	}
	if f[0] == "new" {
		if len(f) != 3 || r.a != nil {
			return "badop"
		}
		cfg := pppoe.DefaultAuthConfig()
		switch f[1] {
		case "pap":
			cfg.Protocol = pppoe.ProtocolPAP
		case "chap":
			cfg.Protocol = pppoe.ProtocolCHAP
		case "other":
			cfg.Protocol = 0
		default:
			return "badop"
		}
		var cl *bngradius.Client
		switch f[2] {
		case "radius":
			r.rad = newRadSrv()
			port := r.rad.conn.LocalAddr().(*net.UDPAddr).Port
			var err error
			cl, err = bngradius.NewClient(bngradius.ClientConfig{
				Servers: []bngradius.ServerConfig{{Host: "127.0.0.1", Port: port, Secret: "s3cret"}},
				NASID:   "verif", Timeout: radTimeout, Retries: 1,
			}, zap.NewNop())
			if err != nil {
				return "error " + err.Error()
			}
		case "noradius":
		default:
			return "badop"
		}
		r.a = pppoe.NewAuthenticator(cfg, cl, func(proto uint16, data []byte) {
			r.sent = append(r.sent, sentPkt{proto, append([]byte{}, data...)})
		}, zap.NewNop())
		r.a.SetOnAuthComplete(func(res *pppoe.AuthResult) {
			s := res.Method
			if res.Success {
				s += "+"
			} else {
				s += "-"
			}
			r.cb = append(r.cb, s)
		})
		return "ok"
	}
	if r.a == nil {
		return "badop"
	}
	chalBefore := r.chal
	switch f[0] {
	case "start":
		if len(f) != 1 {
			return "badop"
		}
		return r.snapshot(r.a.Start(), nil, nil, chalBefore)
	case "reauth":
		if len(f) != 1 {
			return "badop"
		}
		return r.snapshot(r.a.SendReauthChallenge(), nil, nil, chalBefore)
	case "age":
		if len(f) != 2 {
			return "badop"
		}
		n, err := strconv.Atoi(f[1])
		if err != nil || n < 0 {
			return "badop"
		}
		r.a.VerifAgeLastFailure(time.Duration(n) * time.Second)
		return r.snapshot(nil, nil, nil, chalBefore)
	case "setid":
		if len(f) != 2 {
			return "badop"
		}
		n, err := strconv.Atoi(f[1])
		if err != nil || n < 0 || n > 255 {
			return "badop"
		}
		r.a.VerifSetCHAPID(uint8(n))
		return r.snapshot(nil, nil, nil, chalBefore)
	case "pap":
		if len(f) != 5 || !strings.HasPrefix(f[2], "u") {
			return "badop"
		}
		id, err := strconv.Atoi(f[1])
		if err != nil || id < 0 || id > 255 {
			return "badop"
		}
		var pw []byte
		switch f[3] {
		case "good":
			pw = []byte(secretOfUsers)
		case "bad":
			pw = []byte("wrong")
		case "empty":
			pw = []byte{}
		default:
			return "badop"
		}
		if !r.setMode(f[4]) {
			return "badop"
		}
		e := r.a.ReceivePacket(pppoe.ProtocolPAP, papReq(uint8(id), f[2], pw))
		return r.snapshot(e, pw, nil, chalBefore)
	case "chap":
		if len(f) != 5 || !strings.HasPrefix(f[2], "u") {
			return "badop"
		}
		id, err := strconv.Atoi(f[1])
		if err != nil || id < 0 || id > 255 {
			return "badop"
		}
		var val []byte
		switch f[3] {
		case "match":
			h := md5.New()
			h.Write([]byte{uint8(id)})
			h.Write([]byte(secretOfUsers))
			h.Write(r.chal)
			val = h.Sum(nil)
		case "nomatch":
			val = bytes.Repeat([]byte{0xee}, 16)
		case "short":
			val = []byte{}
		default:
			return "badop"
		}
		if !r.setMode(f[4]) {
			return "badop"
		}
		e := r.a.ReceivePacket(pppoe.ProtocolCHAP, chapResp(uint8(id), f[2], val))
		return r.snapshot(e, nil, val, chalBefore)
	}
	return "badop"
}

// ---------------------------------------------------------------- generator

var modesRad = []string{"accept", "accept", "accept", "reject", "reject", "reject", "verify", "verify", "verify", "challenge"}

// real timeouts are expensive: a budget per generator run
var downBudget int

func pickMode(rg *rand.Rand) string {
	if downBudget > 0 && rg.Intn(400) == 0 {
		downBudget--
		return "down"
	}
	return hx.Pick(rg, modesRad)
}

// shadow of the authenticator's CHAP identifier kept by the generator (an approximation: it only steers the
// choice of identifiers towards the interesting ones, the observations never depend on it)
type shadow struct {
	chap      bool
	cur       int
	likelySuc bool
}

func randOp(rg *rand.Rand, useRad bool, sh *shadow) string {
	mode := "accept"
	if useRad {
		mode = pickMode(rg)
	}
	user := hx.Pick(rg, []string{"u1", "u1", "u2"})
	switch x := rg.Intn(100); {
	case x < 12:
		if sh.chap {
			sh.cur = (sh.cur + 1) % 256
		}
		sh.likelySuc = false
		return "start"
	case x < 26:
		if sh.chap && sh.likelySuc {
			sh.cur = (sh.cur + 1) % 256
		}
		return "reauth"
	case x < 46:
		return fmt.Sprintf("pap %d %s %s %s", hx.Pick(rg, []int{1, 7, 0, 255}), user, hx.Pick(rg, []string{"good", "good", "bad", "empty"}), mode)
	case x < 94:
		c := sh.cur
		id := hx.Pick(rg, []int{c, c, c, c, c, (c + 255) % 256, (c + 1) % 256, 0})
		kind := hx.Pick(rg, []string{"match", "match", "match", "nomatch", "short"})
		if id == c && (mode == "accept" || (mode == "verify" && kind == "match")) {
			sh.likelySuc = true
		}
		return fmt.Sprintf("chap %d %s %s %s", id, user, kind, mode)
	default:
		return fmt.Sprintf("age %d", hx.Pick(rg, []int{25, 61}))
	}
}

// sequences that drive the failure counter over the rate limit (needs a RADIUS that rejects)
func rateLimitSeq(rg *rand.Rand) []string {
	proto := hx.Pick(rg, []string{"pap", "chap"})
	seq := []string{"new " + proto + " radius", "start"}
	chapID := 1
	fail := func() string {
		if proto == "pap" {
			return fmt.Sprintf("pap %d u1 %s reject", 1+rg.Intn(3), hx.Pick(rg, []string{"good", "bad"}))
		}
		return fmt.Sprintf("chap %d u1 %s reject", chapID, hx.Pick(rg, []string{"match", "nomatch"}))
	}
	try := func() string {
		if proto == "pap" {
			return fmt.Sprintf("pap 9 u1 good %s", hx.Pick(rg, []string{"accept", "verify"}))
		}
		return fmt.Sprintf("chap %d u1 match %s", chapID, hx.Pick(rg, []string{"accept", "verify"}))
	}
	n := 3 + rg.Intn(5)
	for i := 0; i < n; i++ {
		seq = append(seq, fail())
		if proto == "chap" && rg.Intn(2) == 0 {
			seq = append(seq, "start")
			chapID++
		}
		if rg.Intn(6) == 0 {
			seq = append(seq, fmt.Sprintf("age %d", hx.Pick(rg, []int{25, 61})))
		}
	}
	for i := 0; i < 3; i++ {
		if proto == "chap" && rg.Intn(2) == 0 {
			seq = append(seq, "start")
			chapID++
		}
		seq = append(seq, try())
		if rg.Intn(2) == 0 {
			seq = append(seq, fmt.Sprintf("age %d", hx.Pick(rg, []int{25, 61})))
		}
	}
	return seq
}

func (comp) Gen(rg *rand.Rand, tier string, emit func([]string)) {
	n, nrl, depth := 2500, 150, 3
	downBudget = 4
	if tier == "thorough" {
		n, nrl, depth = 40000, 1500, 4
		downBudget = 60
	}
	exhaustive(emit, depth)
	for i := 0; i < nrl; i++ {
		emit(rateLimitSeq(rg))
	}
	for i := 0; i < n; i++ {
		useRad := rg.Intn(5) < 2
		proto := hx.Pick(rg, []string{"pap", "pap", "chap", "chap", "chap", "other"})
		rad := "noradius"
		if useRad {
			rad = "radius"
		}
		sh := &shadow{chap: proto == "chap"}
		seq := []string{"new " + proto + " " + rad}
		if rg.Intn(10) == 0 {
			// identifier wrap-around: only directly after construction (no challenge is outstanding yet)
			sh.cur = hx.Pick(rg, []int{253, 254, 255})
			seq = append(seq, fmt.Sprintf("setid %d", sh.cur))
		}
		ln := 2 + rg.Intn(11)
		for k := 0; k < ln; k++ {
			seq = append(seq, randOp(rg, useRad, sh))
		}
		emit(seq)
	}
}

// exhaustive: every sequence of exactly `depth` operations over a reduced alphabet, for every protocol
// and with/without RADIUS (shorter sequences are prefixes of these)
func exhaustive(emit func([]string), depth int) {
	for _, proto := range []string{"pap", "chap", "other"} {
		for _, rad := range []string{"noradius", "radius"} {
			alpha := []string{"start", "reauth",
				"pap 1 u1 good accept",
				"chap 0 u1 match accept", "chap 1 u1 match accept", "chap 1 u1 nomatch accept", "chap 2 u1 match accept"}
			if rad == "radius" {
				alpha = append(alpha,
					"pap 1 u1 good reject", "pap 1 u1 bad verify", "pap 1 u1 good challenge",
					"chap 1 u1 match reject", "chap 1 u1 match verify", "chap 1 u1 nomatch verify", "chap 0 u1 match verify")
			}
			var rec func(prefix []string, d int)
			rec = func(prefix []string, d int) {
				if d == 0 {
					emit(append([]string{"new " + proto + " " + rad}, prefix...))
					return
				}
				for _, a := range alpha {
					rec(append(prefix[:len(prefix):len(prefix)], a), d-1)
				}
			}
			rec(nil, depth)
		}
	}
}

func main() { hx.Main(comp{}) }
