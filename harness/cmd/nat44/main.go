// nat44 drives the natively compiled, UNMODIFIED /repo/bpf/nat44.c (cshim runner runprog-nat44, ASan/UBSan,
// frame flush against a guard page) through its three entry points nat44_egress, nat44_ingress (TC) and
// nat44_hairpin_xdp (XDP).  Property C07 (nat44 part): the programs stay inside the packet, return a defined
// verdict and pass traffic they are not specified to act on unmodified.
//
// Ops (passed verbatim to the runner, see /verif/cshim/README.md):
//
//	clock <ns>                              => ok
//	put <map> <hexkey> <hexvalue>           => ok           raw bytes per the struct declarations of nat44.c
//	del <map> <hexkey>                      => ok | err ENOENT
//	run tc nat44_egress|nat44_ingress <hexframe|->   => <verdict> same|<hexframe-after>[ ev=N] | FAULT …
//	run xdp nat44_hairpin_xdp <hexframe|->           => …
package main

import (
	"encoding/binary"
	"encoding/hex"
	"fmt"
	"math/rand"
	"os"

	"bngverif/hx"
)

type comp struct{}

var runner *hx.CRunner

type run struct{}

func (comp) NewRun() hx.Run {
	if runner == nil {
		r, err := hx.StartCRunner("nat44")
		if err != nil {
			fmt.Fprintln(os.Stderr, "nat44 harness:", err)
			os.Exit(3)
		}
		runner = r
	}
	runner.Reset()
	return run{}
}

func (run) Do(op string) string { return runner.Do(op) }
func (run) Close()              {}

// ---------------------------------------------------------------------------------------------- frames

type ip4 [4]byte

type spec struct {
	vlan    int    // number of 802.1Q/ad tags in front of the ethertype
	etype   uint16 // final ethertype
	ver     byte   // IP version nibble
	ihl     int    // 0..15
	proto   byte
	frag    uint16 // flags+fragment offset field
	src     ip4
	dst     ip4
	sport   uint16
	dport   uint16
	l4csum  uint16 // TCP/UDP/ICMP checksum field as transmitted
	tcpFl   byte
	payload int
	ipcsum  int // -1 = compute, otherwise the value
}

func be16(v uint16) []byte { return []byte{byte(v >> 8), byte(v)} }

func ipChecksum(h []byte) uint16 {
	var s uint32
	for i := 0; i+1 < len(h); i += 2 {
		s += uint32(h[i])<<8 | uint32(h[i+1])
	}
	for s>>16 != 0 {
		s = s&0xffff + s>>16
	}
	return ^uint16(s)
}

func (s spec) bytes(r *rand.Rand) []byte {
	var f []byte
	f = append(f, 0x02, 0, 0, 0, 0, 0x01, 0x02, 0, 0, 0, 0, 0x02)
	for i := 0; i < s.vlan; i++ {
		tpid := uint16(0x8100)
		if s.vlan == 2 && i == 0 {
			tpid = 0x88a8
		}
		f = append(f, be16(tpid)...)
		f = append(f, be16(uint16(100+i))...)
	}
	f = append(f, be16(s.etype)...)
	opt := 0
	if s.ihl > 5 {
		opt = (s.ihl - 5) * 4
	}
	l4 := l4hdr(s, r)
	tot := 20 + opt + len(l4) + s.payload
	iph := []byte{s.ver<<4 | byte(s.ihl&15), 0, byte(tot >> 8), byte(tot), 0x12, 0x34, byte(s.frag >> 8), byte(s.frag), 64, s.proto, 0, 0}
	iph = append(iph, s.src[:]...)
	iph = append(iph, s.dst[:]...)
	for i := 0; i < opt; i++ {
		iph = append(iph, byte(1)) // NOP options
	}
	c := ipChecksum(iph)
	if s.ipcsum >= 0 {
		c = uint16(s.ipcsum)
	}
	iph[10], iph[11] = byte(c>>8), byte(c)
	f = append(f, iph...)
	f = append(f, l4...)
	for i := 0; i < s.payload; i++ {
		f = append(f, byte(r.Intn(256)))
	}
	return f
}

func l4hdr(s spec, r *rand.Rand) []byte {
	switch s.proto {
	case 6:
		h := append(be16(s.sport), be16(s.dport)...)
		h = append(h, 0, 0, 0, 1, 0, 0, 0, 2, 0x50, s.tcpFl, 0xff, 0xff)
		h = append(h, be16(s.l4csum)...)
		return append(h, 0, 0)
	case 17:
		h := append(be16(s.sport), be16(s.dport)...)
		h = append(h, be16(uint16(8+s.payload))...)
		return append(h, be16(s.l4csum)...)
	case 1:
		h := []byte{8, 0}
		h = append(h, be16(s.l4csum)...)
		h = append(h, be16(s.sport)...) // echo id
		return append(h, 0, 7)
	default:
		h := make([]byte, 8)
		for i := range h {
			h[i] = byte(r.Intn(256))
		}
		return h
	}
}

func hx16(b []byte) string {
	if len(b) == 0 {
		return "-"
	}
	return hex.EncodeToString(b)
}

// ---------------------------------------------------------------------------------------------- map images

func le16(v uint16) []byte { return []byte{byte(v), byte(v >> 8)} }
func le32(v uint32) []byte { b := make([]byte, 4); binary.LittleEndian.PutUint32(b, v); return b }
func le64(v uint64) []byte { b := make([]byte, 8); binary.LittleEndian.PutUint64(b, v); return b }

// struct nat_key: addresses and ports exactly as they stand in the packet (network byte order)
func natKey(src, dst ip4, sport, dport uint16, proto byte, pad [3]byte) []byte {
	k := append([]byte{}, src[:]...)
	k = append(k, dst[:]...)
	k = append(k, be16(sport)...)
	k = append(k, be16(dport)...)
	k = append(k, proto, pad[0], pad[1], pad[2])
	return k
}

// struct nat_session (80 bytes)
func natSession(natIP ip4, natPort, origPort uint16, origIP, dest ip4, destPort uint16, state, proto byte) []byte {
	v := append([]byte{}, natIP[:]...)
	v = append(v, be16(natPort)...)
	v = append(v, be16(origPort)...)
	v = append(v, origIP[:]...)
	v = append(v, dest[:]...)
	v = append(v, be16(destPort)...)
	v = append(v, 0, 0, 0, 0, 0, 0) // _pad1 + alignment
	v = append(v, le64(5)...)       // last_seen
	v = append(v, le64(1)...)       // created
	v = append(v, le64(1)...)       // packets_out
	v = append(v, le64(0)...)       // packets_in
	v = append(v, le64(60)...)      // bytes_out
	v = append(v, le64(0)...)       // bytes_in
	v = append(v, state, proto, 0, 0, 0, 0, 0, 0)
	return v
}

// struct subscriber_nat (64 bytes): the port block followed by four counters
func subNat(public ip4, start, end uint16, next uint32) []byte {
	v := append([]byte{}, public[:]...)
	v = append(v, le16(start)...)
	v = append(v, le16(end)...)
	v = append(v, le32(next)...)
	v = append(v, le32(0)...)
	v = append(v, le64(0)...)
	v = append(v, le32(7)...)
	v = append(v, 6, 0, 0, 0)
	v = append(v, make([]byte, 32)...)
	return v
}

// struct eim_key / struct eim_mapping
func eimKey(ip ip4, portField []byte, proto, pad byte) []byte {
	k := append([]byte{}, ip[:]...)
	k = append(k, portField...)
	return append(k, proto, pad)
}
func eimVal(ext ip4, port uint16) []byte {
	v := append([]byte{}, ext[:]...)
	v = append(v, le16(port)...)
	v = append(v, 0, 0)
	v = append(v, le64(1)...)
	v = append(v, le64(1)...)
	v = append(v, le32(1)...)
	return append(v, le32(0)...)
}

func cfgVal(flags uint32) []byte {
	v := le32(flags)
	v = append(v, le16(1024)...)
	v = append(v, le16(65535)...)
	v = append(v, le32(1024)...)
	return append(v, le32(0)...)
}

func put(m string, k, v []byte) string {
	return "put " + m + " " + hex.EncodeToString(k) + " " + hex.EncodeToString(v)
}
func del(m string, k []byte) string { return "del " + m + " " + hex.EncodeToString(k) }
func putCfg(flags uint32) string   { return put("nat_config_map", le32(0), cfgVal(flags)) }
func putAlg(port uint16, proto byte) string {
	return put("alg_ports", le32(uint32(port)<<16|uint32(proto)), []byte{byte(port), byte(port >> 8), proto, 1, 0, 0, 0, 0})
}
func putHairpin(a ip4) string { return put("hairpin_ips", a[:], []byte{1}) }

func runOp(entry string, f []byte) string {
	kind := "tc"
	if entry == "nat44_hairpin_xdp" {
		kind = "xdp"
	}
	return "run " + kind + " " + entry + " " + hx16(f)
}

// ---------------------------------------------------------------------------------------------- universe

var (
	privs   = []ip4{{10, 0, 0, 1}, {10, 0, 0, 2}, {192, 168, 1, 9}, {172, 16, 5, 5}, {100, 64, 0, 7}}
	publics = []ip4{{8, 8, 8, 8}, {1, 1, 1, 1}}
	edges   = []ip4{{172, 32, 0, 1}, {172, 15, 0, 1}, {100, 128, 0, 1}, {100, 63, 255, 1}, {192, 169, 0, 1}, {11, 0, 0, 1}, {9, 255, 255, 255}, {172, 31, 255, 255}, {100, 127, 0, 1}}
	natIP   = ip4{203, 0, 113, 1}
	protos  = []byte{6, 17, 1, 47}
)

const blockStart = 2000

func baseSpec(ihl int, proto byte, frag uint16) spec {
	return spec{etype: 0x0800, ver: 4, ihl: ihl, proto: proto, frag: frag, src: privs[0], dst: publics[0],
		sport: 1234, dport: 53, l4csum: 0xbeef, tcpFl: 0x10, payload: 8, ipcsum: -1}
}

// the reply a remote host would send to the translated flow (to natIP:natPort)
func replySpec(s spec, natPort uint16) spec {
	r := s
	r.src, r.dst = s.dst, natIP
	if s.proto == 1 {
		r.sport = natPort // echo id
	} else {
		r.sport, r.dport = s.dport, natPort
	}
	return r
}

// map state in which nat44_ingress finds a flow for replySpec(s, natPort)
func flowPuts(s spec, natPort uint16) []string {
	var dport uint16 = s.dport
	if s.proto == 1 {
		dport = 0
	}
	key := natKey(s.src, s.dst, s.sport, dport, s.proto, [3]byte{})
	rev := natKey(s.dst, natIP, dport, natPort, s.proto, [3]byte{})
	return []string{
		put("nat_sessions", key, natSession(natIP, natPort, s.sport, s.src, s.dst, dport, 0, s.proto)),
		put("nat_reverse", rev, key),
	}
}

func sweep(entry string, f []byte, from, to, step int) []string {
	var ops []string
	if to > len(f) {
		to = len(f)
	}
	for l := from; l <= to; l += step {
		ops = append(ops, runOp(entry, f[:l]))
	}
	return ops
}

// ---------------------------------------------------------------------------------------------- generator

func (comp) Gen(r *rand.Rand, tier string, emit func([]string)) {
	thorough := tier == "thorough"

	// 1. structured shapes, truncation at every offset, against the map states empty / allocation / flow
	frags := []uint16{0}
	for ihl := 0; ihl <= 15; ihl++ {
		for _, proto := range protos {
			fr := frags
			if thorough || ihl == 5 || ihl == 6 || ihl == 15 || ihl == 3 {
				fr = []uint16{0, 0x2000, 0x00b9, 0x4000}
			}
			for _, frag := range fr {
				s := baseSpec(ihl, proto, frag)
				if r.Intn(3) == 0 {
					s.l4csum = 0
				}
				s.src = hx.Pick(r, privs)
				f := s.bytes(r)
				// quick tier: malformed headers (ihl < 5) and non-NAT protocols get the two main sweeps only
				full := thorough || (frag == 0 && ihl >= 5 && proto != 47)
				// egress: no allocation → everything passes untouched
				if full {
					emit(sweep("nat44_egress", f, 0, len(f), 1))
				}
				// egress: allocation present, session is created at the first sufficient length and reused after
				emit(append([]string{put("subscriber_nat", s.src[:], subNat(natIP, blockStart, blockStart+63, blockStart))},
					sweep("nat44_egress", f, 0, len(f), 1)...))
				// egress: existing session
				if full {
					ops := []string{put("subscriber_nat", s.src[:], subNat(natIP, blockStart, blockStart+63, blockStart))}
					ops = append(ops, flowPuts(s, 2042)...)
					emit(append(ops, sweep("nat44_egress", f, 0, len(f), 1)...))
				}
				// ingress: flow present for the reply
				rs := replySpec(s, 2042)
				rf := rs.bytes(r)
				emit(append(flowPuts(s, 2042), sweep("nat44_ingress", rf, 0, len(rf), 1)...))
				// ingress: no flow
				if full {
					emit(sweep("nat44_ingress", rf, 0, len(rf), 1))
				}
				// xdp: hairpin enabled, destination is a NAT address
				if full || (frag == 0 && proto == 6) {
					hs := s
					hs.dst = natIP
					hf := hs.bytes(r)
					emit(append([]string{putCfg(0x04), putHairpin(natIP)}, sweep("nat44_hairpin_xdp", hf, 0, len(hf), 1)...))
				}
			}
		}
	}

	// 2. VLAN / QinQ / non-IP ethertypes / IP version nibble: never acted on
	for vlan := 0; vlan <= 2; vlan++ {
		for _, et := range []uint16{0x0800, 0x86dd, 0x0806, 0x8864, 0x0008} {
			for _, proto := range []byte{6, 17, 1} {
				s := baseSpec(5, proto, 0)
				s.vlan, s.etype = vlan, et
				if r.Intn(2) == 0 {
					s.ver = 6
				}
				f := s.bytes(r)
				ops := []string{putCfg(0x04), putHairpin(s.dst), put("subscriber_nat", s.src[:], subNat(natIP, blockStart, blockStart+63, blockStart))}
				ops = append(ops, flowPuts(s, 2042)...)
				for _, e := range []string{"nat44_egress", "nat44_ingress", "nat44_hairpin_xdp"} {
					ops = append(ops, sweep(e, f, 0, len(f), 1)...)
				}
				emit(ops)
			}
		}
	}

	// 3. every length 0…1600 (structured with a long payload, and random bytes behind a valid prefix)
	step := 1
	for i, proto := range []byte{6, 17, 1} {
		s := baseSpec(5+i*5, proto, 0)
		s.payload = 1600 - (14 + 20 + (s.ihl-5)*4 + 8)
		if proto == 6 {
			s.payload -= 12
		}
		f := s.bytes(r)
		if thorough || i != 1 {
			emit(append([]string{put("subscriber_nat", s.src[:], subNat(natIP, blockStart, blockStart+63, blockStart))},
				sweep("nat44_egress", f, 0, 1600, step)...))
		}
		rf := replySpec(s, 2042).bytes(r)
		if thorough || i == 1 {
			emit(append(flowPuts(s, 2042), sweep("nat44_ingress", rf, 0, 1600, step)...))
		}
		if thorough || i == 0 {
			hs := s
			hs.dst = natIP
			hf := hs.bytes(r)
			emit(append([]string{putCfg(0x04), putHairpin(natIP)}, sweep("nat44_hairpin_xdp", hf, 0, 1600, step)...))
		}
	}
	{
		rnd := make([]byte, 1600)
		r.Read(rnd)
		for i, e := range []string{"nat44_egress", "nat44_ingress", "nat44_hairpin_xdp"} {
			if thorough || i == int(rnd[0])%3 {
				emit(append([]string{putCfg(0x04)}, sweep(e, rnd, 0, 1600, step)...))
			}
		}
	}

	// 4. random bytes, and random bytes behind a plausible Ethernet/IPv4 prefix, against populated maps
	nrand := 1500
	if thorough {
		nrand = 12000
	}
	for i := 0; i < nrand/50; i++ {
		ops := []string{putCfg(uint32(r.Intn(64)))}
		for _, p := range privs {
			ops = append(ops, put("subscriber_nat", p[:], subNat(natIP, blockStart, blockStart+uint16(r.Intn(4)), blockStart)))
		}
		for j := 0; j < 50; j++ {
			n := r.Intn(120)
			if r.Intn(10) == 0 {
				n = r.Intn(1601)
			}
			f := make([]byte, n)
			r.Read(f)
			if r.Intn(4) != 0 && n >= 14 {
				f[12], f[13] = 0x08, 0x00
				if n > 14 && r.Intn(2) == 0 {
					f[14] = 0x40 | byte(r.Intn(16))
				}
				if n > 23 && r.Intn(3) != 0 {
					f[23] = hx.Pick(r, protos)
				}
				if n >= 30 && r.Intn(3) != 0 {
					pa := hx.Pick(r, privs)
					copy(f[26:30], pa[:])
				}
			}
			ops = append(ops, runOp(hx.Pick(r, []string{"nat44_egress", "nat44_ingress", "nat44_hairpin_xdp"}), f))
		}
		emit(ops)
	}

	// 5. byte mutations of frames that hit a flow / an allocation
	for _, proto := range []byte{6, 17, 1} {
		for _, ihl := range []int{5, 7} {
			s := baseSpec(ihl, proto, 0)
			f := s.bytes(r)
			rf := replySpec(s, 2042).bytes(r)
			hd := 14 + ihl*4 + 20
			if hd > len(f) {
				hd = len(f)
			}
			ops := []string{putCfg(0x04), putHairpin(natIP), put("subscriber_nat", s.src[:], subNat(natIP, blockStart, blockStart+63, blockStart))}
			ops = append(ops, flowPuts(s, 2042)...)
			for pos := 0; pos < hd; pos++ {
				muts := []byte{f[pos] ^ (1 << uint(r.Intn(8))), byte(r.Intn(256))}
				if thorough {
					muts = append(muts, f[pos]^0xff, 0, 0xff, f[pos]+1, f[pos]-1)
				}
				for _, mv := range muts {
					g := append([]byte{}, f...)
					g[pos] = mv
					ops = append(ops, runOp("nat44_egress", g))
					g2 := append([]byte{}, rf...)
					g2[pos] = mv
					ops = append(ops, runOp("nat44_ingress", g2))
					if pos < 34 {
						ops = append(ops, runOp("nat44_hairpin_xdp", g))
					}
				}
			}
			emit(ops)
		}
	}

	// 6. private-range edges of is_private_ip, with an allocation for every address
	for _, a := range append(append([]ip4{}, edges...), privs...) {
		for _, proto := range []byte{6, 17, 1} {
			s := baseSpec(5, proto, 0)
			s.src = a
			s.dst = natIP
			f := s.bytes(r)
			emit([]string{putCfg(0x04), putHairpin(natIP), put("subscriber_nat", a[:], subNat(natIP, blockStart, blockStart+3, blockStart)),
				runOp("nat44_egress", f), runOp("nat44_hairpin_xdp", f), runOp("nat44_egress", f)})
		}
	}

	// 7. crafted map-logic scenarios
	crafted(r, emit)

	// 8. random scenarios over a small universe: the map state evolves through the programs' own updates
	nscen := 250
	if thorough {
		nscen = 2500
	}
	for i := 0; i < nscen; i++ {
		emit(scenario(r, 40))
	}
}

// folded ones-complement helpers (to craft a UDP checksum that becomes 0 after the rewrite)
func fold(c uint32) uint16 {
	c = c&0xffff + c>>16
	c = c&0xffff + c>>16
	return ^uint16(c)
}
func csum32(cur uint16, o, n uint32) uint16 {
	s := ^uint32(cur) & 0xffff
	s += ^o & 0xffff
	s += ^(o >> 16) & 0xffff
	s += n & 0xffff
	s += n >> 16
	return fold(s)
}
func csum16(cur, o, n uint16) uint16 {
	s := ^uint32(cur) & 0xffff
	s += ^uint32(o) & 0xffff
	s += uint32(n) & 0xffff
	return fold(s)
}

func crafted(r *rand.Rand, emit func([]string)) {
	sub := func(s spec, start, end uint16, next uint32) string {
		return put("subscriber_nat", s.src[:], subNat(natIP, start, end, next))
	}
	for _, proto := range []byte{6, 17, 1} {
		s := baseSpec(5, proto, 0)
		f := s.bytes(r)
		// new session, same packet again (existing session), reply, reply after the session was deleted
		// (stale reverse entry is removed), reply again (no reverse entry any more)
		key := natKey(s.src, s.dst, s.sport, map[bool]uint16{true: 0, false: s.dport}[proto == 1], proto, [3]byte{})
		rf := replySpec(s, blockStart).bytes(r)
		emit([]string{"clock 1000", sub(s, blockStart, blockStart+63, blockStart), runOp("nat44_egress", f), "clock 2000", runOp("nat44_egress", f),
			runOp("nat44_ingress", rf), del("nat_sessions", key), runOp("nat44_ingress", rf), runOp("nat44_ingress", rf), del("nat_sessions", key),
			// the session comes back: the reverse entry was deleted by the program, so the reply still passes untouched
			put("nat_sessions", key, natSession(natIP, blockStart, s.sport, s.src, s.dst, map[bool]uint16{true: 0, false: s.dport}[proto == 1], 0, proto)),
			runOp("nat44_ingress", rf)})
		// the port search gives up after exactly 64 candidates: 63 taken → the 64th is used; 64 taken → TC_ACT_SHOT
		for _, taken := range []int{63, 64} {
			ops := []string{sub(s, blockStart, blockStart+99, blockStart)}
			for i := 0; i < taken; i++ {
				ops = append(ops, put("eim_table", eimKey(s.src, le16(blockStart+uint16(i)), proto, 0), eimVal(natIP, blockStart+uint16(i))))
			}
			emit(append(ops, runOp("nat44_egress", f), runOp("nat44_egress", baseSpecWith(s, 1235).bytes(r))))
		}
		// an IP checksum for which csum_fold needs its second folding step
		{
			oldIP := binary.LittleEndian.Uint32(s.src[:])
			newIP := binary.LittleEndian.Uint32(natIP[:])
			for c := 0; c < 65536; c++ {
				sum := ^uint32(c)&0xffff + ^oldIP&0xffff + ^(oldIP>>16)&0xffff + newIP&0xffff + newIP>>16
				if sum&0xffff+sum>>16 > 0xffff {
					z := s
					z.ipcsum = int(uint16(c)>>8 | uint16(c)<<8)
					emit([]string{sub(s, blockStart, blockStart+63, blockStart), runOp("nat44_egress", z.bytes(r))})
					break
				}
			}
		}
		// port exhaustion: one-port block of the wrong parity with parity preservation on → TC_ACT_SHOT
		emit([]string{putCfg(0x20), sub(s, 2001, 2001, 2001), runOp("nat44_egress", f), putCfg(0), runOp("nat44_egress", f)})
		// port exhaustion through EIM collisions: every port of a 2-port block is taken
		emit([]string{sub(s, 2000, 2001, 2000),
			put("eim_table", eimKey(s.src, le16(2000), proto, 0), eimVal(natIP, 2000)),
			put("eim_table", eimKey(s.src, le16(2001), proto, 0), eimVal(natIP, 2001)),
			runOp("nat44_egress", f),
			del("eim_table", eimKey(s.src, le16(2001), proto, 0)), runOp("nat44_egress", f),
			// near miss: pad byte set, other protocol → do not collide
			put("eim_table", eimKey(s.src, le16(2000), proto, 1), eimVal(natIP, 2000)),
			put("eim_table", eimKey(s.src, le16(2000), proto^1, 0), eimVal(natIP, 2000))})
		// cursor outside the block / wrap of the 16-bit truncation / port_start 0
		for _, nx := range []uint32{0, 1999, 2064, 65535, 65536, 65536 + 2005, 0xffffffff} {
			emit([]string{sub(s, blockStart, blockStart+3, nx), runOp("nat44_egress", f),
				runOp("nat44_egress", baseSpecWith(s, 1235).bytes(r)), runOp("nat44_egress", baseSpecWith(s, 1236).bytes(r))})
		}
		emit([]string{sub(s, 0, 3, 0), runOp("nat44_egress", f), runOp("nat44_egress", baseSpecWith(s, 1235).bytes(r))})
		emit([]string{sub(s, 10, 3, 5), runOp("nat44_egress", f), runOp("nat44_egress", baseSpecWith(s, 1235).bytes(r))})
		// EIM on: mapping created, reused by a second flow from the same internal endpoint to another destination
		s2 := s
		s2.dst = publics[1]
		emit([]string{putCfg(0x01), sub(s, blockStart, blockStart+63, blockStart), runOp("nat44_egress", f), runOp("nat44_egress", s2.bytes(r)),
			runOp("nat44_egress", f)})
		// EIM on, pre-existing mapping (external port in host order)
		sportField := be16(s.sport)
		emit([]string{putCfg(0x01), sub(s, blockStart, blockStart+63, blockStart),
			put("eim_table", eimKey(s.src, sportField, proto, 0), eimVal(ip4{198, 51, 100, 9}, 4242)), runOp("nat44_egress", f)})
		// EIM on with parity: get_eim_mapping passes the network-order port as parity reference
		emit([]string{putCfg(0x21), sub(s, blockStart, blockStart+63, blockStart), runOp("nat44_egress", f),
			runOp("nat44_egress", baseSpecWith(s, 1235).bytes(r))})
		// EIM on, exhausted inside get_eim_mapping, then the fallback allocation runs another 64 steps
		emit([]string{putCfg(0x21), sub(s, 2001, 2001, 2001), runOp("nat44_egress", f), runOp("nat44_egress", baseSpecWith(s, 1235).bytes(r))})
		// ALG triggers
		if proto != 1 {
			a := s
			a.dport = 21
			b := s
			b.dport = 5060
			for _, fl := range []uint32{0, 0x08, 0x10, 0x18} {
				emit([]string{putCfg(fl), putAlg(21, 6), putAlg(5060, 17), putAlg(5060, 6), sub(s, blockStart, blockStart+63, blockStart),
					runOp("nat44_egress", a.bytes(r)), runOp("nat44_egress", b.bytes(r))})
			}
		}
		// hairpin flag: destination is one of the NAT addresses
		h := s
		h.dst = natIP
		emit([]string{putCfg(0x04), putHairpin(natIP), sub(s, blockStart, blockStart+63, blockStart), runOp("nat44_hairpin_xdp", h.bytes(r)),
			runOp("nat44_egress", h.bytes(r)), putCfg(0), runOp("nat44_hairpin_xdp", h.bytes(r))})
		// near-miss sessions: one field of the key differs (port, address, protocol, padding byte)
		near := [][]byte{
			natKey(s.src, s.dst, s.sport+1, s.dport, proto, [3]byte{}),
			natKey(s.src, s.dst, s.sport, s.dport+1, proto, [3]byte{}),
			natKey(s.src, publics[1], s.sport, s.dport, proto, [3]byte{}),
			natKey(s.src, s.dst, s.sport, s.dport, proto^0x10, [3]byte{}),
			natKey(s.src, s.dst, s.sport, s.dport, proto, [3]byte{0, 0, 1}),
			natKey(s.src, s.dst, s.sport, s.dport, proto, [3]byte{1, 0, 0}),
		}
		ops := []string{sub(s, blockStart, blockStart+63, blockStart)}
		for _, k := range near {
			ops = append(ops, put("nat_sessions", k, natSession(ip4{198, 51, 100, 1}, 999, s.sport, s.src, s.dst, s.dport, 0, proto)))
		}
		ops = append(ops, runOp("nat44_egress", f))
		emit(ops)
		// near-miss reverse entries and a reverse entry whose value carries padding (session lookup uses the value verbatim)
		var dport uint16 = s.dport
		if proto == 1 {
			dport = 0
		}
		okKey := natKey(s.src, s.dst, s.sport, dport, proto, [3]byte{})
		padKey := natKey(s.src, s.dst, s.sport, dport, proto, [3]byte{9, 9, 9})
		rev := natKey(s.dst, natIP, dport, 2042, proto, [3]byte{})
		revPad := natKey(s.dst, natIP, dport, 2042, proto, [3]byte{0, 1, 0})
		rf2 := replySpec(s, 2042).bytes(r)
		sess := natSession(natIP, 2042, s.sport, s.src, s.dst, dport, 0, proto)
		emit([]string{put("nat_sessions", okKey, sess), put("nat_reverse", revPad, okKey), runOp("nat44_ingress", rf2)})
		emit([]string{put("nat_sessions", okKey, sess), put("nat_reverse", rev, padKey), runOp("nat44_ingress", rf2), runOp("nat44_ingress", rf2)})
		emit([]string{put("nat_sessions", padKey, sess), put("nat_reverse", rev, padKey), runOp("nat44_ingress", rf2)})
		// TCP flags on the reply (state tracking reads the flag byte)
		if proto == 6 {
			for _, fl := range []byte{0x01, 0x04, 0x10, 0x12, 0x00, 0xff} {
				rs := replySpec(s, 2042)
				rs.tcpFl = fl
				emit(append(flowPuts(s, 2042), runOp("nat44_ingress", rs.bytes(r)), runOp("nat44_ingress", rs.bytes(r))))
			}
		}
		// UDP checksum 0 (none) stays 0; a checksum that becomes 0 is sent as 0xffff
		if proto == 17 {
			z := s
			z.l4csum = 0
			emit([]string{sub(s, blockStart, blockStart+63, blockStart), runOp("nat44_egress", z.bytes(r))})
			oldIP := binary.LittleEndian.Uint32(s.src[:])
			newIP := binary.LittleEndian.Uint32(natIP[:])
			oldP := binary.LittleEndian.Uint16(be16(s.sport))
			newP := binary.LittleEndian.Uint16(be16(blockStart))
			for c := 1; c < 65536; c++ {
				if csum16(csum32(uint16(c), oldIP, newIP), oldP, newP) == 0 {
					z.l4csum = uint16(c)>>8 | uint16(c)<<8
					emit([]string{sub(s, blockStart, blockStart+63, blockStart), runOp("nat44_egress", z.bytes(r))})
					break
				}
			}
		}
	}
}

func baseSpecWith(s spec, sport uint16) spec {
	s.sport = sport
	return s
}

// one random scenario: puts, deletes and runs over a tiny universe
func scenario(r *rand.Rand, n int) []string {
	srcs := []ip4{privs[0], privs[1], privs[2], {9, 9, 9, 9}}
	dsts := []ip4{publics[0], natIP}
	sports := []uint16{1000, 1001}
	dports := []uint16{53, 21, 5060}
	pick := func() spec {
		s := baseSpec(hx.Pick(r, []int{5, 5, 5, 6, 15, 4, 0}), hx.Pick(r, protos), hx.Pick(r, []uint16{0, 0, 0, 0x2000, 0x0010}))
		s.src, s.dst = hx.Pick(r, srcs), hx.Pick(r, dsts)
		s.sport, s.dport = hx.Pick(r, sports), hx.Pick(r, dports)
		s.l4csum = hx.Pick(r, []uint16{0, 0xbeef, 0xffff, 0x0001})
		s.tcpFl = hx.Pick(r, []byte{0x10, 0x01, 0x04, 0x02})
		s.payload = r.Intn(12)
		return s
	}
	var ops []string
	ops = append(ops, putCfg(uint32(hx.Pick(r, []int{0, 0, 1, 4, 5, 0x20, 0x21, 0x18, 0x3d}))))
	for i := 0; i < n; i++ {
		s := pick()
		switch r.Intn(16) {
		case 0:
			ops = append(ops, putCfg(uint32(hx.Pick(r, []int{0, 1, 4, 5, 0x20, 0x21, 0x18, 0x3d, 0x3f}))))
		case 1, 2:
			end := blockStart + uint16(hx.Pick(r, []int{0, 1, 3, 63}))
			next := uint32(blockStart + r.Intn(5))
			if r.Intn(5) == 0 {
				next = uint32(r.Intn(70000))
			}
			ops = append(ops, put("subscriber_nat", s.src[:], subNat(natIP, blockStart, end, next)))
		case 3:
			ops = append(ops, put("eim_table", eimKey(s.src, le16(blockStart+uint16(r.Intn(4))), s.proto, 0), eimVal(natIP, blockStart)))
		case 4:
			ops = append(ops, putAlg(hx.Pick(r, dports), hx.Pick(r, []byte{6, 17})))
		case 5:
			ops = append(ops, putHairpin(natIP))
		case 6:
			ops = append(ops, flowPuts(s, blockStart+uint16(r.Intn(4)))...)
		case 7:
			var dport uint16 = s.dport
			if s.proto == 1 {
				dport = 0
			}
			ops = append(ops, del("nat_sessions", natKey(s.src, s.dst, s.sport, dport, s.proto, [3]byte{})))
		case 8:
			ops = append(ops, fmt.Sprintf("clock %d", r.Intn(1000000)))
		case 9, 10, 11:
			f := replySpec(s, blockStart+uint16(r.Intn(4))).bytes(r)
			if r.Intn(8) == 0 {
				f = f[:r.Intn(len(f)+1)]
			}
			ops = append(ops, runOp("nat44_ingress", f))
		case 12:
			ops = append(ops, runOp("nat44_hairpin_xdp", s.bytes(r)))
		default:
			f := s.bytes(r)
			if r.Intn(8) == 0 {
				f = f[:r.Intn(len(f)+1)]
			}
			ops = append(ops, runOp("nat44_egress", f))
		}
	}
	return ops
}

func main() { hx.Main(comp{}) }
