// localpool drives the real pool.LocalPool (pkg/pool/peer.go) through a single-node PeerPool, where
// every subscriber is owned locally: Allocate -> allocateLocal, Release -> releaseLocal, Get, Stats,
// and the reverse index ipToSub through the verif hook LocalOwnerOfIPForVerif.  `burst s3 k` lets k
// goroutines request an address for the same subscriber at the same moment (they are parked at the pool
// lock, which the harness holds through HoldLocalPoolForVerif, and released together); `audit` compares
// allocations, free list and reverse index with each other and with the number of addresses built.
package main

import (
	"context"
	"fmt"
	"math/rand"
	"net"
	"os"
	"strconv"
	"strings"

	"bngverif/flx"
	"bngverif/hx"

	"github.com/codelaboratoryltd/bng/pkg/pool"
)

type comp struct{}

func a(s string) uint32 { return flx.U32(net.ParseIP(s)) }

func newOp(g flx.V4) string { return fmt.Sprintf("new %x %d %x", g.Net, g.Ones, g.Gw) }

var smallGeos = []flx.V4{
	{Net: a("10.0.0.0"), Ones: 29, Gw: a("10.0.0.1")},
	{Net: a("10.0.0.8"), Ones: 29, Gw: a("10.255.0.1")},
	{Net: a("192.168.7.4"), Ones: 30, Gw: a("192.168.7.5")},
	{Net: a("192.168.7.4"), Ones: 30, Gw: a("192.168.7.7")},
	{Net: a("10.9.9.8"), Ones: 31, Gw: a("10.0.0.1")},
	{Net: a("10.9.9.9"), Ones: 32, Gw: a("10.0.0.1")},
	{Net: a("100.64.0.16"), Ones: 28, Gw: a("100.64.0.30")},
	{Net: a("255.255.255.248"), Ones: 29, Gw: a("255.255.255.254")},
}

var largeGeos = []flx.V4{
	{Net: a("10.0.2.0"), Ones: 23, Gw: a("10.0.2.1")},
	{Net: a("10.16.0.0"), Ones: 20, Gw: a("10.16.0.1")},
}

func randOp(r *rand.Rand, g flx.V4, subs int) string {
	s := fmt.Sprintf("s%d", 1+r.Intn(subs))
	switch x := r.Intn(100); {
	case x < 34:
		return "alloc " + s
	case x < 44:
		// 2-5 concurrent first-time (or repeated) requests of one subscriber
		return fmt.Sprintf("burst %s %d", s, 2+r.Intn(4))
	case x < 70:
		return "release " + s
	case x < 80:
		return "get " + s
	case x < 92:
		return fmt.Sprintf("owner %x", g.RandAddr(r))
	default:
		return "stats"
	}
}

func tail(g flx.V4, subs int) []string {
	out := []string{"stats"}
	for i := 1; i <= subs; i++ {
		out = append(out, fmt.Sprintf("alloc s%d", i))
	}
	for i := uint32(1); i <= 3; i++ {
		out = append(out, fmt.Sprintf("owner %x", g.Net+i))
	}
	return append(out, "stats", "audit")
}

// stress: burst-heavy sequences only (POOL_STRESS=1; the check runs them on a binary built with -race)
func stress(r *rand.Rand, tier string, emit func([]string)) {
	n := 150
	if tier == "thorough" {
		n = 1500
	}
	for i := 0; i < n; i++ {
		g := smallGeos[r.Intn(len(smallGeos))]
		subs := 2 + r.Intn(6)
		seq := []string{newOp(g)}
		for j, m := 0, 6+r.Intn(24); j < m; j++ {
			s := fmt.Sprintf("s%d", 1+r.Intn(subs))
			switch x := r.Intn(10); {
			case x < 6:
				seq = append(seq, fmt.Sprintf("burst %s %d", s, 2+r.Intn(7)))
			case x < 8:
				seq = append(seq, "release "+s)
			case x < 9:
				seq = append(seq, "stats")
			default:
				seq = append(seq, "audit")
			}
		}
		emit(append(seq, tail(g, subs)...))
	}
}

func (comp) Gen(r *rand.Rand, tier string, emit func([]string)) {
	if os.Getenv("POOL_STRESS") != "" {
		stress(r, tier, emit)
		return
	}
	nSmall, nLarge := 1200, 6
	if tier == "thorough" {
		nSmall, nLarge = 25000, 60
	}
	for i := 0; i < nSmall; i++ {
		g := smallGeos[r.Intn(len(smallGeos))]
		subs := 2 + r.Intn(8)
		seq := []string{newOp(g)}
		for j, n := 0, 3+r.Intn(30); j < n; j++ {
			seq = append(seq, randOp(r, g, subs))
		}
		emit(append(seq, tail(g, subs)...))
	}
	for i := 0; i < nLarge; i++ {
		g := largeGeos[r.Intn(len(largeGeos))]
		subs := 300 + r.Intn(1500)
		seq := []string{newOp(g)}
		for j := 0; j < 2000; j++ {
			seq = append(seq, randOp(r, g, subs))
		}
		emit(append(seq, "stats"))
	}
	if tier == "thorough" {
		// every alloc/release sequence over 3 subscribers: depth 6 on a 2-address pool, depth 7 on a
		// 1-address pool; and every sequence to depth 5 of those six operations plus the read-only ones
		// (get, owner of a pool address / of an address outside the network, stats)
		for gi, g := range []flx.V4{smallGeos[2], smallGeos[4]} {
			var alpha []string
			for s := 1; s <= 3; s++ {
				alpha = append(alpha, fmt.Sprintf("alloc s%d", s), fmt.Sprintf("release s%d", s))
			}
			all := append(append([]string{}, alpha...), "get s1", "get s2", fmt.Sprintf("owner %x", g.Net+1),
				fmt.Sprintf("owner %x", g.Net+2), fmt.Sprintf("owner %x", g.Net+uint32(g.Span())+3), "stats")
			var rec func(ab, p []string, depth int)
			rec = func(ab, p []string, depth int) {
				if depth == 0 {
					seq := append([]string{newOp(g)}, p...)
					emit(append(seq, tail(g, 4)...))
					return
				}
				for _, x := range ab {
					rec(ab, append(p[:len(p):len(p)], x), depth-1)
				}
			}
			rec(alpha, nil, 6+gi)
			rec(all, nil, 5-gi)
		}
	}
}

type run struct {
	p     *pool.PeerPool
	total int // number of addresses the pool was built with
}

func (comp) NewRun() hx.Run { return &run{} }
func (r *run) Close()       {}

func subTok(t string) bool {
	if len(t) < 2 || t[0] != 's' {
		return false
	}
	_, err := strconv.Atoi(t[1:])
	return err == nil
}

func (r *run) Do(op string) string {
	f := hx.Fields(op)
	if f[0] == "new" {
		if len(f) != 4 {
			return "badop"
		}
		nw, ok1 := flx.ParseHex4(f[1])
		ones, err := strconv.Atoi(f[2])
		gw, ok2 := flx.ParseHex4(f[3])
		if !ok1 || !ok2 || err != nil || ones < 8 {
			return "badop"
		}
		p, err := pool.NewPeerPool(pool.PeerPoolConfig{NodeID: "n1", Peers: []string{"n1"},
			Network: fmt.Sprintf("%s/%d", nw, ones), Gateway: gw.String()})
		if err != nil {
			return "invalid"
		}
		r.p = p
		r.total = p.Stats().Total
		return "ok"
	}
	if r.p == nil {
		return "badop"
	}
	ctx := context.Background()
	switch {
	case f[0] == "alloc" && len(f) == 2 && subTok(f[1]):
		resp, err := r.p.Allocate(ctx, f[1], nil)
		if err != nil {
			if strings.Contains(err.Error(), "exhausted") {
				return "exhausted"
			}
			return "error " + err.Error()
		}
		if resp.SubscriberID != f[1] || resp.NodeID != "n1" {
			return "error response names " + resp.SubscriberID + "@" + resp.NodeID
		}
		return "ok " + flx.Hex4(net.ParseIP(resp.IP))
	case f[0] == "release" && len(f) == 2 && subTok(f[1]):
		if err := r.p.Release(ctx, f[1]); err != nil {
			return "error " + err.Error()
		}
		return "ok"
	case f[0] == "get" && len(f) == 2 && subTok(f[1]):
		resp, ok := r.p.Get(f[1])
		if !ok {
			return "none"
		}
		return flx.Hex4(net.ParseIP(resp.IP))
	case f[0] == "owner" && len(f) == 2:
		ip, ok := flx.ParseHex4(f[1])
		if !ok {
			return "badop"
		}
		s, ok := r.p.LocalOwnerOfIPForVerif(ip.String())
		if !ok {
			return "none"
		}
		return s
	case f[0] == "burst" && len(f) == 3 && subTok(f[1]):
		k, err := strconv.Atoi(f[2])
		if err != nil || k < 1 || k > 64 {
			return "badop"
		}
		return flx.Agree(flx.Burst(k, r.p.HoldLocalPoolForVerif, func() string { return r.Do("alloc " + f[1]) }))
	case f[0] == "audit" && len(f) == 1:
		return flx.AuditLocal(r.p, r.total)
	case f[0] == "stats" && len(f) == 1:
		s := r.p.Stats()
		return fmt.Sprintf("%d %d %d", s.Allocated, s.Available, s.Total)
	}
	return "badop"
}

func main() { hx.Main(comp{}) }
