// hasync drives the real HA session synchronisation (pkg/ha/sync.go, store.go, protocol.go) for C13.
//
// Message layer (`new <capC>`): a real active HASyncer and a real standby HASyncer, neither started,
// stepped deterministically: the active's change queue is drained one message at a time with
// BroadcastOneForVerif (one iteration of broadcastLoop), the per-client channel is the one
// handleSessionStream would register (capacity chosen by the sequence, 100 in production), messages are
// encoded with SyncMessage.Encode and handed to the standby's handleSSEData, full syncs are real HTTP GETs
// (performFullSync) against an httptest server running the active's real handlers.
//
// End to end (`e2e`): both syncers Start()ed, talking over loopback TCP through a cut-able proxy.
package main

import (
	"fmt"
	"io"
	"log"
	"math/rand"
	"net"
	"net/http"
	"net/http/httptest"
	"net/http/httputil"
	"net/url"
	"runtime"
	"sort"
	"strconv"
	"strings"
	"sync"
	"sync/atomic"
	"time"

	"bngverif/hx"

	"github.com/codelaboratoryltd/bng/pkg/ha"
	"go.uber.org/zap"
)

type comp struct{}

// ---------------------------------------------------------------------------------------------
// session values: every field is a function of (id, v) so that a corrupted copy is visible

func mkSession(id string, v int) *ha.SessionState {
	n, _ := strconv.Atoi(id[1:])
	return &ha.SessionState{
		SessionID:    id,
		SubscriberID: "sub-" + id,
		MAC:          fmt.Sprintf("02:00:00:00:%02x:%02x", n, v),
		IP:           fmt.Sprintf("10.0.%d.%d", n, v),
		VLAN:         100 + n,
		SessionType:  "ipoe",
		State:        "active",
		BytesIn:      uint64(v),
		CreatedAt:    time.Unix(1700000000+int64(v), 0).UTC(),
	}
}

func valueOf(s *ha.SessionState) string {
	v := int(s.BytesIn)
	want := mkSession(s.SessionID, v)
	if s.SubscriberID != want.SubscriberID || s.MAC != want.MAC || s.IP != want.IP || s.VLAN != want.VLAN ||
		s.SessionType != want.SessionType || s.State != want.State || !s.CreatedAt.Equal(want.CreatedAt) {
		return "corrupt"
	}
	return strconv.Itoa(v)
}

func showTable(ss []ha.SessionState) string {
	if len(ss) == 0 {
		return "-"
	}
	sort.Slice(ss, func(i, j int) bool {
		a, _ := strconv.Atoi(ss[i].SessionID[1:])
		b, _ := strconv.Atoi(ss[j].SessionID[1:])
		return a < b
	})
	parts := make([]string, len(ss))
	for i := range ss {
		parts[i] = ss[i].SessionID + "=" + valueOf(&ss[i])
	}
	return strings.Join(parts, ",")
}

// ---------------------------------------------------------------------------------------------

type run struct {
	e2e bool
	// common
	aStore, sStore *ha.InMemorySessionStore
	active         *ha.HASyncer
	standby        *ha.HASyncer
	// message layer
	capC int
	ch   chan *ha.SyncMessage
	// e2e
	px        *proxy
	up        bool      // the harness asked for the link to be up (connect / gapconnect without a cut since)
	streaming bool      // the stream is attached (connect or release succeeded, no cut since)
	gapPush   bool      // a change was pushed between the last full sync and the stream attachment (D42's schedule)
	faulty    bool      // the stream endpoint is failing (streamfail ... streamup)
	faultBase uint64    // messages the standby had received when the fault scenario was set up
	ghost     io.Closer // an extra stream connection to the active from this host (another, or an earlier, client)
}

func (comp) NewRun() hx.Run { return &run{} }

// one httptest server per process; it serves the real handlers of the current sequence's active syncer
type handlerBox struct{ h http.Handler }

var (
	curActive atomic.Value
	srvOnce   sync.Once
	srv       *httptest.Server
)

func sharedServer() *httptest.Server {
	srvOnce.Do(func() {
		srv = httptest.NewServer(http.HandlerFunc(func(w http.ResponseWriter, q *http.Request) {
			curActive.Load().(*handlerBox).h.ServeHTTP(w, q)
		}))
	})
	return srv
}

func (r *run) Close() {
	if r.e2e {
		if r.ghost != nil {
			r.ghost.Close()
		}
		if r.px != nil {
			r.px.close()
		}
		if r.standby != nil {
			r.standby.Stop()
		}
		if r.active != nil {
			r.active.Stop()
		}
		return
	}
	if r.active != nil {
		r.active.Stop()
	}
	if r.standby != nil {
		r.standby.Stop()
	}
}

func (r *run) Do(op string) string {
	f := hx.Fields(op)
	switch f[0] {
	case "new":
		r.capC, _ = strconv.Atoi(f[1])
		logger := zap.NewNop()
		r.aStore, r.sStore = ha.NewInMemorySessionStore(), ha.NewInMemorySessionStore()
		ac := ha.DefaultSyncConfig()
		ac.NodeID, ac.Role = "A", ha.RoleActive
		r.active = ha.NewHASyncer(ac, r.aStore, logger)
		curActive.Store(&handlerBox{r.active.ActiveHandlerForVerif()})
		sc := ha.DefaultSyncConfig()
		sc.NodeID, sc.Role = "S", ha.RoleStandby
		sc.Partner = &ha.PartnerInfo{NodeID: "A", Endpoint: strings.TrimPrefix(sharedServer().URL, "http://")}
		r.standby = ha.NewHASyncer(sc, r.sStore, logger)
		return "ok"
	case "e2e":
		return r.newE2E()
	}
	if r.active == nil {
		return "badop"
	}
	if r.e2e {
		return r.doE2E(f)
	}
	switch f[0] {
	case "add", "update":
		if len(f) != 3 {
			return "badop"
		}
		v, _ := strconv.Atoi(f[2][1:])
		sess := mkSession(f[1], v)
		r.aStore.PutSession(sess)
		t := ha.SyncTypeAdd
		if f[0] == "update" {
			t = ha.SyncTypeUpdate
		}
		return r.push(t, sess)
	case "delete":
		r.aStore.DeleteSession(f[1])
		return r.push(ha.SyncTypeDelete, &ha.SessionState{SessionID: f[1]})
	case "broadcast":
		before := -1
		if r.ch != nil {
			before = len(r.ch)
		}
		msg, ok := r.active.BroadcastOneForVerif()
		if !ok {
			return "empty"
		}
		switch {
		case r.ch == nil:
			return fmt.Sprintf("noclient %d", msg.SequenceNum)
		case len(r.ch) == before:
			return fmt.Sprintf("dropped %d", msg.SequenceNum)
		}
		return fmt.Sprintf("sent %d", msg.SequenceNum)
	case "fullsync":
		if err := r.standby.PerformFullSyncForVerif(); err != nil {
			return "error " + strings.ReplaceAll(err.Error(), " ", "_")
		}
		return "ok " + showTable(r.sStore.GetAllSessions())
	case "attach":
		if r.ch != nil {
			return "already"
		}
		r.ch = r.active.AttachClientForVerif("standby", r.capC)
		return "ok"
	case "disconnect":
		if r.ch == nil {
			return "notconnected"
		}
		r.active.DetachClientForVerif("standby")
		r.ch = nil
		return "ok"
	case "deliver":
		if r.ch == nil {
			return "noclient"
		}
		select {
		case msg := <-r.ch:
			data, err := msg.Encode()
			if err != nil {
				return "error encode"
			}
			if err := r.standby.HandleSSEDataForVerif(data); err != nil {
				return "error handle"
			}
			if msg.Type == ha.SyncTypeHeartbeat {
				return fmt.Sprintf("heartbeat %d", msg.SequenceNum)
			}
			s := &msg.Sessions[0]
			if msg.Type == ha.SyncTypeDelete {
				return fmt.Sprintf("delete %s %d", s.SessionID, msg.SequenceNum)
			}
			return fmt.Sprintf("%s %s v%s %d", msg.Type, s.SessionID, valueOf(s), msg.SequenceNum)
		default:
			return "empty"
		}
	case "heartbeat":
		// broadcastLoop's keep-alive: it takes a slot of the client channel like a change does
		if r.ch == nil {
			r.active.BroadcastHeartbeatForVerif()
			return "noclient"
		}
		before := len(r.ch)
		msg := r.active.BroadcastHeartbeatForVerif()
		if len(r.ch) == before {
			return fmt.Sprintf("dropped %d", msg.SequenceNum)
		}
		return fmt.Sprintf("sent %d", msg.SequenceNum)
	case "streamfull":
		// a `full` message inside the stream: the active's real GET /ha/sessions payload handed to the
		// standby's handleSSEData (the in-stream branch of the D41 repair)
		if r.ch == nil {
			return "noclient"
		}
		resp, err := http.Get(sharedServer().URL + "/ha/sessions")
		if err != nil {
			return "error get"
		}
		body, _ := io.ReadAll(resp.Body)
		resp.Body.Close()
		if err := r.standby.HandleSSEDataForVerif([]byte(strings.TrimSpace(string(body)))); err != nil {
			return "error handle"
		}
		return "ok " + showTable(r.sStore.GetAllSessions())
	case "store":
		return showTable(r.sStore.GetAllSessions())
	case "active":
		return showTable(r.aStore.GetAllSessions())
	case "recv":
		var ss []ha.SessionState
		for _, p := range r.standby.GetAllReceivedSessions() {
			ss = append(ss, *p)
		}
		return showTable(ss)
	}
	return "badop"
}

func (r *run) push(t ha.SyncMessageType, sess *ha.SessionState) string {
	if err := r.active.PushChange(t, sess); err != nil {
		return "full"
	}
	return "ok"
}

// ---------------------------------------------------------------------------------------------
// generator

func randOp(r *rand.Rand, ids, vals int) string {
	id := fmt.Sprintf("s%d", 1+r.Intn(ids))
	v := fmt.Sprintf("v%d", 1+r.Intn(vals))
	switch x := r.Intn(100); {
	case x < 16:
		return "add " + id + " " + v
	case x < 24:
		return "update " + id + " " + v
	case x < 36:
		return "delete " + id
	case x < 56:
		return "broadcast"
	case x < 74:
		return "deliver"
	case x < 81:
		return "fullsync"
	case x < 88:
		return "attach"
	case x < 93:
		return "disconnect"
	case x < 95:
		return "store"
	case x < 96:
		return "recv"
	case x < 98:
		return "heartbeat"
	default:
		return "streamfull"
	}
}

// protocolOp follows the real standbyLoop discipline more closely (full sync, then attach, drain)
func protocolSeq(r *rand.Rand, n int) []string {
	ids := 2 + r.Intn(3)
	seq := []string{fmt.Sprintf("new %d", 1+r.Intn(4))}
	change := func() string {
		id := fmt.Sprintf("s%d", 1+r.Intn(ids))
		switch r.Intn(3) {
		case 0:
			return "delete " + id
		case 1:
			return fmt.Sprintf("update %s v%d", id, 1+r.Intn(5))
		}
		return fmt.Sprintf("add %s v%d", id, 1+r.Intn(5))
	}
	up := false
	for i := 0; i < n; i++ {
		switch x := r.Intn(10); {
		case x < 4:
			seq = append(seq, change())
			if r.Intn(4) > 0 { // the broadcaster normally drains at once
				seq = append(seq, "broadcast")
			}
		case x < 6:
			seq = append(seq, "broadcast", "deliver")
			if up && r.Intn(3) == 0 {
				seq = append(seq, pickOne(r, "heartbeat", "streamfull"))
			}
		case x < 8:
			if up {
				seq = append(seq, "disconnect")
				up = false
			} else {
				seq = append(seq, "fullsync")
				if r.Intn(5) == 0 {
					seq = append(seq, change(), "broadcast")
				}
				seq = append(seq, "attach")
				up = true
			}
		default:
			// go quiet: drain everything, observe
			for j := 0; j < 6; j++ {
				seq = append(seq, "broadcast")
			}
			for j := 0; j < 6; j++ {
				seq = append(seq, "deliver")
			}
			seq = append(seq, "store")
		}
	}
	return seq
}

func pickOne(r *rand.Rand, xs ...string) string { return xs[r.Intn(len(xs))] }

var quiesce = []string{"broadcast", "broadcast", "broadcast", "broadcast", "broadcast", "broadcast", "broadcast",
	"deliver", "deliver", "deliver", "deliver", "deliver", "deliver", "deliver", "store", "recv", "active"}

func (comp) Gen(r *rand.Rand, tier string, emit func([]string)) {
	if tier == "e2e" { // debugging aid: only the end-to-end part
		genE2E(r, 40, emit)
		return
	}
	nRand, nProto := 2500, 1500
	if tier == "thorough" {
		nRand, nProto = 30000, 20000
	}
	for i := 0; i < nRand; i++ {
		seq := []string{fmt.Sprintf("new %d", 1+r.Intn(3))}
		ids, vals := 2+r.Intn(3), 2+r.Intn(3)
		n := 4 + r.Intn(28)
		for j := 0; j < n; j++ {
			seq = append(seq, randOp(r, ids, vals))
		}
		emit(append(seq, quiesce...))
	}
	for i := 0; i < nProto; i++ {
		emit(append(protocolSeq(r, 4+r.Intn(16)), quiesce...))
	}
	// a change queue overflow: PushChange refuses the 1001st undrained change
	{
		seq := []string{"new 2", "fullsync", "attach"}
		for j := 0; j < 1002; j++ {
			seq = append(seq, fmt.Sprintf("add s%d v%d", 1+j%3, 1+j%5))
		}
		emit(append(seq, "broadcast", "deliver", "store"))
	}
	exhaustive(r, tier, emit)
	// end to end over loopback: a small sample on every run, more in the thorough tier
	if tier == "thorough" {
		genE2E(r, 40, emit)
	} else {
		genE2E(r, 3, emit)
	}
}

// exhaustive: every sequence over the alphabet to the given depth that contains no idle step (a broadcast
// with an empty queue, a deliver with nothing to deliver, an attach while attached, a disconnect while
// detached: such a sequence behaves like the shorter one without that step, which is enumerated too), each
// followed by going quiet.  Channel capacity 1, so that the full-channel path is reached within the depth.
// Thorough: all of depth <= 7 over one session id and all of depth <= 6 over two ids.  Quick: a seeded sample.
func exhaustive(r *rand.Rand, tier string, emit func([]string)) {
	type shadow struct {
		pend, ch int
		att      bool
	}
	enum := func(alpha []string, depth int, keep func() bool) {
		var rec func(prefix []string, d int, sh shadow)
		rec = func(prefix []string, d int, sh shadow) {
			if len(prefix) > 0 && keep() {
				seq := append([]string{"new 1"}, prefix...)
				emit(append(seq, quiesce...))
			}
			if d == 0 {
				return
			}
			for _, a := range alpha {
				n := sh
				switch {
				case strings.HasPrefix(a, "add"), strings.HasPrefix(a, "update"), strings.HasPrefix(a, "delete"):
					n.pend++
				case a == "broadcast":
					if sh.pend == 0 {
						continue
					}
					n.pend--
					if sh.att && sh.ch < 1 {
						n.ch++
					}
				case a == "deliver":
					if !sh.att || sh.ch == 0 {
						continue
					}
					n.ch--
				case a == "heartbeat":
					if !sh.att || sh.ch >= 1 {
						continue
					}
					n.ch++
				case a == "streamfull":
					if !sh.att {
						continue
					}
				case a == "attach":
					if sh.att {
						continue
					}
					n.att, n.ch = true, 0
				case a == "disconnect":
					if !sh.att {
						continue
					}
					n.att, n.ch = false, 0
				}
				rec(append(prefix[:len(prefix):len(prefix)], a), d-1, n)
			}
		}
		rec(nil, depth, shadow{})
	}
	one := []string{"add s1 v1", "update s1 v2", "delete s1", "broadcast", "deliver", "fullsync", "attach", "disconnect",
		"heartbeat", "streamfull"}
	two := []string{"add s1 v1", "add s2 v2", "update s1 v3", "delete s1", "delete s2", "broadcast", "deliver",
		"fullsync", "attach", "disconnect", "heartbeat", "streamfull"}
	if tier == "thorough" {
		enum(one, 7, func() bool { return true })
		enum(two, 6, func() bool { return true })
	} else {
		enum(one, 7, func() bool { return r.Intn(1500) == 0 })
		enum(two, 6, func() bool { return r.Intn(1500) == 0 })
	}
}

// ---------------------------------------------------------------------------------------------
// end to end over loopback

// proxy is an HTTP reverse proxy between the standby and the active whose client connections can be cut,
// and which can hold back requests for the stream (the standby's http.Client reuses one keep-alive
// connection for the full sync and the stream request, so the hold has to be per request, not per connection).
type proxy struct {
	ln      net.Listener
	srv     *http.Server
	backend string
	mu      sync.Mutex
	open    bool
	holdStr bool
	conns   map[net.Conn]struct{}
	release chan struct{}
	// fault point: the stream endpoint fails independently of the snapshot endpoint.  While streamFault is set the
	// first stream request is answered 503; every later request of the standby (snapshot or stream) is held until
	// the fault is lifted, so that nothing happens behind the script's back during the standby's back-off.
	streamFault bool
	faulted     bool
	faultRel    chan struct{}
	reqs        []string // completed requests in order: S<status> snapshot, T<status> stream
}

// statusWriter records the status of a proxied response as soon as its header is written
type statusWriter struct {
	http.ResponseWriter
	p    *proxy
	tag  string
	done bool
}

func (w *statusWriter) note(code int) {
	if !w.done {
		w.done = true
		w.p.logReq(fmt.Sprintf("%s%d", w.tag, code))
	}
}
func (w *statusWriter) WriteHeader(code int)        { w.note(code); w.ResponseWriter.WriteHeader(code) }
func (w *statusWriter) Write(b []byte) (int, error) { w.note(200); return w.ResponseWriter.Write(b) }
func (w *statusWriter) Unwrap() http.ResponseWriter { return w.ResponseWriter }

func (p *proxy) logReq(s string) {
	p.mu.Lock()
	p.reqs = append(p.reqs, s)
	p.mu.Unlock()
}

func (p *proxy) takeReqs() string {
	p.mu.Lock()
	defer p.mu.Unlock()
	out := "-"
	if len(p.reqs) > 0 {
		out = strings.Join(p.reqs, ",")
	}
	p.reqs = nil
	return out
}

func (p *proxy) sawReq(s string) bool {
	p.mu.Lock()
	defer p.mu.Unlock()
	for _, x := range p.reqs {
		if x == s {
			return true
		}
	}
	return false
}

func (p *proxy) countReq(s string) int {
	p.mu.Lock()
	defer p.mu.Unlock()
	n := 0
	for _, x := range p.reqs {
		if x == s {
			n++
		}
	}
	return n
}

type trackLn struct {
	net.Listener
	p *proxy
}

func (t trackLn) Accept() (net.Conn, error) {
	for {
		c, err := t.Listener.Accept()
		if err != nil {
			return nil, err
		}
		t.p.mu.Lock()
		if !t.p.open {
			t.p.mu.Unlock()
			c.Close()
			continue
		}
		t.p.conns[c] = struct{}{}
		t.p.mu.Unlock()
		return c, nil
	}
}

func newProxy(backend string) *proxy {
	ln, err := net.Listen("tcp", "127.0.0.1:0")
	if err != nil {
		panic(err)
	}
	p := &proxy{ln: ln, backend: backend, conns: map[net.Conn]struct{}{}, release: make(chan struct{}),
		faultRel: make(chan struct{})}
	u, _ := url.Parse("http://" + backend)
	rp := httputil.NewSingleHostReverseProxy(u)
	rp.FlushInterval = -1
	rp.ErrorLog = log.New(io.Discard, "", 0)
	p.srv = &http.Server{
		ErrorLog: log.New(io.Discard, "", 0),
		Handler: http.HandlerFunc(func(w http.ResponseWriter, q *http.Request) {
			p.mu.Lock()
			open, hold, rel := p.open, p.holdStr, p.release
			p.mu.Unlock()
			if !open {
				panic(http.ErrAbortHandler)
			}
			isStream := strings.HasSuffix(q.URL.Path, "/stream")
			tag := "S"
			if isStream {
				tag = "T"
			}
			p.mu.Lock()
			fault, faulted, frel := p.streamFault, p.faulted, p.faultRel
			if fault && isStream && !faulted {
				p.faulted = true
			}
			p.mu.Unlock()
			if fault && isStream && !faulted {
				p.logReq("T503")
				http.Error(w, "stream unavailable", http.StatusServiceUnavailable)
				return
			}
			if fault && faulted {
				select {
				case <-frel:
				case <-q.Context().Done():
					panic(http.ErrAbortHandler)
				}
			}
			if hold && isStream {
				select {
				case <-rel:
				case <-q.Context().Done():
					panic(http.ErrAbortHandler)
				}
			}
			rp.ServeHTTP(&statusWriter{ResponseWriter: w, p: p, tag: tag}, q)
		}),
		ConnState: func(c net.Conn, st http.ConnState) {
			if st == http.StateClosed || st == http.StateHijacked {
				p.mu.Lock()
				delete(p.conns, c)
				p.mu.Unlock()
			}
		},
	}
	go p.srv.Serve(trackLn{ln, p})
	return p
}

func (p *proxy) addr() string { return p.ln.Addr().String() }

func (p *proxy) cut() {
	p.mu.Lock()
	p.open = false
	for c := range p.conns {
		c.Close()
	}
	p.holdStr = false
	p.streamFault, p.faulted = false, false
	p.mu.Unlock()
}

func (p *proxy) allow(holdStream bool) {
	p.mu.Lock()
	p.open = true
	p.holdStr = holdStream
	p.mu.Unlock()
}

// failStream switches the stream fault on; liftFault switches it off and lets the held requests through
func (p *proxy) failStream() {
	p.mu.Lock()
	p.open, p.streamFault, p.faulted = true, true, false
	p.mu.Unlock()
}

func (p *proxy) liftFault() {
	p.mu.Lock()
	if p.streamFault {
		p.streamFault, p.faulted = false, false
		close(p.faultRel)
		p.faultRel = make(chan struct{})
	}
	p.mu.Unlock()
}

func (p *proxy) releaseStream() {
	p.mu.Lock()
	if p.holdStr {
		p.holdStr = false
		close(p.release)
		p.release = make(chan struct{})
	}
	p.mu.Unlock()
}

func (p *proxy) close() { p.cut(); p.srv.Close() }

func freeAddr() string {
	ln, err := net.Listen("tcp", "127.0.0.1:0")
	if err != nil {
		panic(err)
	}
	defer ln.Close()
	return ln.Addr().String()
}

func (r *run) newE2E() string {
	r.e2e = true
	logger := zap.NewNop()
	r.aStore, r.sStore = ha.NewInMemorySessionStore(), ha.NewInMemorySessionStore()
	ac := ha.DefaultSyncConfig()
	ac.NodeID, ac.Role, ac.ListenAddr = "A", ha.RoleActive, freeAddr()
	// no periodic keep-alives during a sequence: every message the standby receives is then accounted for
	// (one per full sync, one initial heartbeat per stream attachment, one per change)
	ac.HeartbeatInterval = time.Hour
	r.active = ha.NewHASyncer(ac, r.aStore, logger)
	if err := r.active.Start(); err != nil {
		return "error start"
	}
	// wait for the listener
	if !waitFor(longWait, func() bool {
		c, err := net.Dial("tcp", ac.ListenAddr)
		if err == nil {
			c.Close()
		}
		return err == nil
	}) {
		return "error listen"
	}
	r.px = newProxy(ac.ListenAddr)
	return "ok"
}

// No step of the end-to-end mode relies on a fixed sleep: every op waits for the condition it needs (observable
// on the two syncers) with a generous bound and returns as soon as it holds, so a heavily loaded machine makes
// the run slower, not different.
const longWait = 90 * time.Second

// waitFor polls cond for at most d
func waitFor(d time.Duration, cond func() bool) bool {
	end := time.Now().Add(d)
	for time.Now().Before(end) {
		if cond() {
			return true
		}
		time.Sleep(2 * time.Millisecond)
	}
	return cond()
}

func (r *run) startStandby() {
	sc := ha.DefaultSyncConfig()
	sc.NodeID, sc.Role = "S", ha.RoleStandby
	sc.Partner = &ha.PartnerInfo{NodeID: "A", Endpoint: r.px.addr()}
	// http.Client.Timeout also bounds the streaming request, so the production default (30 s) tears the
	// stream down twice a minute; keep it out of the way of the scripted schedule
	sc.RequestTimeout = 10 * time.Minute
	r.standby = ha.NewHASyncer(sc, r.sStore, zap.NewNop())
	r.standby.Start()
}

// e2e ops.  One standby syncer object lives for the whole sequence; `cut` severs its TCP connections at
// the proxy (and refuses new ones), `connect` lets it through again and waits for the syncer's own
// reconnect (backoff 1 s + jitter, then performFullSync + connectToStream).
func (r *run) received() uint64 {
	if r.standby == nil {
		return 0
	}
	return r.standby.Stats().MessagesReceived
}

// standbyHas reports whether the standby's store reflects a change to one session (v < 0: deleted)
func (r *run) standbyHas(id string, v int) bool {
	sess, ok := r.sStore.GetSession(id)
	if v < 0 {
		return !ok
	}
	return ok && valueOf(sess) == strconv.Itoa(v)
}

// attached waits until the stream is up on both ends: the standby reads it, the active has registered the
// client channel, and the messages that precede it (full syncs, the initial heartbeat) have been counted
func (r *run) attached(wantReceived uint64) bool {
	return waitFor(longWait, func() bool {
		// (the client channel is registered before the response headers go out; the count is only a sanity
		// bound, it must not assume how the active keys its clients)
		return r.standby.IsConnected() && r.active.ClientCountForVerif() >= 1 && r.received() >= wantReceived
	})
}

func (r *run) doE2E(f []string) string {
	switch f[0] {
	case "add", "update", "delete":
		var err error
		before := r.received()
		v := -1
		if f[0] == "delete" {
			r.aStore.DeleteSession(f[1])
			err = r.active.PushChange(ha.SyncTypeDelete, &ha.SessionState{SessionID: f[1]})
		} else {
			v, _ = strconv.Atoi(f[2][1:])
			sess := mkSession(f[1], v)
			r.aStore.PutSession(sess)
			t := ha.SyncTypeAdd
			if f[0] == "update" {
				t = ha.SyncTypeUpdate
			}
			err = r.active.PushChange(t, sess)
		}
		if err != nil {
			return "full"
		}
		if r.streaming {
			// the change travels the stream: wait until the standby has received and applied it
			if !waitFor(15*time.Second, func() bool { return r.received() > before && r.standbyHas(f[1], v) }) {
				return "timeout"
			}
			return "ok"
		}
		// no stream attached: the broadcaster drains the change into the void
		if r.up {
			r.gapPush = true
		}
		if !waitFor(longWait, func() bool { return r.active.PendingChangesForVerif() == 0 }) {
			return "timeout"
		}
		// (the broadcaster has taken the change off the queue; handing it to zero clients is the next few
		// instructions of the same goroutine, long before the next op's HTTP round trips can attach a client)
		runtime.Gosched()
		return "ok"
	case "connect", "gapconnect":
		if r.up {
			return "already"
		}
		before := r.received()
		r.px.allow(f[0] == "gapconnect")
		if r.standby == nil {
			r.startStandby()
		}
		r.up, r.gapPush = true, false
		if f[0] == "gapconnect" {
			// wait for the full sync to be answered and applied (the counter moves after the store was
			// written); the stream request is held by the proxy
			if !waitFor(longWait, func() bool { return r.received() >= before+1 }) {
				return "timeout"
			}
			return "ok " + showTable(r.sStore.GetAllSessions()) + " req=" + r.px.takeReqs()
		}
		if !r.attached(before + 2) { // full sync + the stream's initial heartbeat
			return "timeout req=" + r.px.takeReqs()
		}
		r.streaming = true
		return "ok req=" + r.px.takeReqs()
	case "streamfail":
		// like connect, but the stream endpoint answers 503 while the snapshot endpoint works: the standby's full
		// sync succeeds, its stream attempt fails, it backs off; its next request is held until `streamup`
		if r.up {
			return "already"
		}
		before := r.received()
		r.px.failStream()
		if r.standby == nil {
			r.startStandby()
		}
		r.up, r.gapPush, r.faulty = true, false, true
		if !waitFor(longWait, func() bool { return r.received() >= before+1 && r.px.sawReq("T503") }) {
			return "timeout req=" + r.px.takeReqs()
		}
		r.faultBase = r.received()
		return "ok " + showTable(r.sStore.GetAllSessions()) + " req=" + r.px.takeReqs()
	case "streamup":
		// the stream endpoint works again: the standby's own retry (after its back-off) brings the link up
		if !r.up || !r.faulty {
			return "none"
		}
		r.faulty, r.gapPush = false, false
		r.px.liftFault()
		if !waitFor(longWait, func() bool {
			return r.standby.IsConnected() && r.active.ClientCountForVerif() >= 1 && r.px.sawReq("T200")
		}) {
			return "timeout req=" + r.px.takeReqs()
		}
		// everything that precedes the stream's messages has been counted: one per snapshot answered, plus the
		// stream's initial heartbeat (the snapshot count comes from what the proxy saw, not from an assumption)
		want := r.faultBase + uint64(r.px.countReq("S200")) + 1
		waitFor(longWait, func() bool { return r.received() >= want })
		r.streaming = true
		return "ok req=" + r.px.takeReqs()
	case "release":
		if !r.up {
			return "notconnected"
		}
		if r.streaming {
			return "ok"
		}
		before := r.received()
		r.px.releaseStream()
		if !r.attached(before + 1) { // the stream's initial heartbeat
			return "timeout req=" + r.px.takeReqs()
		}
		r.streaming = true
		return "ok req=" + r.px.takeReqs()
	case "cut":
		if !r.up {
			return "notconnected"
		}
		r.px.cut()
		r.up, r.streaming, r.faulty = false, false, false
		// both ends have noticed: the standby left connectToStream, the active unregistered the client channel
		ghosts := 0
		if r.ghost != nil {
			ghosts = 1
		}
		if !waitFor(longWait, func() bool { return !r.standby.IsConnected() && r.active.ClientCountForVerif() <= ghosts }) {
			return "timeout"
		}
		return "ok"
	case "ghost":
		// ghost open / ghost close: another stream client of the active on this host (a second standby, or the
		// standby's previous connection whose handler has not exited yet).  It reads and discards its stream.
		// The standby's own stream must be unaffected by its coming and going.
		if len(f) != 2 {
			return "badop"
		}
		switch f[1] {
		case "open":
			if r.ghost != nil {
				return "already"
			}
			before := r.active.ClientCountForVerif()
			resp, err := http.Get("http://" + r.px.backend + "/ha/sessions/stream")
			if err != nil {
				return "error"
			}
			go io.Copy(io.Discard, resp.Body)
			r.ghost = resp.Body
			if !waitFor(longWait, func() bool { return r.active.ClientCountForVerif() > before }) {
				return "timeout"
			}
			return "ok"
		case "close":
			if r.ghost == nil {
				return "none"
			}
			before := r.active.ClientCountForVerif()
			r.ghost.Close()
			r.ghost = nil
			// its handler on the active has run its deferred cleanup
			if !waitFor(longWait, func() bool { return r.active.ClientCountForVerif() < before }) {
				return "timeout"
			}
			return "ok"
		}
		return "badop"
	case "settle":
		// Quiescent point.  Every change pushed while the stream was attached has already been waited for, so the
		// standby's table is final here.  Where the script itself has not set up a divergence (nothing pushed in
		// the sync/attach gap, stream attached) equality is nevertheless awaited, generously, before reading.
		if r.streaming && !r.gapPush {
			want := showTable(r.aStore.GetAllSessions())
			waitFor(10*time.Second, func() bool { return showTable(r.sStore.GetAllSessions()) == want })
		}
		return showTable(r.sStore.GetAllSessions())
	case "active":
		return showTable(r.aStore.GetAllSessions())
	}
	return "badop"
}

func genE2E(r *rand.Rand, n int, emit func([]string)) {
	change := func(ids int) string {
		id := fmt.Sprintf("s%d", 1+r.Intn(ids))
		switch r.Intn(3) {
		case 0:
			return "delete " + id
		case 1:
			return fmt.Sprintf("update %s v%d", id, 1+r.Intn(5))
		}
		return fmt.Sprintf("add %s v%d", id, 1+r.Intn(5))
	}
	// another client's stream ends after the standby has attached its own
	emit([]string{"e2e", "add s1 v1", "ghost open", "connect", "ghost close", fmt.Sprintf("add s2 v%d", 1+r.Intn(5)),
		"update s1 v2", "delete s2", "settle", "active"})
	// the stream endpoint fails while the snapshot endpoint works; the active changes during the standby's back-off;
	// the endpoint recovers; quiescence
	emit([]string{"e2e", "add s1 v1", "streamfail", fmt.Sprintf("add s2 v%d", 1+r.Intn(5)), "delete s1", "settle",
		"streamup", "settle", "update s2 v6", "settle", "active"})
	for i := 0; i < n; i++ {
		ids := 2 + r.Intn(3)
		seq := []string{"e2e"}
		up := false
		for j := 0; j < 6+r.Intn(10); j++ {
			switch x := r.Intn(10); {
			case x < 5:
				seq = append(seq, change(ids))
			case x < 8:
				if up {
					seq = append(seq, "cut")
					up = false
				} else if r.Intn(4) == 0 {
					seq = append(seq, "gapconnect", change(ids), "release")
					up = true
				} else if r.Intn(3) == 0 {
					seq = append(seq, "streamfail")
					for k := r.Intn(3); k > 0; k-- {
						seq = append(seq, change(ids))
					}
					if r.Intn(4) == 0 {
						seq = append(seq, "settle")
					}
					seq = append(seq, "streamup")
					up = true
				} else {
					seq = append(seq, "connect")
					up = true
				}
			case x < 9:
				seq = append(seq, "settle")
			default:
				seq = append(seq, pickOne(r, "ghost open", "ghost close"))
			}
		}
		if !up {
			seq = append(seq, "connect")
		}
		emit(append(seq, "settle", "active"))
	}
}

func main() { hx.Main(comp{}) }
