// qinq — component `qinq` of property C20; the implementation lives in bngverif/c20/qinq.
package main

import (
	"bngverif/c20/qinq"
	"bngverif/hx"
)

func main() { hx.Main(qinq.Comp{}) }
