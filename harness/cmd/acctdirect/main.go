// acctdirect drives the accounting of the REAL session paths (C08): the DHCPv4 slow path (pkg/dhcp Server:
// Accounting-Start when a REQUEST creates a session, Accounting-Stop when a RELEASE ends it) and the PPPoE
// teardown (pkg/pppoe SessionTeardown: Accounting-Stop on PADT), both with the REAL radius.Client against a real
// UDP accounting server on loopback run by this process - which, unlike the accounting servers of the dhcpterm
// and teardown harnesses, can be DOWN while a session ends and come back later.
//
// Both paths call radius.Client.SendAccounting directly (radius.AccountingManager, the component with the retry
// queue and the persistence, is constructed nowhere outside its tests), so the observation of every operation is
// simply the records the server accepted while it ran.
//
// "Server down" = the server's UDP socket is connect()ed to another peer for the time being: the kernel answers
// the client's datagram with ICMP port-unreachable, the client's read fails with ECONNREFUSED at once (the same
// device as in cmd/acct).
//
// Line protocol (see lean/Bng/Drv/AcctDirect.lean):
//
//	new                 => ok
//	srv u|d             => ok                          the accounting server comes up / goes down
//	dreq m<k>           => ack new|renew acc=<recs>    DISCOVER + REQUEST of MAC k (new: the REQUEST created a session)
//	drel m<k>           => ok|none acc=<recs>          RELEASE (none: no lease)
//	pmk p<k>            => ok|exists                   an authenticated, established PPPoE session (no Start is ever
//	                                                   sent on this path: KF-pppoe-no-acct-start)
//	ppadt p<k>          => ok|nosuch acc=<recs>        the client's PADT
//	final               => ok
//
// <recs> = the records accepted during the operation, `start/m1.2` = Start of the 2nd session of MAC 1,
// `stop/p3` = Stop of PPPoE session 3; a trailing `!` = the record's Acct-Session-Id / Calling-Station-Id is not
// that session's.
package main

import (
	"fmt"
	"math/rand"
	"net"
	"os"
	"runtime"
	"strconv"
	"strings"
	"sync"
	"syscall"
	"time"
	"unsafe"

	"bngverif/hx"

	"github.com/codelaboratoryltd/bng/pkg/dhcp"
	"github.com/codelaboratoryltd/bng/pkg/ebpf"
	"github.com/codelaboratoryltd/bng/pkg/pppoe"
	bngradius "github.com/codelaboratoryltd/bng/pkg/radius"
	"github.com/insomniacslk/dhcp/dhcpv4"
	"go.uber.org/zap"
	"layeh.com/radius"
	"layeh.com/radius/rfc2865"
	"layeh.com/radius/rfc2866"
)

const secret = "verif-direct"

type rec struct {
	stop bool
	sid  string
	mac  string
}

type server struct {
	conn *net.UDPConn
	port int // the client's "auth" port; accounting goes to port+1
	isUp bool
	mu   sync.Mutex
	recs []rec
}

func newServer() *server {
	for p := 21000 + (os.Getpid()*13)%8000; ; p += 2 {
		c, err := net.ListenUDP("udp4", &net.UDPAddr{IP: net.IPv4(127, 0, 0, 1), Port: p + 1})
		if err != nil {
			continue
		}
		s := &server{conn: c, port: p, isUp: true}
		go s.serve()
		return s
	}
}

func (s *server) serve() {
	buf := make([]byte, 4096)
	for {
		n, from, err := s.conn.ReadFromUDP(buf)
		if err != nil {
			return
		}
		p, err := radius.Parse(buf[:n], []byte(secret))
		if err != nil || p.Code != radius.CodeAccountingRequest {
			continue
		}
		st := rfc2866.AcctStatusType_Get(p)
		if st == rfc2866.AcctStatusType_Value_Start || st == rfc2866.AcctStatusType_Value_Stop {
			s.mu.Lock()
			s.recs = append(s.recs, rec{stop: st == rfc2866.AcctStatusType_Value_Stop,
				sid: rfc2866.AcctSessionID_GetString(p), mac: strings.ToLower(rfc2865.CallingStationID_GetString(p))})
			s.mu.Unlock()
		}
		if out, err := p.Response(radius.CodeAccountingResponse).Encode(); err == nil {
			s.conn.WriteToUDP(out, from)
		}
	}
}

func (s *server) set(up bool) {
	if up == s.isUp {
		return
	}
	rc, err := s.conn.SyscallConn()
	if err != nil {
		panic(err)
	}
	var cerr error
	rc.Control(func(fd uintptr) {
		if up {
			var sa [16]byte // AF_UNSPEC dissolves the association
			if _, _, e := syscall.Syscall(syscall.SYS_CONNECT, fd, uintptr(unsafe.Pointer(&sa[0])), 16); e != 0 {
				cerr = e
			}
		} else {
			cerr = syscall.Connect(int(fd), &syscall.SockaddrInet4{Port: 9, Addr: [4]byte{127, 0, 0, 1}})
		}
	})
	if cerr != nil {
		panic("cannot switch the accounting port: " + cerr.Error())
	}
	s.isUp = up
}

func (s *server) take() []rec {
	s.mu.Lock()
	defer s.mu.Unlock()
	r := s.recs
	s.recs = nil
	return r
}

type fakeConn struct{ sent [][]byte }

func (c *fakeConn) ReadFrom(p []byte) (int, net.Addr, error) { return 0, nil, os.ErrDeadlineExceeded }
func (c *fakeConn) WriteTo(p []byte, a net.Addr) (int, error) {
	c.sent = append(c.sent, append([]byte(nil), p...))
	return len(p), nil
}
func (c *fakeConn) Close() error                       { return nil }
func (c *fakeConn) LocalAddr() net.Addr                { return &net.UDPAddr{IP: net.IPv4zero, Port: 67} }
func (c *fakeConn) SetDeadline(t time.Time) error      { return nil }
func (c *fakeConn) SetReadDeadline(t time.Time) error  { return nil }
func (c *fakeConn) SetWriteDeadline(t time.Time) error { return nil }

type comp struct{ srv *server }

type run struct {
	c     *comp
	dh    *dhcp.Server
	conn  *fakeConn
	td    *pppoe.SessionTeardown
	sm    *pppoe.SessionManager
	xid   uint32
	lease map[int]bool           // MAC k has a lease
	ip    map[int]net.IP         // ... of this address
	gen   map[int]int            // sessions of MAC k so far
	sid   map[string]string      // session name -> Acct-Session-Id (learnt from its first record)
	pp    map[int]*pppoe.Session // live PPPoE sessions
	ppAll map[int]bool
}

func (c *comp) NewRun() hx.Run { return &run{c: c} }
func (r *run) Close()          { r.c.srv.set(true); r.c.srv.take() }

func macOf(k int) net.HardwareAddr  { return net.HardwareAddr{2, 0, 0, 0, 1, byte(k)} }
func pmacOf(k int) net.HardwareAddr { return net.HardwareAddr{2, 0, 0, 0, 2, byte(k)} }

// settle waits until the goroutines the operation started (the paths send their accounting requests from
// `go func()`) have finished
func settle(base int) {
	for i := 0; i < 5000; i++ {
		if runtime.NumGoroutine() <= base {
			return
		}
		time.Sleep(200 * time.Microsecond)
	}
}

func (r *run) pkt(mt dhcpv4.MessageType, mac net.HardwareAddr, requested net.IP, ciaddr net.IP) *dhcpv4.DHCPv4 {
	r.xid++
	p, err := dhcpv4.New(
		dhcpv4.WithTransactionID(dhcpv4.TransactionID{byte(r.xid >> 24), byte(r.xid >> 16), byte(r.xid >> 8), byte(r.xid)}),
		dhcpv4.WithHwAddr(mac), dhcpv4.WithMessageType(mt))
	if err != nil {
		panic(err)
	}
	if requested != nil {
		p.UpdateOption(dhcpv4.OptRequestedIPAddress(requested))
	}
	if ciaddr != nil {
		p.ClientIPAddr = ciaddr
	}
	q, err := dhcpv4.FromBytes(p.ToBytes())
	if err != nil {
		panic(err)
	}
	return q
}

func (r *run) send(p *dhcpv4.DHCPv4) *dhcpv4.DHCPv4 {
	r.conn.sent = nil
	r.dh.HandleDHCPForVerif(r.conn, &net.UDPAddr{IP: net.IPv4bcast, Port: 68}, p)
	if len(r.conn.sent) != 1 {
		return nil
	}
	resp, err := dhcpv4.FromBytes(r.conn.sent[0])
	if err != nil {
		return nil
	}
	return resp
}

// acc renders the records accepted during the operation, which concerned session `name` with MAC `mac`
func (r *run) acc(name string, mac net.HardwareAddr) string {
	var xs []string
	for _, x := range r.c.srv.take() {
		t := "start/"
		if x.stop {
			t = "stop/"
		}
		t += name
		want, known := r.sid[name]
		if !known {
			r.sid[name] = x.sid
			want = x.sid
			for n, s := range r.sid { // an Acct-Session-Id belongs to one session
				if n != name && s == x.sid {
					t += "!"
				}
			}
		}
		norm := strings.ReplaceAll(strings.ReplaceAll(x.mac, "-", ":"), ".", ":")
		if x.sid != want || x.sid == "" || norm != mac.String() {
			t += "!"
		}
		xs = append(xs, t)
	}
	if len(xs) == 0 {
		return "acc=-"
	}
	return "acc=" + strings.Join(xs, ",")
}

func num(tok string, tag byte) (int, bool) {
	if len(tok) < 2 || tok[0] != tag {
		return 0, false
	}
	k, err := strconv.Atoi(tok[1:])
	return k, err == nil && k >= 1 && k <= 6
}

func (r *run) Do(op string) string {
	f := hx.Fields(op)
	if len(f) == 0 {
		return "badop"
	}
	if f[0] == "new" {
		if len(f) != 1 || r.dh != nil {
			return "badop"
		}
		logger := zap.NewNop()
		pm := dhcp.NewPoolManager(nil, logger)
		pool, err := dhcp.NewPool(dhcp.PoolConfig{ID: 1, Name: "p", Network: "10.9.0.0/28", Gateway: "10.9.0.1",
			DNSServers: []string{"8.8.8.8"}, LeaseTime: time.Hour, ClientClass: dhcp.ClientClassResidential})
		if err != nil {
			return "error " + err.Error()
		}
		if err := pm.AddPool(pool); err != nil {
			return "error " + err.Error()
		}
		loader, err := ebpf.NewLoader("lo", logger) // never loaded: every map call returns an error
		if err != nil {
			return "error " + err.Error()
		}
		srv, err := dhcp.NewServer(dhcp.ServerConfig{Interface: "lo", ServerIP: net.IPv4(10, 9, 0, 1)}, loader, pm, logger)
		if err != nil {
			return "error " + err.Error()
		}
		cl, err := bngradius.NewClient(bngradius.ClientConfig{
			Servers: []bngradius.ServerConfig{{Host: "127.0.0.1", Port: r.c.srv.port, Secret: secret}},
			NASID:   "verif-nas", Timeout: 2 * time.Second, Retries: 1,
			RateLimit: bngradius.RateLimitConfig{RequestsPerSecond: 1e9, BurstSize: 1 << 30},
		}, logger)
		if err != nil {
			return "error " + err.Error()
		}
		srv.SetRADIUSClient(cl)
		td := pppoe.NewSessionTeardown(pppoe.TeardownConfig{CleanupTimeout: 20 * time.Second, RADIUSTimeout: 10 * time.Second}, logger)
		sm := pppoe.NewSessionManager()
		td.SetSessionManager(sm)
		td.SetRADIUSClient(cl)
		td.SetSendPADT(func(*pppoe.Session, []pppoe.Tag) {})
		r.dh, r.conn, r.td, r.sm = srv, &fakeConn{}, td, sm
		r.lease, r.gen, r.sid, r.pp, r.ppAll = map[int]bool{}, map[int]int{}, map[string]string{}, map[int]*pppoe.Session{}, map[int]bool{}
		r.ip = map[int]net.IP{}
		r.c.srv.set(true)
		r.c.srv.take()
		return "ok"
	}
	if r.dh == nil {
		return "badop"
	}
	base := runtime.NumGoroutine()
	switch f[0] {
	case "srv":
		if len(f) != 2 || (f[1] != "u" && f[1] != "d") {
			return "badop"
		}
		r.c.srv.set(f[1] == "u")
		return "ok"
	case "final":
		if len(f) != 1 {
			return "badop"
		}
		settle(base)
		if extra := r.c.srv.take(); len(extra) != 0 {
			return fmt.Sprintf("ok stray=%d", len(extra))
		}
		return "ok"
	case "dreq":
		k, ok := num(f[len(f)-1], 'm')
		if len(f) != 2 || !ok {
			return "badop"
		}
		mac := macOf(k)
		var ack *dhcpv4.DHCPv4
		if r.lease[k] {
			// renewal: REQUEST with ciaddr
			ack = r.send(r.pkt(dhcpv4.MessageTypeRequest, mac, nil, r.ip[k]))
		} else {
			off := r.send(r.pkt(dhcpv4.MessageTypeDiscover, mac, nil, nil))
			if off == nil || off.MessageType() != dhcpv4.MessageTypeOffer {
				return "none"
			}
			ack = r.send(r.pkt(dhcpv4.MessageTypeRequest, mac, off.YourIPAddr, nil))
		}
		settle(base)
		if ack == nil || ack.MessageType() != dhcpv4.MessageTypeAck {
			return "nak " + r.acc(fmt.Sprintf("m%d.%d", k, r.gen[k]), mac)
		}
		kind := "renew"
		if !r.lease[k] {
			kind = "new"
			r.lease[k] = true
			r.ip[k] = ack.YourIPAddr
			r.gen[k]++
		}
		return "ack " + kind + " " + r.acc(fmt.Sprintf("m%d.%d", k, r.gen[k]), mac)
	case "drel":
		k, ok := num(f[len(f)-1], 'm')
		if len(f) != 2 || !ok {
			return "badop"
		}
		mac := macOf(k)
		ci := r.ip[k] // the address of the lease (of the last lease, when there is none any more)
		r.send(r.pkt(dhcpv4.MessageTypeRelease, mac, nil, ci))
		settle(base)
		res := "none"
		if r.lease[k] {
			res = "ok"
			delete(r.lease, k)
		}
		return res + " " + r.acc(fmt.Sprintf("m%d.%d", k, r.gen[k]), mac)
	case "pmk":
		k, ok := num(f[len(f)-1], 'p')
		if len(f) != 2 || !ok {
			return "badop"
		}
		if r.ppAll[k] {
			return "exists"
		}
		s, err := r.sm.CreateSession(pmacOf(k), net.HardwareAddr{2, 0xaa, 0, 0, 0, 1})
		if err != nil {
			return "error " + err.Error()
		}
		s.Username = "u" + strconv.Itoa(k)
		s.Authenticated = true
		s.ClientIP = net.IPv4(10, 77, 0, byte(k+1))
		s.SetState(pppoe.StateEstablished)
		r.pp[k], r.ppAll[k] = s, true
		return "ok"
	case "ppadt":
		k, ok := num(f[len(f)-1], 'p')
		if len(f) != 2 || !ok {
			return "badop"
		}
		s := r.pp[k]
		if s == nil {
			return "nosuch"
		}
		r.td.HandleClientPADT(s, pmacOf(k), s.ID)
		settle(base)
		delete(r.pp, k)
		return "ok " + r.acc(fmt.Sprintf("p%d", k), pmacOf(k))
	}
	return "badop"
}

// Gen: every outage pattern around the end of <= 2 DHCP sessions and <= 2 PPPoE sessions (server up or down at
// the session's start, at its end, and back up before `final`), renewals, re-use of a MAC after its release,
// plus seeded random histories.
func (c *comp) Gen(r *rand.Rand, tier string, emit func([]string)) {
	ud := []string{"u", "d"}
	// the witnesses of KF-acct-direct-send
	emit([]string{"new", "dreq m1", "srv d", "drel m1", "srv u", "final"})
	emit([]string{"new", "pmk p1", "srv d", "ppadt p1", "srv u", "final"})
	for _, a := range ud {
		for _, b := range ud {
			emit([]string{"new", "srv " + a, "dreq m1", "dreq m1", "srv " + b, "drel m1", "srv u", "dreq m1", "drel m1", "drel m1", "final"})
			emit([]string{"new", "srv " + a, "pmk p1", "pmk p1", "srv " + b, "ppadt p1", "ppadt p1", "srv u", "final"})
			for _, c2 := range ud {
				emit([]string{"new", "srv " + a, "dreq m1", "dreq m2", "srv " + b, "drel m2", "srv " + c2, "drel m1", "srv u", "final"})
				emit([]string{"new", "pmk p1", "srv " + a, "dreq m1", "srv " + b, "ppadt p1", "srv " + c2, "drel m1", "pmk p2", "ppadt p2", "srv u", "final"})
			}
		}
	}
	n := 60
	if tier == "thorough" {
		n = 1500
	}
	for i := 0; i < n; i++ {
		seq := []string{"new"}
		for j, m := 0, 4+r.Intn(16); j < m; j++ {
			switch x := r.Intn(100); {
			case x < 22:
				seq = append(seq, "srv "+ud[r.Intn(2)])
			case x < 45:
				seq = append(seq, fmt.Sprintf("dreq m%d", 1+r.Intn(3)))
			case x < 65:
				seq = append(seq, fmt.Sprintf("drel m%d", 1+r.Intn(3)))
			case x < 80:
				seq = append(seq, fmt.Sprintf("pmk p%d", 1+r.Intn(3)))
			default:
				seq = append(seq, fmt.Sprintf("ppadt p%d", 1+r.Intn(3)))
			}
		}
		emit(append(seq, "srv u", "final"))
	}
}

func main() {
	hx.Main(&comp{srv: newServer()})
}
