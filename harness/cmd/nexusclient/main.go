// nexusclient drives the real nexus.Client (pkg/nexus/client.go) over an in-memory store:
// AllocateIPForSubscriber, ReleaseSubscriberIP and LookupSubscriberIP on subscriber, ISP and pool
// records that the sequence provisions and EDITS (a pool record may change between two requests of the
// same subscriber).  The client is started (watchers + caches); after every operation the harness
// waits until every store write has been delivered to the client's caches, so the asynchronous watch
// callbacks of the in-memory store never overtake each other.
//
//	fault put on|off   => ok    the store refuses (on) / accepts (off) every write under /subscriber/
//	audit <n>          => s1=<cache>|<store>,…   for s1..sn: the address in the client's cache (GetSubscriber) and in the
//	                            store's record (read through the typed store): <hex> | - (record without address) | x (no record)
package main

import (
	"context"
	"errors"
	"fmt"
	"math/rand"
	"net"
	"strconv"
	"strings"
	"sync/atomic"
	"time"

	"bngverif/flx"
	"bngverif/hx"

	"github.com/codelaboratoryltd/bng/pkg/nexus"
	"go.uber.org/zap"
)

type comp struct{}

func a(s string) uint32 { return flx.U32(net.ParseIP(s)) }

type cidr struct {
	base uint32
	ones int
}

// alternatives a pool record is edited between (disjoint from the other pools' alternatives)
var poolAlts = map[int][]cidr{
	1: {{a("10.0.0.0"), 29}, {a("10.0.1.0"), 29}, {a("10.0.0.0"), 28}, {a("10.0.0.9"), 29}},
	2: {{a("100.64.0.0"), 30}, {a("100.64.8.0"), 24}, {a("100.64.9.9"), 32}},
	3: {{a("172.16.0.0"), 22}, {a("172.16.4.0"), 28}},
}

func randOp(r *rand.Rand, subs int) string {
	s := 1 + r.Intn(subs)
	switch x := r.Intn(100); {
	case x < 38:
		return fmt.Sprintf("alloc s%d", s)
	case x < 52:
		return fmt.Sprintf("release s%d", s)
	case x < 62:
		return fmt.Sprintf("lookup s%d", s)
	case x < 66:
		return []string{"fault put on", "fault put off", "fault put off"}[r.Intn(3)]
	case x < 70:
		return fmt.Sprintf("audit %d", subs)
	case x < 82: // a pool record is created or edited
		p := 1 + r.Intn(3)
		c := hx.Pick(r, poolAlts[p])
		return fmt.Sprintf("pool p%d %x %d", p, c.base, c.ones)
	case x < 86:
		i := 1 + r.Intn(2)
		if r.Intn(5) == 0 {
			return fmt.Sprintf("isp i%d -", i)
		}
		return fmt.Sprintf("isp i%d p%d", i, 1+r.Intn(4))
	default: // (re)provision a subscriber
		p, i := "-", "-"
		if r.Intn(3) > 0 {
			p = fmt.Sprintf("p%d", 1+r.Intn(4)) // p4 never exists
		}
		if r.Intn(2) == 0 {
			i = fmt.Sprintf("i%d", 1+r.Intn(3)) // i3 never exists
		}
		return fmt.Sprintf("sub s%d %s %s", s, p, i)
	}
}

func (comp) Gen(r *rand.Rand, tier string, emit func([]string)) {
	n := 500
	if tier == "thorough" {
		n = 8000
	}
	for i := 0; i < n; i++ {
		subs := 3 + r.Intn(8)
		seq := []string{"new"}
		// most sequences start from a provisioned system
		if r.Intn(4) > 0 {
			for p := 1; p <= 3; p++ {
				c := poolAlts[p][0]
				seq = append(seq, fmt.Sprintf("pool p%d %x %d", p, c.base, c.ones))
			}
			seq = append(seq, "isp i1 p2", "isp i2 p3")
			for s := 1; s <= subs; s++ {
				switch r.Intn(3) {
				case 0:
					seq = append(seq, fmt.Sprintf("sub s%d p1 -", s))
				case 1:
					seq = append(seq, fmt.Sprintf("sub s%d - i%d", s, 1+r.Intn(2)))
				default:
					seq = append(seq, fmt.Sprintf("sub s%d p%d i1", s, 1+r.Intn(3)))
				}
			}
		}
		for j, m := 0, 5+r.Intn(40); j < m; j++ {
			seq = append(seq, randOp(r, subs))
		}
		seq = append(seq, fmt.Sprintf("audit %d", subs), "fault put off")
		for s := 1; s <= subs; s++ {
			seq = append(seq, fmt.Sprintf("alloc s%d", s), fmt.Sprintf("lookup s%d", s))
		}
		seq = append(seq, fmt.Sprintf("audit %d", subs))
		emit(seq)
	}
	// refused writes around every allocation and release: the cache must follow the store
	for i := 0; i < n/2; i++ {
		subs := 2 + r.Intn(3)
		seq := []string{"new"}
		c := poolAlts[1][r.Intn(2)]
		seq = append(seq, fmt.Sprintf("pool p1 %x %d", c.base, c.ones))
		for s := 1; s <= subs; s++ {
			seq = append(seq, fmt.Sprintf("sub s%d p1 -", s))
		}
		for j, m := 0, 4+r.Intn(16); j < m; j++ {
			s := 1 + r.Intn(subs)
			switch r.Intn(8) {
			case 0, 1:
				seq = append(seq, "fault put on", fmt.Sprintf("alloc s%d", s), "fault put off", fmt.Sprintf("lookup s%d", s))
			case 2:
				seq = append(seq, "fault put on", fmt.Sprintf("release s%d", s), "fault put off", fmt.Sprintf("lookup s%d", s))
			case 3, 4:
				seq = append(seq, fmt.Sprintf("alloc s%d", s))
			case 5:
				seq = append(seq, fmt.Sprintf("release s%d", s))
			case 6:
				seq = append(seq, "fault put on", fmt.Sprintf("sub s%d p1 -", s), "fault put off")
			default:
				seq = append(seq, fmt.Sprintf("audit %d", subs))
			}
		}
		seq = append(seq, fmt.Sprintf("audit %d", subs))
		emit(seq)
	}
}

// countingStore counts the writes under the watched prefixes
type countingStore struct {
	*nexus.MemoryStore
	subPuts, ispPuts atomic.Int64
	// failSub: every write under /subscriber/ is refused
	failSub atomic.Bool
}

var errInjected = errors.New("injected store failure")

func (c *countingStore) Put(ctx context.Context, key string, value []byte) error {
	switch {
	case strings.HasPrefix(key, "/subscriber/"):
		if c.failSub.Load() {
			return errInjected
		}
		c.subPuts.Add(1)
	case strings.HasPrefix(key, "/isp/"):
		c.ispPuts.Add(1)
	}
	return c.MemoryStore.Put(ctx, key, value)
}

type run struct {
	c              *nexus.Client
	st             *countingStore
	subCbs, ispCbs atomic.Int64
}

func (comp) NewRun() hx.Run { return &run{} }
func (r *run) Close() {
	if r.c != nil {
		r.c.Stop()
	}
}

// settle waits until every write has reached the client's caches
func (r *run) settle() bool {
	deadline := time.Now().Add(5 * time.Second)
	for r.subCbs.Load() != r.st.subPuts.Load() || r.ispCbs.Load() != r.st.ispPuts.Load() {
		if time.Now().After(deadline) {
			return false
		}
		time.Sleep(20 * time.Microsecond)
	}
	return true
}

func tagged(tok string, tag byte) (string, bool) {
	if len(tok) < 2 || tok[0] != tag {
		return "", false
	}
	if _, err := strconv.Atoi(tok[1:]); err != nil {
		return "", false
	}
	return tok, true
}

func opt(tok string, tag byte) (string, bool) {
	if tok == "-" {
		return "", true
	}
	return tagged(tok, tag)
}

func (r *run) Do(op string) string {
	obs := r.do(op)
	if r.c != nil && !r.settle() {
		return "error watch callbacks did not settle"
	}
	return obs
}

func (r *run) do(op string) string {
	f := hx.Fields(op)
	ctx := context.Background()
	if f[0] == "new" && len(f) == 1 {
		r.st = &countingStore{MemoryStore: nexus.NewMemoryStore()}
		cfg := nexus.DefaultClientConfig()
		cfg.HeartbeatInterval = 24 * time.Hour
		cfg.DeviceID = "verif"
		r.c = nexus.NewClient(cfg, r.st, zap.NewNop())
		r.c.OnSubscriberChange(func(string, *nexus.Subscriber, bool) { r.subCbs.Add(1) })
		r.c.OnISPChange(func(string, *nexus.ISPConfig, bool) { r.ispCbs.Add(1) })
		if err := r.c.Start(); err != nil {
			return "error " + err.Error()
		}
		return "ok"
	}
	if r.c == nil {
		return "badop"
	}
	switch {
	case f[0] == "pool" && len(f) == 4:
		p, ok := tagged(f[1], 'p')
		b, ok2 := flx.ParseHex4(f[2])
		ones, err := strconv.Atoi(f[3])
		if !ok || !ok2 || err != nil || ones < 0 || ones > 32 {
			return "badop"
		}
		if err := r.c.Pools.Put(ctx, p, &nexus.IPPool{ID: p, CIDR: fmt.Sprintf("%s/%d", b, ones), Type: "residential"}); err != nil {
			return "error " + err.Error()
		}
		return "ok"
	case f[0] == "isp" && len(f) == 3:
		i, ok := tagged(f[1], 'i')
		p, ok2 := opt(f[2], 'p')
		if !ok || !ok2 {
			return "badop"
		}
		cfg := &nexus.ISPConfig{ID: i}
		if p != "" {
			cfg.IPv4Pools = []string{p}
		}
		if err := r.c.SaveISP(ctx, cfg); err != nil {
			return "error " + err.Error()
		}
		return "ok"
	case f[0] == "sub" && len(f) == 4:
		s, ok := tagged(f[1], 's')
		p, ok2 := opt(f[2], 'p')
		i, ok3 := opt(f[3], 'i')
		if !ok || !ok2 || !ok3 {
			return "badop"
		}
		if err := r.c.SaveSubscriber(ctx, &nexus.Subscriber{ID: s, IPv4Pool: p, ISPID: i, State: "active"}); err != nil {
			if strings.Contains(err.Error(), "injected") {
				return "error"
			}
			return "error " + err.Error()
		}
		return "ok"
	case f[0] == "fault" && len(f) == 3 && f[1] == "put" && (f[2] == "on" || f[2] == "off"):
		r.st.failSub.Store(f[2] == "on")
		return "ok"
	case f[0] == "audit" && len(f) == 2:
		n, err := strconv.Atoi(f[1])
		if err != nil || n < 0 || n > 64 {
			return "badop"
		}
		show := func(sub *nexus.Subscriber, ok bool) string {
			switch {
			case !ok || sub == nil:
				return "x"
			case sub.IPv4Addr == "":
				return "-"
			}
			return flx.Hex4(net.ParseIP(sub.IPv4Addr))
		}
		var rows []string
		for i := 1; i <= n; i++ {
			id := fmt.Sprintf("s%d", i)
			cached, ok := r.c.GetSubscriber(id)
			stored, err := r.c.Subscribers.Get(ctx, id)
			rows = append(rows, fmt.Sprintf("%s=%s|%s", id, show(cached, ok), show(stored, err == nil)))
		}
		if len(rows) == 0 {
			return "-"
		}
		return strings.Join(rows, ",")
	case f[0] == "alloc" && len(f) == 2:
		s, ok := tagged(f[1], 's')
		if !ok {
			return "badop"
		}
		ip, err := r.c.AllocateIPForSubscriber(ctx, s)
		if err != nil {
			e := err.Error()
			switch {
			case strings.Contains(e, "subscriber "+s+" not found"):
				return "nosub"
			case strings.Contains(e, "no IPv4 pool configured"):
				return "nopool"
			case strings.Contains(e, "get pool"):
				return "nopoolrec"
			case strings.Contains(e, "no usable addresses"):
				return "nohosts"
			case strings.Contains(e, "injected"):
				return "error"
			}
			return "error " + e
		}
		return "ok " + flx.Hex4(net.ParseIP(ip))
	case f[0] == "release" && len(f) == 2:
		s, ok := tagged(f[1], 's')
		if !ok {
			return "badop"
		}
		if err := r.c.ReleaseSubscriberIP(ctx, s); err != nil {
			if strings.Contains(err.Error(), "not found") {
				return "nosub"
			}
			if strings.Contains(err.Error(), "injected") {
				return "error"
			}
			return "error " + err.Error()
		}
		return "ok"
	case f[0] == "lookup" && len(f) == 2:
		s, ok := tagged(f[1], 's')
		if !ok {
			return "badop"
		}
		ip, ok := r.c.LookupSubscriberIP(s)
		if !ok {
			return "none"
		}
		return flx.Hex4(net.ParseIP(ip))
	}
	return "badop"
}

func main() { hx.Main(comp{}) }
