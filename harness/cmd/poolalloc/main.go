// poolalloc drives the real allocator.PoolAllocator (pkg/allocator/store.go: the production path
// NewLocalAllocator → NewPoolAllocator, dhcpv6's address/prefix allocators) over a fault-injecting
// AllocationStore that wraps the real MemoryAllocationStore (with its by-IP conflict index).
//
//	new <fam> <basehex> <ones> <plen> <nsubs>   => ok | invalid
//	alloc s3 <f>        => ok <hex>/<len> | exhausted | error     <f> = 1: SaveAllocation fails
//	release s3 <f>      => ok | notfound | error                  <f> = 1: RemoveAllocation fails
//	lookup s3           => <hex>/<len> | none
//	stats               => <allocated> <total>
//	util                => <kind> <allocated> <total>
//	foreign <hex>/<len>   => ok | error   another pool sharing the store records this prefix (by-IP conflict index)
//	unforeign <hex>/<len> => ok
//	rtstore             => ok | error   MemoryAllocationStore MarshalJSON → UnmarshalJSON into a new store
//	stress <seed>       => ok | viol <monitor> <detail>   8 goroutines allocate/release/look up concurrently on a FRESH
//	                       PoolAllocator + store of the same geometry; afterwards uniqueness, count and store agreement are audited
//	audit               => s1=<store>|<lookup>,…;<unit>=<GetByIP owner>,…;<GetPoolUtilization allocated>
//
// A SECOND PoolAllocator "q" of the same geometry shares the store (two pools with overlapping ranges: every unit of
// one collides with the same unit of the other in the store's by-IP index):
//
//	qalloc s3 <f> | qrelease s3 <f> | qlookup s3 | qaudit     the same operations on pool q
//	xaudit              => <unit>=<holders in p>|<holders in q>|<by-IP owner: p/s1, q/s2, o/… or ->,…
//
// Alias probes: the harness keeps every *net.IPNet it was given (Allocate, Lookup) and every one it handed in
// (`foreign`), and can write through all of them and through whatever the store's getters return:
//
//	scribble            => ok    overwrite the bytes of every kept result and input, and of the Prefix (and the
//	                             SubscriberID / PoolID of GetByIP's *AllocationRecord) of every record returned by
//	                             GetByPool / GetBySubscriber / GetByIP; none of this is an operation of the store
package main

import (
	"context"
	"errors"
	"fmt"
	"math/big"
	"math/rand"
	"net"
	"strconv"
	"strings"
	"sync"

	"bngverif/hx"

	"github.com/codelaboratoryltd/bng/pkg/allocator"
)

type comp struct{}

type faultStore struct {
	*allocator.MemoryAllocationStore
	failSave, failRemove bool
}

var errInjected = errors.New("injected store failure")

func (f *faultStore) SaveAllocation(ctx context.Context, a allocator.AllocationRecord) error {
	if f.failSave {
		return errInjected
	}
	return f.MemoryAllocationStore.SaveAllocation(ctx, a)
}

func (f *faultStore) RemoveAllocation(ctx context.Context, poolID, sub string) error {
	if f.failRemove {
		return errInjected
	}
	return f.MemoryAllocationStore.RemoveAllocation(ctx, poolID, sub)
}

type geo struct {
	fam        int
	base       string
	ones, plen int
}

func ipOf(v *big.Int, fam int) net.IP {
	n := fam / 8
	b := v.Bytes()
	if len(b) > n {
		b = b[len(b)-n:]
	}
	out := make([]byte, n)
	copy(out[n-len(b):], b)
	return net.IP(out)
}

func numOf(ip net.IP, fam int) *big.Int {
	if fam == 32 {
		if v4 := ip.To4(); v4 != nil {
			return new(big.Int).SetBytes(v4)
		}
	}
	return new(big.Int).SetBytes(ip.To16())
}

func (g geo) baseNum() *big.Int { return numOf(net.ParseIP(g.base), g.fam) }
func (g geo) units() int64      { return int64(1) << uint(g.plen-g.ones) }
func (g geo) addrTok(i int64) string {
	v := new(big.Int).Lsh(big.NewInt(i), uint(g.fam-g.plen))
	v.Add(v, g.baseNum())
	return fmt.Sprintf("%s/%d", v.Text(16), g.plen)
}
func (g geo) newOp(n int) string {
	return fmt.Sprintf("new %d %s %d %d %d", g.fam, g.baseNum().Text(16), g.ones, g.plen, n)
}

var geos = []geo{
	{32, "10.0.0.0", 30, 32},
	{32, "10.0.0.0", 29, 32},
	{32, "100.64.0.16", 28, 30},
	{128, "2001:db8:0:8::", 62, 64},
	{128, "2001:db8:0:100::", 56, 58},
}

func flag(r *rand.Rand, pct int) string {
	if r.Intn(100) < pct {
		return "1"
	}
	return "0"
}

func (g geo) randOp(r *rand.Rand, subs int) string {
	s := fmt.Sprintf("s%d", 1+r.Intn(subs))
	switch x := r.Intn(100); {
	case x < 32:
		return "alloc " + s + " " + flag(r, 25)
	case x < 50:
		return "release " + s + " " + flag(r, 25)
	case x < 58:
		return "lookup " + s
	case x < 64:
		return "stats"
	case x < 67:
		return "util"
	case x < 75:
		return "foreign " + g.addrTok(r.Int63n(g.units()))
	case x < 81:
		return "unforeign " + g.addrTok(r.Int63n(g.units()))
	case x < 85:
		return "rtstore"
	default:
		return "audit"
	}
}

// randOp2: the two pools over one store, with writes through every pointer the caller holds
func (g geo) randOp2(r *rand.Rand, subs int) string {
	s := fmt.Sprintf("s%d", 1+r.Intn(subs))
	switch x := r.Intn(100); {
	case x < 18:
		return "alloc " + s + " " + flag(r, 15)
	case x < 36:
		return "qalloc " + s + " " + flag(r, 15)
	case x < 46:
		return "release " + s + " " + flag(r, 20)
	case x < 56:
		return "qrelease " + s + " " + flag(r, 20)
	case x < 60:
		return "lookup " + s
	case x < 64:
		return "qlookup " + s
	case x < 78:
		return "scribble"
	case x < 82:
		return "foreign " + g.addrTok(r.Int63n(g.units()))
	case x < 85:
		return "unforeign " + g.addrTok(r.Int63n(g.units()))
	case x < 87:
		return "rtstore"
	case x < 92:
		return "xaudit"
	case x < 96:
		return "qaudit"
	default:
		return "audit"
	}
}

func (comp) Gen(r *rand.Rand, tier string, emit func([]string)) {
	n := 3000
	if tier == "thorough" {
		n = 50000
	}
	for i := 0; i < n; i++ {
		g := geos[r.Intn(len(geos))]
		subs := 2 + r.Intn(4)
		seq := []string{g.newOp(subs)}
		for j, m := 0, 3+r.Intn(30); j < m; j++ {
			seq = append(seq, g.randOp(r, subs))
		}
		seq = append(seq, "audit", "stats", "rtstore", "audit")
		emit(seq)
	}
	for i := 0; i < n/3; i++ {
		g := geos[r.Intn(len(geos))]
		subs := 2 + r.Intn(3)
		seq := []string{g.newOp(subs)}
		for j, m := 0, 3+r.Intn(24); j < m; j++ {
			op := g.randOp2(r, subs)
			seq = append(seq, op)
			if op == "scribble" && r.Intn(2) == 0 {
				seq = append(seq, "xaudit")
			}
		}
		seq = append(seq, "scribble", "audit", "qaudit", "xaudit", "stats", "rtstore", "xaudit")
		emit(seq)
	}
	for i := 0; i < 20; i++ {
		g := geos[r.Intn(2)]
		emit([]string{g.newOp(3), fmt.Sprintf("stress %d", r.Intn(1<<30)), "stats"})
	}
	if tier == "thorough" {
		// every sequence of 5 mutating operations (each audited) over two subscribers on the 4-unit pool
		g := geos[0]
		alpha := []string{"alloc s1 0", "alloc s1 1", "alloc s2 0", "alloc s2 1", "release s1 0", "release s1 1", "release s2 0",
			"foreign " + g.addrTok(0), "foreign " + g.addrTok(1), "unforeign " + g.addrTok(0), "rtstore"}
		var rec func(prefix []string, depth int)
		rec = func(prefix []string, depth int) {
			if depth == 0 {
				seq := append([]string{g.newOp(3)}, prefix...)
				seq = append(seq, "alloc s3 0", "audit", "stats")
				emit(seq)
				return
			}
			for _, a := range alpha {
				rec(append(prefix[:len(prefix):len(prefix)], a, "audit"), depth-1)
			}
		}
		rec(nil, 5)
		// two pools and the alias probes: every sequence of 5 over the two pools, one subscriber each side plus a rival
		alpha = []string{"alloc s1 0", "alloc s2 0", "qalloc s1 0", "qalloc s1 1", "qalloc s2 0", "release s1 0", "qrelease s1 0",
			"qrelease s2 0", "scribble", "foreign " + g.addrTok(1)}
		rec = func(prefix []string, depth int) {
			if depth == 0 {
				seq := append([]string{g.newOp(3)}, prefix...)
				seq = append(seq, "scribble", "alloc s3 0", "qalloc s3 0", "audit", "qaudit", "xaudit")
				emit(seq)
				return
			}
			for _, a := range alpha {
				rec(append(prefix[:len(prefix):len(prefix)], a, "xaudit"), depth-1)
			}
		}
		rec(nil, 5)
	}
}

type run struct {
	g     geo
	nsubs int
	fs    *faultStore
	pa    *allocator.PoolAllocator
	qa    *allocator.PoolAllocator
	// every *net.IPNet the allocators returned to the harness, and every one the harness passed to the store
	kept, keptIn []*net.IPNet
}

// scribbleNet overwrites the bytes a *net.IPNet points to (not an involution: two writes through two aliases of one
// object do not cancel)
func scribbleNet(n *net.IPNet) {
	if n == nil {
		return
	}
	for i := range n.IP {
		n.IP[i] = 0xEE
	}
	for i := range n.Mask {
		n.Mask[i] = 0x0F
	}
}

func (r *run) keep(n *net.IPNet) *net.IPNet {
	if n != nil {
		r.kept = append(r.kept, n)
	}
	return n
}

func (comp) NewRun() hx.Run { return &run{} }
func (r *run) Close()       {}

func showNet(n *net.IPNet, fam int) string {
	ones, _ := n.Mask.Size()
	return fmt.Sprintf("%s/%d", numOf(n.IP, fam).Text(16), ones)
}

func (r *run) parseNet(tok string) *net.IPNet {
	parts := strings.SplitN(tok, "/", 2)
	v, ok := new(big.Int).SetString(parts[0], 16)
	if !ok {
		v = new(big.Int)
	}
	pl, _ := strconv.Atoi(parts[1])
	return &net.IPNet{IP: ipOf(v, r.g.fam), Mask: net.CIDRMask(pl, r.g.fam)}
}

func classify(err error) string {
	switch {
	case err == nil:
		return "ok"
	case errors.Is(err, allocator.ErrPoolExhausted):
		return "exhausted"
	case errors.Is(err, allocator.ErrNotAllocated):
		return "notfound"
	}
	return "error"
}

func (r *run) Do(op string) string {
	f := hx.Fields(op)
	ctx := context.Background()
	if f[0] == "new" {
		if len(f) != 6 {
			return "badop"
		}
		fam, _ := strconv.Atoi(f[1])
		base, ok := new(big.Int).SetString(f[2], 16)
		ones, _ := strconv.Atoi(f[3])
		pl, _ := strconv.Atoi(f[4])
		ns, _ := strconv.Atoi(f[5])
		if !ok || (fam != 32 && fam != 128) {
			return "badop"
		}
		r.g = geo{fam, ipOf(base, fam).String(), ones, pl}
		r.nsubs = ns
		r.fs = &faultStore{MemoryAllocationStore: allocator.NewMemoryAllocationStore()}
		pa, err := allocator.NewPoolAllocator("p", fmt.Sprintf("%s/%d", r.g.base, ones), pl, r.fs)
		if err != nil {
			return "invalid"
		}
		r.pa = pa
		_, total, _ := pa.Stats()
		r.fs.SetPoolTotal("p", int(total))
		qa, err := allocator.NewPoolAllocator("q", fmt.Sprintf("%s/%d", r.g.base, ones), pl, r.fs)
		if err != nil {
			return "invalid"
		}
		r.qa = qa
		r.fs.SetPoolTotal("q", int(total))
		r.kept, r.keptIn = nil, nil
		return "ok"
	}
	if r.pa == nil {
		return "badop"
	}
	switch f[0] {
	case "alloc", "qalloc":
		pa := r.pa
		if f[0] == "qalloc" {
			pa = r.qa
		}
		r.fs.failSave = f[2] == "1"
		n, err := pa.Allocate(ctx, f[1], "")
		r.fs.failSave = false
		if err != nil {
			return classify(err)
		}
		return "ok " + showNet(r.keep(n), r.g.fam)
	case "release", "qrelease":
		pa := r.pa
		if f[0] == "qrelease" {
			pa = r.qa
		}
		r.fs.failRemove = f[2] == "1"
		err := pa.Release(ctx, f[1])
		r.fs.failRemove = false
		return classify(err)
	case "lookup", "qlookup":
		pa := r.pa
		if f[0] == "qlookup" {
			pa = r.qa
		}
		n := r.keep(pa.Lookup(f[1]))
		if n == nil {
			return "none"
		}
		return showNet(n, r.g.fam)
	case "stats":
		al, tot, _ := r.pa.Stats()
		return fmt.Sprintf("%d %d", al, tot)
	case "util":
		al, tot, u := r.pa.Stats()
		return fmt.Sprintf("%s %d %d", hx.UtilKind(al, tot, u), al, tot)
	case "foreign":
		n := r.parseNet(f[1])
		r.keptIn = append(r.keptIn, n)
		err := r.fs.MemoryAllocationStore.SaveAllocation(ctx, allocator.AllocationRecord{SubscriberID: "x" + f[1], PoolID: "other", Prefix: n})
		if err != nil {
			return "error"
		}
		return "ok"
	case "unforeign":
		_ = r.fs.MemoryAllocationStore.RemoveAllocation(ctx, "other", "x"+f[1])
		return "ok"
	case "rtstore":
		data, err := r.fs.MemoryAllocationStore.MarshalJSON()
		if err != nil {
			return "error"
		}
		ns := allocator.NewMemoryAllocationStore()
		if err := ns.UnmarshalJSON(data); err != nil {
			return "error"
		}
		r.fs.MemoryAllocationStore = ns
		return "ok"
	case "stress":
		seed, _ := strconv.ParseInt(f[1], 10, 64)
		return r.stress(seed)
	case "audit":
		return r.audit(ctx, "p", r.pa)
	case "qaudit":
		return r.audit(ctx, "q", r.qa)
	case "xaudit":
		var rows []string
		for i := int64(0); i < r.g.units() && i < 64; i++ {
			tok := r.g.addrTok(i)
			holders := func(pa *allocator.PoolAllocator) string {
				var h []string
				for k := 1; k <= r.nsubs; k++ {
					sub := fmt.Sprintf("s%d", k)
					if n := pa.Lookup(sub); n != nil && showNet(n, r.g.fam) == tok {
						h = append(h, sub)
					}
				}
				if len(h) == 0 {
					return "-"
				}
				return strings.Join(h, "+")
			}
			o := "-"
			if rec, err := r.fs.GetByIP(ctx, r.parseNet(tok).IP); err == nil && rec != nil {
				switch rec.PoolID {
				case "p", "q":
					o = rec.PoolID + "/" + rec.SubscriberID
				case "other":
					o = "o/" + strings.TrimPrefix(rec.SubscriberID, "x")
				default:
					o = "?/" + rec.PoolID
				}
			}
			rows = append(rows, fmt.Sprintf("%s=%s|%s|%s", tok, holders(r.pa), holders(r.qa), o))
		}
		return strings.Join(rows, ",")
	case "scribble":
		for _, n := range r.kept {
			scribbleNet(n)
		}
		for _, n := range r.keptIn {
			scribbleNet(n)
		}
		r.kept, r.keptIn = nil, nil
		var got []allocator.AllocationRecord
		for _, pool := range []string{"p", "q", "other"} {
			recs, _ := r.fs.GetByPool(ctx, pool)
			got = append(got, recs...)
		}
		for k := 1; k <= r.nsubs; k++ {
			recs, _ := r.fs.GetBySubscriber(ctx, fmt.Sprintf("s%d", k))
			got = append(got, recs...)
		}
		recs, _ := r.fs.GetByPoolType(ctx, allocator.PoolTypeIPv4Address)
		got = append(got, recs...)
		var ptrs []*allocator.AllocationRecord
		for i := int64(0); i < r.g.units() && i < 64; i++ {
			if rec, err := r.fs.GetByIP(ctx, r.parseNet(r.g.addrTok(i)).IP); err == nil && rec != nil {
				ptrs = append(ptrs, rec)
			}
		}
		for i := range got {
			scribbleNet(got[i].Prefix)
		}
		for _, rec := range ptrs {
			scribbleNet(rec.Prefix)
			rec.SubscriberID, rec.PoolID = "scribbled", "scribbled"
		}
		return "ok"
	}
	return "badop"
}

func (r *run) audit(ctx context.Context, pool string, pa *allocator.PoolAllocator) string {
	recs, _ := r.fs.GetByPool(ctx, pool)
	byKey := map[string]*net.IPNet{}
	for _, rec := range recs {
		byKey[rec.SubscriberID] = rec.Prefix
	}
	var parts []string
	for i := 1; i <= r.nsubs; i++ {
		sub := fmt.Sprintf("s%d", i)
		sv := "-"
		if n, ok := byKey[sub]; ok && n != nil {
			sv = showNet(n, r.g.fam) + "@0"
		}
		lv := "-"
		if n := pa.Lookup(sub); n != nil {
			lv = showNet(n, r.g.fam)
		}
		parts = append(parts, fmt.Sprintf("%s=%s|%s", sub, sv, lv))
	}
	var rev []string
	for i := int64(0); i < r.g.units() && i < 64; i++ {
		tok := r.g.addrTok(i)
		o := "-"
		if rec, err := r.fs.GetByIP(ctx, r.parseNet(tok).IP); err == nil && rec != nil && rec.PoolID == pool {
			o = rec.SubscriberID
		}
		rev = append(rev, tok+"="+o)
	}
	al, _, _ := r.fs.GetPoolUtilization(ctx, pool)
	return strings.Join(parts, ",") + ";" + strings.Join(rev, ",") + ";" + strconv.Itoa(al)
}

func (r *run) stress(seed int64) string {
	// the races are rare: many short rounds
	for round := int64(0); round < 30; round++ {
		if v := r.stressOnce(seed + round*7919); v != "ok" {
			return v
		}
	}
	return "ok"
}

func (r *run) stressOnce(seed int64) string {
	ctx := context.Background()
	st := allocator.NewMemoryAllocationStore()
	pa, err := allocator.NewPoolAllocator("p", fmt.Sprintf("%s/%d", r.g.base, r.g.ones), r.g.plen, st)
	if err != nil {
		return "ok"
	}
	const workers, steps, subs = 8, 400, 6
	var wg sync.WaitGroup
	for w := 0; w < workers; w++ {
		wg.Add(1)
		go func(w int) {
			defer wg.Done()
			rr := rand.New(rand.NewSource(seed*131 + int64(w)))
			for i := 0; i < steps; i++ {
				sub := fmt.Sprintf("s%d", 1+rr.Intn(subs))
				switch rr.Intn(8) {
				case 0, 1, 2, 3:
					pa.Allocate(ctx, sub, "")
				case 4, 5:
					pa.Release(ctx, sub)
				case 6:
					pa.Lookup(sub)
				default:
					pa.Stats()
				}
			}
		}(w)
	}
	wg.Wait()
	recs, _ := st.GetByPool(ctx, "p")
	byKey := map[string]string{}
	for _, rec := range recs {
		byKey[rec.SubscriberID] = showNet(rec.Prefix, r.g.fam)
	}
	seen := map[string]string{}
	held := uint64(0)
	for i := 1; i <= subs; i++ {
		sub := fmt.Sprintf("s%d", i)
		lv := "-"
		if n := pa.Lookup(sub); n != nil {
			lv = showNet(n, r.g.fam)
			held++
			if o, dup := seen[lv]; dup {
				return fmt.Sprintf("viol unique %s answered to %s and %s after concurrent callers", lv, o, sub)
			}
			seen[lv] = sub
		}
		sv, ok := byKey[sub]
		if !ok {
			sv = "-"
		}
		if sv != lv {
			return fmt.Sprintf("viol store-agree %s: record %s, allocator %s after concurrent callers", sub, sv, lv)
		}
	}
	if al, _, _ := pa.Stats(); al != held {
		return fmt.Sprintf("viol count reported allocated=%d, holders=%d after concurrent callers", al, held)
	}
	return "ok"
}

func main() { hx.Main(comp{}) }
