package main

import (
	"fmt"
	"math/rand"
	"strings"

	"bngverif/hx"
)

// Generator.
//
//  1. The cross product of the property: RADIUS on/off x establishment prefix (nothing; DISCOVER only; REQUEST/ACK with
//     and without DISCOVER; ACK + renewal: same / changed / gained / omitted circuit-id, renewal of a lease that has
//     run out but was not cleaned up yet) x termination path (RELEASE; DECLINE of the held / of another address;
//     expiry + cleanup; a cleanup pass before expiry; a cleanup pass with a RELEASE / DECLINE / second pass inside its
//     unlock window; every pair of RELEASE/DECLINE/cleanup AT ONCE (split); shutdown) x second termination
//     (none, every path again; quick tier: a seeded third of the pairs), followed by closing observers: what a fresh client is told, and a second session of
//     the same MAC (its own accounting session) ended by RELEASE.
//     The same paths for clients with hardware addresses of 1, 5, 7 and 16 bytes (oddHlen), and REQUESTs with a
//     termination inside their unlock window (raced), and sessions whose QoS / NAT install failed half-way because a
//     kernel map was full, ended by every path (faulted); sessions with a PARTIAL fast-path cache set (subscriber_pools /
//     circuit_id_map / circuit_id_subscribers full at establishment or renewal) and sessions whose cache entries cannot
//     be removed (the Loader's handle of a cache map is write-protected when the session ends, or when a renewal drops
//     the old circuit-id's entries), ended by every path, with what happens to the leftovers afterwards (cachefaulted).
//  2. Random sequences over 3-4 MACs on the 5 usable addresses (conflicts, exhaustion, reuse of addresses that carry
//     residue), short leases, every operation kind.
//  3. Small-scope exhaustive: every sequence of depth 4 over a 22-letter alphabet on two MACs (thorough: all of them,
//     quick: a seeded sample).
func (comp) Gen(r *rand.Rand, tier string, emit func([]string)) {
	crossProduct(r, tier, emit)
	oddHlen(r, tier, emit)
	raced(emit)
	faulted(emit)
	cachefaulted(emit)
	nRand, lenRand := 250, 30
	if tier == "thorough" {
		nRand, lenRand = 6000, 40
	}
	for i := 0; i < nRand; i++ {
		emit(randomSeq(r, 6+r.Intn(lenRand)))
	}
	exhaustive(r, tier, emit)
}

type prefix struct {
	name string
	ops  []string
	ip   string // the address the client holds / was offered afterwards ("" = none)
}

func prefixes() []prefix {
	return []prefix{
		{"nothing", nil, ""},
		{"discover", []string{"disc m1 -"}, "a2"},
		{"discover-relayed", []string{"disc m1 c1"}, "a2"},
		{"ack", []string{"disc m1 -", "req m1 a2 -"}, "a2"},
		{"ack-relayed", []string{"disc m1 c1", "req m1 a2 c1"}, "a2"},
		{"ack-without-discover", []string{"req m1 a3 -"}, "a3"},
		{"ack-without-discover-relayed", []string{"req m1 a3 c2"}, "a3"},
		{"renew", []string{"disc m1 -", "req m1 a2 -", "tick 100", "req m1 a2 -"}, "a2"},
		{"renew-same-circuit", []string{"disc m1 c1", "req m1 a2 c1", "tick 100", "req m1 a2 c1"}, "a2"},
		{"renew-circuit-changed", []string{"disc m1 c1", "req m1 a2 c1", "tick 100", "req m1 a2 c2"}, "a2"},
		{"renew-circuit-changed-twice", []string{"req m1 a2 c1", "req m1 a2 c2", "req m1 a2 c3", "req m1 a2 c1"}, "a2"},
		{"renew-circuit-gained", []string{"disc m1 -", "req m1 a2 -", "tick 100", "req m1 a2 c1"}, "a2"},
		{"renew-circuit-omitted", []string{"disc m1 c1", "req m1 a2 c1", "tick 100", "req m1 a2 -"}, "a2"},
		{"renew-after-expiry", []string{"disc m1 -", "req m1 a2 -", "tick 301", "req m1 a2 -"}, "a2"},
		{"nak-then-ack", []string{"req m1 a1 -", "req m1 a9 -", "req m1 a4 c1"}, "a4"},
	}
}

func terminations(ip string) [][]string {
	if ip == "" {
		ip = "a2"
	}
	dec := "dec m1 " + ip
	return [][]string{
		{"rel m1"},
		{dec},
		{"dec m1 a5"}, // not the held address: no termination
		{"tick 301", "cleanup"},
		{"cleanup"},             // nothing has expired
		{"tick 300", "cleanup"}, // expiry is strict (now.After)
		{"tick 301", "gap rel m1"},
		{"tick 301", "gap " + dec},
		{"tick 301", "gap cleanup"},
		{"split rel m1 / rel m1"},
		{"split rel m1 / " + dec},
		{"split " + dec + " / rel m1"},
		{"split " + dec + " / " + dec},
		{"tick 301", "split rel m1 / cleanup"},
		{"tick 301", "split " + dec + " / cleanup"},
		{"split rel m1 / cleanup"},
		{"shutdown"},
	}
}

func crossProduct(r *rand.Rand, tier string, emit func([]string)) {
	for _, rad := range []string{"radius", "noradius"} {
		for _, p := range prefixes() {
			ts := terminations(p.ip)
			seconds := append([][]string{nil}, ts...)
			for _, t1 := range ts {
				for _, t2 := range seconds {
					// quick: every (prefix, path) alone and a seeded third of the (path, second path) pairs
					if tier != "thorough" && t2 != nil && r.Intn(3) != 0 {
						continue
					}
					seq := []string{"new " + rad + " 300"}
					seq = append(seq, p.ops...)
					seq = append(seq, t1...)
					seq = append(seq, t2...)
					// closing observers
					seq = append(seq, "disc m2 -", "req m1 a6 c3", "rel m1", "rel m1")
					emit(seq)
				}
			}
		}
	}
}

// oddHlen: the same paths for clients whose chaddr is not 6 bytes long (hlen 1, 5, 7, 16): the lease table is keyed by
// the text form of the address, which net.ParseMAC does not read back for these lengths
func oddHlen(r *rand.Rand, tier string, emit func([]string)) {
	ps := prefixes()
	for _, v := range []struct{ mac, opt string }{{"m5", " h1"}, {"m5", " h5"}, {"m6", ""}, {"m7", ""}} {
		for _, rad := range []string{"radius", "noradius"} {
			for _, p := range []prefix{ps[1], ps[3], ps[4], ps[6], ps[9], ps[13]} {
				ts := terminations(p.ip)
				for _, t1 := range ts {
					for _, t2 := range [][]string{nil, {"rel m1"}, {"tick 301", "cleanup"}, {"dec m1 " + p.ip}} {
						if tier != "thorough" && t2 != nil && r.Intn(4) != 0 {
							continue
						}
						seq := []string{"new " + rad + " 300" + v.opt}
						for _, op := range append(append(append([]string{}, p.ops...), t1...), t2...) {
							seq = append(seq, strings.ReplaceAll(op, "m1", v.mac))
						}
						seq = append(seq, "disc m2 -", "req "+v.mac+" a6 c3", "tick 301", "cleanup", "cleanup")
						emit(seq)
					}
				}
			}
		}
	}
}

// raced: a REQUEST (new session with / without DISCOVER, renewal under the same / another circuit-id, renewal of a
// lease that has run out) with every termination inside its unlock window (handleRequest drops the lease lock
// right after the lease insert), then nothing / RELEASE / expiry, then the closing observers
func raced(emit func([]string)) {
	type row struct {
		pre []string
		req string // "<addr> <cid>"
	}
	rows := []row{
		{nil, "a2 -"}, {nil, "a3 c1"},
		{[]string{"disc m1 -"}, "a2 -"}, {[]string{"disc m1 c1"}, "a2 c1"},
		{[]string{"req m1 a2 -"}, "a2 -"}, {[]string{"req m1 a2 c1", "tick 100"}, "a2 c1"},
		{[]string{"req m1 a2 c1", "tick 100"}, "a2 c2"}, {[]string{"req m1 a2 c1"}, "a2 -"},
		{[]string{"req m1 a2 -", "tick 301"}, "a2 -"}, {[]string{"req m1 a2 c1", "req m2 a3 -", "tick 301"}, "a2 c2"},
		{[]string{"req m1 a2 -"}, "a4 -"}, // NAK: the window is not reached
	}
	inners := []string{"rel m1", "dec m1 a2", "dec m1 a3", "dec m1 a5", "cleanup", "rel m2", "dec m2 a3"}
	afters := [][]string{nil, {"rel m1"}, {"tick 301", "cleanup"}, {"dec m1 a2"}, {"req m1 a2 c3", "rel m1"}}
	for _, rad := range []string{"radius", "noradius"} {
		for _, rw := range rows {
			for _, in := range inners {
				for _, af := range afters {
					seq := append([]string{"new " + rad + " 300"}, rw.pre...)
					seq = append(seq, "estgap m1 "+rw.req+" / "+in)
					seq = append(seq, af...)
					seq = append(seq, "disc m2 -", "req m1 a6 c3", "rel m1", "rel m1")
					emit(seq)
				}
			}
		}
	}
}

// faulted: the QoS / NAT install of a new session fails half-way (the QoS ingress map, the QoS egress map or
// subscriber_nat has no free slot: handleRequest only logs the error and the session carries on), then the session is
// ended by every path; closing observers show who gets the address next and what it finds
func faulted(emit func([]string)) {
	ends := [][]string{
		{"rel m1"}, {"dec m1 a2"}, {"tick 301", "cleanup"}, {"tick 301", "req m1 a3 -", "cleanup"},
		{"shutdown"}, {"tick 301", "gap rel m1"}, {"split rel m1 / dec m1 a2"}, {"split dec m1 a2 / rel m1"},
		{"tick 100", "req m1 a2 c2", "rel m1"}, {"estgap m1 a2 - / rel m1", "rel m1"},
	}
	for _, rad := range []string{"radius", "noradius"} {
		for _, f := range []string{"qi", "qe", "nat"} {
			for _, pre := range [][]string{nil, {"disc m1 c1"}} {
				for _, stays := range []bool{false, true} {
					for _, e := range ends {
						seq := []string{"new " + rad + " 300", "fault " + f + " on"}
						seq = append(seq, pre...)
						seq = append(seq, "req m1 a2 c1")
						if !stays {
							seq = append(seq, "fault "+f+" off")
						}
						seq = append(seq, e...)
						seq = append(seq, "disc m2 -", "req m2 a2 -", "req m2 a3 -", "fault "+f+" off", "rel m2", "rel m1")
						emit(seq)
					}
				}
			}
		}
	}
	// two and three faults at once, an install over an existing half-installed entry
	for _, rad := range []string{"radius", "noradius"} {
		emit([]string{"new " + rad + " 300", "fault qi on", "fault nat on", "req m1 a2 -", "fault qe on", "req m2 a3 c1",
			"rel m1", "fault qi off", "req m3 a2 -", "tick 301", "cleanup", "fault nat off", "fault qe off", "req m1 a4 -", "shutdown"})
		emit([]string{"new " + rad + " 300", "fault qi on", "req m1 a2 -", "tick 301", "cleanup", "req m2 a2 -", "fault qi off",
			"req m2 a2 -", "dec m2 a2", "disc m3 -"})
	}
}

// cachefaulted: failing writes of the fast-path cache maps.
//
//	Put failures (`fault sub|cidmap|cid|vlan on`: the map has no free slot): a session established, or renewed under
//	another circuit-id, while one / all of the maps are full carries a partial cache set; it is then ended by every path.
//	Delete failures (`wfault sub|cidmap|cid on`: every write through the Loader's handle fails): the session is
//	established normally, the map is write-protected while it ends (or while a renewal drops the old circuit-id's
//	entries); afterwards: the protection is lifted, a second termination, a cleanup pass, the next holder of the
//	address, the same client coming back (its Put overwrites the leftover, its next termination removes it).
func cachefaulted(emit func([]string)) {
	ends := [][]string{
		{"rel m1"}, {"dec m1 a2"}, {"tick 301", "cleanup"}, {"tick 301", "gap rel m1"}, {"split rel m1 / dec m1 a2"},
		{"tick 100", "req m1 a2 c2", "rel m1"}, {"estgap m1 a2 c1 / rel m1", "rel m1"}, {"shutdown"},
	}
	for _, rad := range []string{"radius", "noradius"} {
		for _, fs := range [][]string{{"sub"}, {"cidmap"}, {"cid"}, {"vlan"}, {"sub", "cidmap", "cid"}} {
			for _, stays := range []bool{false, true} {
				for _, e := range ends {
					seq := []string{"new " + rad + " 300"}
					for _, f := range fs {
						seq = append(seq, "fault "+f+" on")
					}
					seq = append(seq, "req m1 a2 c1")
					if !stays {
						for _, f := range fs {
							seq = append(seq, "fault "+f+" off")
						}
					}
					seq = append(seq, e...)
					seq = append(seq, "disc m2 -", "req m2 a2 c1", "fault "+fs[0]+" off", "req m2 a2 c2", "rel m2", "rel m1")
					emit(seq)
				}
			}
		}
		// a renewal under another circuit-id while the circuit maps are full: the Delete of the old entry frees the slot
		// the Put of the new one takes; a second client finds the maps full
		emit([]string{"new " + rad + " 300", "req m1 a2 c1", "fault cid on", "fault cidmap on", "req m1 a2 c2", "req m2 a3 c1",
			"req m1 a2 -", "req m1 a2 c3", "rel m1", "req m2 a3 c2", "fault cid off", "req m2 a3 c1", "tick 301", "cleanup"})
		for _, ws := range [][]string{{"sub"}, {"cidmap"}, {"cid"}, {"sub", "cidmap", "cid"}} {
			on, off := []string{}, []string{}
			for _, w := range ws {
				on, off = append(on, "wfault "+w+" on"), append(off, "wfault "+w+" off")
			}
			for _, e := range ends {
				for _, after := range [][]string{
					{"rel m1", "tick 1000", "cleanup", "disc m2 -", "req m2 a2 c1", "rel m2"},
					{"req m1 a2 c1", "rel m1"},
				} {
					seq := append([]string{"new " + rad + " 300", "req m1 a2 c1"}, on...)
					seq = append(seq, e...)
					seq = append(seq, off...)
					seq = append(seq, after...)
					emit(seq)
				}
			}
			// the protection is on when the session is established as well (nothing is written, nothing is left), and
			// while a renewal changes the circuit-id (the old circuit-id's entries stay, the new one's are not written)
			seq := append([]string{"new " + rad + " 300"}, on...)
			seq = append(seq, "req m1 a2 c1", "rel m1", "req m1 a2 c1")
			seq = append(seq, off...)
			seq = append(seq, "req m1 a2 c2", "rel m1")
			emit(seq)
			seq = append([]string{"new " + rad + " 300", "req m1 a2 c1"}, on...)
			seq = append(seq, "tick 100", "req m1 a2 c2")
			seq = append(seq, off...)
			seq = append(seq, "req m1 a2 c3", "rel m1", "req m2 a2 c1", "tick 301", "cleanup")
			emit(seq)
		}
	}
}

var prefAddr = map[int]string{1: "a2", 2: "a3", 3: "a4", 4: "a5", 5: "a3", 6: "a4", 7: "a5"}

func randTerm(r *rand.Rand, macs []int, allowCleanup bool) string {
	k := hx.Pick(r, macs)
	switch x := r.Intn(10); {
	case x < 5:
		return fmt.Sprintf("rel m%d", k)
	case x < 8 || !allowCleanup:
		a := prefAddr[k]
		if r.Intn(5) == 0 {
			a = fmt.Sprintf("a%d", 1+r.Intn(7))
		}
		return fmt.Sprintf("dec m%d %s", k, a)
	default:
		return "cleanup"
	}
}

func randomOp(r *rand.Rand, macs []int) string {
	k := hx.Pick(r, macs)
	cid := "-"
	if r.Intn(3) == 0 {
		cid = fmt.Sprintf("c%d", 1+r.Intn(maxCids))
	}
	switch x := r.Intn(100); {
	case x < 14:
		return fmt.Sprintf("disc m%d %s", k, cid)
	case x < 48:
		a := prefAddr[k]
		if r.Intn(6) == 0 {
			a = fmt.Sprintf("a%d", r.Intn(10))
		}
		return fmt.Sprintf("req m%d %s %s", k, a, cid)
	case x < 60:
		return fmt.Sprintf("rel m%d", k)
	case x < 68:
		return randTerm(r, macs, false)
	case x < 78:
		return fmt.Sprintf("tick %d", hx.Pick(r, []int{1, 30, 59, 60, 61, 100, 200, 301}))
	case x < 86:
		return "cleanup"
	case x < 92:
		return "gap " + randTerm(r, macs, true)
	case x < 97:
		// two terminations at once, mostly aimed at the same MAC (anything else is refused when it would deadlock)
		first := randTerm(r, macs, false)
		second := randTerm(r, macs, true)
		if r.Intn(4) != 0 {
			var m int
			fmt.Sscanf(first[4:], "m%d", &m)
			second = hx.Pick(r, []string{fmt.Sprintf("rel m%d", m), fmt.Sprintf("dec m%d %s", m, prefAddr[m]), "cleanup"})
		}
		return "split " + first + " / " + second
	case x < 99:
		if r.Intn(4) == 0 {
			return "shutdown"
		}
		if r.Intn(2) == 0 {
			if r.Intn(2) == 0 {
				return fmt.Sprintf("wfault %s %s", hx.Pick(r, []string{"sub", "cidmap", "cid"}), hx.Pick(r, []string{"on", "off"}))
			}
			return fmt.Sprintf("fault %s %s", hx.Pick(r, []string{"sub", "cidmap", "cid", "vlan"}), hx.Pick(r, []string{"on", "on", "off"}))
		}
		return fmt.Sprintf("fault %s %s", hx.Pick(r, []string{"qi", "qi", "qe", "nat"}), hx.Pick(r, []string{"on", "on", "off"}))
	default:
		a := prefAddr[k]
		return fmt.Sprintf("estgap m%d %s %s / %s", k, a, cid, randTerm(r, macs, true))
	}
}

func randomSeq(r *rand.Rand, n int) []string {
	macs := []int{1, 2, 3, 4}[:3+r.Intn(2)]
	opt := ""
	if r.Intn(3) == 0 { // clients with hardware addresses of 1/5, 7 and 16 bytes
		macs = []int{1, 5, 6, 7}
		opt = hx.Pick(r, []string{" h1", " h5", ""})
	}
	lease := hx.Pick(r, []int{60, 60, 300})
	seq := []string{fmt.Sprintf("new %s %d%s", hx.Pick(r, []string{"radius", "radius", "noradius"}), lease, opt)}
	for i := 0; i < n; i++ {
		seq = append(seq, randomOp(r, macs))
	}
	return seq
}

func exhaustive(r *rand.Rand, tier string, emit func([]string)) {
	alpha := []string{
		"disc m1 -", "req m1 a2 -", "req m1 a2 c1", "req m1 a2 c2", "rel m1", "dec m1 a2",
		"req m2 a2 -", "req m2 a3 c1", "rel m2", "dec m2 a3",
		"tick 301", "cleanup", "gap rel m1", "gap dec m1 a2", "split rel m1 / dec m1 a2", "split dec m1 a2 / cleanup",
		"split rel m2 / rel m1", "estgap m1 a2 c1 / rel m1", "estgap m1 a2 - / dec m1 a2",
		"fault qi on", "fault sub on", "wfault cid on",
	}
	keep := 88 // 22^4 sequences: about 2700 of them in the quick tier
	var rec func(prefix []string, depth int)
	rec = func(prefix []string, depth int) {
		if depth == 0 {
			if tier != "thorough" && r.Intn(keep) != 0 {
				return
			}
			seq := append([]string{"new radius 300"}, prefix...)
			seq = append(seq, "rel m1", "disc m3 -")
			emit(seq)
			return
		}
		for _, x := range alpha {
			rec(append(prefix[:len(prefix):len(prefix)], x), depth-1)
		}
	}
	rec(nil, 4)
}
