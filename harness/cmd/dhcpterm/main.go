// dhcpterm drives the REAL DHCPv4 slow path (pkg/dhcp Server + Pool) together with everything a DHCP session
// holds besides its lease: the REAL nat.Manager and qos.Manager (writing into real kernel maps through their
// verif hooks), the REAL ebpf.Loader with the fast-path cache maps (subscriber_pools, vlan_subscriber_pools,
// circuit_id_map, circuit_id_subscribers) as real kernel maps, and RADIUS accounting through the REAL
// radius.Client against a loopback accounting server.  After every operation everything is read back:
// lease table, pool, NAT allocations (manager table + kernel map), QoS entries (both directions + manager count),
// the keys of the four cache maps and the accounting records received so far (property C16, DHCPv4 paths).
//
// The harness needs virtual time (lease expiry): the drivable binary is the TEST binary of this package
// (`go test -c -tags verif ./cmd/dhcpterm`, see main_test.go).
//
// Line protocol.  The pool is 10.0.0.0/29, gateway a1, usable a2..a6 (a<n> = base + n); m<k> = a MAC;
// c<j> = the j-th circuit-id of THAT MAC ("cid-m<k>-<j>": circuit-ids are never shared between MACs here).
//
//	new radius|noradius <leaseSecs> [h1|h5]   (h1/h5: the hardware-address length of m5; m6 has 7 bytes, m7 has 16)
//	disc m<k> c<j>|-                 DISCOVER (relayed, giaddr set, when a circuit-id is given)
//	req  m<k> a<n> c<j>|-            REQUEST with option 50 = a<n>
//	rel  m<k>                        RELEASE
//	dec  m<k> a<n>                   DECLINE of a<n>
//	tick <secs>                      virtual time passes (no cleanup ticker runs: `cleanup` is explicit)
//	cleanup                          one cleanupExpiredLeases pass
//	gap <rel|dec|cleanup …>          one cleanup pass with the given termination handled BETWEEN its read-locked scan
//	                                 and its write-locked removal; `gap notrun …` when nothing had expired
//	split <rel|dec …> / <rel|dec|cleanup …>
//	                                 two terminations AT ONCE: the first one runs on its own goroutine and is stalled
//	                                 inside its tail (at the NAT manager's pool lock, which the harness holds) after it
//	                                 has taken the lease out of the table; the second one runs to completion; then
//	                                 the first one is let go.  Refused (`badop`) when the second one would need the
//	                                 held lock (it would end a live session of its own).
//	estgap m<k> a<n> c<j>|- / <rel|dec|cleanup …>
//	                                 a REQUEST with the given termination handled inside its unlock window: after
//	                                 handleRequest put the lease into the table and dropped the lease lock, before it
//	                                 sets up cache entries, QoS, NAT and the Accounting-Start; `… notrun` when the
//	                                 REQUEST was refused before that point
//	fault qe|qi|nat|sub|cidmap|cid|vlan on|off
//	                                 the QoS egress / QoS ingress / subscriber_nat / subscriber_pools / circuit_id_map /
//	                                 circuit_id_subscribers / vlan_subscriber_pools kernel map is kept full: every Put of a
//	                                 NEW key fails (E2BIG) until `off`; updates of existing keys and deletes work
//	wfault sub|cidmap|cid on|off     the Loader's handle of that cache map is write-protected: every write through it -
//	                                 Put and Delete alike - fails until `off` (the handle the Loader holds is swapped,
//	                                 through the existing SetMapsForVerif hook, for a closed duplicate of the map's file
//	                                 descriptor; the map itself, which the harness reads back, is untouched)
//	shutdown                         what Server.Start does when its context is cancelled
//
// Observation:  <reply> t=<s> L=<leases> C=<circuit-id index: m<k>.c<j>:<address>:<expiry>> P=<pool bindings> F=<free list, in order> U=<unavailable>
//
//	Q=<qos egress keys> Qi=<qos ingress keys> Qn=<manager count> N=<nat manager table> Nk=<subscriber_nat keys> Nn=<count>
//	Km=<subscriber_pools keys> Kv=<vlan keys> Kc=<circuit_id_subscribers keys> Kh=<circuit_id_map keys>
//	A=<accounting: ordinal:m<k>:<starts>:<stops>[:x],… by Acct-Session-Id in order of first appearance; x = its Stop came first>
package main

import (
	"context"
	"encoding/binary"
	"encoding/hex"
	"fmt"
	"math/rand"
	"net"
	"os"
	"runtime"
	"sort"
	"strconv"
	"strings"
	"sync"
	"syscall"
	"time"

	"bngverif/hx"

	"github.com/cilium/ebpf"
	"github.com/cilium/ebpf/rlimit"
	"github.com/codelaboratoryltd/bng/pkg/dhcp"
	bngebpf "github.com/codelaboratoryltd/bng/pkg/ebpf"
	"github.com/codelaboratoryltd/bng/pkg/nat"
	"github.com/codelaboratoryltd/bng/pkg/qos"
	bngradius "github.com/codelaboratoryltd/bng/pkg/radius"
	"github.com/insomniacslk/dhcp/dhcpv4"
	"go.uber.org/zap"
	"layeh.com/radius"
	"layeh.com/radius/rfc2865"
	"layeh.com/radius/rfc2866"
)

type comp struct{}

// syncWait is testing/synctest.Wait inside the test binary: it returns when every other goroutine of the bubble
// (the Accounting-Start / Accounting-Stop senders the server spawns) has finished.
var syncWait = func() {}

const (
	baseIP  = 0x0a000000
	giaddr  = 0x0a00fe01
	secret  = "s3cret"
	maxMACs = 9
	maxCids = 3
)

// ---------------------------------------------------------------- loopback accounting server (one per process)

type acctRec struct {
	sid  string
	stop bool
	user string
}

type acctSrv struct {
	conn *net.UDPConn
	mu   sync.Mutex
	recs []acctRec
}

var acct *acctSrv

// startAcct is called once, OUTSIDE any synctest bubble (a goroutine blocked in a socket read inside a bubble
// would keep synctest.Wait from ever returning).
func startAcct() {
	c, err := net.ListenUDP("udp4", &net.UDPAddr{IP: net.IPv4(127, 0, 0, 1)})
	if err != nil {
		fmt.Fprintln(os.Stderr, "dhcpterm harness:", err)
		os.Exit(3)
	}
	acct = &acctSrv{conn: c}
	go func() {
		buf := make([]byte, 4096)
		for {
			n, addr, err := c.ReadFromUDP(buf)
			if err != nil {
				return
			}
			pkt, err := radius.Parse(buf[:n], []byte(secret))
			if err != nil || pkt.Code != radius.CodeAccountingRequest {
				continue
			}
			st, err := rfc2866.AcctStatusType_Lookup(pkt)
			if err == nil && (st == rfc2866.AcctStatusType_Value_Start || st == rfc2866.AcctStatusType_Value_Stop) {
				acct.mu.Lock()
				acct.recs = append(acct.recs, acctRec{
					sid:  rfc2866.AcctSessionID_GetString(pkt),
					stop: st == rfc2866.AcctStatusType_Value_Stop,
					user: rfc2865.UserName_GetString(pkt),
				})
				acct.mu.Unlock()
			}
			if b, err := pkt.Response(radius.CodeAccountingResponse).Encode(); err == nil {
				c.WriteToUDP(b, addr)
			}
		}
	}()
}

// ---------------------------------------------------------------- kernel maps (created once per process)

var kmaps map[string]*ebpf.Map

func initKernel() string {
	if kmaps != nil {
		return ""
	}
	_ = rlimit.RemoveMemlock()
	// key/value sizes as declared in bpf/maps.h, bpf/qos_ratelimit.c and bpf/nat44.c (cilium refuses a Put whose
	// Go value has another binary size)
	specs := map[string]*ebpf.MapSpec{
		// the cache maps are small too (`fault sub|cidmap|cid|vlan on`); a run has at most 9 MACs and 27 circuit-ids
		"sub":    {Type: ebpf.Hash, KeySize: 8, ValueSize: 25, MaxEntries: 32},
		"vlan":   {Type: ebpf.Hash, KeySize: 4, ValueSize: 25, MaxEntries: 32},
		"pools":  {Type: ebpf.Hash, KeySize: 4, ValueSize: 28, MaxEntries: 256},
		"stats":  {Type: ebpf.Array, KeySize: 4, ValueSize: 80, MaxEntries: 1},
		"cfg":    {Type: ebpf.Array, KeySize: 4, ValueSize: 16, MaxEntries: 1},
		"cidmap": {Type: ebpf.Hash, KeySize: 8, ValueSize: 8, MaxEntries: 32},
		"cid":    {Type: ebpf.Hash, KeySize: 32, ValueSize: 25, MaxEntries: 32},
		// the QoS and NAT maps are small so that they can be filled up (fault injection: `fault qe|qi|nat on`)
		"qose":   {Type: ebpf.Hash, KeySize: 4, ValueSize: 32, MaxEntries: 16},
		"qosi":   {Type: ebpf.Hash, KeySize: 4, ValueSize: 32, MaxEntries: 16},
		"qosst":  {Type: ebpf.PerCPUArray, KeySize: 4, ValueSize: 32, MaxEntries: 1},
		"natsub": {Type: ebpf.Hash, KeySize: 4, ValueSize: 64, MaxEntries: 16},
	}
	m := map[string]*ebpf.Map{}
	for n, s := range specs {
		km, err := ebpf.NewMap(s)
		if err != nil {
			return "err kernel-map " + n + " " + strings.ReplaceAll(err.Error(), " ", "_")
		}
		m[n] = km
	}
	// write-protected handles: a duplicate of the map's descriptor that has been closed - every operation on it fails
	b := map[string]*ebpf.Map{}
	for _, n := range []string{"sub", "cidmap", "cid"} {
		c, err := m[n].Clone()
		if err != nil {
			return "err kernel-map-clone " + n
		}
		c.Close()
		b[n] = c
	}
	kmaps, broken = m, b
	return ""
}

// broken: per cache map a handle on which every Put / Delete / Lookup fails (`wfault`)
var broken map[string]*ebpf.Map

func mapKeys(m *ebpf.Map) [][]byte {
	var kb, vb []byte
	var keys [][]byte
	it := m.Iterate()
	for it.Next(&kb, &vb) {
		keys = append(keys, append([]byte(nil), kb...))
	}
	return keys
}

func clearMap(m *ebpf.Map) {
	for _, k := range mapKeys(m) {
		_ = m.Delete(k)
	}
}

// ---------------------------------------------------------------- tokens

func ipOf(n int) net.IP {
	ip := make(net.IP, 4)
	binary.BigEndian.PutUint32(ip, uint32(baseIP+n))
	return ip
}

func ipTokNum(v uint32) string {
	if v >= baseIP && v < baseIP+16 {
		return fmt.Sprintf("a%d", v-baseIP)
	}
	return fmt.Sprintf("x%x", v)
}

func ipTok(ip net.IP) string {
	v4 := ip.To4()
	if v4 == nil {
		return "nil"
	}
	return ipTokNum(binary.BigEndian.Uint32(v4))
}

func tagNum(tok string, tag byte) (int, bool) {
	if len(tok) < 2 || tok[0] != tag {
		return 0, false
	}
	n, err := strconv.Atoi(tok[1:])
	if err != nil || n < 0 || n > 99 {
		return 0, false
	}
	return n, true
}

// shortLen is the hardware-address length of m5 in the current run (`new … h1|h5`; 5 when not given).
var shortLen = 5

// macOf: m1..m4, m8, m9 are Ethernet addresses; m5 has hlen 1 or 5 (chosen by `new`), m6 hlen 7, m7 hlen 16 (chaddr may
// be 1..16 bytes long; net.ParseMAC reads the text form back only for 6/8/20 bytes).  Only ONE address per run is
// shorter than 6 bytes: ebpf.MACToUint64 maps every such address to the cache key 0.
func macOf(k int) net.HardwareAddr {
	switch k {
	case 5:
		return net.HardwareAddr{0x02, 0, 0, 0, 5}[5-shortLen:]
	case 6:
		return net.HardwareAddr{0x02, 0, 0, 0, 1, 6, 0xaa}
	case 7:
		return net.HardwareAddr{0x02, 0, 0, 0, 1, 7, 1, 2, 3, 4, 5, 6, 7, 8, 9, 10}
	}
	return net.HardwareAddr{0x02, 0, 0, 0, byte(k >> 8), byte(k)}
}

// macTokStr maps the text form of a hardware address back to its token
func macTokStr(s string) string {
	for k := 0; k <= 99; k++ {
		if macOf(k).String() == s {
			return fmt.Sprintf("m%d", k)
		}
	}
	return "m?" + s
}

// macTokKey maps a subscriber_pools key (ebpf.MACToUint64 of the address) back to the token
func macTokKey(key uint64) string {
	for k := 1; k <= 99; k++ {
		if bngebpf.MACToUint64(macOf(k)) == key {
			return fmt.Sprintf("m%d", k)
		}
	}
	return fmt.Sprintf("m?%x", key)
}

func cidBytes(k, j int) []byte { return []byte(fmt.Sprintf("cid-m%d-%d", k, j)) }

func cidTokBytes(b []byte) string {
	var k, j int
	if n, err := fmt.Sscanf(string(b), "cid-m%d-%d", &k, &j); err == nil && n == 2 && string(cidBytes(k, j)) == string(b) {
		return fmt.Sprintf("m%d.c%d", k, j)
	}
	return "x" + hex.EncodeToString(b)
}

func join(xs []string) string {
	if len(xs) == 0 {
		return "-"
	}
	return strings.Join(xs, ",")
}

// sortToks sorts tokens of the form <letter><number>[.<letter><number>] numerically
func sortToks(xs []string) []string {
	key := func(s string) [2]int {
		var out [2]int
		for i, p := range strings.SplitN(s, ".", 2) {
			n, err := strconv.Atoi(strings.TrimLeft(p, "abcdefghijklmnopqrstuvwxyz?"))
			if err != nil {
				n = 1 << 30
			}
			out[i] = n
		}
		return out
	}
	sort.SliceStable(xs, func(i, j int) bool {
		a, b := key(xs[i]), key(xs[j])
		if a != b {
			return a[0] < b[0] || (a[0] == b[0] && a[1] < b[1])
		}
		return xs[i] < xs[j]
	})
	return xs
}

// ---------------------------------------------------------------- run

type fakeConn struct{ sent [][]byte }

func (c *fakeConn) ReadFrom(p []byte) (int, net.Addr, error) { return 0, nil, os.ErrDeadlineExceeded }
func (c *fakeConn) WriteTo(p []byte, a net.Addr) (int, error) {
	c.sent = append(c.sent, append([]byte(nil), p...))
	return len(p), nil
}
func (c *fakeConn) Close() error                       { return nil }
func (c *fakeConn) LocalAddr() net.Addr                { return &net.UDPAddr{IP: net.IPv4zero, Port: 67} }
func (c *fakeConn) SetDeadline(t time.Time) error      { return nil }
func (c *fakeConn) SetReadDeadline(t time.Time) error  { return nil }
func (c *fakeConn) SetWriteDeadline(t time.Time) error { return nil }

type run struct {
	srv    *dhcp.Server
	pool   *dhcp.Pool
	loader *bngebpf.Loader
	qos    *qos.Manager
	nat    *nat.Manager
	t0     time.Time
	xid    uint32
	radius bool
	full   map[string]bool // kernel maps kept full (fault injection)
	ro     map[string]bool // cache maps whose Loader handle is write-protected (fault injection)
}

// inject hands the Loader its map handles: the real ones, or the broken ones for write-protected maps
func (r *run) inject() {
	h := func(n string) *ebpf.Map {
		if r.ro[n] {
			return broken[n]
		}
		return kmaps[n]
	}
	r.loader.SetMapsForVerif(bngebpf.MapsForVerif{
		SubscriberPools: h("sub"), VLANSubscriberPools: kmaps["vlan"], IPPools: kmaps["pools"],
		Stats: kmaps["stats"], ServerConfig: kmaps["cfg"], CircuitIDMap: h("cidmap"),
		CircuitIDSubscribers: h("cid"),
	})
}

func (comp) NewRun() hx.Run { return &run{} }

func (r *run) Close() { syncWait() }

func (r *run) init(radiusOn bool, leaseSecs int) string {
	if e := initKernel(); e != "" {
		return e
	}
	for _, m := range kmaps {
		if m.Type() == ebpf.Hash {
			clearMap(m)
		}
	}
	acct.mu.Lock()
	acct.recs = nil
	acct.mu.Unlock()
	logger := zap.NewNop()
	loader, err := bngebpf.NewLoader("lo", logger)
	if err != nil {
		return "err loader"
	}
	r.loader, r.ro = loader, map[string]bool{}
	r.inject()
	pm := dhcp.NewPoolManager(loader, logger)
	pool, err := dhcp.NewPool(dhcp.PoolConfig{
		ID: 1, Name: "p", Network: ipOf(0).String() + "/29", Gateway: ipOf(1).String(),
		DNSServers: []string{"8.8.8.8"}, LeaseTime: time.Duration(leaseSecs) * time.Second,
		ClientClass: dhcp.ClientClassResidential,
	})
	if err != nil {
		return "err pool"
	}
	if err := pm.AddPool(pool); err != nil {
		return "err addpool"
	}
	srv, err := dhcp.NewServer(dhcp.ServerConfig{Interface: "lo", ServerIP: ipOf(1)}, loader, pm, logger)
	if err != nil {
		return "err server"
	}
	polm := bngradius.NewPolicyManager()
	for _, p := range bngradius.DefaultPolicies() {
		_ = polm.AddPolicy(p)
	}
	qm, err := qos.NewManager(qos.ManagerConfig{Interface: "lo"}, polm, logger)
	if err != nil {
		return "err qos"
	}
	qm.SetMapsForVerif(kmaps["qose"], kmaps["qosi"], kmaps["qosst"])
	nm, err := nat.NewManager(nat.ManagerConfig{Interface: "lo"}, logger)
	if err != nil {
		return "err nat"
	}
	nm.SetSubscriberNATMapForVerif(kmaps["natsub"])
	if err := nm.AddPublicIP(net.IPv4(203, 0, 113, 1)); err != nil {
		return "err natip"
	}
	srv.SetPolicyManager(polm)
	srv.SetQoSManager(qm)
	srv.SetNATManager(nm)
	if radiusOn {
		port := acct.conn.LocalAddr().(*net.UDPAddr).Port
		cl, err := bngradius.NewClient(bngradius.ClientConfig{
			Servers: []bngradius.ServerConfig{{Host: "127.0.0.1", Port: port - 1, Secret: secret}},
			NASID:   "verif", Timeout: 5 * time.Second, Retries: 1,
		}, logger)
		if err != nil {
			return "err radius"
		}
		srv.SetRADIUSClient(cl)
	}
	r.srv, r.pool, r.loader, r.qos, r.nat, r.radius = srv, pool, loader, qm, nm, radiusOn
	r.full = map[string]bool{}
	r.ro = map[string]bool{}
	r.t0 = time.Now()
	return ""
}

func (r *run) packet(mt dhcpv4.MessageType, k int, requested net.IP, cid []byte) *dhcpv4.DHCPv4 {
	r.xid++
	p, err := dhcpv4.New(
		dhcpv4.WithTransactionID(dhcpv4.TransactionID{byte(r.xid >> 24), byte(r.xid >> 16), byte(r.xid >> 8), byte(r.xid)}),
		dhcpv4.WithHwAddr(macOf(k)),
		dhcpv4.WithMessageType(mt),
	)
	if err != nil {
		panic(err)
	}
	if requested != nil {
		p.UpdateOption(dhcpv4.OptRequestedIPAddress(requested))
	}
	if cid != nil {
		gi := make(net.IP, 4)
		binary.BigEndian.PutUint32(gi, giaddr)
		p.GatewayIPAddr = gi
		o := append(append([]byte{1, byte(len(cid))}, cid...), 2, 4, 'r', 'e', 'm', '1')
		p.Options.Update(dhcpv4.Option{Code: dhcpv4.OptionRelayAgentInformation, Value: dhcpv4.OptionGeneric{Data: o}})
	}
	q, err := dhcpv4.FromBytes(p.ToBytes()) // over the wire format, as on a socket
	if err != nil {
		panic(err)
	}
	return q
}

func (r *run) send(p *dhcpv4.DHCPv4) string {
	conn := &fakeConn{}
	r.srv.HandleDHCPForVerif(conn, &net.UDPAddr{IP: net.IPv4bcast, Port: 68}, p)
	if len(conn.sent) == 0 {
		return "none"
	}
	if len(conn.sent) > 1 {
		return fmt.Sprintf("multi%d", len(conn.sent))
	}
	resp, err := dhcpv4.FromBytes(conn.sent[0])
	if err != nil {
		return "garbled"
	}
	switch resp.MessageType() {
	case dhcpv4.MessageTypeOffer:
		return "offer:" + ipTok(resp.YourIPAddr)
	case dhcpv4.MessageTypeAck:
		return "ack:" + ipTok(resp.YourIPAddr)
	case dhcpv4.MessageTypeNak:
		return "nak"
	}
	return "other"
}

// Filler entries (a full map) are the harness's own and never shown: the last two key bytes are 0xff.  For the 4-byte
// address keys that is a little-endian value >= 0xffff0000; a MAC key (ebpf.MACToUint64) is below 2^48, a circuit-id key
// is zero-padded, and no circuit-id of the universe hashes into that range (checked in isFiller's callers' universe).
func isFiller(k []byte) bool { return len(k) >= 4 && k[len(k)-1] == 0xff && k[len(k)-2] == 0xff }

// fillUp leaves the map without a free slot: a Put of a new key fails (E2BIG), updates and deletes still work
func fillUp(m *ebpf.Map) {
	val := make([]byte, m.ValueSize())
	for i := 0; i < 64; i++ {
		key := make([]byte, m.KeySize())
		key[0], key[len(key)-2], key[len(key)-1] = byte(i), 0xff, 0xff
		if err := m.Put(key, val); err != nil {
			return
		}
	}
}

func dropFillers(m *ebpf.Map) {
	for _, k := range mapKeys(m) {
		if isFiller(k) {
			_ = m.Delete(k)
		}
	}
}

// topUp re-fills the maps whose fault is on (a termination may have freed a slot)
func (r *run) topUp() {
	for name, on := range r.full {
		if on {
			fillUp(kmaps[name])
		}
	}
}

func le32Toks(m *ebpf.Map) []string {
	var out []string
	for _, k := range mapKeys(m) {
		if isFiller(k) {
			continue
		}
		out = append(out, ipTokNum(binary.LittleEndian.Uint32(k)))
	}
	return sortToks(out)
}

func (r *run) snapshot() string {
	byMAC, byCid := r.srv.LeasesForVerif()
	var ls, cs []string
	for _, l := range byCid {
		b, _ := hex.DecodeString(l.Key)
		cs = append(cs, fmt.Sprintf("%s:%s:%d", cidTokBytes(b), ipTok(l.IP), int64(l.ExpiresAt.Sub(r.t0)/time.Second)))
	}
	sortToks(cs)
	for _, l := range byMAC {
		cid := "-"
		if len(l.CircuitID) > 0 {
			cid = cidTokBytes(l.CircuitID) // m<k>.c<j>; the MAC's own circuit-ids are shown as c<j>
			cid = strings.TrimPrefix(cid, macTokStr(l.Key)+".")
		}
		ls = append(ls, fmt.Sprintf("%s:%s:%d:%s", macTokStr(l.Key), ipTok(l.IP), int64(l.ExpiresAt.Sub(r.t0)/time.Second), cid))
	}
	sortToks(ls)
	alloc, avail, unav := r.pool.SnapshotForVerif()
	var ps, fs, us []string
	for k, v := range alloc {
		ps = append(ps, macTokStr(k)+":"+ipTok(v))
	}
	sortToks(ps)
	for _, a := range avail {
		fs = append(fs, ipTok(a))
	}
	for _, u := range unav {
		if ip := net.ParseIP(u); ip != nil {
			us = append(us, ipTok(ip))
		} else {
			us = append(us, "nil")
		}
	}
	sortToks(us)
	// NAT: the manager's table over the address universe, and the kernel map
	var ns []string
	for n := 0; n < 16; n++ {
		if r.nat.GetAllocation(ipOf(n)) != nil {
			ns = append(ns, fmt.Sprintf("a%d", n))
		}
	}
	// cache maps
	var km, kv, kc, kh []string
	for _, k := range mapKeys(kmaps["sub"]) {
		if isFiller(k) {
			continue
		}
		km = append(km, macTokKey(binary.LittleEndian.Uint64(k)))
	}
	for _, k := range mapKeys(kmaps["vlan"]) {
		if isFiller(k) {
			continue
		}
		kv = append(kv, "x"+hex.EncodeToString(k))
	}
	for _, k := range mapKeys(kmaps["cid"]) {
		if isFiller(k) {
			continue
		}
		kc = append(kc, cidTokBytes([]byte(strings.TrimRight(string(k), "\x00"))))
	}
	for _, k := range mapKeys(kmaps["cidmap"]) {
		if isFiller(k) {
			continue
		}
		h := binary.LittleEndian.Uint64(k)
		tok := fmt.Sprintf("x%x", h)
		for mk := 1; mk <= maxMACs; mk++ {
			for j := 1; j <= maxCids; j++ {
				if bngebpf.HashCircuitID(cidBytes(mk, j)) == h {
					tok = fmt.Sprintf("m%d.c%d", mk, j)
				}
			}
		}
		kh = append(kh, tok)
	}
	// accounting: per Acct-Session-Id, in order of first appearance
	acct.mu.Lock()
	recs := append([]acctRec(nil), acct.recs...)
	acct.mu.Unlock()
	type sess struct {
		user          string
		starts, stops int
		stopFirst     bool // the first record of this session was a Stop
	}
	var order []string
	bySid := map[string]*sess{}
	for _, rc := range recs {
		s := bySid[rc.sid]
		if s == nil {
			s = &sess{user: rc.user, stopFirst: rc.stop}
			bySid[rc.sid] = s
			order = append(order, rc.sid)
		}
		if rc.stop {
			s.stops++
		} else {
			s.starts++
		}
	}
	var as []string
	for i, sid := range order {
		s := bySid[sid]
		x := ""
		if s.stopFirst && s.starts > 0 {
			x = ":x" // its Stop reached the server before its Start
		}
		as = append(as, fmt.Sprintf("%d:%s:%d:%d%s", i+1, macTokStr(s.user), s.starts, s.stops, x))
	}
	return fmt.Sprintf("t=%d L=%s C=%s P=%s F=%s U=%s Q=%s Qi=%s Qn=%d N=%s Nk=%s Nn=%d Km=%s Kv=%s Kc=%s Kh=%s A=%s",
		int64(time.Since(r.t0)/time.Second), join(ls), join(cs), join(ps), join(fs), join(us),
		join(le32Toks(kmaps["qose"])), join(le32Toks(kmaps["qosi"])), r.qos.GetSubscriberCount(),
		join(ns), join(le32Toks(kmaps["natsub"])), r.nat.GetAllocationCount(),
		join(sortToks(km)), join(sortToks(kv)), join(sortToks(kc)), join(sortToks(kh)), join(as))
}

// term parses and builds a termination message: rel m<k> | dec m<k> a<n>
func (r *run) termPacket(f []string) (*dhcpv4.DHCPv4, int, bool) {
	switch {
	case len(f) == 2 && f[0] == "rel":
		k, ok := tagNum(f[1], 'm')
		if !ok {
			return nil, 0, false
		}
		return r.packet(dhcpv4.MessageTypeRelease, k, nil, nil), k, true
	case len(f) == 3 && f[0] == "dec":
		k, ok := tagNum(f[1], 'm')
		n, ok2 := tagNum(f[2], 'a')
		if !ok || !ok2 {
			return nil, 0, false
		}
		return r.packet(dhcpv4.MessageTypeDecline, k, ipOf(n), nil), k, true
	}
	return nil, 0, false
}

func (r *run) leaseOf(k int) *dhcp.LeaseForVerif {
	byMAC, _ := r.srv.LeasesForVerif()
	for i := range byMAC {
		if byMAC[i].Key == macOf(k).String() {
			return &byMAC[i]
		}
	}
	return nil
}

func (r *run) anyExpired(except int) bool {
	byMAC, _ := r.srv.LeasesForVerif()
	now := time.Now()
	for _, l := range byMAC {
		if l.Key != macOf(except).String() && now.After(l.ExpiresAt) {
			return true
		}
	}
	return false
}

func (r *run) qosHas(ip net.IP) bool {
	for _, k := range mapKeys(kmaps["qose"]) {
		if binary.LittleEndian.Uint32(k) == binary.BigEndian.Uint32(ip.To4()) {
			return true
		}
	}
	return false
}

func (r *run) splitFirst(p *dhcpv4.DHCPv4, done chan<- string) { done <- r.send(p) }

func (r *run) splitSecond(f []string, done chan<- string) {
	x, _ := r.inner(f)
	done <- x
}

// realNow is the wall clock in seconds (the time package is virtual inside a synctest bubble)
func realNow() int64 {
	var tv syscall.Timeval
	_ = syscall.Gettimeofday(&tv)
	return tv.Sec
}

var stackBuf = make([]byte, 1<<18)

// parked reports whether a goroutine running the named harness function is blocked on a mutex
func parked(fn string) bool {
	buf := stackBuf[:runtime.Stack(stackBuf, true)]
	for _, g := range strings.Split(string(buf), "\n\n") {
		if strings.Contains(g, "dhcpterm.(*run)."+fn+"(") && (strings.Contains(g, "[sync.Mutex.Lock") || strings.Contains(g, "[sync.RWMutex")) {
			return true
		}
	}
	return false
}

// inner runs a termination op (rel / dec / cleanup) and returns its reply
func (r *run) inner(f []string) (string, bool) {
	if len(f) == 1 && f[0] == "cleanup" {
		r.srv.CleanupExpiredForVerif()
		return "ok", true
	}
	p, _, ok := r.termPacket(f)
	if !ok {
		return "", false
	}
	return r.send(p), true
}

func (r *run) Do(op string) string {
	f := hx.Fields(op)
	if len(f) == 0 {
		return "badop"
	}
	if f[0] == "new" {
		if (len(f) != 3 && len(f) != 4) || (f[1] != "radius" && f[1] != "noradius") {
			return "badop"
		}
		secs, err := strconv.Atoi(f[2])
		if err != nil || secs < 1 || secs > 100000 {
			return "badop"
		}
		shortLen = 5
		if len(f) == 4 {
			switch f[3] {
			case "h1":
				shortLen = 1
			case "h5":
				shortLen = 5
			default:
				return "badop"
			}
		}
		if e := r.init(f[1] == "radius", secs); e != "" {
			return e
		}
		return "ok " + r.snapshot()
	}
	if r.srv == nil {
		return "badop"
	}
	var reply string
	switch f[0] {
	case "disc", "req":
		want := 3
		if f[0] == "req" {
			want = 4
		}
		if len(f) != want {
			return "badop"
		}
		k, ok := tagNum(f[1], 'm')
		if !ok || k < 1 || k > maxMACs {
			return "badop"
		}
		var requested net.IP
		if f[0] == "req" {
			n, ok := tagNum(f[2], 'a')
			if !ok || n > 15 {
				return "badop"
			}
			requested = ipOf(n)
		}
		var cid []byte
		if ct := f[len(f)-1]; ct != "-" {
			j, ok := tagNum(ct, 'c')
			if !ok || j < 1 || j > maxCids {
				return "badop"
			}
			cid = cidBytes(k, j)
		}
		mt := dhcpv4.MessageTypeDiscover
		if f[0] == "req" {
			mt = dhcpv4.MessageTypeRequest
		}
		reply = r.send(r.packet(mt, k, requested, cid))
	case "rel", "dec":
		p, _, ok := r.termPacket(f)
		if !ok {
			return "badop"
		}
		reply = r.send(p)
	case "tick":
		if len(f) != 2 {
			return "badop"
		}
		n, err := strconv.Atoi(f[1])
		if err != nil || n < 0 || n > 1000000 {
			return "badop"
		}
		time.Sleep(time.Duration(n) * time.Second)
		reply = "ok"
	case "cleanup":
		if len(f) != 1 {
			return "badop"
		}
		r.srv.CleanupExpiredForVerif()
		reply = "ok"
	case "gap":
		in := f[1:]
		if !(len(in) == 1 && in[0] == "cleanup") {
			if _, _, ok := r.termPacket(in); !ok {
				return "badop"
			}
		}
		reply = "gap notrun"
		r.srv.SetCleanupGapForVerif(func() {
			r.srv.SetCleanupGapForVerif(nil) // a nested cleanup pass must not re-enter
			ir, _ := r.inner(in)
			reply = "gap " + ir
		})
		r.srv.CleanupExpiredForVerif()
		r.srv.SetCleanupGapForVerif(nil)
	case "split":
		sep := -1
		for i, t := range f {
			if t == "/" {
				sep = i
			}
		}
		if sep < 2 || sep == len(f)-1 {
			return "badop"
		}
		first, second := f[1:sep], f[sep+1:]
		p1, k1, ok := r.termPacket(first)
		if !ok {
			return "badop"
		}
		// does the first termination take the lease of its MAC out of the table?
		takes := false
		if l := r.leaseOf(k1); l != nil {
			takes = first[0] == "rel" || l.IP.Equal(p1.RequestedIPAddress())
		}
		// would the second termination need the NAT pool lock the harness is about to hold (would it end a session that
		// is still live once the first one has taken its lease)?
		if len(second) == 1 && second[0] == "cleanup" {
			except := 0
			if takes {
				except = k1
			}
			if r.anyExpired(except) {
				return "badop"
			}
		} else {
			_, k2, ok := r.termPacket(second)
			if !ok {
				return "badop"
			}
			if r.leaseOf(k2) != nil && !(k2 == k1 && takes) {
				return "badop"
			}
		}
		r.nat.HoldPoolForVerif()
		done := make(chan string, 1)
		go r.splitFirst(p1, done)
		// wait until the first termination has either returned or is parked on a mutex (the held lock)
		r1, finished := "", false
		for t0, spins := realNow(), 0; !finished && !(spins%64 == 63 && parked("splitFirst")); spins++ {
			select {
			case r1 = <-done:
				finished = true
			default:
				if realNow()-t0 > 60 {
					r.nat.ReleasePoolForVerif()
					<-done
					syncWait()
					return "stuck " + r.snapshot()
				}
				runtime.Gosched()
			}
		}
		// the second termination must not need the held lock (that was checked above against the state the first one
		// leaves); it runs on a goroutine of its own all the same, so that a handler that does reach the lock (because
		// the first one did not take the lease out of the table) shows as `blocked:` instead of hanging the run
		done2 := make(chan string, 1)
		go r.splitSecond(second, done2)
		r2, fin2 := "", false
		for t0, spins := realNow(), 0; !fin2 && !(spins%64 == 63 && (parked("splitSecond") || realNow()-t0 > 60)); spins++ {
			select {
			case r2 = <-done2:
				fin2 = true
			default:
				runtime.Gosched()
			}
		}
		r.nat.ReleasePoolForVerif()
		if !fin2 {
			r2 = "blocked:" + <-done2
		}
		if !finished {
			r1 = <-done
		}
		stalled := "ran"
		if !finished {
			stalled = "stalled"
		}
		reply = "split " + stalled + " " + r1 + " " + r2
	case "estgap":
		// estgap m<k> a<n> c<j>|- / <rel|dec|cleanup …>
		if len(f) < 6 || f[4] != "/" {
			return "badop"
		}
		k, ok := tagNum(f[1], 'm')
		n, ok2 := tagNum(f[2], 'a')
		if !ok || !ok2 || k < 1 || k > maxMACs || n > 15 {
			return "badop"
		}
		var cid []byte
		if f[3] != "-" {
			j, ok := tagNum(f[3], 'c')
			if !ok || j < 1 || j > maxCids {
				return "badop"
			}
			cid = cidBytes(k, j)
		}
		in := f[5:]
		if !(len(in) == 1 && in[0] == "cleanup") {
			if _, _, ok := r.termPacket(in); !ok {
				return "badop"
			}
		}
		ir := "notrun"
		r.srv.SetRequestGapForVerif(func() {
			r.srv.SetRequestGapForVerif(nil)
			ir, _ = r.inner(in)
			r.topUp()  // a map that is kept full stays full for the rest of the REQUEST
			syncWait() // the Accounting-Stop of the termination (if any) is delivered before the REQUEST goes on
		})
		rr := r.send(r.packet(dhcpv4.MessageTypeRequest, k, ipOf(n), cid))
		r.srv.SetRequestGapForVerif(nil)
		reply = "estgap " + rr + " " + ir
	case "fault":
		// fault qe|qi|nat|sub|cidmap|cid|vlan on|off: that kernel map has no free slot
		if len(f) != 3 || (f[2] != "on" && f[2] != "off") {
			return "badop"
		}
		name := map[string]string{"qe": "qose", "qi": "qosi", "nat": "natsub", "sub": "sub", "cidmap": "cidmap",
			"cid": "cid", "vlan": "vlan"}[f[1]]
		if name == "" {
			return "badop"
		}
		r.full[name] = f[2] == "on"
		if f[2] == "off" {
			dropFillers(kmaps[name])
		}
		reply = "ok"
	case "wfault":
		// wfault sub|cidmap|cid on|off: every write through the Loader's handle of that map fails
		if len(f) != 3 || (f[2] != "on" && f[2] != "off") || broken[f[1]] == nil {
			return "badop"
		}
		r.ro[f[1]] = f[2] == "on"
		r.inject()
		reply = "ok"
	case "shutdown":
		if len(f) != 1 {
			return "badop"
		}
		ctx, cancel := context.WithCancel(context.Background())
		cancel()
		if err := r.srv.Start(ctx); err != nil {
			reply = "nobind" // no permission / no such interface: the shutdown branch itself was not reached
		} else {
			reply = "down"
		}
	default:
		return "badop"
	}
	syncWait()
	r.topUp()
	return reply + " " + r.snapshot()
}

func main() {
	fmt.Fprintln(os.Stderr, "dhcpterm: build the harness as a test binary (go test -c -tags verif ./cmd/dhcpterm): it needs testing/synctest")
	os.Exit(2)
}

var _ = rand.Intn
