// dist drives the real allocator.DistributedAllocator (pkg/allocator/distributed.go) over a harness-provided
// Store that enumerates Query results in a caller-chosen permutation and fails store calls on request;
// a second kind of sequence (`newrt …`) runs an allocator and its serialise/restore copy side by side.
//
//	new session|lease <fam> <basehex> <ones> <plen> <grace> <nsubs>  => ok | invalid
//	alloc s3 <f>          => ok <hex>/<len> | exhausted | error      <f> = 1: the store Put fails
//	allocmac s3 <f>       => the same through AllocateWithMAC (the DHCP path)
//	release s3 <f>        => ok | notfound | error                   <f> = 1: the store Delete fails
//	renew s3 <g><p>       => ok | notfound | error                   flags for the store Get and Put
//	get s3                => <hex>/<len> | none
//	owner <hex>/<len>     => s3 | none
//	stats                 => <allocated> <total>
//	util                  => <kind> <allocated> <total>   DistributedStats.Utilization: zero | ratio | percent | nan | other
//	restart <seed> [<q>]  => ok | error   abandon the instance (crash), new instance over the same store, Start();
//	                                 Query enumerates the sorted keys permuted by the Lehmer code of <seed>; <q> = 1: the
//	                                 Query of the load step fails once — `error` = Start refused, the node is DOWN: every
//	                                 operation answers `down` until the next restart
//	The store echoes every successful Delete the allocator issues to the watch callback (as nexus.MemoryStore does for a
//	node's own writes), delivered right after the operation that caused it.
//	tick <seed> <q>       => <epoch> lease mode: AdvanceEpoch + cleanupExpiredFromStore (<q> = 1: its Query fails)
//	tickrace <seed> s3    => <epoch> <answer of Allocate(s3)>   lease mode: one epochLoop iteration during which another
//	                                 goroutine calls Allocate(s3) at the moment the store cleanup issues its first Delete
//	                                 (or right after the tick when there is nothing to delete / the tick holds the lock)
//	remoteput s3 <hex>/<len> <epoch> => ok <get after> <GetByPrefix of the prefix before> <subscriber whose STORE record
//	                                    names the prefix before> <current epoch>
//	remotedel s3          => ok
//	restartgap <seed> put s3 <hex>/<len> <epoch>  => the observation of `remoteput` (Get after, GetByPrefix and store owner
//	                                 of the prefix right after the load, current epoch)
//	restartgap <seed> del s3      => ok
//	                                 crash + restart during which ANOTHER node changes the store right after the Query of
//	                                 Start's load step was answered: the change is in the store and not in the snapshot.
//	                                 The store stub notifies whoever is watching at that moment; the notification is
//	                                 delivered when Start has returned (a real store delivers it on another goroutine, which
//	                                 waits for the allocator's lock).  A plain restart with the same seed runs first, so that
//	                                 the "right after the load" answers can be observed (Start is deterministic in store + seed).
//	stress <seed>         => ok | viol <monitor> <detail>   8 goroutines Allocate/AllocateWithMAC/Renew/Release/Get (one of them
//	                         ticks the epoch in lease mode) on a FRESH allocator + store; afterwards uniqueness, both lookup
//	                         directions, count and (session mode) store agreement are audited
//	audit                 => s1=<store>|<get>,s2=…;<unit>=<GetByPrefix>,…
//	                         store = <hex>/<len>@<epoch> | -   get = <hex>/<len> | -   one reverse row per unit of the pool
//
//	newrt bitmap <fam> <basehex> <ones> <plen> | newrt epoch <basehex> <ones> <plen> <grace>   => ok | invalid
//	  alloc|release|renew s3, advance, setalloc s3 <hex>/<len>, lookup s3, owner <hex>[/<len>], stats
//	  fork                => ok      from here on every op runs on the allocator AND on a copy restored from
//	                                 its JSON; the observation is  <original> | <restored>
//	  probe <nsubs>       => every read-only query at once: s1=<lookup>,…;<unit>=<owner>,…;<stats>
package main

import (
	"context"
	"encoding/json"
	"errors"
	"fmt"
	"math/big"
	"math/rand"
	"net"
	"sort"
	"strconv"
	"strings"
	"sync"
	"time"

	"bngverif/hx"

	"github.com/codelaboratoryltd/bng/pkg/allocator"
)

type comp struct{}

// ---------------------------------------------------------------- the store

type store struct {
	data  map[string][]byte
	fails []bool // consumed one per store call of the current op
	seed  uint64 // permutation of the next Query
	cb    func(key string, value []byte, deleted bool)
	// beforeDelete, when set, runs once just before the next Delete takes effect
	beforeDelete func()
	// keys deleted through Delete whose watch notification is still to be delivered
	echo []string
	// afterQuery, when set, runs once when the next Query has computed its answer (before it returns)
	afterQuery func()
	// notifications of remote changes made while a Start was running, to be delivered when it has returned
	pending []note
}

type note struct {
	key     string
	value   []byte
	deleted bool
}

var errInjected = errors.New("injected store failure")

func (s *store) next() bool {
	if len(s.fails) == 0 {
		return false
	}
	f := s.fails[0]
	s.fails = s.fails[1:]
	return f
}

func (s *store) Get(ctx context.Context, key string) ([]byte, error) {
	if s.next() {
		return nil, errInjected
	}
	v, ok := s.data[key]
	if !ok {
		return nil, errors.New("key not found")
	}
	return v, nil
}

func (s *store) Put(ctx context.Context, key string, value []byte) error {
	if s.next() {
		return errInjected
	}
	s.data[key] = value
	return nil
}

func (s *store) Delete(ctx context.Context, key string) error {
	if h := s.beforeDelete; h != nil {
		s.beforeDelete = nil
		h()
	}
	if s.next() {
		return errInjected
	}
	delete(s.data, key)
	s.echo = append(s.echo, key)
	return nil
}

// The protocol names subscribers s1, s2, …; the REAL subscriber ids handed to the allocator are opaque strings that
// may contain "/" (nothing escapes them in the store key): odd K ↦ "K", even K ↦ "olt/<K-1>", so the last path
// segment of an even subscriber's id is the whole id of its odd neighbour.
func subID(tok string) string {
	k, err := strconv.Atoi(strings.TrimPrefix(tok, "s"))
	if err != nil || !strings.HasPrefix(tok, "s") {
		return tok
	}
	if k%2 == 0 {
		return fmt.Sprintf("olt/%d", k-1)
	}
	return strconv.Itoa(k)
}

func subTok(id string) string {
	if rest, ok := strings.CutPrefix(id, "olt/"); ok {
		if k, err := strconv.Atoi(rest); err == nil {
			return fmt.Sprintf("s%d", k+1)
		}
	}
	if k, err := strconv.Atoi(id); err == nil {
		return fmt.Sprintf("s%d", k)
	}
	return id
}

func subNum(key string) int {
	n, _ := strconv.Atoi(strings.TrimPrefix(subTok(strings.TrimPrefix(key, "/allocation/p/")), "s"))
	return n
}

func (s *store) Query(ctx context.Context, prefix string) ([]allocator.KeyValue, error) {
	if s.next() {
		return nil, errInjected
	}
	var keys []string
	for k := range s.data {
		if strings.HasPrefix(k, prefix) {
			keys = append(keys, k)
		}
	}
	sort.Slice(keys, func(i, j int) bool { return subNum(keys[i]) < subNum(keys[j]) })
	// Lehmer code of the seed picks the enumeration order
	n := s.seed
	var out []allocator.KeyValue
	for len(keys) > 0 {
		i := int(n % uint64(len(keys)))
		n /= uint64(len(keys))
		out = append(out, allocator.KeyValue{Key: keys[i], Value: s.data[keys[i]]})
		keys = append(keys[:i], keys[i+1:]...)
	}
	if h := s.afterQuery; h != nil {
		s.afterQuery = nil
		h()
	}
	return out, nil
}

// remoteWrite is another node's write: the store changes, and whoever is watching NOW is notified (later)
func (s *store) remoteWrite(key string, value []byte, deleted bool) {
	if deleted {
		delete(s.data, key)
	} else {
		s.data[key] = value
	}
	if s.cb != nil {
		s.pending = append(s.pending, note{key, value, deleted})
	}
}

func (s *store) Watch(prefix string, cb func(key string, value []byte, deleted bool)) { s.cb = cb }

// ---------------------------------------------------------------- geometry helpers

func ipOf(v *big.Int, fam int) net.IP {
	n := fam / 8
	b := v.Bytes()
	if len(b) > n {
		b = b[len(b)-n:]
	}
	out := make([]byte, n)
	copy(out[n-len(b):], b)
	return net.IP(out)
}

func numOf(ip net.IP, fam int) *big.Int {
	if fam == 32 {
		if v4 := ip.To4(); v4 != nil {
			return new(big.Int).SetBytes(v4)
		}
	}
	return new(big.Int).SetBytes(ip.To16())
}

func showNet(n *net.IPNet, fam int) string {
	ones, _ := n.Mask.Size()
	return fmt.Sprintf("%s/%d", numOf(n.IP, fam).Text(16), ones)
}

func parseNet(tok string, fam int) *net.IPNet {
	parts := strings.SplitN(tok, "/", 2)
	v, ok := new(big.Int).SetString(parts[0], 16)
	if !ok {
		v = new(big.Int)
	}
	pl := fam
	if len(parts) == 2 {
		pl, _ = strconv.Atoi(parts[1])
	}
	return &net.IPNet{IP: ipOf(v, fam), Mask: net.CIDRMask(pl, fam)}
}

type geo struct {
	mode  string
	fam   int
	base  string
	ones  int
	plen  int
	grace int
}

func (g geo) baseNum() *big.Int { return numOf(net.ParseIP(g.base), g.fam) }
func (g geo) newOp(nsubs int) string {
	return fmt.Sprintf("new %s %d %s %d %d %d %d", g.mode, g.fam, g.baseNum().Text(16), g.ones, g.plen, g.grace, nsubs)
}
func (g geo) units() int64 { return int64(1) << uint(g.plen-g.ones) }
func (g geo) step() *big.Int {
	if g.mode == "lease" {
		return big.NewInt(1)
	}
	return new(big.Int).Lsh(big.NewInt(1), uint(g.fam-g.plen))
}
func (g geo) outLen() int {
	if g.mode == "lease" {
		return 32
	}
	return g.plen
}
func (g geo) addrTok(i int64) string {
	v := new(big.Int).Mul(big.NewInt(i), g.step())
	v.Add(v, g.baseNum())
	if v.Sign() < 0 {
		v.SetInt64(0)
	}
	return fmt.Sprintf("%s/%d", v.Text(16), g.outLen())
}

var geos = []geo{
	{"session", 32, "10.0.0.0", 29, 32, 0},
	{"session", 32, "192.168.7.4", 30, 32, 0},
	{"session", 32, "100.64.0.16", 28, 30, 0},
	{"session", 128, "2001:db8:0:8::", 62, 64, 0},
	{"session", 32, "10.0.0.0", 29, 32, 0},
	{"lease", 32, "10.0.0.0", 29, 32, 1},
	{"lease", 32, "10.0.0.0", 29, 32, 2},
	{"lease", 32, "192.168.7.0", 28, 32, 1},
	{"lease", 32, "10.0.0.0", 29, 32, 1},
}

func flag(r *rand.Rand, pct int) string {
	if r.Intn(100) < pct {
		return "1"
	}
	return "0"
}

func (g geo) randAddr(r *rand.Rand) string {
	n := g.units()
	switch r.Intn(12) {
	case 0:
		return g.addrTok(n) // just beyond the pool
	case 1: // wrong prefix length
		t := g.addrTok(r.Int63n(n))
		return t[:strings.Index(t, "/")] + fmt.Sprintf("/%d", g.outLen()-1)
	}
	return g.addrTok(r.Int63n(n))
}

func (g geo) randOp(r *rand.Rand, subs int) string {
	s := fmt.Sprintf("s%d", 1+r.Intn(subs))
	x := r.Intn(100)
	switch {
	case x < 24:
		if r.Intn(3) == 0 {
			return "allocmac " + s + " " + flag(r, 20)
		}
		return "alloc " + s + " " + flag(r, 20)
	case x < 35:
		return "release " + s + " " + flag(r, 25)
	case x < 42:
		return "renew " + s + " " + flag(r, 15) + flag(r, 20)
	case x < 46:
		return "get " + s
	case x < 50:
		return "owner " + g.randAddr(r)
	case x < 52:
		return "stats"
	case x < 53:
		return "util"
	case x < 62:
		if r.Intn(6) == 0 {
			return fmt.Sprintf("restart %d 1", r.Intn(720))
		}
		return fmt.Sprintf("restart %d", r.Intn(720))
	case x < 71:
		if g.mode == "lease" {
			if r.Intn(5) == 0 {
				return fmt.Sprintf("tickrace %d %s", r.Intn(720), s)
			}
			return fmt.Sprintf("tick %d %s", r.Intn(720), flag(r, 10))
		}
		return "audit"
	case x < 80:
		ep := []string{"0", "2", "3", "1000000"}[r.Intn(4)]
		return "remoteput " + s + " " + g.randAddr(r) + " " + ep
	case x < 84:
		return "remotedel " + s
	case x < 90:
		if r.Intn(4) == 0 {
			return fmt.Sprintf("restartgap %d del %s", r.Intn(720), s)
		}
		ep := []string{"0", "2", "1000000"}[r.Intn(3)]
		return fmt.Sprintf("restartgap %d put %s %s %s", r.Intn(720), s, g.randAddr(r), ep)
	default:
		return "audit"
	}
}

func (comp) Gen(r *rand.Rand, tier string, emit func([]string)) {
	n, nrt := 4000, 1500
	if tier == "thorough" {
		n, nrt = 60000, 20000
	}
	for i := 0; i < n; i++ {
		g := geos[r.Intn(len(geos))]
		subs := 2 + r.Intn(4)
		seq := []string{g.newOp(subs)}
		if g.mode == "lease" {
			for k := r.Intn(4); k > 0; k-- {
				seq = append(seq, "tick 0 0")
			}
		}
		for j, m := 0, 3+r.Intn(30); j < m; j++ {
			op := g.randOp(r, subs)
			seq = append(seq, op)
			if strings.HasPrefix(op, "remoteput") || strings.HasPrefix(op, "restart") || strings.HasPrefix(op, "remotedel") {
				seq = append(seq, "audit")
			}
		}
		seq = append(seq, "audit", fmt.Sprintf("restart %d", r.Intn(720)), "audit", "stats", "util")
		emit(seq)
	}
	// another node allocates the LOWEST FREE unit for a newcomer while this node restarts (the window between the
	// Query and the Watch of Start): the node must not hand that unit to the next subscriber
	for i := 0; i < n/10; i++ {
		g := geos[r.Intn(len(geos))]
		subs := 3 + r.Intn(2)
		lo := int64(0)
		if g.mode == "lease" {
			lo = 1
		}
		holders := r.Intn(3)
		seq := []string{g.newOp(subs + 1)}
		for k := 1; k <= holders; k++ {
			seq = append(seq, fmt.Sprintf("alloc s%d 0", k))
		}
		seq = append(seq, fmt.Sprintf("restartgap %d put s%d %s 0", r.Intn(720), holders+1, g.addrTok(lo+int64(holders))), "audit",
			fmt.Sprintf("alloc s%d 0", holders+2), "audit", fmt.Sprintf("get s%d", holders+1))
		if holders > 0 {
			seq = append(seq, fmt.Sprintf("restartgap %d del s1", r.Intn(720)), "audit", fmt.Sprintf("alloc s%d 0", subs+1), "audit")
		}
		seq = append(seq, fmt.Sprintf("restart %d", r.Intn(720)), "audit", "stats")
		emit(seq)
	}
	// replicated MOVES: a remote put moves a known subscriber to another prefix, a second remote put hands the
	// vacated prefix to a different subscriber; every step audited in both directions, then a restart
	for i := 0; i < n/8; i++ {
		g := geos[r.Intn(len(geos))]
		subs := 3 + r.Intn(3)
		u := g.units()
		lo := int64(0)
		if g.mode == "lease" {
			lo, u = 1, u-2 // usable slots
		}
		perm := r.Perm(int(u))
		seq := []string{g.newOp(subs)}
		holders := 1 + r.Intn(2)
		for k := 1; k <= holders; k++ {
			seq = append(seq, fmt.Sprintf("alloc s%d 0", k))
		}
		seq = append(seq, "audit")
		mover := 1 + r.Intn(holders)
		other := holders + 1
		free := lo + int64(perm[0])
		if free < lo+int64(holders) && int(u) > holders { // prefer a unit nobody holds yet
			free = lo + int64(holders) + int64(perm[0])%(u-int64(holders))
		}
		vacated := lo + int64(mover-1) // first-free allocation gave unit (mover-1) to s<mover>
		seq = append(seq, fmt.Sprintf("remoteput s%d %s 1000000", mover, g.addrTok(free)), "audit")
		if r.Intn(3) == 0 {
			seq = append(seq, fmt.Sprintf("restart %d", r.Intn(720)), "audit")
		}
		seq = append(seq, fmt.Sprintf("remoteput s%d %s 1000000", other, g.addrTok(vacated)), "audit")
		for j, m := 0, r.Intn(6); j < m; j++ {
			op := g.randOp(r, subs)
			seq = append(seq, op)
			if strings.HasPrefix(op, "remoteput") || strings.HasPrefix(op, "restart") {
				seq = append(seq, "audit")
			}
		}
		seq = append(seq, "audit", fmt.Sprintf("restart %d", r.Intn(720)), "audit", "stats")
		emit(seq)
	}
	// leases kept alive by repeated Allocate / AllocateWithMAC (no Renew, no store failure) across epoch ticks:
	// record and lease must stay together, also across a restart
	for i := 0; i < n/10; i++ {
		g := geos[5+r.Intn(3)]
		subs := 2 + r.Intn(3)
		seq := []string{g.newOp(subs + 2)}
		for k := 1; k <= subs; k++ {
			seq = append(seq, fmt.Sprintf("alloc s%d 0", k))
		}
		for j, m := 0, 2+r.Intn(6); j < m; j++ {
			seq = append(seq, fmt.Sprintf("tick %d 0", r.Intn(24)))
			for k := 1; k <= subs; k++ {
				switch r.Intn(4) {
				case 0:
					seq = append(seq, fmt.Sprintf("alloc s%d 0", k))
				case 1:
					seq = append(seq, fmt.Sprintf("allocmac s%d 0", k))
				case 2:
					seq = append(seq, fmt.Sprintf("renew s%d 00", k))
				}
			}
			seq = append(seq, "audit")
		}
		// a newcomer asks right after the ticks: it must not be given the address of a lease that was kept alive
		seq = append(seq, fmt.Sprintf("alloc s%d 0", subs+1), "audit")
		seq = append(seq, fmt.Sprintf("restart %d", r.Intn(24)), "audit", "alloc s1 0", fmt.Sprintf("alloc s%d 0", subs+2), "audit")
		emit(seq)
	}
	// restart on a store that holds records with the load Query failing: the node must not come up empty
	for i := 0; i < n/16; i++ {
		g := geos[r.Intn(len(geos))]
		subs := 2 + r.Intn(3)
		seq := []string{g.newOp(subs + 1)}
		for k := 1; k <= subs; k++ {
			seq = append(seq, fmt.Sprintf("alloc s%d 0", k))
		}
		seq = append(seq, "audit", fmt.Sprintf("restart %d 1", r.Intn(24)), "audit", fmt.Sprintf("alloc s%d 0", subs+1), "get s1", "audit",
			fmt.Sprintf("restart %d", r.Intn(24)), "audit")
		emit(seq)
	}
	for i := 0; i < 10; i++ {
		g := geos[r.Intn(len(geos))]
		emit([]string{g.newOp(3), fmt.Sprintf("stress %d", r.Intn(1<<30)), "audit"})
	}
	for i := 0; i < nrt; i++ {
		emit(genRT(r))
	}
	if tier == "thorough" {
		exhaustive(emit)
	}
}

// genRT: an allocator and its serialise/restore copy, run side by side after `fork`
func genRT(r *rand.Rand) []string {
	subs := 2 + r.Intn(4)
	var seq []string
	var ops func() string
	var move func() []string
	if r.Intn(2) == 0 {
		g := []geo{{"session", 32, "10.0.0.0", 29, 32, 0}, {"session", 32, "100.64.0.16", 28, 30, 0}, {"session", 128, "2001:db8:0:8::", 62, 64, 0}}[r.Intn(3)]
		seq = append(seq, fmt.Sprintf("newrt bitmap %d %s %d %d", g.fam, g.baseNum().Text(16), g.ones, g.plen))
		move = func() []string {
			// s1 takes the first free unit, then is moved to the last unit of the pool
			return []string{"alloc s1", "setalloc s1 " + g.addrTok(g.units()-1)}
		}
		ops = func() string {
			s := fmt.Sprintf("s%d", 1+r.Intn(subs))
			switch x := r.Intn(100); {
			case x < 35:
				return "alloc " + s
			case x < 55:
				return "release " + s
			case x < 70:
				return "setalloc " + s + " " + g.addrTok(r.Int63n(g.units()))
			case x < 80:
				return "lookup " + s
			case x < 90:
				return "owner " + g.addrTok(r.Int63n(g.units()))
			default:
				return "stats"
			}
		}
	} else {
		g := geo{"lease", 32, "10.0.0.0", 29, 32, 1 + r.Intn(2)}
		seq = append(seq, fmt.Sprintf("newrt epoch %s %d %d %d", g.baseNum().Text(16), g.ones, g.plen, g.grace))
		ops = func() string {
			s := fmt.Sprintf("s%d", 1+r.Intn(subs))
			switch x := r.Intn(100); {
			case x < 30:
				return "alloc " + s
			case x < 45:
				return "release " + s
			case x < 55:
				return "renew " + s
			case x < 72:
				return "advance"
			case x < 82:
				return "lookup " + s
			case x < 92:
				t := g.addrTok(r.Int63n(g.units()))
				return "owner " + t[:strings.Index(t, "/")]
			default:
				return "stats"
			}
		}
	}
	for j, m := 0, 2+r.Intn(14); j < m; j++ {
		seq = append(seq, ops())
	}
	if move != nil && r.Intn(2) == 0 {
		// the fork right after a SetAllocation that moves a holder
		seq = append(seq, move()...)
	}
	probe := fmt.Sprintf("probe %d", subs)
	seq = append(seq, "fork", probe)
	for j, m := 0, 2+r.Intn(12); j < m; j++ {
		seq = append(seq, ops())
		if r.Intn(3) == 0 {
			seq = append(seq, probe)
		}
	}
	seq = append(seq, probe)
	return seq
}

// exhaustive: every sequence of 4 operations (each followed by an audit) over two subscribers on the 4-unit
// session pool and the 8-slot lease pool, with every failure flag, two enumeration orders and remote changes.
func exhaustive(emit func([]string)) {
	for _, g := range []geo{geos[1], geos[5]} {
		alpha := []string{"alloc s1 0", "alloc s1 1", "alloc s2 0", "alloc s2 1", "release s1 0", "release s1 1", "release s2 0",
			"restart 0", "restart 1", "remoteput s2 " + g.addrTok(1) + " 1000000", "remoteput s1 " + g.addrTok(2) + " 1000000", "remotedel s1",
			"restartgap 0 put s2 " + g.addrTok(1) + " 1000000", "restartgap 1 del s1"}
		if g.mode == "lease" {
			alpha = append(alpha, "tick 0 0", "tick 1 0", "renew s1 00", "renew s1 01", "renew s1 10")
		}
		var rec func(prefix []string, depth int)
		rec = func(prefix []string, depth int) {
			if depth == 0 {
				seq := append([]string{g.newOp(3)}, prefix...)
				seq = append(seq, "alloc s3 0", "audit", "restart 1", "audit", "stats")
				emit(seq)
				return
			}
			for _, a := range alpha {
				rec(append(prefix[:len(prefix):len(prefix)], a, "audit"), depth-1)
			}
		}
		rec(nil, 4)
	}
}

// ---------------------------------------------------------------- execution

type run struct {
	g      geo
	nsubs  int
	st     *store
	da     *allocator.DistributedAllocator
	cancel context.CancelFunc
	// Start refused (load Query failed): the node is not serving
	down bool
	// round-trip sequences
	rt *rtRun
}

func (comp) NewRun() hx.Run { return &run{} }
func (r *run) Close() {
	if r.cancel != nil {
		r.cancel()
	}
}

func classify(err error) string {
	switch {
	case err == nil:
		return "ok"
	case errors.Is(err, allocator.ErrPoolExhausted):
		return "exhausted"
	case errors.Is(err, allocator.ErrNotAllocated), errors.Is(err, allocator.ErrNotFound):
		return "notfound"
	}
	return "error"
}

func (r *run) start(seed uint64, queryFails bool) string {
	if r.cancel != nil {
		r.cancel()
	}
	// the old instance is gone: nobody watches until the new one has started
	r.st.cb = nil
	r.st.echo = nil
	r.st.pending = nil
	r.down = false
	cfg := allocator.DistributedConfig{
		PoolID:      "p",
		BaseNetwork: fmt.Sprintf("%s/%d", ipOf(r.g.baseNum(), r.g.fam).String(), r.g.ones),
		PrefixLen:   r.g.plen,
		Mode:        allocator.PoolModeSession,
		EpochGrace:  r.g.grace,
	}
	if r.g.mode == "lease" {
		cfg.Mode = allocator.PoolModeLease
	}
	da, err := allocator.NewDistributedAllocator(cfg, r.st)
	if err != nil {
		return "invalid"
	}
	ctx, cancel := context.WithCancel(context.Background())
	r.cancel = cancel
	r.st.seed = seed
	r.st.fails = nil
	if queryFails {
		r.st.fails = []bool{true}
	}
	err = da.Start(ctx)
	r.st.fails = nil
	r.st.afterQuery = nil
	r.da = da
	if err != nil {
		r.down = true
		r.st.cb = nil
		r.st.pending = nil
		return "error"
	}
	// notifications of what other nodes wrote while Start was running reach the watch now
	for len(r.st.pending) > 0 {
		n := r.st.pending[0]
		r.st.pending = r.st.pending[1:]
		if r.st.cb != nil {
			r.st.cb(n.key, n.value, n.deleted)
		}
	}
	return "ok"
}

func (r *run) key(sub string) string { return "/allocation/p/" + subID(sub) }

func (r *run) storeRec(sub string) *allocator.DistributedAllocation {
	v, ok := r.st.data[r.key(sub)]
	if !ok {
		return nil
	}
	var rec allocator.DistributedAllocation
	if err := json.Unmarshal(v, &rec); err != nil {
		return nil
	}
	return &rec
}

func (r *run) storeNet(sub string) *net.IPNet {
	rec := r.storeRec(sub)
	if rec == nil {
		return nil
	}
	_, n, err := net.ParseCIDR(rec.Prefix)
	if err != nil {
		return nil
	}
	return n
}

func (r *run) storeEpoch(sub string) uint64 {
	if rec := r.storeRec(sub); rec != nil {
		return rec.Epoch
	}
	return 0
}

func flags(tok string) []bool {
	var out []bool
	for _, c := range tok {
		out = append(out, c == '1')
	}
	return out
}

func (r *run) getTok(sub string) string {
	n, ok := r.da.Get(subID(sub))
	if !ok || n == nil {
		return "-"
	}
	return showNet(n, r.g.fam)
}

func (r *run) Do(op string) string {
	obs := r.do(op)
	// deliver the store's delete notifications of this operation to the watching instance
	if r.st != nil {
		for len(r.st.echo) > 0 {
			key := r.st.echo[0]
			r.st.echo = r.st.echo[1:]
			if r.st.cb != nil && !r.down {
				r.st.cb(key, nil, true)
			}
		}
	}
	return obs
}

func (r *run) do(op string) string {
	f := hx.Fields(op)
	ctx := context.Background()
	if f[0] == "newrt" {
		r.rt = &rtRun{}
		return r.rt.new(f)
	}
	if r.rt != nil {
		return r.rt.do(f)
	}
	if f[0] == "new" {
		if len(f) != 8 {
			return "badop"
		}
		fam, _ := strconv.Atoi(f[2])
		base, ok := new(big.Int).SetString(f[3], 16)
		ones, _ := strconv.Atoi(f[4])
		pl, _ := strconv.Atoi(f[5])
		grace, _ := strconv.Atoi(f[6])
		ns, _ := strconv.Atoi(f[7])
		if !ok || (fam != 32 && fam != 128) || (f[1] != "session" && f[1] != "lease") {
			return "badop"
		}
		r.g = geo{f[1], fam, ipOf(base, fam).String(), ones, pl, grace}
		r.nsubs = ns
		r.st = &store{data: map[string][]byte{}}
		return r.start(0, false)
	}
	if r.da == nil {
		return "badop"
	}
	if r.down && f[0] != "restart" && f[0] != "restartgap" {
		return "down"
	}
	switch f[0] {
	case "alloc":
		r.st.fails = flags(f[2])
		n, err := r.da.Allocate(ctx, subID(f[1]))
		if err != nil {
			return classify(err)
		}
		return "ok " + showNet(n, r.g.fam)
	case "allocmac":
		r.st.fails = flags(f[2])
		num, _ := strconv.Atoi(f[1][1:])
		n, err := r.da.AllocateWithMAC(ctx, subID(f[1]), net.HardwareAddr{0x02, 0, 0, 0, byte(num >> 8), byte(num)})
		if err != nil {
			return classify(err)
		}
		return "ok " + showNet(n, r.g.fam)
	case "release":
		r.st.fails = flags(f[2])
		return classify(r.da.Release(ctx, subID(f[1])))
	case "renew":
		r.st.fails = flags(f[2])
		return classify(r.da.Renew(ctx, subID(f[1])))
	case "get":
		t := r.getTok(f[1])
		if t == "-" {
			return "none"
		}
		return t
	case "owner":
		s, ok := r.da.GetByPrefix(parseNet(f[1], r.g.fam))
		if !ok {
			return "none"
		}
		return subTok(s)
	case "stats":
		st := r.da.Stats()
		return fmt.Sprintf("%d %d", st.Allocated, st.Total)
	case "util":
		st := r.da.Stats()
		return fmt.Sprintf("%s %d %d", hx.UtilKind(uint64(st.Allocated), uint64(st.Total), st.Utilization), st.Allocated, st.Total)
	case "restart":
		seed, _ := strconv.ParseUint(f[1], 10, 64)
		return r.start(seed, len(f) > 2 && f[2] == "1")
	case "tick":
		seed, _ := strconv.ParseUint(f[1], 10, 64)
		r.st.seed = seed
		r.st.fails = flags(f[2])
		e := r.da.VerifTick(ctx)
		r.st.fails = nil
		return strconv.FormatUint(e, 10)
	case "tickrace":
		seed, _ := strconv.ParseUint(f[1], 10, 64)
		r.st.seed = seed
		r.st.fails = nil
		done := make(chan string, 1)
		started := false
		racer := func() {
			started = true
			go func() {
				n, err := r.da.Allocate(ctx, subID(f[2]))
				if err != nil {
					done <- classify(err)
				} else {
					done <- "ok " + showNet(n, r.g.fam)
				}
			}()
		}
		var ans string
		r.st.beforeDelete = func() {
			racer()
			// give the other caller the chance to run; if the tick holds the allocator's lock it cannot
			select {
			case ans = <-done:
			case <-time.After(20 * time.Millisecond):
			}
		}
		e := r.da.VerifTick(ctx)
		r.st.beforeDelete = nil
		if !started {
			racer()
		}
		if ans == "" {
			ans = <-done
		}
		return fmt.Sprintf("%d %s", e, ans)
	case "remoteput":
		pfx := parseNet(f[2], r.g.fam)
		ep, _ := strconv.ParseUint(f[3], 10, 64)
		before := "none"
		if s, ok := r.da.GetByPrefix(pfx); ok {
			before = subTok(s)
		}
		// who holds the announced prefix according to the STORE (ParseCIDR masks the announcement)
		storeBefore := "none"
		if _, want, err := net.ParseCIDR(pfx.String()); err == nil {
			for i := 1; i <= r.nsubs; i++ {
				sub := fmt.Sprintf("s%d", i)
				if n := r.storeNet(sub); n != nil && n.String() == want.String() {
					storeBefore = sub
					break
				}
			}
		}
		val, _ := json.Marshal(&allocator.DistributedAllocation{PoolID: "p", SubscriberID: subID(f[1]), Prefix: pfx.String(), Epoch: ep})
		r.st.fails = nil
		r.st.data[r.key(f[1])] = val
		if r.st.cb != nil {
			r.st.cb(r.key(f[1]), val, false)
		}
		return fmt.Sprintf("ok %s %s %s %d", r.getTok(f[1]), before, storeBefore, r.da.GetCurrentEpoch())
	case "restartgap":
		if len(f) < 4 || (f[2] == "put" && len(f) != 6) || (f[2] == "del" && len(f) != 4) || (f[2] != "put" && f[2] != "del") {
			return "badop"
		}
		seed, _ := strconv.ParseUint(f[1], 10, 64)
		// the node as it is right after a load from this store in this order
		if v := r.start(seed, false); v != "ok" {
			return v
		}
		if f[2] == "del" {
			r.st.afterQuery = func() { r.st.remoteWrite(r.key(f[3]), nil, true) }
			return r.start(seed, false)
		}
		pfx := parseNet(f[4], r.g.fam)
		ep, _ := strconv.ParseUint(f[5], 10, 64)
		before := "none"
		if s, ok := r.da.GetByPrefix(pfx); ok {
			before = subTok(s)
		}
		storeBefore := "none"
		if _, want, err := net.ParseCIDR(pfx.String()); err == nil {
			for i := 1; i <= r.nsubs; i++ {
				sub := fmt.Sprintf("s%d", i)
				if n := r.storeNet(sub); n != nil && n.String() == want.String() {
					storeBefore = sub
					break
				}
			}
		}
		val, _ := json.Marshal(&allocator.DistributedAllocation{PoolID: "p", SubscriberID: subID(f[3]), Prefix: pfx.String(), Epoch: ep})
		r.st.afterQuery = func() { r.st.remoteWrite(r.key(f[3]), val, false) }
		if v := r.start(seed, false); v != "ok" {
			return v
		}
		return fmt.Sprintf("ok %s %s %s %d", r.getTok(f[3]), before, storeBefore, r.da.GetCurrentEpoch())
	case "remotedel":
		delete(r.st.data, r.key(f[1]))
		if r.st.cb != nil {
			r.st.cb(r.key(f[1]), nil, true)
		}
		return "ok"
	case "stress":
		seed, _ := strconv.ParseInt(f[1], 10, 64)
		for round := int64(0); round < 20; round++ {
			if v := r.stressOnce(seed + round*7919); v != "ok" {
				return v
			}
		}
		return "ok"
	case "audit":
		var parts []string
		for i := 1; i <= r.nsubs; i++ {
			sub := fmt.Sprintf("s%d", i)
			sv := "-"
			if n := r.storeNet(sub); n != nil {
				sv = fmt.Sprintf("%s@%d", showNet(n, r.g.fam), r.storeEpoch(sub))
			}
			parts = append(parts, fmt.Sprintf("%s=%s|%s", sub, sv, r.getTok(sub)))
		}
		// the reverse direction: who answers for every unit of the pool
		var rev []string
		for i := int64(0); i < r.g.units(); i++ {
			tok := r.g.addrTok(i)
			o := "-"
			if s, ok := r.da.GetByPrefix(parseNet(tok, r.g.fam)); ok {
				o = subTok(s)
			}
			rev = append(rev, tok+"="+o)
		}
		return strings.Join(parts, ",") + ";" + strings.Join(rev, ",")
	}
	return "badop"
}

// stressOnce: concurrent callers on a fresh DistributedAllocator over a fresh store (every store call of the allocator
// happens under its own lock, so the plain map store is safe), then a sequential audit
func (r *run) stressOnce(seed int64) string {
	st := &store{data: map[string][]byte{}}
	cfg := allocator.DistributedConfig{
		PoolID:      "p",
		BaseNetwork: fmt.Sprintf("%s/%d", ipOf(r.g.baseNum(), r.g.fam).String(), r.g.ones),
		PrefixLen:   r.g.plen,
		Mode:        allocator.PoolModeSession,
		EpochGrace:  r.g.grace,
	}
	lease := r.g.mode == "lease"
	if lease {
		cfg.Mode = allocator.PoolModeLease
	}
	da, err := allocator.NewDistributedAllocator(cfg, st)
	if err != nil {
		return "ok"
	}
	ctx := context.Background()
	const workers, steps, subs = 8, 250, 6
	var wg sync.WaitGroup
	for w := 0; w < workers; w++ {
		wg.Add(1)
		go func(w int) {
			defer wg.Done()
			rr := rand.New(rand.NewSource(seed*131 + int64(w)))
			for i := 0; i < steps; i++ {
				sub := fmt.Sprintf("s%d", 1+rr.Intn(subs))
				switch rr.Intn(10) {
				case 0, 1, 2:
					da.Allocate(ctx, sub)
				case 3:
					da.AllocateWithMAC(ctx, sub, net.HardwareAddr{2, 0, 0, 0, 0, byte(w)})
				case 4:
					da.Renew(ctx, sub)
				case 5, 6:
					da.Release(ctx, sub)
				case 7:
					da.Get(sub)
				case 8:
					da.Stats()
				default:
					if lease && w == 0 && rr.Intn(6) == 0 {
						da.VerifTick(ctx)
					}
				}
			}
		}(w)
	}
	wg.Wait()
	seen := map[string]string{}
	held := 0
	for i := 1; i <= subs; i++ {
		sub := fmt.Sprintf("s%d", i)
		lv := "-"
		if n, ok := da.Get(sub); ok && n != nil {
			lv = showNet(n, r.g.fam)
			held++
			if o, dup := seen[lv]; dup {
				return fmt.Sprintf("viol unique %s answered to %s and %s after concurrent callers", lv, o, sub)
			}
			seen[lv] = sub
			if o, ok := da.GetByPrefix(n); !ok || o != sub {
				return fmt.Sprintf("viol reverse reverse lookup of %s is not %s after concurrent callers", lv, sub)
			}
		}
		if !lease {
			sv := "-"
			if v, ok := st.data["/allocation/p/"+sub]; ok {
				var rec allocator.DistributedAllocation
				if json.Unmarshal(v, &rec) == nil {
					if _, n, err := net.ParseCIDR(rec.Prefix); err == nil {
						sv = showNet(n, r.g.fam)
					}
				}
			}
			if sv != lv {
				return fmt.Sprintf("viol store-agree %s: record %s, allocator %s after concurrent callers", sub, sv, lv)
			}
		}
	}
	if s := da.Stats(); s.Allocated != held {
		return fmt.Sprintf("viol count reported allocated=%d, holders=%d after concurrent callers", s.Allocated, held)
	}
	return "ok"
}

// ---------------------------------------------------------------- round trips

type rtAlloc interface {
	do(f []string) string
	probe(f []string) string
	clone() (rtAlloc, error)
}

// probeWith asks every read-only question at once: lookup of s1..sN, owner of every unit, stats
func probeWith(a rtAlloc, f []string, units []string) string {
	n := 0
	if len(f) > 1 {
		n, _ = strconv.Atoi(f[1])
	}
	var fw, rv []string
	for i := 1; i <= n; i++ {
		sub := fmt.Sprintf("s%d", i)
		fw = append(fw, sub+"="+a.do([]string{"lookup", sub}))
	}
	for _, u := range units {
		rv = append(rv, u+"="+a.do([]string{"owner", u}))
	}
	return strings.Join(fw, ",") + ";" + strings.Join(rv, ",") + ";" + strings.ReplaceAll(a.do([]string{"stats"}), " ", "/")
}

type rtRun struct {
	a, b rtAlloc
}

type rtBitmap struct {
	a     *allocator.IPAllocator
	fam   int
	units []string
}

type rtEpoch struct {
	a     *allocator.EpochBitmapAllocator
	units []string
}

func (b *rtBitmap) probe(f []string) string { return probeWith(b, f, b.units) }
func (e *rtEpoch) probe(f []string) string  { return probeWith(e, f, e.units) }

func (r *rtRun) new(f []string) string {
	switch {
	case len(f) == 6 && f[1] == "bitmap":
		fam, _ := strconv.Atoi(f[2])
		base, ok := new(big.Int).SetString(f[3], 16)
		ones, _ := strconv.Atoi(f[4])
		pl, _ := strconv.Atoi(f[5])
		if !ok || (fam != 32 && fam != 128) {
			return "badop"
		}
		a, err := allocator.NewIPAllocator(fmt.Sprintf("%s/%d", ipOf(base, fam).String(), ones), pl)
		if err != nil {
			return "invalid"
		}
		g := geo{"session", fam, ipOf(base, fam).String(), ones, pl, 0}
		var units []string
		for i := int64(0); i < g.units() && i < 64; i++ {
			units = append(units, g.addrTok(i))
		}
		r.a = &rtBitmap{a, fam, units}
		return "ok"
	case len(f) == 6 && f[1] == "epoch":
		base, ok := new(big.Int).SetString(f[2], 16)
		ones, _ := strconv.Atoi(f[3])
		pl, _ := strconv.Atoi(f[4])
		grace, _ := strconv.ParseUint(f[5], 10, 64)
		if !ok {
			return "badop"
		}
		a, err := allocator.NewEpochBitmapAllocator(allocator.EpochBitmapConfig{
			BaseNetwork: fmt.Sprintf("%s/%d", ipOf(base, 32).String(), ones), PrefixLength: pl, GracePeriod: grace})
		if err != nil {
			return "invalid"
		}
		g := geo{"lease", 32, ipOf(base, 32).String(), ones, pl, int(grace)}
		var units []string
		for i := int64(0); i < g.units() && i < 64; i++ {
			t := g.addrTok(i)
			units = append(units, t[:strings.Index(t, "/")])
		}
		r.a = &rtEpoch{a, units}
		return "ok"
	}
	return "badop"
}

func (r *rtRun) do(f []string) string {
	if r.a == nil {
		return "badop"
	}
	if f[0] == "fork" {
		b, err := r.a.clone()
		if err != nil {
			return "error"
		}
		r.b = b
		return "ok"
	}
	one := func(a rtAlloc) string {
		if f[0] == "probe" {
			return a.probe(f)
		}
		return a.do(f)
	}
	x := one(r.a)
	if r.b == nil {
		return x
	}
	return x + " | " + one(r.b)
}

func (b *rtBitmap) clone() (rtAlloc, error) {
	data, err := b.a.MarshalJSON()
	if err != nil {
		return nil, err
	}
	c := &allocator.IPAllocator{}
	if err := c.UnmarshalJSON(data); err != nil {
		return nil, err
	}
	return &rtBitmap{c, b.fam, b.units}, nil
}

func (b *rtBitmap) do(f []string) string {
	switch f[0] {
	case "alloc":
		n, err := b.a.Allocate(f[1])
		if err != nil {
			return classify(err)
		}
		return "ok " + showNet(n, b.fam)
	case "release":
		return classify(b.a.Release(f[1]))
	case "setalloc":
		err := b.a.SetAllocation(f[1], parseNet(f[2], b.fam))
		if err != nil {
			if errors.Is(err, allocator.ErrOutOfRange) {
				return "range"
			}
			return "conflict"
		}
		return "ok"
	case "lookup":
		n := b.a.Lookup(f[1])
		if n == nil {
			return "none"
		}
		return showNet(n, b.fam)
	case "owner":
		s := b.a.LookupByPrefix(parseNet(f[1], b.fam))
		if s == "" {
			return "none"
		}
		return s
	case "stats":
		al, tot, _ := b.a.Stats()
		return fmt.Sprintf("%d %d", al, tot)
	}
	return "badop"
}

func (e *rtEpoch) clone() (rtAlloc, error) {
	data, err := json.Marshal(e.a)
	if err != nil {
		return nil, err
	}
	var c allocator.EpochBitmapAllocator
	if err := json.Unmarshal(data, &c); err != nil {
		return nil, err
	}
	return &rtEpoch{&c, e.units}, nil
}

func (e *rtEpoch) do(f []string) string {
	ctx := context.Background()
	switch f[0] {
	case "alloc":
		ip, err := e.a.Allocate(ctx, f[1])
		if err != nil {
			return classify(err)
		}
		return "ok " + new(big.Int).SetBytes(ip.To4()).Text(16)
	case "release":
		return classify(e.a.Release(ctx, f[1]))
	case "renew":
		return classify(e.a.Renew(ctx, f[1]))
	case "advance":
		return strconv.FormatUint(e.a.AdvanceEpoch(), 10)
	case "lookup":
		ip := e.a.Lookup(f[1])
		if ip == nil {
			return "none"
		}
		return new(big.Int).SetBytes(ip.To4()).Text(16)
	case "owner":
		v, ok := new(big.Int).SetString(strings.SplitN(f[1], "/", 2)[0], 16)
		if !ok {
			return "badop"
		}
		s := e.a.LookupByIP(ipOf(v, 32))
		if s == "" {
			return "none"
		}
		return s
	case "stats":
		al, tot, _ := e.a.Stats()
		return fmt.Sprintf("%d %d", al, tot)
	}
	return "badop"
}

func main() { hx.Main(comp{}) }
