// teardown drives the real pppoe.SessionTeardown (pkg/pppoe/teardown.go) with a real SessionManager, a real
// pppoe.IPPool, recording callbacks for PADT / eBPF-map removal and a real loopback RADIUS accounting server.
// The eBPF-map callback keeps a table of fast-path entries (one per session, installed when the session is made)
// and can be made to fail (`fault ebpf on|off|once`): a failing call returns an error and leaves the entry.
package main

import (
	"errors"
	"fmt"
	"math/rand"
	"net"
	"sort"
	"strconv"
	"strings"
	"sync"
	"time"

	"bngverif/hx"

	"github.com/codelaboratoryltd/bng/pkg/pppoe"
	bngradius "github.com/codelaboratoryltd/bng/pkg/radius"
	"go.uber.org/zap"
	"layeh.com/radius"
	"layeh.com/radius/rfc2866"
)

type comp struct{}

func mac(n int) net.HardwareAddr { return net.HardwareAddr{0x02, 0, 0, 0, 0, byte(n)} }

type acctSrv struct {
	conn  *net.UDPConn
	mu    sync.Mutex
	stops map[string]int // Acct-Session-Id -> number of Stop records accepted
}

func newAcctSrv() *acctSrv {
	// the client sends accounting to (auth port + 1): pick a port whose predecessor we hand to the client
	c, err := net.ListenUDP("udp4", &net.UDPAddr{IP: net.IPv4(127, 0, 0, 1)})
	if err != nil {
		panic(err)
	}
	a := &acctSrv{conn: c, stops: map[string]int{}}
	go func() {
		buf := make([]byte, 4096)
		seen := map[string]bool{} // a retransmission (the same datagram again, after a stall of the machine) is not a second Stop
		for {
			n, addr, err := c.ReadFromUDP(buf)
			if err != nil {
				return
			}
			pkt, err := radius.Parse(buf[:n], []byte("s3cret"))
			if err != nil {
				continue
			}
			dup := seen[string(buf[:n])]
			seen[string(buf[:n])] = true
			if st, err := rfc2866.AcctStatusType_Lookup(pkt); !dup && err == nil && st == rfc2866.AcctStatusType_Value_Stop {
				sid := rfc2866.AcctSessionID_GetString(pkt)
				a.mu.Lock()
				a.stops[sid]++
				a.mu.Unlock()
			}
			resp := pkt.Response(radius.CodeAccountingResponse)
			if b, err := resp.Encode(); err == nil {
				c.WriteToUDP(b, addr)
			}
		}
	}()
	return a
}

type run struct {
	td    *pppoe.SessionTeardown
	sm    *pppoe.SessionManager
	pool  *pppoe.IPPool
	acct  *acctSrv
	names map[string]*pppoe.Session // harness name -> session object (kept after removal: "ending twice")
	ebpf  map[string]int            // RADIUS session id -> eBPF-map callback calls that removed the entry
	efail map[string]int            // RADIUS session id -> eBPF-map callback calls that returned an error
	fp    map[string]bool           // RADIUS session id -> its fast-path entry is present
	fault string                    // off | on | once : what the eBPF-map callback answers next
	padt  map[string]int
	cbMu  sync.Mutex // the callbacks run in the goroutines of parked terminations too
	// a TerminateSession call can be parked inside its PADT callback (after the tornDown check, before cleanup)
	parkTag string
	entered chan struct{}
	resume  map[string]chan struct{}
	done    map[string]chan struct{}
}

func (comp) NewRun() hx.Run { return &run{} }
func (r *run) Close() {
	if r.acct != nil {
		r.acct.conn.Close()
	}
}

func (r *run) nameOf(sessionID string) string {
	for n, s := range r.names {
		if s.SessionID == sessionID {
			return n
		}
	}
	return "?"
}

func (r *run) counts(m map[string]int) string {
	var parts []string
	for sid, n := range m {
		if n > 0 {
			parts = append(parts, fmt.Sprintf("%s:%d", r.nameOf(sid), n))
		}
	}
	if len(parts) == 0 {
		return "-"
	}
	sort.Strings(parts)
	return strings.Join(parts, ",")
}

func (r *run) snapshot() string {
	stops := map[string]int{}
	if r.acct != nil {
		r.acct.mu.Lock()
		for k, v := range r.acct.stops {
			stops[k] = v
		}
		r.acct.mu.Unlock()
	}
	ss := r.sm.GetAllSessions()
	sort.Slice(ss, func(i, j int) bool { return ss[i].ID < ss[j].ID })
	var sl []string
	for _, s := range ss {
		sl = append(sl, fmt.Sprintf("%d:%s", s.ID, r.nameOf(s.SessionID)))
	}
	sess := "-"
	if len(sl) > 0 {
		sess = strings.Join(sl, ",")
	}
	// which named session still has an address recorded in the pool
	var held []string
	for n, s := range r.names {
		if r.pool.HoldsForVerif(s.SessionID) {
			held = append(held, n)
		}
	}
	sort.Strings(held)
	h := "-"
	if len(held) > 0 {
		h = strings.Join(held, ",")
	}
	var fps []string
	r.cbMu.Lock()
	for n, s := range r.names {
		if r.fp[s.SessionID] {
			fps = append(fps, n)
		}
	}
	r.cbMu.Unlock()
	sort.Strings(fps)
	fp := "-"
	if len(fps) > 0 {
		fp = strings.Join(fps, ",")
	}
	return fmt.Sprintf("stops=%s ebpf=%s padt=%s held=%s sess=%s efail=%s fp=%s", r.counts(stops), r.counts(r.ebpf), r.counts(r.padt), h, sess, r.counts(r.efail), fp)
}

func (r *run) Do(op string) string {
	f := hx.Fields(op)
	switch f[0] {
	case "new":
		cfg := pppoe.TeardownConfig{CleanupTimeout: 20 * time.Second, RADIUSTimeout: 10 * time.Second}
		r.td = pppoe.NewSessionTeardown(cfg, zap.NewNop())
		r.sm = pppoe.NewSessionManager()
		p, err := pppoe.NewIPPool("10.77.0.0/28", "10.77.0.1")
		if err != nil {
			return "error " + err.Error()
		}
		r.pool = p
		r.names = map[string]*pppoe.Session{}
		r.ebpf = map[string]int{}
		r.efail = map[string]int{}
		r.fp = map[string]bool{}
		r.fault = "off"
		r.padt = map[string]int{}
		r.td.SetSessionManager(r.sm)
		r.td.SetIPPool(p)
		r.entered = make(chan struct{}, 4)
		r.resume = map[string]chan struct{}{}
		r.done = map[string]chan struct{}{}
		r.td.SetSendPADT(func(s *pppoe.Session, _ []pppoe.Tag) {
			r.cbMu.Lock()
			r.padt[s.SessionID]++
			tag := r.parkTag
			r.parkTag = ""
			var ch chan struct{}
			if tag != "" {
				ch = make(chan struct{})
				r.resume[tag] = ch
			}
			r.cbMu.Unlock()
			if ch != nil {
				r.entered <- struct{}{}
				<-ch
			}
		})
		r.td.SetUpdateEBPFMaps(func(s *pppoe.Session, remove bool) error {
			if remove {
				r.cbMu.Lock()
				defer r.cbMu.Unlock()
				if r.fault != "off" {
					// the map delete fails: the entry stays
					if r.fault == "once" {
						r.fault = "off"
					}
					r.efail[s.SessionID]++
					return errors.New("bpf map delete: EBUSY")
				}
				r.ebpf[s.SessionID]++
				delete(r.fp, s.SessionID)
			}
			return nil
		})
		if f[1] == "radius" {
			r.acct = newAcctSrv()
			port := r.acct.conn.LocalAddr().(*net.UDPAddr).Port
			cl, err := bngradius.NewClient(bngradius.ClientConfig{
				Servers: []bngradius.ServerConfig{{Host: "127.0.0.1", Port: port - 1, Secret: "s3cret"}},
				NASID:   "verif", Timeout: 4 * time.Second, Retries: 1,
			}, zap.NewNop())
			if err != nil {
				return "error " + err.Error()
			}
			r.td.SetRADIUSClient(cl)
		}
		return "ok"
	case "mk": // mk s1 m1 auth|unauth ip|noip
		if r.names[f[1]] != nil {
			return "badop" // names are fresh
		}
		n, _ := strconv.Atoi(f[2][1:])
		s, err := r.sm.CreateSession(mac(n), net.HardwareAddr{2, 0xaa, 0, 0, 0, 1})
		if err != nil {
			return "error " + err.Error()
		}
		s.Username = "u" + f[2][1:]
		s.Authenticated = f[3] == "auth"
		if f[4] == "ip" {
			s.ClientIP = r.pool.Allocate(s.SessionID)
		}
		s.SetState(pppoe.StateEstablished)
		r.names[f[1]] = s
		r.cbMu.Lock()
		r.fp[s.SessionID] = true // the established session's fast-path entry
		r.cbMu.Unlock()
		return fmt.Sprintf("ok id=%d ", s.ID) + r.snapshot()
	}
	if r.td == nil {
		return "badop"
	}
	switch f[0] {
	case "padt": // padt s1 m2
		s := r.names[f[1]]
		if s == nil {
			return "nosuch"
		}
		n, _ := strconv.Atoi(f[2][1:])
		r.td.HandleClientPADT(s, mac(n), s.ID)
	case "term":
		s := r.names[f[1]]
		if s == nil {
			return "nosuch"
		}
		r.td.TerminateSession(s, pppoe.TerminateCauseAdminReset, "")
	case "tpark": // tpark A s1 : a TerminateSession call run up to its PADT (tornDown already checked), then held
		s := r.names[f[2]]
		if s == nil || r.done[f[1]] != nil {
			return "badop"
		}
		r.cbMu.Lock()
		r.parkTag = f[1]
		r.cbMu.Unlock()
		d := make(chan struct{})
		r.done[f[1]] = d
		go func() { r.td.TerminateSession(s, pppoe.TerminateCauseAdminReset, ""); close(d) }()
		select {
		case <-r.entered:
			return "parked " + r.snapshot()
		case <-d:
			r.cbMu.Lock()
			r.parkTag = ""
			r.cbMu.Unlock()
			delete(r.done, f[1])
			return "done " + r.snapshot()
		case <-time.After(60 * time.Second):
			return "hang"
		}
	case "tresume": // tresume A : the held call goes on (cleanup)
		d := r.done[f[1]]
		r.cbMu.Lock()
		ch := r.resume[f[1]]
		delete(r.resume, f[1])
		r.cbMu.Unlock()
		if d == nil || ch == nil {
			return "badop"
		}
		close(ch)
		select {
		case <-d:
		case <-time.After(60 * time.Second):
			return "hang"
		}
		delete(r.done, f[1])
		return "done " + r.snapshot()
	case "termid":
		id, _ := strconv.Atoi(f[1])
		r.td.TerminateByID(uint16(id), "")
	case "termmac":
		n, _ := strconv.Atoi(f[1][1:])
		r.td.TerminateByMAC(mac(n), "")
	case "termuser":
		r.td.TerminateByUsername(f[1], "")
	case "termall":
		r.td.TerminateAll(pppoe.TerminateCauseAdminReboot, "")
	case "fault": // fault ebpf on|off|once : the eBPF-map callback returns an error (every call / no call / the next call)
		if len(f) != 3 || f[1] != "ebpf" || (f[2] != "on" && f[2] != "off" && f[2] != "once") {
			return "badop"
		}
		r.cbMu.Lock()
		r.fault = f[2]
		r.cbMu.Unlock()
	case "authfail": // what pppoe.Server does when a PAP exchange is rejected
		s := r.names[f[1]]
		if s == nil {
			return "nosuch"
		}
		s.Authenticated = false
		s.SetState(pppoe.StateClosed)
	default:
		return "badop"
	}
	return r.snapshot()
}

func (comp) Gen(rg *rand.Rand, tier string, emit func([]string)) {
	n := 1200
	if tier == "thorough" {
		n = 20000
	}
	for i := 0; i < n; i++ {
		rad := hx.Pick(rg, []string{"radius", "radius", "noradius"})
		seq := []string{"new " + rad}
		made := 0
		var parked []string
		ln := 3 + rg.Intn(12)
		// the eBPF-map callback is made to fail in about half of the sequences.  While a `once` may still be armed
		// no operation that tears down SEVERAL sessions in Go-map order is generated (which of them would meet the
		// fault is not determined): termall / termuser run with the fault on or off
		faulty := rg.Intn(2) == 0
		mode := "off"
		for j := 0; j < ln; j++ {
			x := rg.Intn(100)
			if faulty && rg.Intn(5) == 0 {
				mode = hx.Pick(rg, []string{"on", "on", "once", "once", "off"})
				seq = append(seq, "fault ebpf "+mode)
				continue
			}
			if mode == "once" && x >= 85 {
				x = 45 + rg.Intn(40) // term / termid / termmac instead
			}
			// two terminations at once: a TerminateSession call held inside its PADT while others run
			if made > 0 && rg.Intn(6) == 0 {
				if len(parked) < 2 && rg.Intn(2) == 0 {
					tag := []string{"A", "B"}[len(parked)]
					if len(parked) == 1 && parked[0] == "B" {
						tag = "A"
					}
					parked = append(parked, tag)
					seq = append(seq, fmt.Sprintf("tpark %s s%d", tag, 1+rg.Intn(made)))
					continue
				} else if len(parked) > 0 {
					k := rg.Intn(len(parked))
					seq = append(seq, "tresume "+parked[k])
					parked = append(parked[:k], parked[k+1:]...)
					continue
				}
			}
			switch {
			case x < 30 && made < 5:
				made++
				seq = append(seq, fmt.Sprintf("mk s%d m%d %s %s", made, 1+rg.Intn(3), hx.Pick(rg, []string{"auth", "auth", "unauth"}), hx.Pick(rg, []string{"ip", "ip", "noip"})))
			case made == 0:
				continue
			case x < 38:
				seq = append(seq, fmt.Sprintf("authfail s%d", 1+rg.Intn(made)))
			case x < 45:
				seq = append(seq, fmt.Sprintf("padt s%d m%d", 1+rg.Intn(made), 1+rg.Intn(3)))
			case x < 65:
				seq = append(seq, fmt.Sprintf("term s%d", 1+rg.Intn(made)))
			case x < 75:
				seq = append(seq, fmt.Sprintf("termid %d", 1+rg.Intn(made+1)))
			case x < 85:
				seq = append(seq, fmt.Sprintf("termmac m%d", 1+rg.Intn(3)))
			case x < 92:
				seq = append(seq, fmt.Sprintf("termuser u%d", 1+rg.Intn(3)))
			default:
				seq = append(seq, "termall")
			}
		}
		for _, t := range parked {
			seq = append(seq, "tresume "+t)
		}
		emit(seq)
	}
}

func main() { hx.Main(comp{}) }
