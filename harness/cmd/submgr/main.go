// submgr drives the real subscriber.Manager (pkg/subscriber/manager.go) termination path, including two
// TerminateSession calls for one session interleaved at the points where the manager releases its lock
// (the address allocator is a harness stub whose ReleaseIPv4 can be held).
//
//	fault rel4|rel6 on|off    the stub's ReleaseIPv4 / ReleaseIPv6 fails from now on: like allocator.PoolAllocator and
//	                          DistributedAllocator when their store cannot delete the record it returns an error and
//	                          KEEPS the address handed out (`held=`); failed calls are counted in `relf=`.  (The
//	                          AddressAllocator interface has no call that releases a delegated prefix: there is no
//	                          `relpd`.)
package main

import (
	"context"
	"fmt"
	"math/rand"
	"net"
	"sort"
	"strings"
	"sync"
	"time"

	"bngverif/hx"

	"github.com/codelaboratoryltd/bng/pkg/subscriber"
	"go.uber.org/zap"
)

type comp struct{}

type stubAlloc struct {
	mu      sync.Mutex
	owner   map[int]string // address -> session id, for addresses currently handed out
	rel     map[int]int    // address -> number of successful ReleaseIPv4 / ReleaseIPv6 calls
	relf    map[int]int    // address -> number of FAILED release calls
	fail4   bool           // ReleaseIPv4 fails
	fail6   bool           // ReleaseIPv6 fails
	allocs  map[int]int    // address -> number of successful Allocate calls
	entered chan struct{}
	resume  map[string]chan struct{} // per parked call (tag travels in the context)
}

type tagKey struct{}

// atagKey marks an AssignAddress call that is to be held inside the allocator call (between the two critical
// sections of AssignAddress)
type atagKey struct{}

func (a *stubAlloc) parkAssign(ctx context.Context) {
	if tag, ok := ctx.Value(atagKey{}).(string); ok {
		a.mu.Lock()
		ch := make(chan struct{})
		a.resume[tag] = ch
		a.mu.Unlock()
		a.entered <- struct{}{}
		<-ch
	}
}

func ipOf(n int) net.IP { return net.IPv4(10, 9, 0, byte(n)) }
func ip6Of(n int) net.IP {
	return net.IP{0x20, 0x01, 0x0d, 0xb8, 0, 0, 0, 0, 0, 0, 0, 0, 0, 0, 0, byte(n)}
}
func numOf(ip net.IP) int {
	if v4 := ip.To4(); v4 != nil {
		return int(v4[3])
	}
	if len(ip) == 16 {
		return int(ip[15])
	}
	return -1
}

func (a *stubAlloc) AllocateIPv4(ctx context.Context, s *subscriber.Session, pool string) (net.IP, net.IPMask, net.IP, error) {
	a.parkAssign(ctx)
	a.mu.Lock()
	defer a.mu.Unlock()
	for n := 2; n <= 4; n++ {
		if _, used := a.owner[n]; !used {
			a.owner[n] = s.ID
			a.allocs[n]++
			return ipOf(n), net.CIDRMask(24, 32), ipOf(1), nil
		}
	}
	return nil, nil, nil, fmt.Errorf("exhausted")
}
func (a *stubAlloc) AllocateIPv6(ctx context.Context, s *subscriber.Session, pool string) (net.IP, *net.IPNet, error) {
	a.parkAssign(ctx)
	a.mu.Lock()
	defer a.mu.Unlock()
	for n := 2; n <= 4; n++ {
		if _, used := a.owner[n]; !used {
			a.owner[n] = s.ID
			a.allocs[n]++
			ip := ip6Of(n)
			return ip, &net.IPNet{IP: ip.Mask(net.CIDRMask(64, 128)), Mask: net.CIDRMask(64, 128)}, nil
		}
	}
	return nil, nil, fmt.Errorf("exhausted")
}
func (a *stubAlloc) ReleaseIPv4(ctx context.Context, ip net.IP) error {
	return a.release(ctx, ip, false)
}
func (a *stubAlloc) ReleaseIPv6(ctx context.Context, ip net.IP) error {
	return a.release(ctx, ip, true)
}

func (a *stubAlloc) release(ctx context.Context, ip net.IP, v6 bool) error {
	if tag, ok := ctx.Value(tagKey{}).(string); ok {
		a.mu.Lock()
		ch := make(chan struct{})
		a.resume[tag] = ch
		a.mu.Unlock()
		a.entered <- struct{}{}
		<-ch
	}
	a.mu.Lock()
	defer a.mu.Unlock()
	n := numOf(ip)
	if (v6 && a.fail6) || (!v6 && a.fail4) {
		// nothing changes on the allocator's side: the address stays handed out
		a.relf[n]++
		return fmt.Errorf("release failed (injected)")
	}
	a.rel[n]++
	delete(a.owner, n)
	return nil
}

type pending struct {
	done chan string
}

type run struct {
	m      *subscriber.Manager
	a      *stubAlloc
	names  map[string]string // harness name -> session id
	ids    map[string]string // session id -> harness name
	events map[string]int    // terminate events per session id
	emu    sync.Mutex
	calls  map[string]*pending
	acalls map[string]*pending // AssignAddress calls held inside the allocator call
	v6     bool                // the run exercises the IPv6 halves of AssignAddress / TerminateSession (same model: one address per session)
}

func (comp) NewRun() hx.Run { return &run{} }
func (r *run) Close()       {}

func (r *run) snapshot() string {
	r.a.mu.Lock()
	var rel, relf, held, allocs []string
	for n, c := range r.a.rel {
		if c > 0 {
			rel = append(rel, fmt.Sprintf("%d:%d", n, c))
		}
	}
	for n, c := range r.a.relf {
		if c > 0 {
			relf = append(relf, fmt.Sprintf("%d:%d", n, c))
		}
	}
	sort.Strings(relf)
	for n, c := range r.a.allocs {
		if c > 0 {
			allocs = append(allocs, fmt.Sprintf("%d:%d", n, c))
		}
	}
	sort.Strings(allocs)
	for n, sid := range r.a.owner {
		held = append(held, fmt.Sprintf("%d:%s", n, r.ids[sid]))
	}
	r.a.mu.Unlock()
	sort.Strings(rel)
	sort.Strings(held)
	var sess, byip []string
	for _, s := range r.m.ListSessions() {
		sess = append(sess, r.ids[s.ID])
	}
	sort.Strings(sess)
	for n := 2; n <= 4; n++ {
		ip := ipOf(n)
		if r.v6 {
			ip = ip6Of(n)
		}
		if s, ok := r.m.GetSessionByIP(ip); ok && s != nil {
			byip = append(byip, fmt.Sprintf("%d:%s", n, r.ids[s.ID]))
		}
	}
	r.emu.Lock()
	var ev []string
	for sid, c := range r.events {
		ev = append(ev, fmt.Sprintf("%s:%d", r.ids[sid], c))
	}
	r.emu.Unlock()
	sort.Strings(ev)
	j := func(x []string) string {
		if len(x) == 0 {
			return "-"
		}
		return strings.Join(x, ",")
	}
	return fmt.Sprintf("rel=%s held=%s sess=%s byip=%s ended=%s allocs=%s relf=%s", j(rel), j(held), j(sess), j(byip), j(ev), j(allocs), j(relf))
}

func classify(err error) string {
	if err == nil {
		return "ok"
	}
	switch {
	case strings.Contains(err.Error(), "during address assignment"):
		return "gone"
	case strings.Contains(err.Error(), "not found"):
		return "notfound"
	case strings.Contains(err.Error(), "already exists"):
		return "exists"
	case strings.Contains(err.Error(), "exhausted"):
		return "exhausted"
	case strings.Contains(err.Error(), "terminating"):
		return "busy"
	}
	return "error"
}

func (r *run) Do(op string) string {
	f := hx.Fields(op)
	ctx := context.Background()
	switch f[0] {
	case "new":
		r.v6 = len(f) > 1 && f[1] == "v6"
		r.a = &stubAlloc{owner: map[int]string{}, rel: map[int]int{}, relf: map[int]int{}, allocs: map[int]int{}, entered: make(chan struct{}, 8), resume: map[string]chan struct{}{}}
		cfg := subscriber.DefaultManagerConfig()
		r.m = subscriber.NewManager(cfg, nil, r.a, zap.NewNop())
		r.names = map[string]string{}
		r.ids = map[string]string{}
		r.events = map[string]int{}
		r.calls = map[string]*pending{}
		r.acalls = map[string]*pending{}
		r.m.OnEvent(func(e *subscriber.SessionEvent) {
			if e.Type == subscriber.EventSessionTerminate {
				r.emu.Lock()
				r.events[e.SessionID]++
				r.emu.Unlock()
			}
		})
		return "ok"
	case "fault": // fault rel4|rel6 on|off
		if len(f) != 3 || (f[2] != "on" && f[2] != "off") {
			return "badop"
		}
		r.a.mu.Lock()
		switch f[1] {
		case "rel4":
			r.a.fail4 = f[2] == "on"
		case "rel6":
			r.a.fail6 = f[2] == "on"
		default:
			r.a.mu.Unlock()
			return "badop"
		}
		r.a.mu.Unlock()
		return "ok " + r.snapshot()
	case "create": // create s1 m1
		if _, dup := r.names[f[1]]; dup {
			return "badop"
		}
		mac := net.HardwareAddr{2, 0, 0, 0, 0, f[2][1] - '0'}
		s, err := r.m.CreateSession(ctx, &subscriber.SessionRequest{MAC: mac, Type: subscriber.SessionTypeIPoE})
		if err != nil {
			return classify(err) + " " + r.snapshot()
		}
		r.names[f[1]] = s.ID
		r.ids[s.ID] = f[1]
		return "ok " + r.snapshot()
	case "assign":
		id, ok := r.names[f[1]]
		if !ok {
			return "nosuch"
		}

		if r.v6 {
			return classify(r.m.AssignAddress(ctx, id, "", "p6")) + " " + r.snapshot()
		}
		return classify(r.m.AssignAddress(ctx, id, "p", "")) + " " + r.snapshot()
	case "touch": // touch s1 activate|wall|unwall : the API calls that write session.State
		id, ok := r.names[f[1]]
		if !ok {
			return "nosuch"
		}
		var err error
		switch f[2] {
		case "activate":
			err = r.m.ActivateSession(id)
		case "wall":
			err = r.m.SetWalledGarden(id, "verif")
		case "unwall":
			err = r.m.ClearWalledGarden(id)
		default:
			return "badop"
		}
		return classify(err) + " " + r.snapshot()
	case "term":
		id, ok := r.names[f[1]]
		if !ok {
			return "nosuch"
		}
		if len(r.calls) > 0 {
			return "badop" // keep whole-call terminations out of parked phases
		}
		return classify(r.m.TerminateSession(ctx, id, subscriber.TerminateAdminReset)) + " " + r.snapshot()
	case "tbegin": // tbegin A s1 : start a TerminateSession call and run it up to the address release
		id, ok := r.names[f[2]]
		if !ok || r.calls[f[1]] != nil {
			return "badop"
		}
		p := &pending{done: make(chan string, 1)}
		r.calls[f[1]] = p
		tctx := context.WithValue(ctx, tagKey{}, f[1])
		go func() { p.done <- classify(r.m.TerminateSession(tctx, id, subscriber.TerminateAdminReset)) }()
		select {
		case <-r.a.entered:
			return "parked " + r.snapshot()
		case res := <-p.done:
			delete(r.calls, f[1])
			return "done:" + res + " " + r.snapshot()
		case <-time.After(60 * time.Second):
			return "hang"
		}
	case "abegin": // abegin P s1 : start an AssignAddress call and run it up to (into) the allocator call
		id, ok := r.names[f[2]]
		if !ok || r.acalls[f[1]] != nil {
			return "badop"
		}
		p := &pending{done: make(chan string, 1)}
		r.acalls[f[1]] = p
		actx := context.WithValue(ctx, atagKey{}, f[1])
		go func() {
			if r.v6 {
				p.done <- classify(r.m.AssignAddress(actx, id, "", "p6"))
			} else {
				p.done <- classify(r.m.AssignAddress(actx, id, "p", ""))
			}
		}()
		select {
		case <-r.a.entered:
			return "parked " + r.snapshot()
		case res := <-p.done:
			delete(r.acalls, f[1])
			return "done:" + res + " " + r.snapshot()
		case <-time.After(60 * time.Second):
			return "hang"
		}
	case "aresume": // aresume P : the allocator call returns and AssignAddress runs to its end
		p := r.acalls[f[1]]
		if p == nil {
			return "badop"
		}
		r.a.mu.Lock()
		ch := r.a.resume[f[1]]
		delete(r.a.resume, f[1])
		r.a.mu.Unlock()
		close(ch)
		select {
		case res := <-p.done:
			delete(r.acalls, f[1])
			return "done:" + res + " " + r.snapshot()
		case <-time.After(60 * time.Second):
			return "hang"
		}
	case "tresume": // tresume A : let the parked call finish
		p := r.calls[f[1]]
		if p == nil {
			return "badop"
		}
		r.a.mu.Lock()
		ch := r.a.resume[f[1]]
		delete(r.a.resume, f[1])
		r.a.mu.Unlock()
		close(ch)
		select {
		case res := <-p.done:
			delete(r.calls, f[1])
			return "done:" + res + " " + r.snapshot()
		case <-time.After(60 * time.Second):
			return "hang"
		}
	}
	return "badop"
}

func (comp) Gen(rg *rand.Rand, tier string, emit func([]string)) {
	n := 1500
	if tier == "thorough" {
		n = 25000
	}
	for i := 0; i < n; i++ {
		seq := []string{"new"}
		if i%3 == 2 {
			seq = []string{"new v6"}
		}
		made := 0
		parked := []string{}
		aparked := []string{}
		ln := 4 + rg.Intn(14)
		for j := 0; j < ln; j++ {
			x := rg.Intn(134)
			switch {
			case x >= 124:
				// the allocator's release calls fail / work again (the flag of the other family is a no-op in this run)
				fam := "rel4"
				if (i%3 == 2) != (rg.Intn(6) == 0) {
					fam = "rel6"
				}
				seq = append(seq, fmt.Sprintf("fault %s %s", fam, hx.Pick(rg, []string{"on", "on", "off"})))
			case x >= 100 && x < 114:
				// an AssignAddress call held inside the allocator call: terminations, other assignments and creates
				// run in the window between its two critical sections
				if made > 0 && len(aparked) < 2 {
					name := []string{"P", "Q"}[len(aparked)]
					if len(aparked) == 1 && aparked[0] == "Q" {
						name = "P"
					}
					aparked = append(aparked, name)
					seq = append(seq, fmt.Sprintf("abegin %s s%d", name, 1+rg.Intn(made)))
				}
			case x >= 114 && x < 124:
				if len(aparked) > 0 {
					k := rg.Intn(len(aparked))
					seq = append(seq, "aresume "+aparked[k])
					aparked = append(aparked[:k], aparked[k+1:]...)
				}
			case x < 22 && made < 5:
				made++
				seq = append(seq, fmt.Sprintf("create s%d m%d", made, 1+rg.Intn(4)))
			case made == 0:
				continue
			case x < 45:
				seq = append(seq, fmt.Sprintf("assign s%d", 1+rg.Intn(made)))
			case x < 52:
				// the calls that write Session.State: also while a termination is parked
				seq = append(seq, fmt.Sprintf("touch s%d %s", 1+rg.Intn(made), hx.Pick(rg, []string{"activate", "wall", "unwall"})))
			case x < 60:
				if len(parked) > 0 {
					continue // a synchronous terminate would park too
				}
				seq = append(seq, fmt.Sprintf("term s%d", 1+rg.Intn(made)))
			case x < 82:
				if len(parked) < 2 {
					name := []string{"A", "B"}[len(parked)]
					if len(parked) == 1 && parked[0] == "B" {
						name = "A"
					}
					parked = append(parked, name)
					seq = append(seq, fmt.Sprintf("tbegin %s s%d", name, 1+rg.Intn(made)))
				}
			default:
				if len(parked) > 0 {
					k := rg.Intn(len(parked))
					seq = append(seq, "tresume "+parked[k])
					parked = append(parked[:k], parked[k+1:]...)
				}
			}
		}
		for len(parked)+len(aparked) > 0 {
			if len(aparked) > 0 && (len(parked) == 0 || rg.Intn(2) == 0) {
				seq = append(seq, "aresume "+aparked[0])
				aparked = aparked[1:]
			} else {
				seq = append(seq, "tresume "+parked[0])
				parked = parked[1:]
			}
		}
		emit(seq)
	}
}

func main() { hx.Main(comp{}) }
