// bitmap drives the real allocator.IPAllocator (pkg/allocator/bitmap.go).
package main

import (
	"fmt"
	"math/big"
	"math/rand"
	"net"
	"sort"
	"strconv"
	"strings"

	"bngverif/hx"

	"github.com/codelaboratoryltd/bng/pkg/allocator"
)

type comp struct{}

type geo struct {
	fam, pp, pl int
	base        *big.Int
}

func (g geo) cidr() string {
	return fmt.Sprintf("%s/%d", ipOf(g.base, g.fam).String(), g.pp)
}

func ipOf(v *big.Int, fam int) net.IP {
	n := fam / 8
	b := v.Bytes()
	if len(b) > n {
		b = b[len(b)-n:]
	}
	out := make([]byte, n)
	copy(out[n-len(b):], b)
	return net.IP(out)
}

func numOf(ip net.IP, fam int) *big.Int {
	if fam == 32 {
		if v4 := ip.To4(); v4 != nil {
			return new(big.Int).SetBytes(v4)
		}
	}
	return new(big.Int).SetBytes(ip.To16())
}

func (g geo) newOp() string {
	return fmt.Sprintf("new %d %d %d %s", g.fam, g.pp, g.pl, g.base.Text(16))
}

func (g geo) units() *big.Int { return new(big.Int).Lsh(big.NewInt(1), uint(g.pl-g.pp)) }
func (g geo) step() *big.Int  { return new(big.Int).Lsh(big.NewInt(1), uint(g.fam-g.pl)) }

// addrTok renders unit i (plus a byte offset) with the given prefix length
func (g geo) addrTok(i int64, off int64, plen int) string {
	v := new(big.Int).Mul(big.NewInt(i), g.step())
	v.Add(v, g.base)
	v.Add(v, big.NewInt(off))
	if v.Sign() < 0 {
		v.SetInt64(0)
	}
	return fmt.Sprintf("%s/%d", v.Text(16), plen)
}

func mustBase(s string, fam int) *big.Int {
	ip := net.ParseIP(s)
	return numOf(ip, fam)
}

var smallGeos = []geo{
	{32, 29, 32, mustBase("10.0.0.0", 32)},
	{32, 30, 32, mustBase("192.168.7.4", 32)},
	{32, 28, 30, mustBase("100.64.0.16", 32)},
	{32, 32, 32, mustBase("10.9.9.9", 32)},
	{32, 31, 32, mustBase("10.0.0.254", 32)},
	{128, 61, 64, mustBase("2001:db8:0:8::", 128)},
	{128, 125, 128, mustBase("2001:db8::f8", 128)},
	{128, 56, 59, mustBase("2001:db8:0:100::", 128)},
	{128, 126, 127, mustBase("fd00::4", 128)},
}

var largeGeos = []geo{
	{32, 20, 32, mustBase("10.16.0.0", 32)},
	{128, 48, 56, mustBase("2001:db8:7::", 128)},
	{32, 16, 24, mustBase("172.16.0.0", 32)},
}

// wideGeo has 2^80 units: the code truncates the unit count with Uint64() (known finding KF-bitmap-wide)
var wideGeo = geo{128, 48, 128, mustBase("2001:db8:1::", 128)}

func (g geo) randAddr(r *rand.Rand) string {
	u := g.units()
	var n int64 = 1 << 30
	if u.IsInt64() && u.Int64() < n {
		n = u.Int64()
	}
	switch r.Intn(12) {
	case 0: // just beyond the end
		return g.addrTok(n, 0, g.pl)
	case 1: // before the base
		return g.addrTok(-1, 0, g.pl)
	case 2: // wrong prefix length
		pl := g.pl - 1
		if pl < 0 || r.Intn(2) == 0 && g.pl < g.fam {
			pl = g.pl + 1
		}
		return g.addrTok(r.Int63n(n), 0, pl)
	case 3: // misaligned inside a unit (only meaningful when step > 1)
		if g.step().Cmp(big.NewInt(1)) > 0 {
			return g.addrTok(r.Int63n(n), 1, g.pl)
		}
	}
	return g.addrTok(r.Int63n(n), 0, g.pl)
}

func (g geo) randOp(r *rand.Rand, subs int) string {
	s := fmt.Sprintf("s%d", 1+r.Intn(subs))
	switch x := r.Intn(100); {
	case x < 30:
		return "alloc " + s
	case x < 45:
		return "release " + s
	case x < 55:
		return "allocspec " + s + " " + g.randAddr(r)
	case x < 65:
		return "setalloc " + s + " " + g.randAddr(r)
	case x < 71:
		return "releaseprefix " + g.randAddr(r)
	case x < 77:
		return "lookup " + s
	case x < 82:
		return "owner " + g.randAddr(r)
	case x < 86:
		return "isalloc " + g.randAddr(r)
	case x < 93:
		return "stats"
	case x < 96:
		return "roundtrip"
	default:
		return "list"
	}
}

func (comp) Gen(r *rand.Rand, tier string, emit func([]string)) {
	nSmall, nLarge := 3000, 12
	if tier == "thorough" {
		nSmall, nLarge = 60000, 120
	}
	for i := 0; i < nSmall; i++ {
		g := smallGeos[r.Intn(len(smallGeos))]
		subs := 2 + r.Intn(4)
		n := 3 + r.Intn(30)
		seq := []string{g.newOp()}
		for j := 0; j < n; j++ {
			seq = append(seq, g.randOp(r, subs))
		}
		seq = append(seq, "stats", "list")
		emit(seq)
	}
	for i := 0; i < nLarge; i++ {
		g := largeGeos[r.Intn(len(largeGeos))]
		subs := 50 + r.Intn(400)
		seq := []string{g.newOp()}
		for j := 0; j < 2000; j++ {
			seq = append(seq, g.randOp(r, subs))
		}
		seq = append(seq, "stats", "list")
		emit(seq)
	}
	// the 2^80-unit geometry (known finding): a short fixed history
	emit([]string{wideGeo.newOp(), "alloc s1", "stats"})
	if tier == "thorough" {
		exhaustive(emit)
	}
}

// exhaustive enumerates every sequence of mutating operations to depth 4 over 3 subscribers
// on two tiny pools, each followed by the observers.
func exhaustive(emit func([]string)) {
	for _, g := range []geo{smallGeos[1], smallGeos[2]} {
		var alpha []string
		for s := 1; s <= 3; s++ {
			alpha = append(alpha, fmt.Sprintf("alloc s%d", s), fmt.Sprintf("release s%d", s))
			for u := int64(0); u < 2; u++ {
				alpha = append(alpha, fmt.Sprintf("allocspec s%d %s", s, g.addrTok(u, 0, g.pl)))
				alpha = append(alpha, fmt.Sprintf("setalloc s%d %s", s, g.addrTok(u, 0, g.pl)))
			}
		}
		alpha = append(alpha, "releaseprefix "+g.addrTok(0, 0, g.pl), "releaseprefix "+g.addrTok(1, 0, g.pl), "roundtrip")
		var rec func(prefix []string, depth int)
		rec = func(prefix []string, depth int) {
			if depth == 0 {
				seq := append([]string{g.newOp()}, prefix...)
				seq = append(seq, "stats", "list", "alloc s1", "alloc s2", "alloc s3", "stats", "list")
				emit(seq)
				return
			}
			for _, a := range alpha {
				rec(append(prefix[:len(prefix):len(prefix)], a), depth-1)
			}
		}
		rec(nil, 4)
	}
}

type run struct {
	a   *allocator.IPAllocator
	g   geo
	err string
}

func (comp) NewRun() hx.Run { return &run{} }
func (r *run) Close()       {}

func (r *run) parseNet(tok string) *net.IPNet {
	parts := strings.SplitN(tok, "/", 2)
	v, _ := new(big.Int).SetString(parts[0], 16)
	pl, _ := strconv.Atoi(parts[1])
	return &net.IPNet{IP: ipOf(v, r.g.fam), Mask: net.CIDRMask(pl, r.g.fam)}
}

func (r *run) showNet(n *net.IPNet) string {
	ones, _ := n.Mask.Size()
	return fmt.Sprintf("%s/%d", numOf(n.IP, r.g.fam).Text(16), ones)
}

func classify(err error) string {
	switch {
	case err == nil:
		return "ok"
	case strings.Contains(err.Error(), allocator.ErrPoolExhausted.Error()):
		return "exhausted"
	case strings.Contains(err.Error(), allocator.ErrOutOfRange.Error()):
		return "range"
	case strings.Contains(err.Error(), allocator.ErrAlreadyAllocated.Error()), strings.Contains(err.Error(), "already allocated"):
		return "conflict"
	case strings.Contains(err.Error(), allocator.ErrNotAllocated.Error()):
		return "notfound"
	}
	return "error " + strings.ReplaceAll(err.Error(), "\n", " ")
}

func (r *run) Do(op string) string {
	f := hx.Fields(op)
	if f[0] == "new" {
		fam, _ := strconv.Atoi(f[1])
		pp, _ := strconv.Atoi(f[2])
		pl, _ := strconv.Atoi(f[3])
		base, _ := new(big.Int).SetString(f[4], 16)
		r.g = geo{fam, pp, pl, base}
		a, err := allocator.NewIPAllocator(r.g.cidr(), pl)
		if err != nil {
			return "invalid"
		}
		r.a = a
		return "ok"
	}
	if r.a == nil {
		return "badop"
	}
	switch f[0] {
	case "alloc":
		n, err := r.a.Allocate(f[1])
		if err != nil {
			return classify(err)
		}
		return "ok " + r.showNet(n)
	case "allocspec":
		return classify(r.a.AllocateSpecific(f[1], r.parseNet(f[2])))
	case "release":
		return classify(r.a.Release(f[1]))
	case "releaseprefix":
		return classify(r.a.ReleasePrefix(r.parseNet(f[1])))
	case "lookup":
		n := r.a.Lookup(f[1])
		if n == nil {
			return "none"
		}
		return r.showNet(n)
	case "owner":
		s := r.a.LookupByPrefix(r.parseNet(f[1]))
		if s == "" {
			return "none"
		}
		return s
	case "isalloc":
		return strconv.FormatBool(r.a.IsAllocated(r.parseNet(f[1])))
	case "stats":
		al, tot, _ := r.a.Stats()
		return fmt.Sprintf("%d %d", al, tot)
	case "setalloc":
		return classify(r.a.SetAllocation(f[1], r.parseNet(f[2])))
	case "roundtrip":
		data, err := r.a.MarshalJSON()
		if err != nil {
			return "error marshal"
		}
		b := &allocator.IPAllocator{}
		if err := b.UnmarshalJSON(data); err != nil {
			return "error unmarshal"
		}
		r.a = b
		return "ok"
	case "list":
		l := r.a.ListAllocations()
		if len(l) == 0 {
			return "-"
		}
		sort.Slice(l, func(i, j int) bool {
			a, _ := strconv.Atoi(l[i].SubscriberID[1:])
			b, _ := strconv.Atoi(l[j].SubscriberID[1:])
			return a < b
		})
		var parts []string
		for _, al := range l {
			parts = append(parts, fmt.Sprintf("%s=%s", al.SubscriberID, numOf(al.Prefix.IP, r.g.fam).Text(16)))
		}
		return strings.Join(parts, ",")
	}
	return "badop"
}

func main() { hx.Main(comp{}) }
