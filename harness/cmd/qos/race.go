package main

// Two control-plane calls of the real qos.Manager at once, interleaved write by write (r-gaps A1), and writes that
// fail (r-gaps C2/C3 for the QoS maps).
//
//	race <sched> <call> / <call>     call = setqos a=… down=… up=… burst=… prio=… | rmqos a=…
//	                                 => <resA> / <resB> [blocked] n=<subscriber count afterwards> [e=…] [e-=…] [i=…] [i-=…]
//
// Each call has three writes in program order: SetSubscriberQoS = Put egress, Put ingress, subscriber table;
// RemoveSubscriberQoS = Delete egress, Delete ingress, subscriber table.  <sched> is a word over {A, B}: each letter
// lets that call make its next write (the first letter of a call starts it on a goroutine of its own; the verif hook
// c40da54 parks it between its writes).  A letter of a call that cannot move - it waits for a lock the other call
// holds - is reported once as `blocked` and changes nothing.  After the word both calls are run to completion
// (AAABBBAAA).  The report lists, as after setqos / rmqos, what changed in the kernel maps over the whole operation.
//
//	wfault e|i on|off                the manager's handle of the egress / ingress map is write-protected: every Put and
//	                                 every Delete through it fails (the handle is swapped, through the existing
//	                                 SetMapsForVerif hook, for a closed duplicate of the map's descriptor)
//	                                 => ok

import (
	"fmt"
	"net"
	"runtime"
	"strconv"
	"strings"
	"syscall"

	"github.com/cilium/ebpf"
	"github.com/codelaboratoryltd/bng/pkg/qos"
)

type raceCall struct {
	set bool
	q   *qos.SubscriberQoS
	ip  net.IP
}

// parseCall reads `setqos a=… down=… up=… burst=… prio=…` or `rmqos a=…`
func parseCall(t []string) (raceCall, bool) {
	var c raceCall
	if len(t) == 0 {
		return c, false
	}
	switch t[0] {
	case "setqos":
		if len(t) != 6 {
			return c, false
		}
		c.set = true
	case "rmqos":
		if len(t) != 2 {
			return c, false
		}
	default:
		return c, false
	}
	q := &qos.SubscriberQoS{}
	seen := map[string]bool{}
	for _, a := range t[1:] {
		k, v := kv(a)
		if seen[k] {
			return c, false
		}
		seen[k] = true
		switch k {
		case "a":
			if len(v) != 8 {
				return c, false
			}
			n, err := strconv.ParseUint(v, 16, 32)
			if err != nil {
				return c, false
			}
			c.ip = net.IPv4(byte(n>>24), byte(n>>16), byte(n>>8), byte(n))
		case "down", "up":
			n, err := strconv.ParseUint(v, 10, 64)
			if err != nil || !c.set {
				return c, false
			}
			if k == "down" {
				q.DownloadBPS = n
			} else {
				q.UploadBPS = n
			}
		case "burst":
			n, err := strconv.ParseUint(v, 10, 32)
			if err != nil || !c.set {
				return c, false
			}
			q.BurstBytes = uint32(n)
		case "prio":
			n, err := strconv.ParseUint(v, 10, 8)
			if err != nil || !c.set {
				return c, false
			}
			q.Priority = uint8(n)
		default:
			return c, false
		}
	}
	if c.ip == nil {
		return c, false
	}
	q.IP = c.ip
	c.q = q
	return c, true
}

// goid is the id of the calling goroutine (the step hook has no other way to know which of the two calls it is in)
func goid() string {
	var buf [64]byte
	f := strings.Fields(string(buf[:runtime.Stack(buf[:], false)]))
	if len(f) < 2 {
		return ""
	}
	return f[1]
}

var raceStackBuf = make([]byte, 1<<18)

// waitsForLock reports whether goroutine gid is blocked on a mutex
func waitsForLock(gid string) bool {
	buf := raceStackBuf[:runtime.Stack(raceStackBuf, true)]
	for _, g := range strings.Split(string(buf), "\n\n") {
		if strings.HasPrefix(g, "goroutine "+gid+" [") {
			head := g
			if i := strings.IndexByte(g, '\n'); i >= 0 {
				head = g[:i]
			}
			return strings.Contains(head, "Mutex.Lock") || strings.Contains(head, "Mutex.RLock") || strings.Contains(head, "[semacquire")
		}
	}
	return false
}

func wallSec() int64 {
	var tv syscall.Timeval
	_ = syscall.Gettimeofday(&tv)
	return tv.Sec
}

type raceThread struct {
	call     raceCall
	started  bool
	atHook   bool
	finished bool
	gid      chan string
	id       string
	parked   chan int
	resume   chan struct{}
	done     chan error
	res      string
}

func callResult(err error) string {
	if err == nil {
		return "ok"
	}
	return "err:" + errHead(err)
}

// errHead: the manager's own words of an error, without the kernel's text behind them
func errHead(err error) string {
	s := err.Error()
	if i := strings.Index(s, ": "); i >= 0 && strings.HasPrefix(s, "failed to set") {
		s = s[:i]
	}
	return strings.ReplaceAll(strings.ReplaceAll(s, "\n", " "), " ", "_")
}

func (r *run) race(sched string, a, b raceCall) string {
	th := map[byte]*raceThread{
		'A': {call: a, gid: make(chan string, 1), parked: make(chan int), resume: make(chan struct{}), done: make(chan error, 1)},
		'B': {call: b, gid: make(chan string, 1), parked: make(chan int), resume: make(chan struct{}), done: make(chan error, 1)},
	}
	byGid := map[string]*raceThread{}
	r.mgr.SetStepHookForVerif(func(point int) {
		t := byGid[goid()]
		if t == nil {
			return
		}
		t.parked <- point
		<-t.resume
	})
	defer r.mgr.SetStepHookForVerif(nil)
	blocked, stuck := false, false
	advance := func(x byte) {
		t := th[x]
		if t.finished || stuck {
			return
		}
		switch {
		case !t.started:
			t.started = true
			ready := make(chan struct{})
			go func() {
				t.gid <- goid()
				<-ready
				var err error
				if t.call.set {
					err = r.mgr.SetSubscriberQoS(t.call.q)
				} else {
					err = r.mgr.RemoveSubscriberQoS(t.call.ip)
				}
				t.done <- err
			}()
			t.id = <-t.gid
			byGid[t.id] = t
			close(ready)
		case t.atHook:
			t.atHook = false
			t.resume <- struct{}{}
		}
		// the call makes its next write and parks again, returns, or waits for a lock the other call holds
		for t0, spins := wallSec(), 0; ; spins++ {
			select {
			case <-t.parked:
				t.atHook = true
				return
			case err := <-t.done:
				t.finished, t.res = true, callResult(err)
				return
			default:
			}
			if spins%64 == 63 {
				if waitsForLock(t.id) {
					blocked = true
					return
				}
				if wallSec()-t0 > 60 {
					stuck = true
					return
				}
			}
			runtime.Gosched()
		}
	}
	be := r.writeBack("e")
	bi := r.writeBack("i")
	for i := 0; i < len(sched); i++ {
		advance(sched[i])
	}
	for _, x := range []byte("AAABBBAAA") {
		advance(x)
	}
	if stuck {
		return "stuck"
	}
	toks := append(r.sync("e", be), r.sync("i", bi)...)
	if r.kernelFailed != "" {
		return "err kernel " + r.kernelFailed
	}
	out := []string{th['A'].res, "/", th['B'].res}
	if blocked {
		out = append(out, "blocked")
	}
	out = append(out, fmt.Sprintf("n=%d", r.mgr.GetSubscriberCount()))
	return strings.Join(append(out, toks...), " ")
}

// brokenMaps: per direction a handle on which every operation fails
var brokenMaps = map[string]*ebpf.Map{}

func (r *run) setWriteProtect(d string, on bool) string {
	if brokenMaps[d] == nil {
		c, err := r.kmap(d).Clone()
		if err != nil {
			return "err clone"
		}
		c.Close()
		brokenMaps[d] = c
	}
	if r.ro == nil {
		r.ro = map[string]bool{}
	}
	r.ro[d] = on
	h := func(d string) *ebpf.Map {
		if r.ro[d] {
			return brokenMaps[d]
		}
		return r.kmap(d)
	}
	r.mgr.SetMapsForVerif(h("e"), h("i"), r.stats)
	return "ok"
}
