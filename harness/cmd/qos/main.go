// qos drives the real qos.Manager (pkg/qos/manager.go) writing into REAL kernel maps, and the
// natively compiled bpf/qos_ratelimit.c (cshim runner) reading the raw bytes the manager wrote.
//
//	new                                              => ok
//	setqos a=<ip8hex> down=<bps> up=<bps> burst=<n> prio=<n>
//	                                                 => ok [e=<key>:<val>] [i=<key>:<val>] | err …
//	rmqos a=<ip8hex>                                 => ok [e-=<key>] [i-=<key>]
//	defpolicy <name> <down> <up> <burst> <prio>      => ok | err …          radius.PolicyManager.AddPolicy (defines or REdefines)
//	rmpolicy <name>                                  => ok                  PolicyManager.RemovePolicy
//	getpolicy <name>                                 => <down> <up> <burst> <prio> | none     PolicyManager.GetPolicy
//	setpolicy a=<ip8hex> <name>                      => ok [e=…] [i=…] | err policy_not_found:_<name>   Manager.SetSubscriberPolicy
//	count                                            => <n>                 Manager.GetSubscriberCount
//	raw <e|i> <keyhex> <valhex>                      => ok | err …          (entry put directly, any bucket state)
//	clock <ns>                                       => ok
//	pkt <e|i> <hexframe> <skblen>                    => <ret> [prio=N] [k=<keyhex>:<h|m>] | FAULT …
//	poll <e|i> <hexframe> <skblen> <n> <gap_ns>      => [k=<keyhex>:<h|m>] <ret>x<n> <ret>x<n> …   (clock += gap before each)
//	bucket <e|i> <keyhex>                            => <valhex> | none
//
// The kernel maps mirror the live state: before every manager call the runner's table is written back to the
// kernel maps, after it the kernel maps are read in full and every difference is applied to the runner and
// reported, so the observation lists exactly the bytes the manager wrote (nothing about the key or value
// encoding is assumed here).
package main

import (
	"encoding/hex"
	"fmt"
	"math"
	"math/rand"
	"net"
	"os"
	"sort"
	"strconv"
	"strings"

	"bngverif/hx"

	"github.com/cilium/ebpf"
	"github.com/cilium/ebpf/rlimit"
	"github.com/codelaboratoryltd/bng/pkg/qos"
	"github.com/codelaboratoryltd/bng/pkg/radius"
	"go.uber.org/zap"
)

type comp struct{}

type run struct {
	c            *hx.CRunner
	mgr          *qos.Manager
	pm           *radius.PolicyManager
	egress       *ebpf.Map
	ingress      *ebpf.Map
	stats        *ebpf.Map
	clock        uint64
	initialised  bool
	kernelFailed string
	ro           map[string]bool // directions whose manager handle is write-protected (`wfault`)
}

var shared *hx.CRunner

func mapName(d string) string {
	if d == "e" {
		return "qos_egress"
	}
	return "qos_ingress"
}

func (r *run) kmap(d string) *ebpf.Map {
	if d == "e" {
		return r.egress
	}
	return r.ingress
}

func (comp) NewRun() hx.Run {
	if shared == nil {
		c, err := hx.StartCRunner("qos_ratelimit")
		if err != nil {
			fmt.Fprintln(os.Stderr, "qos harness:", err)
			os.Exit(3)
		}
		shared = c
	}
	shared.Reset()
	return &run{c: shared}
}

func (r *run) Close() {}

var kEgress, kIngress, kStats *ebpf.Map

func clearMap(m *ebpf.Map) {
	var kb, vb []byte
	var keys [][]byte
	it := m.Iterate()
	for it.Next(&kb, &vb) {
		keys = append(keys, append([]byte(nil), kb...))
	}
	for _, k := range keys {
		_ = m.Delete(k)
	}
}

func (r *run) init() string {
	var err error
	if kEgress == nil {
		// created once per process (map creation costs ~20 ms), emptied for every sequence.
		// sizes as declared in bpf/qos_ratelimit.c (__u32 key, struct token_bucket 32 bytes, struct qos_stats 32 bytes);
		// cilium refuses a Put whose Go value has another binary size, the runner reports FAULT mapsize if the C differs
		_ = rlimit.RemoveMemlock()
		if kEgress, err = ebpf.NewMap(&ebpf.MapSpec{Type: ebpf.Hash, KeySize: 4, ValueSize: 32, MaxEntries: 4096}); err != nil {
			return "err kernel-map " + err.Error()
		}
		if kIngress, err = ebpf.NewMap(&ebpf.MapSpec{Type: ebpf.Hash, KeySize: 4, ValueSize: 32, MaxEntries: 4096}); err != nil {
			return "err kernel-map " + err.Error()
		}
		if kStats, err = ebpf.NewMap(&ebpf.MapSpec{Type: ebpf.PerCPUArray, KeySize: 4, ValueSize: 32, MaxEntries: 1}); err != nil {
			return "err kernel-map " + err.Error()
		}
	}
	clearMap(kEgress)
	clearMap(kIngress)
	r.egress, r.ingress, r.stats = kEgress, kIngress, kStats
	r.pm = radius.NewPolicyManager()
	mgr, err := qos.NewManager(qos.ManagerConfig{Interface: "verif0"}, r.pm, zap.NewNop())
	if err != nil {
		return "err " + err.Error()
	}
	mgr.SetMapsForVerif(r.egress, r.ingress, r.stats)
	r.mgr = mgr
	r.ro = nil
	r.c.Do("trace on")
	r.initialised = true
	return "ok"
}

func parseDump(s string) map[string]string {
	out := map[string]string{}
	if s == "-" || s == "" {
		return out
	}
	for _, kv := range strings.Split(s, ",") {
		if i := strings.IndexByte(kv, '='); i > 0 {
			out[kv[:i]] = kv[i+1:]
		}
	}
	return out
}

// writeBack copies the runner's live table into the kernel map (the program mutates buckets in place)
func (r *run) writeBack(d string) map[string]string {
	live := parseDump(r.c.Do("dump " + mapName(d)))
	for k, v := range live {
		kb, _ := hex.DecodeString(k)
		vb, _ := hex.DecodeString(v)
		if err := r.kmap(d).Put(kb, vb); err != nil {
			r.kernelFailed = err.Error()
		}
	}
	return live
}

func (r *run) kernelDump(d string) map[string]string {
	out := map[string]string{}
	var kb, vb []byte
	it := r.kmap(d).Iterate()
	for it.Next(&kb, &vb) {
		out[hex.EncodeToString(kb)] = hex.EncodeToString(vb)
	}
	return out
}

// sync applies what the manager changed in the kernel map to the runner and returns the report tokens
func (r *run) sync(d string, before map[string]string) []string {
	after := r.kernelDump(d)
	var toks []string
	keys := make([]string, 0, len(after))
	for k := range after {
		keys = append(keys, k)
	}
	sort.Strings(keys)
	for _, k := range keys {
		if before[k] != after[k] {
			r.c.Do("put " + mapName(d) + " " + k + " " + after[k])
			toks = append(toks, d+"="+k+":"+after[k])
		}
	}
	gone := []string{}
	for k := range before {
		if _, ok := after[k]; !ok {
			gone = append(gone, k)
		}
	}
	sort.Strings(gone)
	for _, k := range gone {
		r.c.Do("del " + mapName(d) + " " + k)
		toks = append(toks, d+"-="+k)
	}
	return toks
}

func kv(tok string) (string, string) {
	if i := strings.IndexByte(tok, '='); i > 0 {
		return tok[:i], tok[i+1:]
	}
	return tok, ""
}

func errText(err error) string { return errHead(err) }

// keyOf extracts the first lookup of the subscriber map from a runner observation and strips the trace
func digestRun(obs, d string) string {
	if strings.HasPrefix(obs, "FAULT") {
		return obs
	}
	f := strings.Fields(obs)
	if len(f) < 2 {
		return obs
	}
	out := []string{f[0]}
	if f[1] != "same" {
		out = append(out, "frame="+f[1])
	}
	key := ""
	for _, t := range f[2:] {
		switch {
		case strings.HasPrefix(t, "prio="):
			out = append(out, t)
		case strings.HasPrefix(t, "ops="):
			for _, o := range strings.Split(t[4:], ",") {
				p := strings.Split(o, ":")
				if len(p) == 4 && p[0] == "l" && p[1] == mapName(d) && key == "" {
					key = "k=" + p[2] + ":" + p[3]
				}
			}
		case strings.HasPrefix(t, "ev="):
			out = append(out, t)
		}
	}
	if key != "" {
		out = append(out, key)
	}
	return strings.Join(out, " ")
}

func (r *run) Do(op string) string {
	t := hx.Fields(op)
	if len(t) == 0 {
		return "badop"
	}
	if t[0] == "new" {
		return r.init()
	}
	if !r.initialised {
		return "badop"
	}
	switch t[0] {
	case "setqos", "rmqos":
		var ip net.IP
		q := &qos.SubscriberQoS{}
		for _, a := range t[1:] {
			k, v := kv(a)
			switch k {
			case "a":
				b, err := hex.DecodeString(v)
				if err != nil || len(b) != 4 {
					return "badop"
				}
				ip = net.IPv4(b[0], b[1], b[2], b[3])
			case "down":
				n, err := strconv.ParseUint(v, 10, 64)
				if err != nil {
					return "badop"
				}
				q.DownloadBPS = n
			case "up":
				n, err := strconv.ParseUint(v, 10, 64)
				if err != nil {
					return "badop"
				}
				q.UploadBPS = n
			case "burst":
				n, err := strconv.ParseUint(v, 10, 32)
				if err != nil {
					return "badop"
				}
				q.BurstBytes = uint32(n)
			case "prio":
				n, err := strconv.ParseUint(v, 10, 8)
				if err != nil {
					return "badop"
				}
				q.Priority = uint8(n)
			default:
				return "badop"
			}
		}
		if ip == nil {
			return "badop"
		}
		q.IP = ip
		be := r.writeBack("e")
		bi := r.writeBack("i")
		var err error
		if t[0] == "setqos" {
			err = r.mgr.SetSubscriberQoS(q)
		} else {
			err = r.mgr.RemoveSubscriberQoS(ip)
		}
		toks := append(r.sync("e", be), r.sync("i", bi)...)
		if r.kernelFailed != "" {
			return "err kernel " + r.kernelFailed
		}
		if err != nil {
			return strings.Join(append([]string{"err", errText(err)}, toks...), " ")
		}
		return strings.Join(append([]string{"ok"}, toks...), " ")
	case "defpolicy":
		if len(t) != 6 {
			return "badop"
		}
		down, e1 := strconv.ParseUint(t[2], 10, 64)
		up, e2 := strconv.ParseUint(t[3], 10, 64)
		burst, e3 := strconv.ParseUint(t[4], 10, 32)
		prio, e4 := strconv.ParseUint(t[5], 10, 8)
		if e1 != nil || e2 != nil || e3 != nil || e4 != nil {
			return "badop"
		}
		if err := r.pm.AddPolicy(&radius.QoSPolicy{Name: t[1], DownloadBPS: down, UploadBPS: up, BurstSize: uint32(burst), Priority: uint8(prio)}); err != nil {
			return "err " + errText(err)
		}
		return "ok"
	case "rmpolicy":
		if len(t) != 2 {
			return "badop"
		}
		r.pm.RemovePolicy(t[1])
		return "ok"
	case "getpolicy":
		if len(t) != 2 {
			return "badop"
		}
		p := r.pm.GetPolicy(t[1])
		if p == nil {
			return "none"
		}
		return fmt.Sprintf("%d %d %d %d", p.DownloadBPS, p.UploadBPS, p.BurstSize, p.Priority)
	case "setpolicy":
		if len(t) != 3 {
			return "badop"
		}
		k, v := kv(t[1])
		b, err := hex.DecodeString(v)
		if k != "a" || err != nil || len(b) != 4 {
			return "badop"
		}
		be := r.writeBack("e")
		bi := r.writeBack("i")
		err = r.mgr.SetSubscriberPolicy(net.IPv4(b[0], b[1], b[2], b[3]), t[2])
		toks := append(r.sync("e", be), r.sync("i", bi)...)
		if r.kernelFailed != "" {
			return "err kernel " + r.kernelFailed
		}
		if err != nil {
			return strings.Join(append([]string{"err", errText(err)}, toks...), " ")
		}
		return strings.Join(append([]string{"ok"}, toks...), " ")
	case "count":
		if len(t) != 1 {
			return "badop"
		}
		return strconv.Itoa(r.mgr.GetSubscriberCount())
	case "race":
		// race <sched> <call> / <call>
		if len(t) < 5 || len(t[1]) > 12 || strings.Trim(t[1], "AB") != "" || r.ro["e"] || r.ro["i"] {
			return "badop"
		}
		sep := -1
		for i, x := range t {
			if x == "/" {
				sep = i
			}
		}
		if sep < 3 {
			return "badop"
		}
		a, ok1 := parseCall(t[2:sep])
		b, ok2 := parseCall(t[sep+1:])
		if !ok1 || !ok2 {
			return "badop"
		}
		return r.race(t[1], a, b)
	case "wfault":
		if len(t) != 3 || (t[1] != "e" && t[1] != "i") || (t[2] != "on" && t[2] != "off") {
			return "badop"
		}
		return r.setWriteProtect(t[1], t[2] == "on")
	case "raw":
		if len(t) != 4 || (t[1] != "e" && t[1] != "i") {
			return "badop"
		}
		kb, e1 := hex.DecodeString(t[2])
		vb, e2 := hex.DecodeString(t[3])
		if e1 != nil || e2 != nil {
			return "badop"
		}
		if err := r.kmap(t[1]).Put(kb, vb); err != nil {
			return "err size"
		}
		return r.c.Do("put " + mapName(t[1]) + " " + t[2] + " " + t[3])
	case "clock":
		if len(t) != 2 {
			return "badop"
		}
		n, err := strconv.ParseUint(t[1], 10, 64)
		if err != nil {
			return "badop"
		}
		r.clock = n
		return r.c.Do("clock " + t[1])
	case "pkt":
		if len(t) != 4 || (t[1] != "e" && t[1] != "i") {
			return "badop"
		}
		prog := "qos_egress_prog"
		if t[1] == "i" {
			prog = "qos_ingress_prog"
		}
		return digestRun(r.c.Do("run tc "+prog+" "+t[2]+" priority=4294967295 len="+t[3]), t[1])
	case "poll":
		if len(t) != 6 || (t[1] != "e" && t[1] != "i") {
			return "badop"
		}
		prog := "qos_egress_prog"
		if t[1] == "i" {
			prog = "qos_ingress_prog"
		}
		n, e1 := strconv.ParseUint(t[4], 10, 32)
		gap, e2 := strconv.ParseUint(t[5], 10, 64)
		if e1 != nil || e2 != nil || n == 0 {
			return "badop"
		}
		r.clock += gap
		r.c.Do("clock " + strconv.FormatUint(r.clock, 10))
		first := digestRun(r.c.Do("run tc "+prog+" "+t[2]+" priority=4294967295 len="+t[3]), t[1])
		if strings.HasPrefix(first, "FAULT") {
			return first
		}
		ff := strings.Fields(first)
		key := ""
		for _, x := range ff[1:] {
			if strings.HasPrefix(x, "k=") {
				key = x
			}
		}
		rle := [][2]string{{ff[0], "1"}}
		if n > 1 {
			rest := r.c.Do(fmt.Sprintf("runn %d %d tc %s %s len=%s", n-1, gap, prog, t[2], t[3]))
			r.clock += gap * (n - 1)
			for _, x := range strings.Fields(rest) {
				p := strings.Split(x, "x")
				if len(p) != 2 {
					return "FAULT " + rest
				}
				last := &rle[len(rle)-1]
				if last[0] == p[0] {
					a, _ := strconv.ParseUint(last[1], 10, 64)
					b, _ := strconv.ParseUint(p[1], 10, 64)
					last[1] = strconv.FormatUint(a+b, 10)
				} else {
					rle = append(rle, [2]string{p[0], p[1]})
				}
			}
		}
		out := []string{}
		if key != "" {
			out = append(out, key)
		}
		for _, x := range rle {
			out = append(out, x[0]+"x"+x[1])
		}
		return strings.Join(out, " ")
	case "bucket":
		if len(t) != 3 || (t[1] != "e" && t[1] != "i") {
			return "badop"
		}
		return r.c.Do("get " + mapName(t[1]) + " " + t[2])
	}
	return "badop"
}

// ---------------------------------------------------------------------------------------------- generator

var ips = [][4]byte{{10, 0, 0, 5}, {10, 1, 1, 10}, {192, 168, 1, 77}, {100, 64, 3, 200}, {5, 0, 0, 10}}

func frame(src, dst [4]byte, ethertype uint16, n int) string {
	f := []byte{2, 0, 0, 0, 0, 1, 2, 0, 0, 0, 0, 2, byte(ethertype >> 8), byte(ethertype)}
	f = append(f, 0x45, 0, 0, 20, 0, 0, 0, 0, 64, 17, 0, 0)
	f = append(f, src[:]...)
	f = append(f, dst[:]...)
	for len(f) < n {
		f = append(f, byte(len(f)))
	}
	if n < len(f) {
		f = f[:n]
	}
	if len(f) == 0 {
		return "-"
	}
	return hex.EncodeToString(f)
}

func le(v uint64, n int) []byte {
	b := make([]byte, n)
	for i := 0; i < n; i++ {
		b[i] = byte(v >> (8 * i))
	}
	return b
}

func bucketBytes(tokens, last, rate uint64, burst uint32, prio byte, pad [3]byte) string {
	b := append(le(tokens, 8), le(last, 8)...)
	b = append(b, le(rate, 8)...)
	b = append(b, le(uint64(burst), 4)...)
	b = append(b, prio, pad[0], pad[1], pad[2])
	return hex.EncodeToString(b)
}

func pickRate(r *rand.Rand) uint64 {
	fixed := []uint64{1000, 1001, 8000, 64000, 1000000, 1000003, 10000000, 100000000, 1000000000, 10000000000,
		100000000000, 99999999999, 8000000000}
	switch x := r.Intn(100); {
	case x < 4:
		return 0
	case x < 7:
		return uint64(1 + r.Intn(7)) // rate/8 == 0
	case x < 50:
		return hx.Pick(r, fixed)
	case x < 95: // log-uniform 1 kbit/s .. 100 Gbit/s
		return uint64(math.Exp(math.Log(1e3) + r.Float64()*(math.Log(1e11)-math.Log(1e3))))
	default:
		return r.Uint64() | 1<<63
	}
}

func pickBurst(r *rand.Rand) uint32 {
	fixed := []uint32{1, 2, 64, 1500, 3000, 65535, 65536, 1 << 20, 10 * 1024 * 1024, 1<<32 - 1, 1 << 31}
	if r.Intn(3) == 0 {
		return 1 + uint32(r.Int63n(1<<32-1))
	}
	return hx.Pick(r, fixed)
}

func pickLen(r *rand.Rand) uint32 {
	fixed := []uint32{1, 33, 34, 60, 64, 1500, 1514, 9000, 65535}
	switch r.Intn(3) {
	case 0:
		return hx.Pick(r, fixed)
	case 1:
		return 34 + uint32(r.Intn(1500))
	}
	return 1 + uint32(r.Intn(65535))
}

func pickGap(r *rand.Rand, rate uint64) uint64 {
	r8 := rate / 8
	per := uint64(1) // ns per byte, rounded up
	if r8 > 0 {
		per = (1000000000 + r8 - 1) / r8
	}
	switch r.Intn(14) {
	case 0:
		return 0
	case 1:
		return 1
	case 2:
		return per - 1
	case 3:
		return per
	case 4:
		return per + 1
	case 5:
		return per * uint64(1+r.Intn(3000))
	case 6:
		return uint64(r.Intn(1000))
	case 7:
		return uint64(r.Intn(1000000))
	case 8:
		return 1000000000 * uint64(1+r.Intn(5))
	case 9:
		return 3600 * 1000000000 * uint64(1+r.Intn(30))
	case 10:
		return 86400 * 1000000000 * uint64(1+r.Intn(9))
	case 11: // around the 64-bit wrap of elapsed*(rate/8)
		if r8 > 1 {
			w := math.MaxUint64/r8 + 1
			return w - 2 + uint64(r.Intn(5))
		}
		return uint64(r.Int63())
	case 12:
		return uint64(r.Int63n(1 << 40))
	}
	return per / 2
}

func pickClock(r *rand.Rand) uint64 {
	switch r.Intn(6) {
	case 0:
		return 0
	case 1:
		return uint64(r.Intn(1000))
	case 2:
		return 1 << 63
	case 3:
		return math.MaxUint64 - uint64(r.Int63n(1<<40))
	case 4:
		return uint64(r.Int63n(1 << 50))
	}
	return r.Uint64()
}

func adv(clock, gap uint64) uint64 {
	if clock+gap < clock {
		return math.MaxUint64
	}
	return clock + gap
}

func rev(a [4]byte) [4]byte { return [4]byte{a[3], a[2], a[1], a[0]} }

func dirOf(r *rand.Rand) string {
	if r.Intn(2) == 0 {
		return "e"
	}
	return "i"
}

// a frame whose subscriber address (dst on egress, src on ingress) is ip
func subFrame(d string, ip [4]byte, r *rand.Rand) string {
	other := hx.Pick(r, ips)
	if d == "e" {
		return frame(other, ip, 0x0800, 34)
	}
	return frame(ip, other, 0x0800, 34)
}

// a frame the program does not classify although it carries the subscriber's traffic:
// kind 0..3 = IPv4 behind 802.1Q / QinQ / legacy 0x9100 / PPPoE session, 4 = IPv6 (untagged), 5 = IPv6 behind 802.1Q
func otherFrame(d string, ip [4]byte, kind int, r *rand.Rand) string {
	other := hx.Pick(r, ips)
	src, dst := other, ip
	if d == "i" {
		src, dst = ip, other
	}
	f := []byte{2, 0, 0, 0, 0, 1, 2, 0, 0, 0, 0, 2}
	v4 := append([]byte{0x45, 0, 0, 20, 0, 0, 0, 0, 64, 17, 0, 0}, append(src[:], dst[:]...)...)
	v6 := append([]byte{0x60, 0, 0, 0, 0, 0, 17, 64}, make([]byte, 32)...)
	copy(v6[8+12:], src[:])
	copy(v6[24+12:], dst[:])
	switch kind {
	case 0:
		f = append(f, 0x81, 0x00, 0, 100, 0x08, 0x00)
		f = append(f, v4...)
	case 1:
		f = append(f, 0x88, 0xa8, 0, 100, 0x81, 0x00, 0, 101, 0x08, 0x00)
		f = append(f, v4...)
	case 2:
		f = append(f, 0x91, 0x00, 0, 100, 0x08, 0x00)
		f = append(f, v4...)
	case 3:
		f = append(f, 0x88, 0x64, 0x11, 0, 0, 1, 0, 22, 0x00, 0x21)
		f = append(f, v4...)
	case 4:
		f = append(f, 0x86, 0xdd)
		f = append(f, v6...)
	default:
		f = append(f, 0x81, 0x00, 0, 100, 0x86, 0xdd)
		f = append(f, v6...)
	}
	return hex.EncodeToString(f)
}

func genManager(r *rand.Rand) []string {
	seq := []string{"new"}
	clock := pickClock(r)
	seq = append(seq, fmt.Sprintf("clock %d", clock))
	n := 1 + r.Intn(3)
	rates := []uint64{}
	for i := 0; i < n; i++ {
		ip := hx.Pick(r, ips)
		burst := uint32(0)
		if r.Intn(2) == 0 {
			burst = pickBurst(r)
		}
		down, up := pickRate(r), pickRate(r)
		rates = append(rates, down, up)
		seq = append(seq, fmt.Sprintf("setqos a=%s down=%d up=%d burst=%d prio=%d", hex.EncodeToString(ip[:]), down, up, burst, r.Intn(8)))
	}
	steps := 15 + r.Intn(50)
	for i := 0; i < steps; i++ {
		switch x := r.Intn(100); {
		case x < 70:
			clock = adv(clock, pickGap(r, hx.Pick(r, rates)))
			seq = append(seq, fmt.Sprintf("clock %d", clock))
			d := dirOf(r)
			ip := hx.Pick(r, ips)
			fr := subFrame(d, ip, r)
			switch r.Intn(25) {
			case 4, 5:
				fr = otherFrame(d, ip, r.Intn(6), r)
			case 0:
				fr = frame(ip, ip, 0x86dd, 34+r.Intn(30))
			case 1:
				fr = frame(ip, ip, 0x0800, r.Intn(34))
			case 2:
				fr = frame(ip, ip, 0x8100, 38)
			case 3:
				fr = frame(hx.Pick(r, ips), ip, 0x0800, 34+r.Intn(80))
			}
			seq = append(seq, fmt.Sprintf("pkt %s %s %d", d, fr, pickLen(r)))
		case x < 78:
			ip := hx.Pick(r, ips)
			k := ip
			if r.Intn(2) == 0 {
				k = rev(ip)
			}
			seq = append(seq, fmt.Sprintf("bucket %s %s", dirOf(r), hex.EncodeToString(k[:])))
		case x < 84:
			ip := hx.Pick(r, ips)
			seq = append(seq, "rmqos a="+hex.EncodeToString(ip[:]))
		case x < 92:
			ip := hx.Pick(r, ips)
			burst := uint32(0)
			if r.Intn(2) == 0 {
				burst = pickBurst(r)
			}
			seq = append(seq, fmt.Sprintf("setqos a=%s down=%d up=%d burst=%d prio=%d", hex.EncodeToString(ip[:]), pickRate(r), pickRate(r), burst, r.Intn(8)))
		default:
			ip := hx.Pick(r, ips)
			d := dirOf(r)
			gap := pickGap(r, hx.Pick(r, rates)) % 100000000
			cnt := 2 + r.Intn(40)
			seq = append(seq, fmt.Sprintf("poll %s %s %d %d %d", d, subFrame(d, ip, r), pickLen(r), cnt, gap))
			clock = adv(clock, gap*uint64(cnt))
		}
	}
	return seq
}

// arbitrary bucket states and adversarial gaps: the arithmetic of token_bucket_check
func genRaw(r *rand.Rand) []string {
	seq := []string{"new"}
	d := dirOf(r)
	ip := hx.Pick(r, ips)
	key := ip
	if r.Intn(2) == 0 {
		key = rev(ip)
	}
	rate, burst := pickRate(r), pickBurst(r)
	clock := pickClock(r)
	tokens := uint64(burst)
	switch r.Intn(6) {
	case 0:
		tokens = 0
	case 1:
		tokens = uint64(r.Int63n(int64(burst) + 1))
	case 2:
		tokens = r.Uint64() // more than burst: only an arbitrary map state can have this
	}
	last := uint64(0)
	switch r.Intn(4) {
	case 0:
		last = clock
	case 1:
		last = clock - uint64(r.Int63n(1<<40))
	case 2:
		last = r.Uint64() // possibly in the "future"
	}
	pad := [3]byte{}
	if r.Intn(4) == 0 {
		pad = [3]byte{byte(r.Intn(256)), byte(r.Intn(256)), byte(r.Intn(256))}
	}
	seq = append(seq, fmt.Sprintf("raw %s %s %s", d, hex.EncodeToString(key[:]), bucketBytes(tokens, last, rate, burst, byte(r.Intn(256)), pad)))
	seq = append(seq, fmt.Sprintf("clock %d", clock))
	n := 20 + r.Intn(80)
	fr := subFrame(d, ip, r)
	for i := 0; i < n; i++ {
		if r.Intn(50) == 0 { // the kernel clock never runs backwards; the model must still agree
			clock -= uint64(r.Intn(1000))
		} else {
			clock = adv(clock, pickGap(r, rate))
		}
		seq = append(seq, fmt.Sprintf("clock %d", clock))
		seq = append(seq, fmt.Sprintf("pkt %s %s %d", d, fr, pickLen(r)))
		if r.Intn(12) == 0 {
			seq = append(seq, fmt.Sprintf("bucket %s %s", d, hex.EncodeToString(key[:])))
		}
	}
	seq = append(seq, fmt.Sprintf("bucket %s %s", d, hex.EncodeToString(key[:])))
	return seq
}

// an always-backlogged subscriber (every gap earns at most the previous packet and cannot overflow the bucket):
// the window in which the lower bound of the property is judged.  Packet sizes are drawn per poll; the burst is
// taken around the largest packet (one byte less, equal, one more, just under twice) as well as comfortably above,
// so that packets that do not fit the burst and buckets that one packet empties are exercised too.
func genBacklogged(r *rand.Rand, long bool) []string {
	seq := []string{"new"}
	d := dirOf(r)
	ip := hx.Pick(r, ips)
	rate := pickRate(r)
	for rate < 8 || rate > 100000000000 {
		rate = pickRate(r)
	}
	maxLen := uint32(2 + r.Intn(1600))
	if r.Intn(4) == 0 {
		maxLen = uint32(2 + r.Intn(3))
	}
	var burst uint32
	switch r.Intn(7) {
	case 0:
		burst = maxLen - 1
	case 1:
		burst = maxLen
	case 2:
		burst = maxLen + 1
	case 3:
		burst = 2*maxLen - 1
	default:
		burst = 2*maxLen + uint32(r.Intn(5000))
	}
	fixed := r.Intn(3) == 0 // one size for the whole sequence (always maxLen) or a fresh size per poll
	clock := pickClock(r) >> 1
	// through the manager (both directions honour BurstBytes) or as a raw entry
	if r.Intn(2) == 0 {
		seq = append(seq, fmt.Sprintf("setqos a=%s down=%d up=%d burst=%d prio=0", hex.EncodeToString(ip[:]), rate, rate, burst))
	} else {
		for _, key := range [][4]byte{ip, rev(ip)} {
			seq = append(seq, fmt.Sprintf("raw %s %s %s", d, hex.EncodeToString(key[:]), bucketBytes(uint64(burst), 0, rate, burst, 0, [3]byte{})))
			if key == rev(key) {
				break
			}
		}
	}
	seq = append(seq, fmt.Sprintf("clock %d", clock))
	fr := subFrame(d, ip, r)
	per := 8000000000 / rate // below this a poll earns less than one byte
	n := 20 + r.Intn(60)
	if long {
		n = 3
	}
	prev := maxLen
	for i := 0; i < n; i++ {
		plen := maxLen
		if !fixed {
			plen = 1 + uint32(r.Intn(int(maxLen)))
			if r.Intn(4) == 0 {
				plen = maxLen
			}
		}
		// largest gap that keeps the subscriber backlogged after a packet of `prev` bytes
		maxGap := uint64(prev) * 8000000000 / rate
		var gap uint64
		switch r.Intn(6) {
		case 0:
			gap = maxGap
		case 1:
			gap = uint64(r.Int63n(int64(maxGap) + 1))
		case 2:
			gap = per
		case 3:
			if per > 0 {
				gap = per - 1
			}
		case 4: // exactly the line rate of this packet size
			gap = uint64(plen) * 8000000000 / rate
		default:
			gap = per/2 + uint64(r.Intn(3))
		}
		if gap > maxGap && r.Intn(5) != 0 {
			gap = maxGap
		}
		cnt := 1 + r.Intn(30)
		if long {
			cnt = 2000 + r.Intn(6000)
			if i == 1 && per > 1 {
				gap = per - 1 // the starvation regime of D52
			}
		}
		seq = append(seq, fmt.Sprintf("poll %s %s %d %d %d", d, fr, plen, cnt, gap))
		prev = plen
	}
	return seq
}

// the whole control-plane path: policies defined, REdefined and removed, applied by name or by value, removed,
// re-applied without a remove in between, in arbitrary order, with packets in both directions after every step
var polNames = []string{"guest", "gold", "biz"}

func genControl(r *rand.Rand) []string {
	seq := []string{"new"}
	clock := pickClock(r) >> 2
	seq = append(seq, fmt.Sprintf("clock %d", clock))
	someRate := uint64(1000000)
	probe := func(ip [4]byte) {
		for _, d := range []string{"e", "i"} {
			clock = adv(clock, pickGap(r, someRate)%5000000000)
			seq = append(seq, fmt.Sprintf("clock %d", clock))
			seq = append(seq, fmt.Sprintf("pkt %s %s %d", d, subFrame(d, ip, r), pickLen(r)))
		}
		if r.Intn(4) == 0 {
			d := dirOf(r)
			seq = append(seq, fmt.Sprintf("pkt %s %s %d", d, otherFrame(d, ip, r.Intn(6), r), pickLen(r)))
		}
	}
	defpol := func(name string) {
		down, up := pickRate(r), pickRate(r)
		someRate = down | 8
		burst := uint32(0)
		if r.Intn(2) == 0 {
			burst = pickBurst(r)
		}
		seq = append(seq, fmt.Sprintf("defpolicy %s %d %d %d %d", name, down, up, burst, r.Intn(8)))
	}
	// the current definition of every name, so that a REdefinition can change exactly one field
	type pdef struct {
		down, up uint64
		burst    uint32
		prio     int
	}
	cur := map[string]pdef{}
	emitDef := func(name string, p pdef) {
		cur[name] = p
		someRate = p.down | 8
		seq = append(seq, fmt.Sprintf("defpolicy %s %d %d %d %d", name, p.down, p.up, p.burst, p.prio))
	}
	redefOne := func(name string) {
		p, ok := cur[name]
		if !ok {
			defpol(name)
			p = pdef{}
			f := strings.Fields(seq[len(seq)-1])
			p.down, _ = strconv.ParseUint(f[2], 10, 64)
			p.up, _ = strconv.ParseUint(f[3], 10, 64)
			b, _ := strconv.ParseUint(f[4], 10, 32)
			p.burst = uint32(b)
			p.prio, _ = strconv.Atoi(f[5])
			cur[name] = p
			return
		}
		switch r.Intn(6) {
		case 0:
			p.down = pickRate(r)
		case 1:
			p.up = pickRate(r)
		case 2:
			p.prio = (p.prio + 1 + r.Intn(6)) % 8
		case 3: // identical re-add
		default: // ONLY the burst changes (tighter, looser, to or from the default 0)
			nb := pickBurst(r)
			if r.Intn(4) == 0 {
				nb = 0
			}
			if nb == p.burst {
				nb = p.burst/2 + 1
			}
			p.burst = nb
		}
		emitDef(name, p)
	}
	steps := 12 + r.Intn(30)
	for i := 0; i < steps; i++ {
		ip := ips[r.Intn(3)]
		a := hex.EncodeToString(ip[:])
		switch x := r.Intn(120); {
		case x >= 100 && x < 112: // one field of a live policy changes, then it is re-applied to a live or a new subscriber
			name := hx.Pick(r, polNames)
			redefOne(name)
			if r.Intn(3) == 0 {
				seq = append(seq, "getpolicy "+name)
			}
			seq = append(seq, "setpolicy a="+a+" "+name)
			probe(ip)
			redefOne(name)
			seq = append(seq, "getpolicy "+name)
			seq = append(seq, "setpolicy a="+a+" "+name)
			probe(ip)
		case x >= 112 && x < 116: // remove, then add again under the same name
			name := hx.Pick(r, polNames)
			seq = append(seq, "rmpolicy "+name, "getpolicy "+name)
			delete(cur, name)
			redefOne(name)
			seq = append(seq, "getpolicy "+name, "setpolicy a="+a+" "+name)
			probe(ip)
		case x >= 116:
			seq = append(seq, "getpolicy "+hx.Pick(r, polNames))
		case x < 22:
			name := hx.Pick(r, polNames)
			delete(cur, name)
			redefOne(name)
		case x < 50:
			seq = append(seq, "setpolicy a="+a+" "+hx.Pick(r, polNames))
			probe(ip)
		case x < 60: // redefine, then re-apply the same name to a subscriber without removing it first
			name := hx.Pick(r, polNames)
			delete(cur, name)
			redefOne(name)
			seq = append(seq, "setpolicy a="+a+" "+name)
			probe(ip)
			delete(cur, name)
			redefOne(name)
			seq = append(seq, "setpolicy a="+a+" "+name)
			probe(ip)
		case x < 70:
			burst := uint32(0)
			if r.Intn(2) == 0 {
				burst = pickBurst(r)
			}
			seq = append(seq, fmt.Sprintf("setqos a=%s down=%d up=%d burst=%d prio=%d", a, pickRate(r), pickRate(r), burst, r.Intn(8)))
			probe(ip)
		case x < 78:
			seq = append(seq, "rmqos a="+a)
			probe(ip)
		case x < 83:
			name := hx.Pick(r, polNames)
			delete(cur, name)
			seq = append(seq, "rmpolicy "+name)
		case x < 88:
			seq = append(seq, "count")
		default:
			probe(ip)
		}
	}
	return seq
}

// two control-plane calls at once, interleaved write by write (every schedule of the 3+3 writes for Set/Remove and
// Remove/Set on one address, a sample for Set/Set, Remove/Remove and two addresses), with packets and counts afterwards;
// and calls under a write-protected map handle
func genRace(r *rand.Rand, emit func([]string)) {
	var scheds []string
	var rec func(p string, a, b int)
	rec = func(p string, a, b int) {
		if a == 0 && b == 0 {
			scheds = append(scheds, p)
			return
		}
		if a > 0 {
			rec(p+"A", a-1, b)
		}
		if b > 0 {
			rec(p+"B", a, b-1)
		}
	}
	rec("", 3, 3)
	ip := ips[0]
	a := hex.EncodeToString(ip[:])
	set1 := "setqos a=" + a + " down=2000000 up=700000 burst=4000 prio=2"
	set2 := "setqos a=" + a + " down=64000 up=64000 burst=0 prio=7"
	rm := "rmqos a=" + a
	other := hex.EncodeToString(ips[1][:])
	probe := []string{"count", "clock 1000", "pkt e " + subFrame("e", ip, r) + " 100", "pkt i " + subFrame("i", ip, r) + " 100", rm, "count"}
	for _, pre := range [][]string{nil, {set2}} {
		for _, s := range scheds {
			for _, pair := range [][2]string{{set1, rm}, {rm, set1}} {
				seq := append([]string{"new"}, pre...)
				seq = append(seq, "race "+s+" "+pair[0]+" / "+pair[1])
				emit(append(seq, probe...))
			}
		}
	}
	for i, s := range scheds {
		pairs := [][2]string{{set1, set2}, {rm, rm}, {set1, "setqos a=" + other + " down=1000 up=1000 burst=2 prio=0"}, {set1, "rmqos a=" + other}}
		seq := []string{"new", "setqos a=" + other + " down=5000 up=5000 burst=0 prio=1"}
		seq = append(seq, "race "+s+" "+pairs[i%4][0]+" / "+pairs[i%4][1], "race "+hx.Pick(r, scheds)[:r.Intn(6)]+" "+pairs[(i+1)%4][1]+" / "+pairs[(i+1)%4][0])
		emit(append(seq, probe...))
	}
	for _, d := range []string{"e", "i"} {
		emit([]string{"new", set1, "wfault " + d + " on", rm, "count", "race AB " + set1 + " / " + rm, "wfault " + d + " off",
			"clock 1000", "pkt e " + subFrame("e", ip, r) + " 100", "pkt i " + subFrame("i", ip, r) + " 100", set2, rm, "count"})
		emit([]string{"new", "wfault " + d + " on", set1, "count", "defpolicy gold 1000000 1000000 0 3", "setpolicy a=" + other + " gold",
			"wfault " + d + " off", "count", "clock 1000", "pkt e " + subFrame("e", ip, r) + " 100", set1, "rmqos a=" + other, rm, "count"})
	}
}

func (comp) Gen(r *rand.Rand, tier string, emit func([]string)) {
	genRace(r, emit)
	nMgr, nRaw, nBack, nLong := 150, 240, 110, 15
	nCtl := 120
	if tier == "thorough" {
		nMgr, nRaw, nBack, nLong = 4000, 6000, 2500, 300
		nCtl = 3000
	}
	for i := 0; i < nCtl; i++ {
		emit(genControl(r))
	}
	for i := 0; i < nMgr; i++ {
		emit(genManager(r))
	}
	for i := 0; i < nRaw; i++ {
		emit(genRaw(r))
	}
	for i := 0; i < nBack; i++ {
		emit(genBacklogged(r, false))
	}
	for i := 0; i < nLong; i++ {
		emit(genBacklogged(r, true))
	}
}

func main() { hx.Main(comp{}) }
