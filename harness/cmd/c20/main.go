// c20 hosts every component of property C20 in one binary (one link instead of five); the component is selected by
// the environment variable C20_COMP (vlan | qinq | pppsess | circuitkey | index).
package main

import (
	"fmt"
	"os"

	"bngverif/c20/circuitkey"
	"bngverif/c20/index"
	"bngverif/c20/pppsess"
	"bngverif/c20/qinq"
	"bngverif/c20/vlan"
	"bngverif/hx"
)

func main() {
	comps := map[string]hx.Component{
		"vlan": vlan.Comp{}, "qinq": qinq.Comp{}, "pppsess": pppsess.Comp{},
		"circuitkey": circuitkey.Comp{}, "index": index.Comp{},
	}
	c, ok := comps[os.Getenv("C20_COMP")]
	if !ok {
		fmt.Fprintln(os.Stderr, "C20_COMP must name one of vlan, qinq, pppsess, circuitkey, index")
		os.Exit(2)
	}
	hx.Main(c)
}
