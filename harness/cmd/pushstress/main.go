//go:build verif

// pushstress (not part of any check; run by hand: go run -tags verif ./cmd/pushstress): two goroutines write the same session on the active (store write + PushChange each), concurrently.
package main

import (
	"fmt"
	"sync"

	"github.com/codelaboratoryltd/bng/pkg/ha"
	"go.uber.org/zap"
)

func main() {
	const N = 200000
	mismatch, inverted, inversionMismatch := 0, 0, 0
	for i := 0; i < N; i++ {
		aStore, sStore := ha.NewInMemorySessionStore(), ha.NewInMemorySessionStore()
		ac := ha.DefaultSyncConfig()
		ac.NodeID, ac.Role = "A", ha.RoleActive
		active := ha.NewHASyncer(ac, aStore, zap.NewNop())
		sc := ha.DefaultSyncConfig()
		sc.NodeID, sc.Role = "S", ha.RoleStandby
		sc.Partner = &ha.PartnerInfo{NodeID: "A", Endpoint: "127.0.0.1:1"}
		standby := ha.NewHASyncer(sc, sStore, zap.NewNop())
		ch := active.AttachClientForVerif("s", 100)
		var wg sync.WaitGroup
		start := make(chan struct{})
		wg.Add(2)
		go func() {
			defer wg.Done()
			<-start
			s := &ha.SessionState{SessionID: "s1", BytesIn: 7}
			aStore.PutSession(s)
			active.PushChange(ha.SyncTypeUpdate, s)
		}()
		go func() {
			defer wg.Done()
			<-start
			aStore.DeleteSession("s1")
			active.PushChange(ha.SyncTypeDelete, &ha.SessionState{SessionID: "s1"})
		}()
		close(start)
		wg.Wait()
		for {
			if _, ok := active.BroadcastOneForVerif(); !ok {
				break
			}
		}
		var seqs []uint64
		for len(ch) > 0 {
			m := <-ch
			seqs = append(seqs, m.SequenceNum)
			data, _ := m.Encode()
			standby.HandleSSEDataForVerif(data)
		}
		inv := len(seqs) == 2 && seqs[0] > seqs[1]
		if inv {
			inverted++
		}
		_, a := aStore.GetSession("s1")
		_, s := sStore.GetSession("s1")
		if a != s {
			mismatch++
			if inv {
				inversionMismatch++
			}
		}
		active.Stop()
		standby.Stop()
	}
	fmt.Printf("iterations=%d standby!=active=%d queue-order!=sequence-order=%d both=%d\n", N, mismatch, inverted, inversionMismatch)
}
