// acctretry drives the retry schedule of the real radius.AccountingManager (processPendingRecord /
// retryPendingRecords in pkg/radius/accounting.go) with REAL delays on a VIRTUAL clock (testing/synctest):
// the `now.After(record.NextRetry)` gate and the exponential back-off
// `RetryBaseDelay * time.Duration(1<<uint(record.RetryCount))` capped by RetryMaxDelay, which the `acct`
// component (1 ns delays) never executes.  The RADIUS server is a real UDP socket on loopback.
//
//	newd <maxRetries> <baseNs> <maxNs>   => ok
//	start s1                             => ok
//	stop s1 <u|d>                        => ok acc=<n>           (d: the Stop is queued; NextRetry = now + base)
//	retry <u|d>                          => done sent=<rN,..|-> acc=<n> pend=<rN:retries:dueInNs,..|->
//	deq <u|d>                            => done|empty sent=.. acc=.. pend=..
//	wait <ns>                            => ok                   (virtual time passes)
package main

import (
	"fmt"
	"math/rand"
	"net"
	"os"
	"path/filepath"
	"sort"
	"strconv"
	"strings"
	"sync"
	"syscall"
	"time"
	"unsafe"

	"bngverif/hx"

	bng "github.com/codelaboratoryltd/bng/pkg/radius"
	"go.uber.org/zap"
	"layeh.com/radius"
)

const secret = "verif-secret"

type comp struct{ nseq int }

type run struct {
	dir    string
	am     *bng.AccountingManager
	ans    byte
	sent   []string
	ids    map[string]int
	nextID int
}

// the RADIUS server: one per process, started by init() so that its goroutine lives OUTSIDE the synctest bubbles
// (a goroutine blocked in network I/O would keep a bubble's virtual clock from advancing)
var srv struct {
	conn *net.UDPConn
	resv *net.UDPConn
	port int
	isUp bool
	mu   sync.Mutex
	acc  int
}

var cur *run

// syncWait is testing/synctest.Wait inside the test binary
var syncWait = func() {}

func main() {}

func init() {
	listen()
	go serve()
	bng.VerifAcctHook = func(am *bng.AccountingManager, pt int, detail string) {
		r := cur
		if r == nil || r.am != am {
			return
		}
		switch pt {
		case 1, 4, 7: // a request is about to be sent
			setUp(r.ans == 'u')
			if pt == 7 {
				r.sent = append(r.sent, detail)
			}
		}
	}
}

func setUp(up bool) {
	if up == srv.isUp {
		return
	}
	rc, err := srv.conn.SyscallConn()
	if err != nil {
		panic(err)
	}
	rc.Control(func(fd uintptr) {
		if up {
			var sa [16]byte
			syscall.Syscall(syscall.SYS_CONNECT, fd, uintptr(unsafe.Pointer(&sa[0])), 16)
		} else {
			syscall.Connect(int(fd), &syscall.SockaddrInet4{Port: 9, Addr: [4]byte{127, 0, 0, 1}})
		}
	})
	srv.isUp = up
}

func serve() {
	buf := make([]byte, 4096)
	for {
		n, from, err := srv.conn.ReadFromUDP(buf)
		if err != nil {
			return
		}
		p, err := radius.Parse(buf[:n], []byte(secret))
		if err != nil {
			continue
		}
		out, err := p.Response(radius.CodeAccountingResponse).Encode()
		if err != nil {
			continue
		}
		srv.mu.Lock()
		srv.acc++
		srv.mu.Unlock()
		srv.conn.WriteToUDP(out, from)
	}
}

func (c *comp) NewRun() hx.Run { c.nseq++; return &run{ids: map[string]int{}} }

func (r *run) Close() {
	cur = nil
	setUp(true)
	if r.dir != "" {
		os.RemoveAll(r.dir)
	}
}

func listen() {
	base := 33000 + (os.Getpid()*13)%20000
	for i := 0; i < 4000; i++ {
		p := base + 2*i
		c, err := net.ListenUDP("udp4", &net.UDPAddr{IP: net.IPv4(127, 0, 0, 1), Port: p})
		if err != nil {
			continue
		}
		a, err := net.ListenUDP("udp4", &net.UDPAddr{IP: net.IPv4(127, 0, 0, 1), Port: p + 1})
		if err != nil {
			c.Close()
			continue
		}
		srv.resv, srv.conn, srv.isUp, srv.port = c, a, true, p
		return
	}
	panic("no free UDP port pair")
}

func (r *run) tok(id string) string {
	if _, ok := r.ids[id]; !ok {
		r.nextID++
		r.ids[id] = r.nextID
	}
	return "r" + strconv.Itoa(r.ids[id])
}

func join(xs []string) string {
	if len(xs) == 0 {
		return "-"
	}
	return strings.Join(xs, ",")
}

func (r *run) pend() string {
	var xs []string
	now := time.Now()
	ps := r.am.PendingForVerif()
	sort.Slice(ps, func(i, j int) bool { return ps[i].CreatedAt.Before(ps[j].CreatedAt) || (ps[i].CreatedAt.Equal(ps[j].CreatedAt) && ps[i].ID < ps[j].ID) })
	for _, p := range ps {
		xs = append(xs, fmt.Sprintf("%s:%d:%d", r.tok(p.ID), p.RetryCount, p.NextRetry.Sub(now).Nanoseconds()))
	}
	return join(xs)
}

func (r *run) taken() int {
	srv.mu.Lock()
	defer srv.mu.Unlock()
	n := srv.acc
	srv.acc = 0
	return n
}

func (r *run) Do(op string) string {
	t := hx.Fields(op)
	if len(t) == 0 {
		return "badop"
	}
	if t[0] == "newd" {
		if len(t) != 4 || r.am != nil {
			return "badop"
		}
		mr, e1 := strconv.Atoi(t[1])
		base, e2 := strconv.ParseInt(t[2], 10, 64)
		max, e3 := strconv.ParseInt(t[3], 10, 64)
		if e1 != nil || e2 != nil || e3 != nil || mr < 1 || base < 1 || max < 1 {
			return "badop"
		}
		r.dir = filepath.Join("/var/tmp", fmt.Sprintf("bngverif-acctretry-%d", os.Getpid()))
		os.RemoveAll(r.dir)
		os.MkdirAll(r.dir, 0755)
		port := srv.port
		r.taken()
		client, err := bng.NewClient(bng.ClientConfig{Servers: []bng.ServerConfig{{Host: "127.0.0.1", Port: port, Secret: secret}},
			NASID: "verif-nas", Timeout: 2 * time.Second, Retries: 1,
			RateLimit: bng.RateLimitConfig{RequestsPerSecond: 1e9, BurstSize: 1 << 30}}, zap.NewNop())
		if err != nil {
			panic(err)
		}
		am, err := bng.NewAccountingManager(client, bng.AccountingConfig{InterimEnabled: false, MaxRetries: mr,
			RetryBaseDelay: time.Duration(base), RetryMaxDelay: time.Duration(max), QueueSize: 64, PersistPath: r.dir,
			DrainOnShutdown: true}, zap.NewNop())
		if err != nil {
			panic(err)
		}
		r.am = am
		cur = r
		am.StartForVerif()
		return "ok"
	}
	if r.am == nil {
		return "badop"
	}
	ansOf := func(s string) bool {
		if s != "u" && s != "d" {
			return false
		}
		r.ans = s[0]
		return true
	}
	switch t[0] {
	case "start":
		if len(t) != 2 {
			return "badop"
		}
		r.ans = 'u'
		r.am.StartSession(&bng.AccountingSession{SessionID: t[1], Username: "u" + t[1]})
		r.taken()
		return "ok"
	case "stop":
		if len(t) != 3 || !ansOf(t[2]) {
			return "badop"
		}
		r.am.StopSession(t[1], 1)
		for _, p := range r.am.PendingForVerif() {
			r.tok(p.ID)
		}
		return fmt.Sprintf("ok acc=%d", r.taken())
	case "wait":
		if len(t) != 2 {
			return "badop"
		}
		ns, err := strconv.ParseInt(t[1], 10, 64)
		if err != nil || ns < 0 {
			return "badop"
		}
		if ns > 0 {
			// (time.Sleep with a tiny duration trips a go1.25.0 synctest scheduler bug: use a timer channel)
			tm := time.NewTimer(time.Duration(ns))
			<-tm.C
		}
		return "ok"
	case "retry", "deq":
		if len(t) != 2 || !ansOf(t[1]) {
			return "badop"
		}
		r.sent = nil
		res := "done"
		if t[0] == "retry" {
			r.am.RetryForVerif()
		} else if !r.am.StepQueueForVerif() {
			res = "empty"
		}
		var xs []string
		for _, id := range r.sent {
			xs = append(xs, r.tok(id))
		}
		sort.Strings(xs)
		return fmt.Sprintf("%s sent=%s acc=%d pend=%s", res, join(xs), r.taken(), r.pend())
	}
	return "badop"
}

// Gen: single-record schedules (every gate position, every back-off step up to and beyond the int64 overflow of
// base<<retries), and small multi-record mixes.
func (c *comp) Gen(r *rand.Rand, tier string, emit func([]string)) {
	for _, cfg := range []struct{ mr int; base, max int64 }{{4, 1000000, 8000000}, {70, 1000000000, 60000000000},
		{64, 3, 1 << 40}, {10, 7, 100}, {3, 5000000000, 1000000000}} {
		// fail as often as the budget allows, stepping exactly over every deadline
		seq := []string{fmt.Sprintf("newd %d %d %d", cfg.mr, cfg.base, cfg.max), "start s1", "stop s1 d", "retry d"}
		for i := 0; i < cfg.mr+1; i++ {
			seq = append(seq, "wait "+strconv.FormatInt(cfg.max, 10), "wait 1", "retry d")
		}
		emit(seq)
		// the gate: not due exactly at the deadline, due one nanosecond later
		emit([]string{fmt.Sprintf("newd %d %d %d", cfg.mr, cfg.base, cfg.max), "start s1", "stop s1 d",
			"wait " + strconv.FormatInt(cfg.base-1, 10), "retry u", "wait 1", "retry u", "wait 1", "retry u", "retry u"})
		emit([]string{fmt.Sprintf("newd %d %d %d", cfg.mr, cfg.base, cfg.max), "start s1", "stop s1 d", "deq d", "deq d",
			"retry u", "wait " + strconv.FormatInt(cfg.max, 10), "wait 1", "retry u"})
	}
	n := 60
	if tier == "thorough" {
		n = 3000
	}
	for i := 0; i < n; i++ {
		mr := 1 + r.Intn(6)
		base := int64(1 + r.Intn(2000))
		max := base * int64(1+r.Intn(20))
		seq := []string{fmt.Sprintf("newd %d %d %d", mr, base, max)}
		ns := 1 + r.Intn(3)
		for s := 1; s <= ns; s++ {
			seq = append(seq, fmt.Sprintf("start s%d", s))
		}
		stopped := 0
		for j := 0; j < 6+r.Intn(20); j++ {
			switch x := r.Intn(10); {
			case x < 2 && stopped < ns:
				stopped++
				seq = append(seq, fmt.Sprintf("stop s%d %s", stopped, "ud"[r.Intn(2):][:1]), "wait 1")
			case x < 6:
				seq = append(seq, "wait "+strconv.FormatInt(int64(r.Intn(int(max)+3)), 10))
			case x < 9:
				seq = append(seq, "retry "+"ddu"[r.Intn(3):][:1])
			default:
				seq = append(seq, "deq "+"du"[r.Intn(2):][:1])
			}
		}
		emit(seq)
	}
}
