// extractfsm — the `extract fsm` translator of /verif (DESIGN §3.1, property C11).
//
// Reads /repo/pkg/pppoe/{lcp,ipcp,ipv6cp}.go with go/ast and emits, for each of the three state machines,
// lean/Bng/Gen/Fsm{Lcp,Ipcp,Ipv6cp}.lean: the transition table of the event methods
//
//	Up Down Open closeInternal receiveConfigure{Request,Ack,Nak,Reject} receiveTerminate{Request,Ack} timeout
//
// in the vocabulary of lean/Bng/Model/Ncp.lean (Handler, St, Cond, Action, Pre, Eff, Tables).
//
// The subset it understands is deliberately small.  ANY statement of those methods (or of the helpers
// sendConfigureRequest/sendTerminateRequest/sendTerminateAck/initializeRestartCount/zeroRestartCount/setState/
// startTimer and the code switch of ReceivePacket) that is not in the subset makes it exit non-zero with a message
// naming the file, line and construct; nothing is emitted for that machine then.
package main

import (
	"bytes"
	"flag"
	"fmt"
	"go/ast"
	"go/parser"
	"go/printer"
	"go/token"
	"os"
	"path/filepath"
	"sort"
	"strconv"
	"strings"
)

type machine struct {
	file, typ, statePrefix, module, proto string
}

var machines = []machine{
	{"lcp.go", "LCPStateMachine", "LCPState", "FsmLcp", "ProtocolLCP"},
	{"ipcp.go", "IPCPStateMachine", "IPCPState", "FsmIpcp", "ProtocolIPCP"},
	{"ipv6cp.go", "IPV6CPStateMachine", "IPV6CPState", "FsmIpv6cp", "ProtocolIPv6CP"},
}

var stateNames = []string{"Initial", "Starting", "Closed", "Stopped", "Closing", "Stopping", "ReqSent", "AckRcvd", "AckSent", "Opened"}

// handler (Lean constructor) -> Go method
var handlers = [][2]string{
	{"up", "Up"}, {"down", "Down"}, {"open", "Open"}, {"close", "closeInternal"},
	{"rcr", "receiveConfigureRequest"}, {"rca", "receiveConfigureAck"}, {"rcn", "receiveConfigureNak"},
	{"rcj", "receiveConfigureReject"}, {"rtr", "receiveTerminateRequest"}, {"rta", "receiveTerminateAck"},
	{"timeout", "timeout"},
}

type failure struct{ msg string }

type tr struct {
	fset    *token.FileSet
	m       machine
	path    string
	recv    string // receiver variable name of the method being read
	methods map[string]*ast.FuncDecl
	codes   map[string]int // LCPCode* -> number
	pinned  map[string]bool
}

func (t *tr) fail(n ast.Node, format string, a ...any) {
	pos := t.fset.Position(n.Pos())
	panic(failure{fmt.Sprintf("extractfsm: %s:%d: %s", pos.Filename, pos.Line, fmt.Sprintf(format, a...))})
}

// src prints a node with the receiver variable renamed to `m`.
func (t *tr) src(n ast.Node) string {
	var b bytes.Buffer
	_ = printer.Fprint(&b, t.fset, n)
	s := b.String()
	// receiver rename on identifier boundaries
	var out strings.Builder
	i := 0
	isID := func(c byte) bool {
		return c == '_' || (c >= '0' && c <= '9') || (c >= 'a' && c <= 'z') || (c >= 'A' && c <= 'Z')
	}
	for i < len(s) {
		if strings.HasPrefix(s[i:], t.recv) && (i == 0 || !isID(s[i-1])) && (i+len(t.recv) >= len(s) || !isID(s[i+len(t.recv)])) {
			out.WriteString("m")
			i += len(t.recv)
			continue
		}
		out.WriteByte(s[i])
		i++
	}
	r := out.String()
	r = strings.ReplaceAll(r, t.m.proto, "PROTO")
	// collapse whitespace so that gofmt alignment does not matter
	return strings.Join(strings.Fields(r), " ")
}

// recvCall: `m.name(args)` as an expression statement -> (name, args)
func (t *tr) recvCall(s ast.Stmt) (string, []ast.Expr, bool) {
	es, ok := s.(*ast.ExprStmt)
	if !ok {
		return "", nil, false
	}
	c, ok := es.X.(*ast.CallExpr)
	if !ok {
		return "", nil, false
	}
	sel, ok := c.Fun.(*ast.SelectorExpr)
	if !ok {
		return "", nil, false
	}
	id, ok := sel.X.(*ast.Ident)
	if !ok || id.Name != t.recv {
		return "", nil, false
	}
	return sel.Sel.Name, c.Args, true
}

func (t *tr) isLogging(s ast.Stmt) bool {
	return strings.HasPrefix(t.src(s), "m.logger.")
}

func (t *tr) state(e ast.Expr) string {
	id, ok := e.(*ast.Ident)
	if !ok || !strings.HasPrefix(id.Name, t.m.statePrefix) {
		t.fail(e, "expected a %s* constant, found `%s`", t.m.statePrefix, t.src(e))
	}
	n := strings.TrimPrefix(id.Name, t.m.statePrefix)
	for _, s := range stateNames {
		if s == n {
			return n
		}
	}
	t.fail(e, "unknown state constant `%s`", id.Name)
	return ""
}

// fields/methods of the automaton that only the recognised constructs may touch
var core = map[string]bool{
	"state": true, "restartCount": true, "identifier": true, "lastIdentifier": true, "restartTimer": true,
	"setState": true, "sendConfigureRequest": true, "sendTerminateRequest": true, "sendTerminateAck": true,
	"sendCodeReject": true, "initializeRestartCount": true, "zeroRestartCount": true, "startTimer": true,
	"stopTimer": true, "sendPacket": true, "closeInternal": true, "timeout": true,
}

// opaque: the node neither writes a core field, nor calls a core method, nor leaves the function.
func (t *tr) opaque(n ast.Node, what string) {
	ast.Inspect(n, func(x ast.Node) bool {
		switch v := x.(type) {
		case *ast.ReturnStmt, *ast.GoStmt, *ast.DeferStmt:
			t.fail(v, "%s: control leaves the function inside a block that is modelled as option bookkeeping only: `%s`", what, t.src(v))
		case *ast.BranchStmt:
			if v.Tok == token.GOTO {
				t.fail(v, "%s: goto", what)
			}
		case *ast.CallExpr:
			if sel, ok := v.Fun.(*ast.SelectorExpr); ok {
				if id, ok := sel.X.(*ast.Ident); ok && id.Name == t.recv && core[sel.Sel.Name] {
					t.fail(v, "%s: call of %s.%s inside a block that is modelled as option bookkeeping only", what, t.recv, sel.Sel.Name)
				}
			}
			if id, ok := v.Fun.(*ast.Ident); ok && id.Name == "panic" {
				t.fail(v, "%s: panic", what)
			}
		case *ast.AssignStmt:
			for _, l := range v.Lhs {
				t.noCoreWrite(l, what)
			}
		case *ast.IncDecStmt:
			t.noCoreWrite(v.X, what)
		}
		return true
	})
}

func (t *tr) noCoreWrite(l ast.Expr, what string) {
	if sel, ok := l.(*ast.SelectorExpr); ok {
		if id, ok := sel.X.(*ast.Ident); ok && id.Name == t.recv && core[sel.Sel.Name] {
			t.fail(l, "%s: write to %s.%s outside the recognised constructs", what, t.recv, sel.Sel.Name)
		}
	}
}

// ---------------------------------------------------------------- case bodies

// actions translates the statements of one `case` body into a Lean `List Action` expression.
func (t *tr) actions(stmts []ast.Stmt, fn string, inIf bool) string {
	var parts []string
	var cur []string
	flush := func() {
		if len(cur) > 0 {
			parts = append(parts, "["+strings.Join(cur, ", ")+"]")
			cur = nil
		}
	}
	for _, s := range stmts {
		if name, args, ok := t.recvCall(s); ok {
			switch name {
			case "initializeRestartCount":
				t.nargs(s, args, 0)
				cur = append(cur, ".irc")
			case "zeroRestartCount":
				t.nargs(s, args, 0)
				cur = append(cur, ".zrc")
			case "sendConfigureRequest":
				t.nargs(s, args, 0)
				cur = append(cur, ".scr")
			case "sendTerminateRequest":
				t.nargs(s, args, 1)
				cur = append(cur, ".str")
			case "sendTerminateAck":
				t.nargs(s, args, 1)
				if t.src(args[0]) != "pkt.Identifier" {
					t.fail(s, "%s: sendTerminateAck must echo pkt.Identifier, found `%s`", fn, t.src(args[0]))
				}
				cur = append(cur, ".sta")
			case "setState":
				t.nargs(s, args, 1)
				cur = append(cur, ".setState ."+t.state(args[0]))
			default:
				t.fail(s, "%s: call `%s` in a case body is outside the subset (irc zrc scr str sta setState)", fn, t.src(s))
			}
			continue
		}
		if ifs, ok := s.(*ast.IfStmt); ok && !inIf && fn == "receiveConfigureRequest" && ifs.Init == nil {
			c := t.src(ifs.Cond)
			var thenL, elseL string
			thenL = t.actions(ifs.Body.List, fn, true)
			elseL = "[]"
			if ifs.Else != nil {
				eb, ok := ifs.Else.(*ast.BlockStmt)
				if !ok {
					t.fail(ifs.Else, "%s: else-if in a case body is outside the subset", fn)
				}
				elseL = t.actions(eb.List, fn, true)
			}
			switch c {
			case "respCode == LCPCodeConfigAck":
			case "respCode != LCPCodeConfigAck":
				thenL, elseL = elseL, thenL
			default:
				t.fail(ifs, "%s: condition `%s` in a case body is outside the subset (respCode ==/!= LCPCodeConfigAck)", fn, c)
			}
			flush()
			parts = append(parts, fmt.Sprintf("(if c.respAck then %s else %s)", thenL, elseL))
			continue
		}
		t.fail(s, "%s: statement `%s` in a case body is outside the subset", fn, t.src(s))
	}
	flush()
	if len(parts) == 0 {
		return "[]"
	}
	return strings.Join(parts, " ++ ")
}

func (t *tr) nargs(s ast.Stmt, args []ast.Expr, n int) {
	if len(args) != n {
		t.fail(s, "`%s`: expected %d argument(s)", t.src(s), n)
	}
}

// stateSwitch translates `switch m.state { case …: … }` into state -> Lean expression.
func (t *tr) stateSwitch(sw *ast.SwitchStmt, fn string) map[string]string {
	if sw.Init != nil || sw.Tag == nil || t.src(sw.Tag) != "m.state" {
		t.fail(sw, "%s: expected `switch %s.state`", fn, t.recv)
	}
	out := map[string]string{}
	for _, c := range sw.Body.List {
		cc := c.(*ast.CaseClause)
		if cc.List == nil {
			t.fail(cc, "%s: `default:` in the state switch is outside the subset", fn)
		}
		body := t.actions(cc.Body, fn, false)
		for _, e := range cc.List {
			st := t.state(e)
			if _, dup := out[st]; dup {
				t.fail(e, "%s: state %s listed twice", fn, st)
			}
			out[st] = body
		}
	}
	return out
}

// ---------------------------------------------------------------- handlers

const replyBlock = `ackOpts, nakOpts, rejOpts := m.processConfigureOptions(opts) | var respCode uint8 | var respOpts []LCPOption | ` +
	`if len(rejOpts) > 0 { respCode = LCPCodeConfigReject respOpts = rejOpts } else if len(nakOpts) > 0 { respCode = LCPCodeConfigNak respOpts = nakOpts } else { respCode = LCPCodeConfigAck respOpts = ackOpts%s } | ` +
	`resp := &LCPPacket{ Code: respCode, Identifier: pkt.Identifier, Data: SerializeLCPOptions(respOpts), } | ` +
	`m.sendPacket(PROTO, resp.Serialize())`

const allocBlock = `if m.config.PeerIP == nil && m.config.IPPool != nil { m.config.PeerIP = m.config.IPPool.Allocate(m.sessionID) m.negotiated.PeerIP = m.config.PeerIP m.logger.Debug("Allocated IP for peer", zap.String("ip", m.config.PeerIP.String()), ) }`
const releaseBlock = `if m.config.IPPool != nil && m.negotiated.PeerIP != nil { m.config.IPPool.Release(m.sessionID) m.config.PeerIP = nil m.negotiated.PeerIP = nil }`

type handlerOut struct {
	pre   []string
	table map[string]string // state -> Lean list expression (may mention c.respAck / c.rcPos)
}

func (t *tr) handler(goName string) handlerOut {
	fd := t.methods[goName]
	if fd == nil {
		panic(failure{fmt.Sprintf("extractfsm: %s: method %s.%s not found", t.path, t.m.typ, goName)})
	}
	t.recv = fd.Recv.List[0].Names[0].Name
	var out handlerOut
	out.table = map[string]string{}
	stmts := fd.Body.List
	seenSwitch := false
	for i := 0; i < len(stmts); i++ {
		s := stmts[i]
		text := t.src(s)
		if seenSwitch {
			if text == "return nil" && i == len(stmts)-1 {
				continue
			}
			t.fail(s, "%s: statement `%s` after the state switch is outside the subset", goName, text)
		}
		switch {
		case text == "m.mu.Lock()" || text == "defer m.mu.Unlock()":
		case t.isLogging(s):
		case text == "m.stopTimer()":
			out.pre = append(out.pre, ".stopTimer")
		case text == "m.failureCount++":
			out.pre = append(out.pre, ".incFailure")
		case text == allocBlock:
			out.pre = append(out.pre, ".allocPeer")
		case text == releaseBlock:
			out.pre = append(out.pre, ".releasePeer")
		case text == "return nil" && i == len(stmts)-1:
		case text == "opts, err := ParseLCPOptions(pkt.Data)":
			if i+1 >= len(stmts) {
				t.fail(s, "%s: ParseLCPOptions error is never tested", goName)
			}
			nx, ok := stmts[i+1].(*ast.IfStmt)
			if !ok || nx.Init != nil || t.src(nx.Cond) != "err != nil" || nx.Else != nil || len(nx.Body.List) != 1 {
				t.fail(stmts[i+1], "%s: expected `if err != nil { return … }` after ParseLCPOptions", goName)
			}
			if _, ok := nx.Body.List[0].(*ast.ReturnStmt); !ok {
				t.fail(nx.Body.List[0], "%s: expected `return` in the ParseLCPOptions error branch", goName)
			}
			out.pre = append(out.pre, ".parseAbort")
			i++
		case text == "opts, _ := ParseLCPOptions(pkt.Data)":
			out.pre = append(out.pre, ".parseLax")
		case strings.HasPrefix(text, "ackOpts, nakOpts, rejOpts :="):
			// the reply block of receiveConfigureRequest: six statements, matched as text
			if i+6 > len(stmts) {
				t.fail(s, "%s: truncated reply block", goName)
			}
			var ps []string
			for _, x := range stmts[i : i+6] {
				ps = append(ps, t.src(x))
			}
			got := strings.Join(ps, " | ")
			if got != fmt.Sprintf(replyBlock, "") && got != fmt.Sprintf(replyBlock, " m.storePeerOptions(opts)") {
				t.fail(s, "%s: the Ack/Nak/Reject selection and reply block changed; it is modelled by hand "+
					"(Bng.Ncp.replyTo) and must be re-read.\n  found:    %s\n  expected: %s", goName, got, fmt.Sprintf(replyBlock, "[ m.storePeerOptions(opts)]"))
			}
			out.pre = append(out.pre, ".reply")
			i += 5
		default:
			switch v := s.(type) {
			case *ast.IfStmt:
				c := t.src(v.Cond)
				if c == "pkt.Identifier != m.lastIdentifier" && v.Init == nil && v.Else == nil {
					// guard: only logging and `return nil`
					n := len(v.Body.List)
					if n == 0 || t.src(v.Body.List[n-1]) != "return nil" {
						t.fail(v, "%s: identifier guard must end in `return nil`", goName)
					}
					for _, b := range v.Body.List[:n-1] {
						if !t.isLogging(b) {
							t.fail(b, "%s: statement `%s` inside the identifier guard is outside the subset", goName, t.src(b))
						}
					}
					out.pre = append(out.pre, ".guardId")
					continue
				}
				if c == "m.restartCount > 0" && goName == "timeout" && v.Init == nil {
					ppre, pos := t.onlySwitch(v.Body, goName)
					eb, ok := v.Else.(*ast.BlockStmt)
					if !ok {
						t.fail(v, "%s: expected `if %s.restartCount > 0 { switch } else { switch }`", goName, t.recv)
					}
					npre, neg := t.onlySwitch(eb, goName)
					for _, st := range stateNames {
						p, hp := pos[st]
						n, hn := neg[st]
						if !hp && !hn && ppre == "" && npre == "" {
							continue
						}
						// statements before the switch of a branch run in every state
						p = concat(ppre, p, hp)
						n = concat(npre, n, hn)
						out.table[st] = fmt.Sprintf("(if c.rcPos then %s else %s)", p, n)
					}
					seenSwitch = true
					continue
				}
				t.fail(v, "%s: `if %s` is outside the subset", goName, c)
			case *ast.SwitchStmt:
				out.table = t.stateSwitch(v, goName)
				seenSwitch = true
			case *ast.RangeStmt:
				if t.src(v.X) != "opts" {
					t.fail(v, "%s: range over `%s` is outside the subset", goName, t.src(v.X))
				}
				t.opaque(v.Body, goName+": option loop")
				out.pre = append(out.pre, ".applyOpts")
			default:
				t.fail(s, "%s: statement `%s` is outside the subset", goName, text)
			}
		}
	}
	return out
}

// onlySwitch: a branch of timeout(): optional `m.stopTimer()` statements, then exactly one state switch.
func (t *tr) onlySwitch(b *ast.BlockStmt, fn string) (string, map[string]string) {
	var pre []string
	list := b.List
	for len(list) > 0 && t.src(list[0]) == "m.stopTimer()" {
		pre = append(pre, ".stopTimer")
		list = list[1:]
	}
	if len(list) != 1 {
		t.fail(b, "%s: expected [%s.stopTimer()] and exactly one state switch in the branch", fn, t.recv)
	}
	sw, ok := list[0].(*ast.SwitchStmt)
	if !ok {
		t.fail(list[0], "%s: expected a state switch, found `%s`", fn, t.src(list[0]))
	}
	p := ""
	if len(pre) > 0 {
		p = "[" + strings.Join(pre, ", ") + "]"
	}
	return p, t.stateSwitch(sw, fn)
}

func concat(pre, body string, has bool) string {
	switch {
	case pre == "" && !has:
		return "[]"
	case pre == "":
		return body
	case !has || body == "[]":
		return pre
	}
	return pre + " ++ " + body
}

// ---------------------------------------------------------------- helpers

func (t *tr) sendEffs(goName string, wantCode string, wantID string) []string {
	fd := t.methods[goName]
	if fd == nil {
		panic(failure{fmt.Sprintf("extractfsm: %s: method %s.%s not found", t.path, t.m.typ, goName)})
	}
	t.recv = fd.Recv.List[0].Names[0].Name
	var effs []string
	sawLit := false
	for _, s := range fd.Body.List {
		text := t.src(s)
		switch {
		case text == "m.identifier++":
			effs = append(effs, ".incId")
		case text == "m.lastIdentifier = m.identifier":
			effs = append(effs, ".setLastId")
		case strings.HasPrefix(text, "m.sendPacket(PROTO, pkt.Serialize())"):
			effs = append(effs, ".send")
		case text == "m.startTimer()":
			effs = append(effs, ".startTimer")
		case text == "m.restartCount--":
			effs = append(effs, ".decRc")
		default:
			t.opaque(s, goName)
			ast.Inspect(s, func(x ast.Node) bool {
				cl, ok := x.(*ast.CompositeLit)
				if !ok || t.src(cl.Type) != "LCPPacket" {
					return true
				}
				sawLit = true
				for _, e := range cl.Elts {
					kv := e.(*ast.KeyValueExpr)
					k, v := t.src(kv.Key), t.src(kv.Value)
					if k == "Code" && v != wantCode {
						t.fail(kv, "%s: packet code `%s`, expected %s", goName, v, wantCode)
					}
					if k == "Identifier" && v != wantID {
						t.fail(kv, "%s: packet identifier `%s`, expected %s", goName, v, wantID)
					}
				}
				return true
			})
		}
	}
	if !sawLit {
		t.fail(fd, "%s: no LCPPacket literal found", goName)
	}
	return effs
}

func (t *tr) bodyText(fd *ast.FuncDecl) string {
	t.recv = fd.Recv.List[0].Names[0].Name
	var ps []string
	for _, s := range fd.Body.List {
		if t.isLogging(s) {
			continue
		}
		ps = append(ps, t.src(s))
	}
	return strings.Join(ps, " | ")
}

func (t *tr) exactBody(goName string, allowed ...string) {
	fd := t.methods[goName]
	if fd == nil {
		panic(failure{fmt.Sprintf("extractfsm: %s: method %s.%s not found", t.path, t.m.typ, goName)})
	}
	t.pinned[goName] = true
	got := t.bodyText(fd)
	for _, a := range allowed {
		if got == a {
			return
		}
	}
	t.fail(fd, "%s: body changed; it is modelled by hand and must be re-read.\n  found:    %s\n  expected: %s", goName, got, strings.Join(allowed, "\n        or: "))
}

func (t *tr) dispatch() (disp []string, extra []string, unknownRejects bool) {
	fd := t.methods["ReceivePacket"]
	if fd == nil {
		panic(failure{fmt.Sprintf("extractfsm: %s: method %s.ReceivePacket not found", t.path, t.m.typ)})
	}
	t.recv = fd.Recv.List[0].Names[0].Name
	var sw *ast.SwitchStmt
	for i, s := range fd.Body.List {
		text := t.src(s)
		switch {
		case sw != nil:
			t.fail(s, "ReceivePacket: statement `%s` after the code switch is outside the subset", text)
		case text == "pkt, err := ParseLCPPacket(data)" && i == 0:
		case i == 1 && strings.HasPrefix(text, "if err != nil { return fmt.Errorf("):
			if v, ok := s.(*ast.IfStmt); !ok || v.Else != nil || len(v.Body.List) != 1 {
				t.fail(s, "ReceivePacket: expected `if err != nil { return fmt.Errorf(…) }`")
			}
		case text == "m.mu.Lock()" || text == "defer m.mu.Unlock()":
		case t.isLogging(s):
		default:
			v, ok := s.(*ast.SwitchStmt)
			if !ok {
				t.fail(s, "ReceivePacket: statement `%s` before the code switch is outside the subset "+
					"(ParseLCPPacket + error return, lock, logging)", text)
			}
			sw = v
		}
	}
	if sw == nil || sw.Init != nil || sw.Tag == nil || t.src(sw.Tag) != "pkt.Code" {
		t.fail(fd, "ReceivePacket: expected `switch pkt.Code`")
	}
	rev := map[string]string{}
	for _, h := range handlers {
		rev[h[1]] = h[0]
	}
	for _, c := range sw.Body.List {
		cc := c.(*ast.CaseClause)
		if cc.List == nil {
			body := ""
			for _, s := range cc.Body {
				body += t.src(s) + " | "
			}
			switch body {
			case "return nil | ":
			case "m.sendCodeReject(pkt) | return nil | ":
				unknownRejects = true
			default:
				t.fail(cc, "ReceivePacket: default branch `%s` is outside the subset", body)
			}
			continue
		}
		for _, e := range cc.List {
			id, ok := e.(*ast.Ident)
			if !ok {
				t.fail(e, "ReceivePacket: case expression `%s` is outside the subset", t.src(e))
			}
			code, ok := t.codes[id.Name]
			if !ok {
				t.fail(e, "ReceivePacket: unknown code constant %s", id.Name)
			}
			h := ""
			if len(cc.Body) == 1 {
				if r, ok := cc.Body[0].(*ast.ReturnStmt); ok && len(r.Results) == 1 {
					if call, ok := r.Results[0].(*ast.CallExpr); ok && len(call.Args) == 1 && t.src(call.Args[0]) == "pkt" {
						if sel, ok := call.Fun.(*ast.SelectorExpr); ok && t.src(sel.X) == "m" {
							h = rev[sel.Sel.Name]
						}
					}
				}
			}
			if h != "" {
				disp = append(disp, fmt.Sprintf("(%d, .%s)", code, h))
			} else {
				// codes that are not automaton events: their handling is modelled by hand (Bng.Ncp.step0) and pinned below
				want := map[int]string{7: "return m.receiveCodeReject(pkt)", 8: "return m.receiveProtocolReject(pkt)",
					9: "return m.receiveEchoRequest(pkt)", 10: "return m.receiveEchoReply(pkt)", 11: "return nil"}[code]
				got := ""
				for _, b := range cc.Body {
					got += t.src(b) + " | "
				}
				if want == "" || got != want+" | " {
					t.fail(cc, "ReceivePacket: case %s: body `%s` is outside the subset", id.Name, got)
				}
				extra = append(extra, strconv.Itoa(code))
			}
		}
	}
	return
}

// ---------------------------------------------------------------- pins and sweep

var dumpBodies bool

// Lean namespace of the emitted modules: Bng.Gen (regenerated on every run) or Bng.GenRef (committed reference)
var namespace = "Bng.Gen"

// bodies that Bng/Model/Ncp.lean models by hand (step0: Code-Reject, Protocol-Reject, Echo, the Send* API,
// SetPeerIP): any textual change must be re-read against the model.
var pins = map[string]map[string]string{
	"lcp.go": {
		"receiveCodeReject":     `if len(pkt.Data) > 0 { rejectedCode := pkt.Data[0] if rejectedCode >= LCPCodeConfigRequest && rejectedCode <= LCPCodeConfigReject { m.closeInternal("Critical code rejected") } } | return nil`,
		"receiveProtocolReject": `if len(pkt.Data) < 2 { return nil } | rejectedProto := binary.BigEndian.Uint16(pkt.Data[:2]) | if rejectedProto == PROTO { m.closeInternal("LCP rejected") } | return nil`,
		"receiveEchoRequest":    `if m.state != LCPStateOpened { return nil } | if len(pkt.Data) < 4 { return nil } | replyData := make([]byte, 4+len(pkt.Data)-4) | binary.BigEndian.PutUint32(replyData[:4], m.config.MagicNumber) | if len(pkt.Data) > 4 { copy(replyData[4:], pkt.Data[4:]) } | reply := &LCPPacket{ Code: LCPCodeEchoReply, Identifier: pkt.Identifier, Data: replyData, } | m.sendPacket(PROTO, reply.Serialize()) | return nil`,
		"receiveEchoReply":      `return nil`,
		"SendEchoRequest":       `m.mu.Lock() | defer m.mu.Unlock() | if m.state != LCPStateOpened { return 0 } | m.identifier++ | data := make([]byte, 4) | binary.BigEndian.PutUint32(data, m.config.MagicNumber) | pkt := &LCPPacket{ Code: LCPCodeEchoRequest, Identifier: m.identifier, Data: data, } | m.sendPacket(PROTO, pkt.Serialize()) | return m.identifier`,
		"SendProtocolReject":    `m.mu.Lock() | defer m.mu.Unlock() | m.identifier++ | rejectData := make([]byte, 2+len(data)) | binary.BigEndian.PutUint16(rejectData[:2], protocol) | copy(rejectData[2:], data) | pkt := &LCPPacket{ Code: LCPCodeProtoReject, Identifier: m.identifier, Data: rejectData, } | m.sendPacket(PROTO, pkt.Serialize())`,
		"sendCodeReject":        `m.identifier++ | rejectedData := rejected.Serialize() | pkt := &LCPPacket{ Code: LCPCodeCodeReject, Identifier: m.identifier, Data: rejectedData, } | m.sendPacket(PROTO, pkt.Serialize())`,
	},
	"ipcp.go": {
		"SetPeerIP": `m.mu.Lock() | defer m.mu.Unlock() | m.config.PeerIP = ip | m.negotiated.PeerIP = ip`,
	},
	"ipv6cp.go": {},
}

// translated or pinned methods: the only places that may touch the automaton's core fields
var translated = []string{"Up", "Down", "Open", "closeInternal", "receiveConfigureRequest", "receiveConfigureAck",
	"receiveConfigureNak", "receiveConfigureReject", "receiveTerminateRequest", "receiveTerminateAck", "timeout",
	"sendConfigureRequest", "sendTerminateRequest", "sendTerminateAck", "ReceivePacket"}

var machineTypes = map[string]string{"LCPStateMachine": "LCPState", "IPCPStateMachine": "IPCPState", "IPV6CPStateMachine": "IPV6CPState"}

func recvType(fd *ast.FuncDecl) string {
	if fd.Recv == nil || len(fd.Recv.List) != 1 {
		return ""
	}
	ty := fd.Recv.List[0].Type
	if st, ok := ty.(*ast.StarExpr); ok {
		ty = st.X
	}
	if id, ok := ty.(*ast.Ident); ok {
		return id.Name
	}
	return ""
}

// sweep: every function of package pppoe (non-test files, without the verif build tag) that is not a translated or
// pinned method of this machine must leave the automaton alone: no write to state/restartCount/identifier/
// lastIdentifier/restartTimer, no call of a core method, no assignment of one of this machine's state constants to a
// field named `state`.  (Syntactic: receiver/parameter names of machine type, the field names that only the three
// machines have, and the state constants.  A write through a local alias of another name to `identifier` alone is
// not seen.)
func (t *tr) sweep(repo string, own *ast.File) {
	known := map[string]bool{}
	for _, n := range translated {
		known[n] = true
	}
	for n := range t.pinned {
		known[n] = true
	}
	dir := filepath.Join(repo, "pkg/pppoe")
	ents, err := os.ReadDir(dir)
	if err != nil {
		panic(failure{fmt.Sprintf("extractfsm: %s: %v", dir, err)})
	}
	for _, e := range ents {
		n := e.Name()
		if !strings.HasSuffix(n, ".go") || strings.HasSuffix(n, "_test.go") {
			continue
		}
		path := filepath.Join(dir, n)
		src, err := os.ReadFile(path)
		if err != nil {
			panic(failure{fmt.Sprintf("extractfsm: %s: %v", path, err)})
		}
		if bytes.HasPrefix(bytes.TrimSpace(src), []byte("//go:build verif")) {
			continue // verification hooks: compiled only into the harness
		}
		f, err := parser.ParseFile(t.fset, path, src, 0)
		if err != nil {
			panic(failure{fmt.Sprintf("extractfsm: %s: %v", path, err)})
		}
		for _, d := range f.Decls {
			fd, ok := d.(*ast.FuncDecl)
			if !ok || fd.Body == nil {
				continue
			}
			rt := recvType(fd)
			if rt == t.m.typ && n == t.m.file && known[fd.Name.Name] {
				continue
			}
			if rt == t.m.typ && n != t.m.file && known[fd.Name.Name] {
				t.fail(fd, "method %s.%s is declared in %s, not in %s", rt, fd.Name.Name, n, t.m.file)
			}
			// names bound to this machine's type in the signature
			mine := map[string]bool{}
			collect := func(fl *ast.FieldList) {
				if fl == nil {
					return
				}
				for _, fld := range fl.List {
					ty := fld.Type
					if st, ok := ty.(*ast.StarExpr); ok {
						ty = st.X
					}
					if id, ok := ty.(*ast.Ident); ok && id.Name == t.m.typ {
						for _, nm := range fld.Names {
							mine[nm.Name] = true
						}
					}
				}
			}
			collect(fd.Recv)
			collect(fd.Type.Params)
			where := fmt.Sprintf("%s (%s)", fd.Name.Name, n)
			if rt != "" {
				where = fmt.Sprintf("%s.%s (%s)", rt, fd.Name.Name, n)
			}
			write := func(l ast.Expr, rhs ast.Expr) {
				sel, ok := l.(*ast.SelectorExpr)
				if !ok {
					return
				}
				x, _ := sel.X.(*ast.Ident)
				f := sel.Sel.Name
				unique := f == "restartCount" || f == "lastIdentifier" || f == "restartTimer"
				coreField := unique || f == "state" || f == "identifier"
				if coreField && x != nil && mine[x.Name] {
					t.fail(l, "%s writes %s.%s: only the translated event methods may (it is not translated, so the tables would not change)", where, x.Name, f)
				}
				if unique && (rt == "" || machineTypes[rt] == "") {
					t.fail(l, "%s writes the automaton field .%s", where, f)
				}
				if f == "state" && rhs != nil {
					if id, ok := rhs.(*ast.Ident); ok && strings.HasPrefix(id.Name, t.m.statePrefix) {
						t.fail(l, "%s assigns %s to a .state field outside the translated event methods", where, id.Name)
					}
				}
			}
			ast.Inspect(fd.Body, func(x ast.Node) bool {
				switch v := x.(type) {
				case *ast.AssignStmt:
					for i, l := range v.Lhs {
						var r ast.Expr
						if len(v.Rhs) == len(v.Lhs) {
							r = v.Rhs[i]
						}
						write(l, r)
					}
				case *ast.IncDecStmt:
					write(v.X, nil)
				case *ast.CallExpr:
					if sel, ok := v.Fun.(*ast.SelectorExpr); ok {
						if id, ok := sel.X.(*ast.Ident); ok && mine[id.Name] && core[sel.Sel.Name] && sel.Sel.Name != "sendPacket" {
							t.fail(v, "%s calls %s.%s: only the translated event methods may", where, id.Name, sel.Sel.Name)
						}
					}
				case *ast.CompositeLit:
					if id, ok := v.Type.(*ast.Ident); ok && id.Name == t.m.typ {
						for _, e := range v.Elts {
							kv, ok := e.(*ast.KeyValueExpr)
							if !ok {
								continue
							}
							k := t.src(kv.Key)
							if k == "state" && t.src(kv.Value) != t.m.statePrefix+"Initial" {
								t.fail(kv, "%s constructs a %s in state %s, the model starts in Initial", where, t.m.typ, t.src(kv.Value))
							}
							if k == "restartCount" || k == "identifier" || k == "lastIdentifier" || k == "restartTimer" {
								t.fail(kv, "%s constructs a %s with %s set, the model starts from the zero value", where, t.m.typ, k)
							}
						}
					}
				}
				return true
			})
		}
	}
	_ = own
}

// ---------------------------------------------------------------- driver

func loadCodes(fset *token.FileSet, path string) map[string]int {
	f, err := parser.ParseFile(fset, path, nil, 0)
	if err != nil {
		panic(failure{fmt.Sprintf("extractfsm: %s: %v", path, err)})
	}
	codes := map[string]int{}
	for _, d := range f.Decls {
		gd, ok := d.(*ast.GenDecl)
		if !ok || gd.Tok != token.CONST {
			continue
		}
		for _, sp := range gd.Specs {
			vs := sp.(*ast.ValueSpec)
			for i, n := range vs.Names {
				if strings.HasPrefix(n.Name, "LCPCode") && i < len(vs.Values) {
					if bl, ok := vs.Values[i].(*ast.BasicLit); ok {
						v, err := strconv.ParseInt(bl.Value, 0, 32)
						if err == nil {
							codes[n.Name] = int(v)
						}
					}
				}
			}
		}
	}
	want := map[string]int{"LCPCodeConfigRequest": 1, "LCPCodeConfigAck": 2, "LCPCodeConfigNak": 3, "LCPCodeConfigReject": 4,
		"LCPCodeTermRequest": 5, "LCPCodeTermAck": 6, "LCPCodeCodeReject": 7, "LCPCodeProtoReject": 8, "LCPCodeEchoRequest": 9, "LCPCodeEchoReply": 10}
	for k, v := range want {
		if codes[k] != v {
			panic(failure{fmt.Sprintf("extractfsm: %s: constant %s = %d, the model (Bng.Ncp.cCR…) assumes %d", path, k, codes[k], v)})
		}
	}
	return codes
}

func (t *tr) checkStates(f *ast.File) {
	// the iota block must declare the ten states in RFC order (the harness prints LCPState.String())
	var got []string
	for _, d := range f.Decls {
		gd, ok := d.(*ast.GenDecl)
		if !ok || gd.Tok != token.CONST {
			continue
		}
		for _, sp := range gd.Specs {
			for _, n := range sp.(*ast.ValueSpec).Names {
				if strings.HasPrefix(n.Name, t.m.statePrefix) {
					got = append(got, strings.TrimPrefix(n.Name, t.m.statePrefix))
				}
			}
		}
	}
	if strings.Join(got, ",") != strings.Join(stateNames, ",") {
		panic(failure{fmt.Sprintf("extractfsm: %s: state constants %v, expected %v", t.path, got, stateNames)})
	}
}

func translate(repo string, m machine) (lean string, err error) {
	defer func() {
		if e := recover(); e != nil {
			if f, ok := e.(failure); ok {
				err = fmt.Errorf("%s", f.msg)
				return
			}
			panic(e)
		}
	}()
	fset := token.NewFileSet()
	t := &tr{fset: fset, m: m, path: filepath.Join(repo, "pkg/pppoe", m.file), methods: map[string]*ast.FuncDecl{}, pinned: map[string]bool{}}
	t.codes = loadCodes(fset, filepath.Join(repo, "pkg/pppoe/protocol.go"))
	f, perr := parser.ParseFile(fset, t.path, nil, 0)
	if perr != nil {
		return "", fmt.Errorf("extractfsm: %s: %v", t.path, perr)
	}
	t.checkStates(f)
	for _, d := range f.Decls {
		fd, ok := d.(*ast.FuncDecl)
		if !ok || fd.Recv == nil || len(fd.Recv.List) != 1 || len(fd.Recv.List[0].Names) != 1 {
			continue
		}
		st, ok := fd.Recv.List[0].Type.(*ast.StarExpr)
		if !ok {
			continue
		}
		if id, ok := st.X.(*ast.Ident); ok && id.Name == m.typ {
			t.methods[fd.Name.Name] = fd
		}
	}

	// hand-modelled helpers: must be textually what the model assumes
	t.exactBody("Close", `m.mu.Lock() | defer m.mu.Unlock() | m.closeInternal("Admin close")`)
	t.exactBody("zeroRestartCount", "m.restartCount = 0")
	if m.file == "lcp.go" {
		t.exactBody("initializeRestartCount", "m.restartCount = m.config.MaxConfigure")
	} else {
		t.exactBody("initializeRestartCount", "m.restartCount = m.config.MaxRetransmit | if m.restartCount == 0 { m.restartCount = 10 }")
	}
	t.exactBody("setState", "oldState := m.state | m.state = newState | if m.onStateChange != nil { m.onStateChange(oldState, newState) }")
	t.exactBody("stopTimer", "m.timerMu.Lock() | defer m.timerMu.Unlock() | if m.restartTimer != nil { m.restartTimer.Stop() m.restartTimer = nil }")
	t.exactBody("startTimer",
		"m.timerMu.Lock() | defer m.timerMu.Unlock() | if m.restartTimer != nil { m.restartTimer.Stop() } | m.restartTimer = time.AfterFunc(m.config.RestartTimer, func() { m.timeout() })",
		"m.timerMu.Lock() | defer m.timerMu.Unlock() | if m.restartTimer != nil { m.restartTimer.Stop() } | timeout := m.config.RestartTimer | if timeout == 0 { timeout = 3 * time.Second } | m.restartTimer = time.AfterFunc(timeout, func() { m.timeout() })")

	t.exactBody("GetState", "m.mu.RLock() | defer m.mu.RUnlock() | return m.state")
	t.exactBody("IsOpened", "m.mu.RLock() | defer m.mu.RUnlock() | return m.state == "+m.statePrefix+"Opened")
	t.exactBody("SetOnStateChange", "m.mu.Lock() | defer m.mu.Unlock() | m.onStateChange = callback")
	for name, text := range pins[m.file] {
		t.exactBody(name, text)
	}
	if dumpBodies {
		var names []string
		for n := range t.methods {
			names = append(names, n)
		}
		sort.Strings(names)
		for _, n := range names {
			fmt.Printf("%s %s: %s\n", m.file, n, t.bodyText(t.methods[n]))
		}
	}
	t.sweep(repo, f)

	var b strings.Builder
	if namespace == "Bng.Gen" {
		fmt.Fprintf(&b, "-- GENERATED by /verif/harness/cmd/extractfsm from %s — regenerated on every run, do not edit, do not commit.\n", t.path)
	} else {
		fmt.Fprintf(&b, "-- REFERENCE tables: generated by /verif/tools/refresh-genref.sh (extractfsm -ns %s) from pkg/pppoe/%s; committed.\n"+
			"-- Used only by bngdrv-ncp-ref, the search fallback of checks/c11.py when the translator refuses the source; no theorem refers to them.\n", namespace, m.file)
	}
	fmt.Fprintf(&b, "import Bng.Model.Ncp\nnamespace %s.%s\nopen Bng.Ncp\n\n", namespace, m.module)
	fmt.Fprintf(&b, "/-- the `switch %s.state` bodies of the event methods of %s -/\n", "m", m.typ)
	fmt.Fprintf(&b, "def table : Handler → St → Cond → List Action\n")
	var preLines []string
	for _, h := range handlers {
		ho := t.handler(h[1])
		for _, st := range stateNames {
			if e, ok := ho.table[st]; ok {
				cv := "_"
				if strings.Contains(e, "c.") {
					cv = "c"
				}
				fmt.Fprintf(&b, "  | .%s, .%s, %s => %s\n", h[0], st, cv, e)
			}
		}
		preLines = append(preLines, fmt.Sprintf("  | .%s => [%s]", h[0], strings.Join(ho.pre, ", ")))
	}
	fmt.Fprintf(&b, "  | _, _, _ => []\n\n")
	fmt.Fprintf(&b, "/-- the statements of each event method before its state switch -/\ndef pre : Handler → List Pre\n%s\n\n", strings.Join(preLines, "\n"))
	scr := t.sendEffs("sendConfigureRequest", "LCPCodeConfigRequest", "m.identifier")
	str := t.sendEffs("sendTerminateRequest", "LCPCodeTermRequest", "m.identifier")
	sta := t.sendEffs("sendTerminateAck", "LCPCodeTermAck", "identifier")
	fmt.Fprintf(&b, "/-- sendConfigureRequest / sendTerminateRequest / sendTerminateAck -/\ndef effs : Send → List Eff\n  | .scr => [%s]\n  | .str => [%s]\n  | .sta => [%s]\n\n",
		strings.Join(scr, ", "), strings.Join(str, ", "), strings.Join(sta, ", "))
	disp, extra, ur := t.dispatch()
	sort.Strings(extra)
	fmt.Fprintf(&b, "def tables : Tables :=\n  { table := table, pre := pre, effs := effs,\n    dispatch := [%s],\n    extra := [%s],\n    unknownRejects := %v }\n\n",
		strings.Join(disp, ", "), strings.Join(extra, ", "), ur)
	fmt.Fprintf(&b, "end %s.%s\n", namespace, m.module)
	return b.String(), nil
}

func main() {
	repo := flag.String("repo", "/repo", "bng working tree")
	out := flag.String("out", "/verif/lean/Bng/Gen", "output directory")
	flag.StringVar(&namespace, "ns", "Bng.Gen", "Lean namespace prefix of the emitted modules (Bng.GenRef for the committed reference tables)")
	flag.BoolVar(&dumpBodies, "dump", false, "print the normalised bodies of all methods (for maintaining the pins)")
	flag.Parse()
	rc := 0
	for _, m := range machines {
		p := filepath.Join(*out, m.module+".lean")
		lean, err := translate(*repo, m)
		if err != nil {
			// no table for a source the translator does not understand: a stale one must not survive
			_ = os.Remove(p)
			fmt.Fprintln(os.Stderr, err)
			rc = 1
			continue
		}
		// atomically: a concurrent `lake build` sees either the old table or the new one, never half a file
		tmp := p + ".tmp"
		if err := os.WriteFile(tmp, []byte(lean), 0o644); err == nil {
			err = os.Rename(tmp, p)
			if err != nil {
				_ = os.Remove(tmp)
			}
			if err != nil {
				fmt.Fprintln(os.Stderr, "extractfsm:", err)
				rc = 1
				continue
			}
		} else {
			fmt.Fprintln(os.Stderr, "extractfsm:", err)
			rc = 1
			continue
		}
		fmt.Printf("extractfsm: wrote %s\n", p)
	}
	os.Exit(rc)
}
