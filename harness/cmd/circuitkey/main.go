// circuitkey — component `circuitkey` of property C20; the implementation lives in bngverif/c20/circuitkey.
package main

import (
	"bngverif/c20/circuitkey"
	"bngverif/hx"
)

func main() { hx.Main(circuitkey.Comp{}) }
