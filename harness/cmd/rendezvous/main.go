// rendezvous drives real pool.PeerPool instances (pkg/pool/peer.go): GetOwner, IsLocalOwner, AddPeer,
// RemovePeer, the ranked list and the healthy owner (verif hooks), and Allocate across several pools
// of one process connected by an in-memory http.RoundTripper that dispatches to the target pool's own
// handlers (RegisterHandlers).  One sequence = one cluster.
package main

import (
	"context"
	"encoding/hex"
	"fmt"
	"math/rand"
	"net/http"
	"net/http/httptest"
	"os"
	"slices"
	"sort"
	"strconv"
	"strings"
	"sync"
	"time"

	"bngverif/hx"

	"github.com/codelaboratoryltd/bng/pkg/pool"
)

type comp struct{}

func id(s string) string { return "x" + hex.EncodeToString([]byte(s)) }

func unid(tok string) string {
	b, _ := hex.DecodeString(strings.TrimPrefix(tok, "x"))
	return string(b)
}

func ids(l []string) string {
	if len(l) == 0 {
		return "-"
	}
	out := make([]string, len(l))
	for i, s := range l {
		out[i] = id(s)
	}
	return strings.Join(out, ",")
}

// ---------------------------------------------------------------- generator

// arbitrary strings: shared prefixes, the empty string, non-ASCII, raw bytes, long names
var universe = []string{
	"bng-1", "bng-2", "bng-3", "bng-10", "bng-1:8081", "10.0.0.1:8081", "10.0.0.2:8081", "a", "b", "ab", "",
	"olt-north-exchange-01.example.net:8081", "é", "\xff\x00\x01", "B", "node with spaces", "zz",
	"bng-1\x00", "0", "~",
}

// host-safe ids for the end-to-end sequences
var hosts = []string{"bng-1", "bng-2", "bng-3", "edge-a.example.net", "edge-b.example.net", "10.0.0.7"}

func randKey(r *rand.Rand) string {
	switch r.Intn(8) {
	case 0:
		return fmt.Sprintf("sub-%d", r.Intn(1000))
	case 1:
		return fmt.Sprintf("aa:bb:cc:%02x:%02x:%02x", r.Intn(256), r.Intn(256), r.Intn(256))
	case 2:
		return ""
	case 3:
		b := make([]byte, 1+r.Intn(12))
		r.Read(b)
		return string(b)
	default:
		return fmt.Sprintf("k%d", r.Intn(40))
	}
}

func pickSet(r *rand.Rand, src []string, n int) []string {
	p := r.Perm(len(src))
	out := make([]string, 0, n)
	for _, i := range p[:n] {
		out = append(out, src[i])
	}
	return out
}

func shuffled(r *rand.Rand, l []string) []string {
	out := append([]string{}, l...)
	r.Shuffle(len(out), func(i, j int) { out[i], out[j] = out[j], out[i] })
	return out
}

func without(l []string, x string) []string {
	var out []string
	for _, y := range l {
		if y != x {
			out = append(out, y)
		}
	}
	return out
}

// agreeSeq: several pools configured with the same peer set in different orders / by different mixes of
// configuration and AddPeer (sometimes with repeated entries), queried with the same keys, then the same
// removals, additions and health changes everywhere.
func agreeSeq(r *rand.Rand) []string {
	n := 1 + r.Intn(8)
	set := pickSet(r, universe, n)
	npools := 2 + r.Intn(3)
	var seq []string
	for i := 0; i < npools; i++ {
		self := set[r.Intn(len(set))]
		order := shuffled(r, set)
		if r.Intn(2) == 0 {
			order = without(order, self)
		}
		cut := len(order)
		if r.Intn(2) == 0 && len(order) > 0 {
			cut = r.Intn(len(order) + 1)
		}
		cfgPeers := append([]string{}, order[:cut]...)
		if r.Intn(4) == 0 && len(cfgPeers) > 0 { // a repeated entry in the configuration
			cfgPeers = append(cfgPeers, cfgPeers[r.Intn(len(cfgPeers))])
		}
		seq = append(seq, fmt.Sprintf("node %d %s %s", i, id(self), ids(cfgPeers)))
		for _, x := range order[cut:] {
			seq = append(seq, fmt.Sprintf("addpeer %d %s", i, id(x)))
		}
		if r.Intn(3) == 0 {
			seq = append(seq, fmt.Sprintf("addpeer %d %s", i, id(set[r.Intn(len(set))]))) // already present
		}
	}
	keys := make([]string, 2+r.Intn(4))
	for i := range keys {
		keys[i] = randKey(r)
	}
	ask := func() {
		for _, k := range keys {
			for i := 0; i < npools; i++ {
				seq = append(seq, fmt.Sprintf("q %d %s", i, id(k)))
			}
		}
	}
	ask()
	for round := 0; round < 1+r.Intn(3); round++ {
		switch r.Intn(4) {
		case 0, 1: // the same removal at every pool
			x := set[r.Intn(len(set))]
			if r.Intn(6) == 0 {
				x = universe[r.Intn(len(universe))]
			}
			for i := 0; i < npools; i++ {
				if r.Intn(8) > 0 {
					seq = append(seq, fmt.Sprintf("removepeer %d %s", i, id(x)))
				}
			}
		case 2: // the same addition at every pool
			x := universe[r.Intn(len(universe))]
			for i := 0; i < npools; i++ {
				seq = append(seq, fmt.Sprintf("addpeer %d %s", i, id(x)))
			}
		case 3: // health view
			x := set[r.Intn(len(set))]
			h := r.Intn(3) / 2 // mostly unhealthy
			for i := 0; i < npools; i++ {
				if r.Intn(4) > 0 {
					seq = append(seq, fmt.Sprintf("sethealth %d %s %d", i, id(x), h))
				}
			}
		}
		ask()
	}
	return seq
}

func permutations(l []string) [][]string {
	if len(l) <= 1 {
		return [][]string{append([]string{}, l...)}
	}
	var out [][]string
	for i := range l {
		rest := append(append([]string{}, l[:i]...), l[i+1:]...)
		for _, p := range permutations(rest) {
			out = append(out, append([]string{l[i]}, p...))
		}
	}
	return out
}

// permSeq: one pool per permutation of the set as configuration order; every pool is asked the same keys
func permSeq(r *rand.Rand, n int) []string {
	set := pickSet(r, universe, n)
	var seq []string
	perms := permutations(set)
	for i, p := range perms {
		self := p[r.Intn(len(p))]
		seq = append(seq, fmt.Sprintf("node %d %s %s", i, id(self), ids(p)))
	}
	for j := 0; j < 3; j++ {
		k := randKey(r)
		for i := range perms {
			seq = append(seq, fmt.Sprintf("q %d %s", i, id(k)))
		}
	}
	return seq
}

// healthSeq: one pool, every health vector over its peers, queried before and after each change
func healthSeq(r *rand.Rand) []string {
	n := 2 + r.Intn(4)
	set := pickSet(r, universe, n)
	seq := []string{fmt.Sprintf("node 0 %s %s", id(set[0]), ids(shuffled(r, set)))}
	keys := []string{randKey(r), randKey(r), randKey(r)}
	for v := 0; v < 1<<n; v++ {
		for i, x := range set {
			seq = append(seq, fmt.Sprintf("sethealth 0 %s %d", id(x), (v>>i)&1))
		}
		for _, k := range keys {
			seq = append(seq, "q 0 "+id(k))
		}
	}
	return seq
}

// clusterSeq: three (or four) nodes end to end; every health vector in a common view; Allocate at every entry node
func clusterSeq(r *rand.Rand) []string {
	n := 3 + r.Intn(2)
	set := pickSet(r, hosts, n)
	var seq []string
	for i, self := range set {
		seq = append(seq, fmt.Sprintf("node %d %s %s", i, id(self), ids(shuffled(r, without(set, self)))))
	}
	keys := []string{randKey(r), randKey(r), randKey(r), randKey(r)}
	for v := 0; v < 1<<n; v++ {
		if v != 0 && r.Intn(3) == 0 {
			continue
		}
		for i := range set {
			for j, x := range set {
				seq = append(seq, fmt.Sprintf("sethealth %d %s %d", i, id(x), 1-(v>>j)&1))
			}
		}
		for _, k := range keys {
			for i := range set {
				seq = append(seq, fmt.Sprintf("alloc %d %s", i, id(k)), fmt.Sprintf("q %d %s", i, id(k)))
			}
		}
	}
	// one-way partitions: one node marks a peer unhealthy, the others (and the peer itself) do not
	for i := range set {
		for j := range set {
			for jj, x := range set {
				seq = append(seq, fmt.Sprintf("sethealth %d %s 1", j, id(x)))
				_ = jj
			}
		}
		victim := set[(i+1+r.Intn(n-1))%n]
		seq = append(seq, fmt.Sprintf("sethealth %d %s 0", i, id(victim)))
		for _, k := range keys {
			for e := range set {
				seq = append(seq, fmt.Sprintf("alloc %d %s", e, id(k)))
			}
		}
	}
	for j := range set {
		for _, x := range set {
			seq = append(seq, fmt.Sprintf("sethealth %d %s 1", j, id(x)))
		}
	}
	if r.Intn(2) == 0 { // a peer leaves everywhere
		x := set[r.Intn(n)]
		for i := range set {
			seq = append(seq, fmt.Sprintf("removepeer %d %s", i, id(x)))
			seq = append(seq, fmt.Sprintf("sethealth %d %s 1", i, id(x)))
		}
		for _, k := range keys {
			for i := range set {
				seq = append(seq, fmt.Sprintf("alloc %d %s", i, id(k)), fmt.Sprintf("q %d %s", i, id(k)))
			}
		}
	}
	return seq
}

// replaceSeq: membership changes that keep the SIZE of the peer set constant between lookups -- one peer replaced by
// another, several replaced at once, the same peer removed and added back, removals and additions permuted -- with the
// SAME subscribers looked up before and after, at every pool, and at a pool freshly built from the resulting
// membership.  Half of the rounds also look up after every single membership operation.  An owner that depends on
// anything less than the membership (its size, a memo of an earlier answer) shows up against the fresh pool (`agree`),
// the head of the pool's own ranked list (`head`) and the model.
func replaceSeq(r *rand.Rand) []string {
	n := 2 + r.Intn(6)
	perm := r.Perm(len(universe))
	set := make([]string, 0, n)
	var spare []string
	for i, j := range perm {
		if i < n {
			set = append(set, universe[j])
		} else {
			spare = append(spare, universe[j])
		}
	}
	npools := 1 + r.Intn(3)
	var seq []string
	for i := 0; i < npools; i++ {
		self := set[r.Intn(len(set))]
		seq = append(seq, fmt.Sprintf("node %d %s %s", i, id(self), ids(shuffled(r, set))))
	}
	keys := make([]string, 6+r.Intn(7))
	for i := range keys {
		keys[i] = fmt.Sprintf("sub-%d", r.Intn(100000))
		if r.Intn(6) == 0 {
			keys[i] = randKey(r)
		}
	}
	fresh := 100
	ask := func() {
		for i := 0; i < npools; i++ {
			for _, k := range keys {
				seq = append(seq, fmt.Sprintf("q %d %s", i, id(k)))
			}
		}
	}
	askFresh := func() {
		// a pool built from scratch with the present membership, in a new order
		seq = append(seq, fmt.Sprintf("node %d %s %s", fresh, id(set[r.Intn(len(set))]), ids(shuffled(r, set))))
		for _, k := range keys {
			seq = append(seq, fmt.Sprintf("q %d %s", fresh, id(k)))
		}
		fresh++
	}
	ask()
	for round := 2 + r.Intn(5); round > 0; round-- {
		// the membership operations of this round
		var ops [][2]string // (op, node)
		switch r.Intn(5) {
		case 0, 1: // replace one peer
			if len(spare) == 0 || len(set) == 0 {
				continue
			}
			x, y := set[r.Intn(len(set))], spare[r.Intn(len(spare))]
			if r.Intn(2) == 0 {
				ops = [][2]string{{"removepeer", x}, {"addpeer", y}}
			} else {
				ops = [][2]string{{"addpeer", y}, {"removepeer", x}}
			}
		case 2: // replace several at once
			m := 2 + r.Intn(2)
			if len(spare) < m || len(set) < m {
				continue
			}
			xs, ys := shuffled(r, set)[:m], shuffled(r, spare)[:m]
			for _, x := range xs {
				ops = append(ops, [2]string{"removepeer", x})
			}
			for _, y := range ys {
				ops = append(ops, [2]string{"addpeer", y})
			}
			r.Shuffle(len(ops), func(i, j int) { ops[i], ops[j] = ops[j], ops[i] })
		case 3: // remove and add back the same peer
			x := set[r.Intn(len(set))]
			ops = [][2]string{{"removepeer", x}, {"addpeer", x}}
		case 4: // two out, two back in another order, one of them replaced
			if len(set) < 2 || len(spare) == 0 {
				continue
			}
			xs := shuffled(r, set)[:2]
			y := spare[r.Intn(len(spare))]
			ops = [][2]string{{"removepeer", xs[0]}, {"removepeer", xs[1]}, {"addpeer", y}, {"addpeer", xs[0]}}
		}
		perOp := r.Intn(2) == 0
		for _, o := range ops {
			for i := 0; i < npools; i++ {
				seq = append(seq, fmt.Sprintf("%s %d %s", o[0], i, id(o[1])))
			}
			if o[0] == "removepeer" {
				if len(without(set, o[1])) < len(set) {
					spare = append(spare, o[1])
				}
				set = without(set, o[1])
			} else {
				if len(without(set, o[1])) == len(set) {
					set = append(set, o[1])
				}
				spare = without(spare, o[1])
			}
			if perOp && len(set) > 0 {
				ask()
				askFresh()
			}
		}
		if len(set) == 0 {
			break
		}
		ask()
		askFresh()
	}
	return seq
}

// replaceCluster: three or four nodes end to end; one node is replaced by a new one at every pool with no lookup in
// between (the new node has a pool of its own), then the same subscribers are allocated at every entry node again.
func replaceCluster(r *rand.Rand) []string {
	n := 3 + r.Intn(2)
	all := shuffled(r, hosts)
	set, spare := all[:n], all[n:]
	var seq []string
	for i, self := range set {
		seq = append(seq, fmt.Sprintf("node %d %s %s", i, id(self), ids(shuffled(r, without(set, self)))))
	}
	keys := make([]string, 8+r.Intn(8))
	for i := range keys {
		keys[i] = fmt.Sprintf("sub-%d", r.Intn(100000))
	}
	entries := make([]int, n)
	for i := range entries {
		entries[i] = i
	}
	askAll := func() {
		for _, k := range keys {
			for _, e := range entries {
				seq = append(seq, fmt.Sprintf("alloc %d %s", e, id(k)), fmt.Sprintf("q %d %s", e, id(k)))
			}
		}
	}
	askAll()
	next := n
	for round := 1 + r.Intn(2); round > 0 && len(spare) > 0; round-- {
		xi := r.Intn(len(entries))
		x := set[xi]
		y := spare[0]
		spare = spare[1:]
		newSet := append(without(set, x), y)
		// the newcomer's own pool
		seq = append(seq, fmt.Sprintf("node %d %s %s", next, id(y), ids(shuffled(r, without(newSet, y)))))
		for j, e := range entries {
			if j == xi {
				continue
			}
			if r.Intn(2) == 0 {
				seq = append(seq, fmt.Sprintf("removepeer %d %s", e, id(x)), fmt.Sprintf("addpeer %d %s", e, id(y)))
			} else {
				seq = append(seq, fmt.Sprintf("addpeer %d %s", e, id(y)), fmt.Sprintf("removepeer %d %s", e, id(x)))
			}
		}
		// the replaced node no longer takes requests
		var ne []int
		var ns []string
		for j, e := range entries {
			if j != xi {
				ne = append(ne, e)
				ns = append(ns, set[j])
			}
		}
		entries, set = append(ne, next), append(ns, y)
		next++
		askAll()
	}
	return seq
}

// node ids of which one is a string prefix of another, host-safe
var prefixHosts = []string{"bng-1", "bng-10", "bng-11", "bng-100", "bng-2", "bng-20", "edge-a", "edge-a1", "10.0.0.1", "10.0.0.10"}

// prefixCluster: three to five nodes with prefix-related ids end to end.  Every node's Peers list is in its own configured
// order, with or without the node itself (with: NewPeerPool sorts the list in place; without: the configured order stays
// in PeerPool.peers, which is what getPeerAddr walks); sometimes a peer is configured as <id>:8081 and its bare id joins
// the ring by AddPeer.  The same subscribers are then allocated and queried at EVERY node: a forwarded request must reach
// the node it is meant for (`addr`, `single`).
func prefixCluster(r *rand.Rand) []string {
	n := 3 + r.Intn(3)
	// at least one prefix pair
	pairs := [][2]string{{"bng-1", "bng-10"}, {"bng-1", "bng-11"}, {"bng-10", "bng-100"}, {"bng-2", "bng-20"}, {"edge-a", "edge-a1"}, {"10.0.0.1", "10.0.0.10"}}
	pr := pairs[r.Intn(len(pairs))]
	set := []string{pr[0], pr[1]}
	for _, h := range shuffled(r, prefixHosts) {
		if len(set) < n && h != pr[0] && h != pr[1] {
			set = append(set, h)
		}
	}
	set = shuffled(r, set)
	var seq []string
	for i, self := range set {
		order := shuffled(r, without(set, self))
		if r.Intn(3) == 0 {
			// the longer id of the pair first
			var o2 []string
			for _, x := range order {
				if x == pr[1] {
					o2 = append([]string{x}, o2...)
				} else {
					o2 = append(o2, x)
				}
			}
			order = o2
		}
		if r.Intn(3) == 0 {
			order = append(order, self)
			order = shuffled(r, order)
		}
		ported := ""
		if r.Intn(5) == 0 && len(order) > 0 {
			// one peer configured by address; its bare id joins the ring afterwards and the address entry leaves it
			j := r.Intn(len(order))
			if order[j] != self {
				ported = order[j]
				order[j] = ported + ":8081"
			}
		}
		seq = append(seq, fmt.Sprintf("node %d %s %s", i, id(self), ids(order)))
		if ported != "" {
			seq = append(seq, fmt.Sprintf("addpeer %d %s", i, id(ported)), fmt.Sprintf("removepeer %d %s", i, id(ported+":8081")))
		}
	}
	keys := make([]string, 10+r.Intn(10))
	for i := range keys {
		keys[i] = fmt.Sprintf("sub-%d", r.Intn(100000))
	}
	for _, k := range keys {
		for i := range set {
			seq = append(seq, fmt.Sprintf("q %d %s", i, id(k)), fmt.Sprintf("alloc %d %s", i, id(k)))
		}
	}
	return seq
}

// churnSeq (RV_STRESS=1, run on a binary built with -race): readers rank / look up / allocate one subscriber while a writer
// removes and re-adds peers of the same pool.
func churnSeq(r *rand.Rand) []string {
	n := 3 + r.Intn(4)
	set := pickSet(r, hosts, n)
	var seq []string
	for i, self := range set {
		seq = append(seq, fmt.Sprintf("node %d %s %s", i, id(self), ids(shuffled(r, without(set, self)))))
	}
	for j, m := 0, 4+r.Intn(6); j < m; j++ {
		i := r.Intn(n)
		k := fmt.Sprintf("sub-%d", r.Intn(1000))
		victims := shuffled(r, without(set, set[i]))[:1+r.Intn(2)]
		seq = append(seq, fmt.Sprintf("churn %d %s %d %s", i, id(k), 20+r.Intn(60), ids(victims)))
		seq = append(seq, fmt.Sprintf("q %d %s", i, id(k)))
	}
	return seq
}

func (comp) Gen(r *rand.Rand, tier string, emit func([]string)) {
	if os.Getenv("RV_STRESS") != "" {
		cnt := 60
		if tier == "thorough" {
			cnt = 600
		}
		for i := 0; i < cnt; i++ {
			emit(churnSeq(r))
		}
		return
	}
	nAgree, nPerm5, nHealth, nCluster := 1500, 3, 60, 60
	if tier == "thorough" {
		nAgree, nPerm5, nHealth, nCluster = 30000, 40, 1200, 1200
	}
	for i := 0; i < nAgree; i++ {
		emit(agreeSeq(r))
	}
	for n := 1; n <= 4; n++ {
		for i := 0; i < 6; i++ {
			emit(permSeq(r, n))
		}
	}
	for i := 0; i < nPerm5; i++ {
		emit(permSeq(r, 5))
	}
	for i := 0; i < nHealth; i++ {
		emit(healthSeq(r))
	}
	for i := 0; i < nCluster; i++ {
		emit(clusterSeq(r))
	}
	nReplace, nReplaceCluster := 300, 40
	if tier == "thorough" {
		nReplace, nReplaceCluster = 6000, 800
	}
	for i := 0; i < nReplace; i++ {
		emit(replaceSeq(r))
	}
	for i := 0; i < nReplaceCluster; i++ {
		emit(replaceCluster(r))
	}
	nPrefix := 150
	if tier == "thorough" {
		nPrefix = 3000
	}
	for i := 0; i < nPrefix; i++ {
		emit(prefixCluster(r))
	}
	for i := 0; i < 5; i++ {
		emit(churnSeq(r)) // the same op without the race detector (the race pass of checks/c17.py runs it under -race)
	}
}

// ---------------------------------------------------------------- executor

type run struct {
	pools map[int]*pool.PeerPool
	selfs map[int]string
	muxes map[string]*http.ServeMux
}

func (comp) NewRun() hx.Run {
	return &run{pools: map[int]*pool.PeerPool{}, selfs: map[int]string{}, muxes: map[string]*http.ServeMux{}}
}
func (r *run) Close() {}

// RoundTrip delivers a forwarded request to the handlers of the pool whose node id is the URL host.
func (r *run) RoundTrip(req *http.Request) (*http.Response, error) {
	mux, ok := r.muxes[req.URL.Host]
	if !ok {
		return nil, fmt.Errorf("no such peer %q", req.URL.Host)
	}
	rec := httptest.NewRecorder()
	mux.ServeHTTP(rec, req)
	return rec.Result(), nil
}

func (r *run) Do(op string) string {
	f := hx.Fields(op)
	if len(f) < 3 {
		return "badop"
	}
	i, err := strconv.Atoi(f[1])
	if err != nil {
		return "badop"
	}
	if f[0] == "node" {
		if len(f) != 4 {
			return "badop"
		}
		self := unid(f[2])
		var peers []string
		if f[3] != "-" {
			for _, t := range strings.Split(f[3], ",") {
				peers = append(peers, unid(t))
			}
		}
		// no spare capacity: NewPeerPool's append(cfg.Peers, NodeID) then moves to a new array and PeerPool.peers keeps
		// the configured order (with spare capacity the in-place sort would rearrange the caller's slice under it)
		peers = slices.Clip(peers)
		p, err := pool.NewPeerPool(pool.PeerPoolConfig{NodeID: self, Peers: peers, Network: "10.77.0.0/24",
			Gateway: "10.77.0.1", DNSServers: []string{"10.77.0.1"}, LeaseTime: time.Hour})
		if err != nil {
			return "error " + err.Error()
		}
		p.SetHTTPClientForVerif(&http.Client{Transport: r})
		mux := http.NewServeMux()
		p.RegisterHandlers(mux)
		r.pools[i] = p
		r.selfs[i] = self
		// the transport: a node is reached under its id and under <id>:8081 (first registration wins)
		if _, dup := r.muxes[self]; !dup {
			r.muxes[self] = mux
		}
		if _, dup := r.muxes[self+":8081"]; !dup {
			r.muxes[self+":8081"] = mux
		}
		return "ok"
	}
	p := r.pools[i]
	if p == nil {
		return "badop"
	}
	x := unid(f[2])
	switch {
	case f[0] == "addpeer" && len(f) == 3:
		p.AddPeer(x)
		return "ok"
	case f[0] == "removepeer" && len(f) == 3:
		p.RemovePeer(x)
		return "ok"
	case f[0] == "sethealth" && len(f) == 4 && (f[3] == "0" || f[3] == "1"):
		p.SetPeerHealthForVerif(x, f[3] == "1")
		return "ok"
	case f[0] == "q" && len(f) == 3:
		loc := 0
		if p.IsLocalOwner(x) {
			loc = 1
		}
		ho := p.HealthyOwnerForVerif(x)
		return fmt.Sprintf("owner=%s local=%d ranked=%s howner=%s addr=%s", id(p.GetOwner(x)), loc,
			ids(p.RankedForVerif(x)), id(ho), id(p.PeerAddrForVerif(ho)))
	case f[0] == "churn" && len(f) == 5:
		return r.churn(p, x, f[3], f[4])
	case f[0] == "alloc" && len(f) == 3:
		resp, err := p.Allocate(context.Background(), x, nil)
		if err != nil {
			return "error"
		}
		return "served=" + id(resp.NodeID)
	}
	return "badop"
}

// churn: `rounds` times, every listed peer is removed from pool p and added back (the membership alternates between the
// configured set and that set without one peer) while four readers look the subscriber up (GetOwner, the healthy owner,
// the ranked list, Allocate).  Reports the distinct owners / serving nodes and the distinct ranked lists the readers saw;
// the driver judges them against the model's answers for the memberships the writer went through.
func (r *run) churn(p *pool.PeerPool, key, roundsTok, victimsTok string) string {
	rounds, err := strconv.Atoi(roundsTok)
	if err != nil || rounds < 1 || rounds > 10000 || victimsTok == "-" {
		return "badop"
	}
	var victims []string
	for _, t := range strings.Split(victimsTok, ",") {
		victims = append(victims, unid(t))
	}
	var mu sync.Mutex
	owners := map[string]bool{}
	rankeds := map[string]bool{}
	stop := make(chan struct{})
	var wg sync.WaitGroup
	for g := 0; g < 4; g++ {
		wg.Add(1)
		go func(g int) {
			defer wg.Done()
			for n := 0; ; n++ {
				select {
				case <-stop:
					if n > 0 {
						return
					}
				default:
				}
				var o []string
				o = append(o, p.GetOwner(key), p.HealthyOwnerForVerif(key))
				if resp, err := p.Allocate(context.Background(), key, nil); err == nil {
					o = append(o, resp.NodeID)
				}
				rk := strings.ReplaceAll(ids(p.RankedForVerif(key)), ",", ";")
				mu.Lock()
				for _, x := range o {
					owners[x] = true
				}
				rankeds[rk] = true
				mu.Unlock()
			}
		}(g)
	}
	for i := 0; i < rounds; i++ {
		for _, v := range victims {
			p.RemovePeer(v)
			p.AddPeer(v)
		}
	}
	close(stop)
	wg.Wait()
	var ol, rl []string
	for x := range owners {
		ol = append(ol, x)
	}
	sort.Strings(ol)
	for x := range rankeds {
		rl = append(rl, x)
	}
	sort.Strings(rl)
	return fmt.Sprintf("owners=%s ranked=%s", ids(ol), strings.Join(rl, "|"))
}

func main() { hx.Main(comp{}) }
